r"""C15 (elementary part) -- point-wise containment certificates for iv.mpc abs, exp, log, cos, sin on rectangles.
Helper module (NOT a standalone check): props/c15.py calls `run_elementary(rep, tier_, rng)`.

For every generated rectangle R = [a,b] x [c,d] (exact dyadic end points, possibly longer than iv.prec) and the result of
the current /repo code, member points z0 of R (4 corners, 4 edge mid points, axis crossings, random interior dyadics) are
taken and the Coq lemma

      re_lo <= Re f(z0) <= re_hi  /\  im_lo <= Im f(z0) <= im_hi          (abs: lo <= |z0| <= hi)

is proved by `interval` on the real and imaginary parts written with exp/ln/sin/cos/atan/sqrt/PI (cert's complex helpers:
principal log with the quadrant decided exactly on the dyadic point).  A failing point is certified through the negation
(one violated inequality proved).  This is a NECESSARY condition for containment of the whole rectangle (sampled points
only): level exploration for the elementary part."""
import time, os
from fractions import Fraction
from common import *
import cert
from cert import Cx, Const, atoms_instance
from props.c14e import load_known_b4, tup_of, val_of, dy_pair, from_pair, rdy, ulp_of, round_to, pi_fr, fin, small_text

FNS = ["abs", "exp", "log", "cos", "sin"]


def ref_parts(fn, u, v):
    """-> (re term, im term or None, conds) of f(u + i v) for exact rationals u, v"""
    z = Cx(Const(u), Const(v))
    if fn == "abs": return cert.cabs(z), None, ()
    if fn == "exp": w = cert.cexp(z)
    elif fn == "log": w = cert.clog(z)
    elif fn == "cos": w = cert.ccos(z)
    elif fn == "sin": w = cert.csin(z)
    else: raise KeyError(fn)
    return w.re, w.im, tuple(w.conds)


def gen_rect(rng, fn, prec):
    """-> (regime, (a, b), (c, d))"""
    long_ = rng.random() < 0.2
    pb = prec + rng.randint(1, 30) if long_ else prec
    tag = "+long" if long_ else ""
    def span(kind, e_lo=-3, e_hi=2, sign=None):
        a = rdy(rng, rng.randint(e_lo, e_hi), rng.choice([pb, pb, 6]))
        if sign is None: sign = rng.choice([1, -1])
        if kind == "point": w = 0
        elif kind == "ulp": w = ulp_of(a, pb)
        elif kind == "narrow": w = rdy(rng, rng.randint(-20, -4), 12)
        else: w = rdy(rng, rng.randint(-2, 2), 8)
        return (a, a + w) if sign > 0 else (-(a + w), -a)
    def across():
        return (-rdy(rng, rng.randint(-4, 1), 8), rdy(rng, rng.randint(-4, 1), 8))
    u = rng.random()
    kinds = ["point", "ulp", "narrow", "wide"]
    if fn in ("cos", "sin", "exp", "log") and rng.random() < 0.3:
        # a point on the real (or, for exp, also the imaginary) axis where one part of f(z) is within 2^-(prec+24) of a
        # representable number: no slack for the directed roundings
        from props import c14e
        if fn == "exp" and rng.random() < 0.6:
            hp = c14e.hard_point(rng, rng.choice(["sin", "cos"]), prec)
            if hp is not None: return "hard_point", (Fraction(0), Fraction(0)), (hp[1], hp[1])
        hp = c14e.hard_point(rng, fn, prec)
        if hp is not None and not (fn == "log" and hp[1] <= 0):
            return "hard_point", (hp[1], hp[1]), (Fraction(0), Fraction(0))
    if fn in ("cos", "sin", "exp") and u < 0.3:
        # the periodic direction (re for cos/sin, im for exp) across / next to a multiple of pi/2
        k = rng.randint(-4, 4); c = k * pi_fr(128) / 2
        per = (round_to(c - rdy(rng, rng.randint(-10, 0), 10), pb, -1), round_to(c + rdy(rng, rng.randint(-10, 0), 10), pb, +1))
        oth = span(rng.choice(kinds), -3, 1) if rng.random() < 0.7 else across()
        return ("across_kpi2" + tag, per, oth) if fn != "exp" else ("across_kpi2" + tag, oth, per)
    if fn == "log":
        if u < 0.25: return "across_cut" + tag, span(rng.choice(["narrow", "wide"]), sign=-1), across()
        if u < 0.40: return "around_origin" + tag, across(), across()
        if u < 0.55: return "across_imag_axis" + tag, across(), span(rng.choice(kinds))
        if u < 0.65:       # next to the unit circle
            return "near_unit" + tag, span("ulp", 0, 0, 1), span(rng.choice(["point", "ulp"]), -30, -10)
    if fn == "abs" and u < 0.3:
        return "around_origin" + tag, across(), across()
    if u < 0.45: return "across_axes" + tag, across(), across()
    return "generic" + tag, span(rng.choice(kinds)), span(rng.choice(kinds))


def sample_points(rng, re_, im_, n_int):
    a, b = re_; c, d = im_
    pts = {(a, c): "corner", (a, d): "corner", (b, c): "corner", (b, d): "corner",
           ((a + b) / 2, c): "edge_mid", ((a + b) / 2, d): "edge_mid", (a, (c + d) / 2): "edge_mid", (b, (c + d) / 2): "edge_mid"}
    if a < 0 < b:
        pts.setdefault((Fraction(0), c), "axis"); pts.setdefault((Fraction(0), d), "axis")
    if c < 0 < d:
        pts.setdefault((a, Fraction(0)), "axis"); pts.setdefault((b, Fraction(0)), "axis")
    if a <= 0 <= b and c <= 0 <= d:
        pts.setdefault((Fraction(0), Fraction(0)), "origin")
    for _ in range(n_int):
        t = Fraction(rng.getrandbits(16), 1 << 16); s = Fraction(rng.getrandbits(16), 1 << 16)
        pts.setdefault((a + (b - a) * t, c + (d - c) * s), "interior")
    return pts


def call_live(iv, fn, prec, re_, im_):
    Z = iv.make_mpc(((tup_of(re_[0]), tup_of(re_[1])), (tup_of(im_[0]), tup_of(im_[1]))))
    p0 = iv.prec
    try:
        iv.prec = prec
        if fn == "abs":
            R = abs(Z); out = ((val_of(R._mpi_[0]), val_of(R._mpi_[1])), None)
        else:
            R = getattr(iv, fn)(Z)
            (ra, rb), (ia, ib) = R._mpci_
            out = ((val_of(ra), val_of(rb)), (val_of(ia), val_of(ib)))
        return out, None
    except Exception as ex:
        return None, repr(ex)[:100]
    finally:
        iv.prec = p0


def enc(v):
    return v if (v is None or isinstance(v, str)) else dy_pair(v)


def build_point(iid, fn, u, v, out, meta):
    """instance: f(u + i v) inside the output box; None when the point is outside the domain (log 0) / unestimable"""
    if fn == "log" and u == 0 and v == 0:
        return None
    re_t, im_t, conds = ref_parts(fn, u, v)
    atoms = [tuple(c) for c in conds]; negs = []; labels = []
    for part, t, box in (("re", re_t, out[0]), ("im", im_t, out[1])):
        if t is None or box is None: continue
        lo, hi = box
        if lo in ("nan", "+inf") or hi in ("nan", "-inf"):
            return "bad"
        if isinstance(lo, Fraction):
            atoms.append((Const(lo), "<=", t)); negs.append([tuple(c) for c in conds] + [(t, "<", Const(lo))]); labels.append(part + "<lo")
        if isinstance(hi, Fraction):
            atoms.append((t, "<=", Const(hi))); negs.append([tuple(c) for c in conds] + [(Const(hi), "<", t)]); labels.append(part + ">hi")
    if not atoms:
        return None
    try:
        ins = atoms_instance(iid, atoms, negs, meta=dict(meta, neg_labels=labels), params={"margin": 40})
    except (cert.EstimateError, ZeroDivisionError, ValueError):
        return None
    if "estimate_error" in ins.meta:
        return None
    return ins


def failed_label(v):
    """which inequality was refuted: parsed from the ladder step 'negK@P' and the instance's neg_labels"""
    import re
    m = re.match(r"neg(\d+)@", str(v.get("step", "")))
    labs = v.get("neg_labels") or []
    return labs[int(m.group(1))] if m and int(m.group(1)) < len(labs) else "??"


def excess_class(ctx_prec, fn, u, v, out):
    """untrusted classification of a certified failure (used only to match known findings narrowly): how far outside?"""
    import mpmath
    c = mpmath.mp.clone(); c.prec = 4 * ctx_prec + 200
    z = c.mpc(c.mpf(u.numerator) / u.denominator, c.mpf(v.numerator) / v.denominator)
    w = abs(z) if fn == "abs" else getattr(c, fn)(z)
    worst = 0
    for val, box in ((w.real if fn != "abs" else w, out[0]), (w.imag if fn != "abs" else None, out[1])):
        if box is None or val is None: continue
        lo, hi = box
        scale = max(abs(val), c.mpf(2) ** -10000)
        if isinstance(lo, Fraction) and val < c.mpf(lo.numerator) / lo.denominator:
            worst = max(worst, (c.mpf(lo.numerator) / lo.denominator - val) / scale)
        if isinstance(hi, Fraction) and val > c.mpf(hi.numerator) / hi.denominator:
            worst = max(worst, (val - c.mpf(hi.numerator) / hi.denominator) / scale)
    return "below_1ulp" if worst < c.mpf(2) ** (1 - ctx_prec) else "large"


def run_elementary(rep, tier_, rng, budget=None):
    """-> dict of coverage counters (merged by props/c15.py); violations via rep.violation with {"fn": "ivmpc.<f>", "regime": ...}"""
    load_known_b4(rep)
    n = 30 if tier_ == "quick" else 400
    n_int = 2 if tier_ == "quick" else 4
    precs = [24, 53, 100] if tier_ == "quick" else [24, 53, 100, 200]
    specs = []
    for i in range(n):
        fn = rng.choice(FNS); prec = rng.choice(precs)
        regime, re_, im_ = gen_rect(rng, fn, prec)
        specs.append((fn, regime, prec, re_, im_, list(sample_points(rng, re_, im_, n_int).items())))
    cov = process_specs(rep, specs, budget or (90 if tier_ == "quick" else 600), "C15E_%s_s%d" % (tier_, seed()))
    cov["elementary_precisions"] = precs
    return cov


def replay_elementary(rep, r):
    """re-run one recorded call on the current tree: the recorded point first, then the standard member points"""
    import random
    load_known_b4(rep)
    fn = r["fn"].split(".", 1)[1]
    re_ = tuple(from_pair(p) for p in r["re"]); im_ = tuple(from_pair(p) for p in r["im"])
    pts = []
    if r.get("point"):
        pts.append(((from_pair(r["point"][0]), from_pair(r["point"][1])), r.get("point_kind", "recorded")))
    pts += [x for x in sample_points(random.Random(0), re_, im_, 2).items() if x[0] != (pts[0][0] if pts else None)]
    cov = process_specs(rep, [(fn, r["regime"], int(r["prec"]), re_, im_, pts)], 300, "C15E_replay")
    if r.get("coq_replay"):
        ok, out, cmd = cert.check_text(r["coq_replay"], tag="C15E_replay")
        cov["stored_certificate_still_checks"] = ok
    return cov


def process_specs(rep, specs, budget, tag):
    from mpmath import iv
    t0 = time.time()
    calls = {}; insts = []; pts_of = {}
    counters = {"calls": 0, "raised": 0, "points": 0, "skipped_points": 0}
    direct = []
    for i, (fn, regime, prec, re_, im_, points) in enumerate(specs):
        out, err = call_live(iv, fn, prec, re_, im_)
        counters["calls"] += 1
        cid = "z%04d_%s" % (i, fn)
        call = {"fn": "ivmpc." + fn, "regime": regime, "prec": prec, "re": [dy_pair(x) for x in re_], "im": [dy_pair(x) for x in im_]}
        if err:
            counters["raised"] += 1; call["raised"] = err
            if not (fn == "log" and re_[0] <= 0 <= re_[1] and im_[0] <= 0 <= im_[1]):     # log of a box containing 0 may raise
                direct.append(("raised %s on a bounded rectangle inside the domain" % err, call))
            continue
        call["out"] = [[enc(x) for x in out[0]], [enc(x) for x in out[1]] if out[1] else None]
        calls[cid] = (call, out)
        for k, ((u, v), kind) in enumerate(points):
            iid = "%s_p%02d" % (cid, k)
            ins = build_point(iid, fn, u, v, out, {"fn": "ivmpc." + fn, "regime": regime, "call": cid, "p": prec, "point_kind": kind})
            if ins == "bad":
                direct.append(("result is not a box of reals", call)); break
            if ins is None:
                counters["skipped_points"] += 1; continue
            insts.append(ins); pts_of[iid] = (cid, u, v, kind)
            counters["points"] += 1
    for viol, call in direct:
        rep.violation("C15 %s: %s (regime %s, prec %d)" % (call["fn"], viol, call["regime"], call["prec"]), dict(call, clause="finite result"))
    res = cert.certify(insts, tactic_params={"sentence_timeout": 30, "single_timeout": 60, "batch": 30}, jobs=8,
                       timeout=max(15, budget - (time.time() - t0)), tag=tag)
    V = res["verdicts"]
    by_fn = {}; kinds = {}; samples = []; inconc = []
    bad_calls = set()
    for iid, v in V.items():
        cid, u, vv, kind = pts_of[iid]
        call, out = calls[cid]
        h = by_fn.setdefault(call["fn"], {"pass": 0, "fail": 0, "inconclusive": 0}); h[v["verdict"]] += 1
        kinds[kind] = kinds.get(kind, 0) + 1
        if v["verdict"] == "fail" and cid not in bad_calls:
            bad_calls.add(cid)
            try:
                exc = excess_class(call["prec"], call["fn"].split(".")[1], u, vv, out)
            except Exception:
                exc = "unknown"
            rep.violation("C15 %s: certified containment failure at a member point of the rectangle (%s point, regime %s, prec %d)"
                          % (call["fn"], kind, call["regime"], call["prec"]),
                          dict(call, point=[dy_pair(u), dy_pair(vv)], point_kind=kind, excess_class=exc, step=v["step"],
                               failed=failed_label(v), failed_part=failed_label(v)[:2],
                               coq_replay=cert.replay_text(res, iid), clause="containment"))
        elif v["verdict"] == "inconclusive":
            inconc.append({"fn": call["fn"], "regime": call["regime"], "prec": call["prec"], "kind": kind, "note": v["note"][:60]})
        elif v["verdict"] == "pass" and len(samples) < 4 and kind != "corner":
            try:
                with open(os.path.join(res["dir"], v["file"])) as f:
                    lem = [l for l in f.read().split("\n") if l.startswith("Lemma")]
                samples.append({"fn": call["fn"], "regime": call["regime"], "prec": call["prec"], "point_kind": kind, "lemma": small_text(lem[0] if lem else "")})
            except OSError:
                pass
    return {
        "elementary_calls": counters["calls"], "elementary_points": counters["points"],
        "elementary_points_certified": res["counts"]["pass"], "elementary_point_violations": res["counts"]["fail"],
        "elementary_calls_with_violation": len(bad_calls), "elementary_inconclusive": res["counts"]["inconclusive"],
        "elementary_inconclusive_list": inconc[:25], "elementary_raised": counters["raised"],
        "elementary_skipped_points": counters["skipped_points"], "elementary_by_function": by_fn, "elementary_point_kinds": kinds,
        "elementary_regimes": sorted({"%s/%s" % (c["fn"], c["regime"].replace("+long", "")) for c, _ in calls.values()}),
        "elementary_samples": samples, "elementary_wall_s": round(time.time() - t0, 1),
        "elementary_checker_cmd": cert.summarize_cmds(res["cmds"])["pattern"], "elementary_coqc_runs": len(res["cmds"]),
        "elementary_technique": "point-wise certificates f(z0) in output box (corners, edge mid points, axis crossings, interior) by interval "
                                "on re/im parts; necessary condition only",
    }
