"""C32 — matrix functions: identities decided exactly by Coq from the returned matrices.

For A diagonalizable, 1 <= n <= 6, ||A||_F >= 1, spectrum in the open right half plane (hence away from the
negative real axis), prec p in 30..200, with tol = ||A||_F * 2^(10-p) ("to within ||A||*2^(10-p) relative error",
relative to the right-hand side of each identity; Frobenius norms, squared comparisons, exact integers):

   ||expm(logm(A), method) - A||_F      <= tol * ||A||_F          method in {taylor, pade}
   ||sqrtm(A)^2 - A||_F                 <= tol * ||A||_F          (the square is formed exactly by Coq)
   ||powm(A, k) - A^k||_F               <= tol * ||A^k||_F        k in 0..5, A^k formed exactly by Coq;
        k in -3..-1: A^k = Y/d with (A^|k|) Y = d I = Y (A^|k|) checked by Coq (untrusted Fraction inverse)
   ||cosm(A)^2 + sinm(A)^2 - I||_F      <= tol * ||I||_F          (A symmetric / Hermitian / real-spectrum)
   expm(D) for diagonal D, both methods: off-diagonal entries exactly 0 (Coq, exact) and
   sum_i |expm(D)_ii - exp(d_i)|^2      <= ||D||_F^2 * 4^(10-p) * sum_i |exp(d_i)|^2
        decided over the reals by the Interval tactic (exp, cos, sin enclosures at 2p+64 bits).
"""
import math, json, os, time, subprocess
from fractions import Fraction
from concurrent.futures import ThreadPoolExecutor
from common import *
import qcert as Q
from qcert import *
import qlin, qprops
from props.c30 import Ctx, call, lg2
from props.c31 import unimodular, imul

LEVEL = "exploration"
TAG = "c32"


def tolA2(p, a_i=0):
    """(||A||_F * 2^(10-p))^2 as a scalar expression"""
    return SMul(Pow2(2 * (10 - p)), Frob2(V(a_i)))


def gen(rng, mp, n, kind):
    """diagonalizable, spectrum in the right half plane, integer or dyadic entries"""
    if kind == "spd":
        B = qprops.rand_matrix(rng, mp, n, n, "int", False)
        return (B.T * B) / 4 + mp.eye(n), False
    if kind == "hpd":
        B = qprops.rand_matrix(rng, mp, n, n, "int", True)
        return (B.H * B) / 4 + mp.eye(n), True
    if kind in ("pdp", "pdp_complex"):
        # P diag-or-rotation-blocks P^-1, P unimodular integer
        D = [[0] * n for _ in range(n)]
        i = 0
        while i < n:
            if kind == "pdp_complex" and i + 1 < n and rng.random() < 0.5:
                a, b = rng.randint(2, 9), rng.randint(1, 4)       # eigenvalues a +- ib, a > 0
                D[i][i] = a; D[i + 1][i + 1] = a; D[i][i + 1] = -b; D[i + 1][i] = b
                i += 2
            else:
                D[i][i] = rng.randint(1, 12); i += 1
        for _ in range(20):
            P, Pi = unimodular(rng, n)
            if max(abs(x) for r in P for x in r) * max(abs(x) for r in Pi for x in r) <= 40:
                break
        return mp.matrix(imul(imul(P, D), Pi)), False
    if kind == "diagdom":
        A = qprops.rand_matrix(rng, mp, n, n, rng.choice(["int", "dy", "dec"]), False)
        for i in range(n):
            A[i, i] = sum(abs(A[i, j]) for j in range(n) if j != i) + rng.randint(1, 5)
        return A, False
    if kind == "diagdom_complex":
        A = qprops.rand_matrix(rng, mp, n, n, "int", True)
        for i in range(n):
            A[i, i] = sum(abs(mp.re(A[i, j])) + abs(mp.im(A[i, j])) for j in range(n) if j != i) + rng.randint(1, 5)
        return A, True
    if kind == "imag_axis":
        # spectrum on the positive imaginary axis (negative real determinant for even sizes): the square root / logarithm take the
        # route that first rotates the matrix off the branch cut
        n = max(2, n)
        A = mp.matrix(n, n)
        for i in range(n):
            A[i, i] = mp.mpc(0, rng.randint(1, 9))
            for j in range(i + 1, n): A[i, j] = mp.mpc(rng.randint(-3, 3), rng.randint(-2, 2))
        return A, True
    raise ValueError(kind)


def gen_trig(rng, mp, n, kind):
    if kind == "symmetric":
        A = qprops.rand_matrix(rng, mp, n, n, rng.choice(["int", "dy"]), False)
        return (A + A.T) * mp.mpf(0.5), False
    if kind == "hermitian":
        A = qprops.rand_matrix(rng, mp, n, n, "int", True)
        return (A + A.H) * mp.mpf(0.5), True
    return gen(rng, mp, n, "pdp")


def norm_ok(A):
    mp = A.ctx
    return mp.norm(A, 2) >= 1


def fn_case(c, idx, A, p, kind, cplx):
    mp, rng = c.mp, c.rng
    n = A.rows
    base = {"prec": p, "n": n, "family": kind, "complex": cplx, "A": qprops.raw(A)}
    env = [smat(A)]
    checks = []
    nA2 = Frob2(V(0))

    def fail(fn, exc):
        r = dict(base); r.update({"fn": fn, "kind": "raises", "exception": repr(exc)})
        c.pyviol("%s raised %r on a %dx%d %s matrix at prec %d" % (fn, exc, n, n, kind, p), r)

    L, exc = call(c, "logm", lambda: mp.logm(A), A)
    if exc is not None:
        fail("logm", exc)
    else:
        for method in ("taylor", "pade"):
            X, exc = call(c, "expm_" + method, lambda: mp.expm(L, method=method), A)
            if exc is not None:
                fail("expm(%s)" % method, exc); continue
            env.append(smat(X)); i = len(env) - 1
            checks.append(("expm_%s(logm(A))=A" % method, Le(Frob2(Sub(V(i), V(0))), SMul(tolA2(p), nA2))))
    S, exc = call(c, "sqrtm", lambda: mp.sqrtm(A), A)
    if exc is not None:
        fail("sqrtm", exc)
    else:
        env.append(smat(S)); i = len(env) - 1
        checks.append(("sqrtm(A)^2=A", Le(Frob2(Sub(Mul(V(i), V(i)), V(0))), SMul(tolA2(p), nA2))))
    k = rng.randint(0, 5)
    Pk, exc = call(c, "powm", lambda: mp.powm(A, k), A)
    if exc is not None:
        fail("powm", exc)
    else:
        env.append(smat(Pk)); i = len(env) - 1
        checks.append(("powm(A,%d)=A^%d" % (k, k), Le(Frob2(Sub(V(i), Pow(V(0), k))), SMul(tolA2(p), Frob2(Pow(V(0), k))))))
    if idx % 3 == 0:
        k = -rng.randint(1, 3)
        Aq = qlin.from_sm(env[0])
        Ak = Aq
        for _ in range(-k - 1):
            Ak = qlin.mmul(Ak, Aq)
        Yq = qlin.inverse(Ak)
        if Yq is not None:
            Y, d = qlin.to_int(Yq)
            Pk, exc = call(c, "powm_negative", lambda: mp.powm(A, k), A)
            if exc is not None:
                fail("powm", exc)
            else:
                env.append((0, Y)); yi = len(env) - 1
                env.append(smat(Pk)); i = len(env) - 1
                Ap = Pow(V(0), -k)
                checks.append(("cert:A^%d*Y=d*I" % -k, And(MatEq(Mul(Ap, V(yi)), Scal(d, 0, 0, Id(n))),
                                                            MatEq(Mul(V(yi), Ap), Scal(d, 0, 0, Id(n))))))
                checks.append(("powm(A,%d)=A^%d" % (k, k), Le(Frob2(Sub(Scal(d, 0, 0, V(i)), V(yi))),
                                                             SMul(tolA2(p), Frob2(V(yi))))))
    meta = dict(base); meta["fn"] = "expm/logm/sqrtm/powm"
    c.cases.append(Case("mf%d" % idx, env, checks, meta))
    c.note(A, "expm∘logm, sqrtm², powm: prec %d, %s A = %s" % (p, kind, qprops.describe(A)))


def trig_case(c, idx, A, p, kind, cplx):
    mp = c.mp
    n = A.rows
    base = {"prec": p, "n": n, "family": kind, "complex": cplx, "A": qprops.raw(A), "fn": "cosm/sinm"}
    Cm, exc = call(c, "cosm", lambda: mp.cosm(A), A)
    Sm, exc2 = call(c, "sinm", lambda: mp.sinm(A), A)
    if exc is not None or exc2 is not None:
        r = dict(base); r.update({"kind": "raises", "exception": repr(exc or exc2)})
        c.pyviol("cosm/sinm raised %r" % (exc or exc2,), r); return
    env = [smat(A), smat(Cm), smat(Sm)]
    checks = [("cosm^2+sinm^2=I", Le(Frob2(Sub(Add(Mul(V(1), V(1)), Mul(V(2), V(2))), Id(n))),
                                    SMul(tolA2(p), Frob2(Id(n)))))]
    c.cases.append(Case("tr%d" % idx, env, checks, base))
    c.note(A, "cosm²+sinm²: prec %d, %s A = %s" % (p, kind, qprops.describe(A)))


# ----------------------------------------------------------------------------- expm(diag) by Interval
def rlit(v, k):
    """real literal for the dyadic v * 2^-k"""
    s = ("(IZR (%s))" % Q.zarg(v))
    if k > 0:
        s = "(%s * / IZR (2 ^ %d))" % (s, k)
    elif k < 0:
        s = "(%s * IZR (2 ^ %d))" % (s, -k)
    return s


def dy(x):
    """(int, k) of a real mpmath number"""
    k, M = smat([[x]])
    return M[0][0][0], k


def expdiag_case(c, idx, p, cplx, method):
    mp, rng = c.mp, c.rng
    n = rng.randint(1, 6)
    def ent():
        v = mp.mpf(rng.randint(-80, 80)) / 8
        return v
    d = [mp.mpc(ent(), ent()) if cplx else ent() for _ in range(n)]
    if all(x == 0 for x in d):
        d[0] = mp.mpf(1)
    if rng.random() < 0.3 and p <= 64:
        # small norm (1/64 ... 1/8): the scaling exponent of the Taylor method must not go negative
        d = [(mp.mpc(rng.randint(-32, 32), rng.randint(-32, 32)) if cplx else mp.mpf(rng.randint(-32, 32))) / 512 for _ in range(n)]
        if all(x == 0 for x in d): d[0] = mp.mpf(1) / 64
    D = mp.diag(d)
    base = {"prec": p, "n": n, "complex": cplx, "method": method, "D": qprops.raw(D), "fn": "expm(diag)"}
    X, exc = call(c, "expm_diag_" + method, lambda: mp.expm(D, method=method), D)
    if exc is not None:
        r = dict(base); r.update({"kind": "raises", "exception": repr(exc)})
        c.pyviol("expm(diag, %s) raised %r" % (method, exc), r); return None
    env = [smat(D), smat(X)]
    c.cases.append(Case("ed%d" % idx, env, [("expm(diag)_is_diagonal", Kind("KDiagonal", V(1)))], base))
    # real-analytic statement for Interval
    lhs, rhs, nd2 = [], [], Fraction(0)
    for i in range(n):
        ar, ak = dy(mp.re(d[i])); br, bk = dy(mp.im(d[i]))
        xr, xk = dy(mp.re(X[i, i])); yr, yk = dy(mp.im(X[i, i]))
        nd2 += Fraction(ar, 2 ** ak) ** 2 + Fraction(br, 2 ** bk) ** 2
        a, b = rlit(ar, ak), rlit(br, bk)
        if cplx:
            lhs.append("(%s - exp %s * cos %s)^2 + (%s - exp %s * sin %s)^2" % (rlit(xr, xk), a, b, rlit(yr, yk), a, b))
            rhs.append("(exp %s)^2" % a)
        else:
            lhs.append("(%s - exp %s)^2" % (rlit(xr, xk), a))
            rhs.append("(exp %s)^2" % a)
    cst = nd2 * Fraction(4) ** (10 - p)
    L = " + ".join(lhs); R = "(IZR (%s) / IZR (%s)) * (%s)" % (Q.zarg(cst.numerator), Q.zarg(cst.denominator), " + ".join(rhs))
    tac = "Proof. interval with (i_prec %d). Qed.\n" % (2 * p + 64)
    # untrusted prediction at 2p+100 bits, only to choose which statement is attempted first
    with mp.workprec(2 * p + 100):
        lv = mp.fsum(abs(X[i, i] - mp.exp(d[i])) ** 2 for i in range(n))
        rv = mp.mpf(cst.numerator) / cst.denominator * mp.fsum(abs(mp.exp(d[i])) ** 2 for i in range(n))
        holds = bool(lv <= rv)
    c.keys.add(qprops.mkey(D) + method)
    return {"name": "ed%d" % idx, "meta": base, "predicted": holds,
            "goal": "Lemma ed%d : %s <= %s.\n%s" % (idx, L, R, tac),
            "neg": "Lemma ed%d_violated : %s < %s.\n%s" % (idx, R, L, tac)}


IHEADER = ("Require Import Reals ZArith.\nFrom Interval Require Import Tactic.\nLocal Open Scope R_scope.\n")


def run_interval(tag, items, timeout=120):
    """verdict 'pass' (bound proved), 'fail' (strict negation proved: certified violation), else 'unproved'/'timeout'"""
    d = os.path.join(Q.BUILD, tag)
    os.makedirs(d, exist_ok=True)
    def one(it):
        order = ["goal", "neg"] if it["predicted"] else ["neg", "goal"]
        it["verdict"] = "unproved"
        for w in order:
            path = os.path.join(d, "%s_iv_%s_%s.v" % (tag, it["name"], w))
            with open(path, "w") as f:
                f.write(IHEADER + it[w])
            try:
                pr = subprocess.run(["coqc", path], capture_output=True, text=True, timeout=timeout, cwd=d)
            except subprocess.TimeoutExpired:
                it["verdict"] = "timeout"; break
            if pr.returncode == 0:
                it["verdict"] = "pass" if w == "goal" else "fail"
                it["file"] = path
                break
        return it
    with ThreadPoolExecutor(NPROC) as ex:
        return list(ex.map(one, items))


FAMS = ["spd", "hpd", "pdp", "pdp_complex", "diagdom", "diagdom_complex", "imag_axis"]


def build(rep, tier_, rng):
    from mpmath import mp
    c = Ctx(rep, rng, mp)
    c.interval_items = []
    N = 48 if tier_ == "quick" else 900
    precs = [30, 40, 53, 64, 100, 150, 200]
    p0 = mp.prec
    try:
        for idx in range(N):
            p = rng.choice(precs); mp.prec = p
            kind = FAMS[idx % len(FAMS)]
            if kind == "imag_axis":
                # the first visits at a low precision, later ones at high precision (constants kept from an earlier call must not
                # limit the accuracy of a later one)
                p = 30 if idx < 2 * len(FAMS) else rng.choice([150, 200]); mp.prec = p
            n = rng.randint(1, 6)
            A, cplx = gen(rng, mp, n, kind)
            if not norm_ok(A):
                c.skip("||A||_F < 1"); continue
            fn_case(c, idx, A, p, kind, cplx)
            if idx % 2 == 0:
                tk = rng.choice(["symmetric", "hermitian", "pdp"])
                B, bc = gen_trig(rng, mp, rng.randint(1, 6), tk)
                if norm_ok(B):
                    trig_case(c, idx, B, p, tk, bc)
            if idx % 3 == 1:
                it = expdiag_case(c, idx, p, rng.random() < 0.4, rng.choice(["taylor", "pade"]))
                if it:
                    c.interval_items.append(it)
    finally:
        mp.prec = p0
    return c


def what(case, label):
    m = case.meta
    return "%s: certified violation of '%s' (prec %s, size %s, family %s) — Coq proved the bound false" % (
        m.get("fn"), label, m.get("prec"), m.get("n"), m.get("family"))


def run(rep, tier_, rng):
    qprops.load_known(rep)
    c = build(rep, tier_, rng)
    stats = run_cases(TAG, c.cases, timeout=600 if tier_ == "quick" else 1500)
    counts = summarize(rep, TAG, c.cases, what)
    t0 = time.time()
    iv = run_interval(TAG, c.interval_items)
    ivc = {"pass": 0, "fail": 0, "unproved": 0, "timeout": 0}
    for it in iv:
        ivc[it["verdict"]] += 1
        if it["verdict"] == "fail":
            r = dict(it["meta"]); r.update({"kind": "expm_diag_value", "coq_file": it["file"], "coq_text": open(it["file"]).read(),
                                            "cmd": "coqc " + it["file"]})
            rep.violation("expm(diag d) differs from diag(exp d) by more than ||D||*2^(10-p) (prec %s, method %s) — certified "
                          "by Interval" % (r.get("prec"), r.get("method")), r)
    counts["certified_fail"] += ivc["fail"]
    # an unproved interval goal is inconclusive (the tactic is incomplete), never an alarm
    counts["certified_pass"] += ivc["pass"]
    counts["inconclusive"] += ivc["unproved"] + ivc["timeout"]
    qprops.coverage(rep, TAG, c.cases, stats, counts, c.evals, c.keys,
                    "diagonalizable matrices 1..6 with spectrum in the right half plane and ||A||_F >= 1: B^T B/4 + I, "
                    "B^H B/4 + I, P D P^-1 (P unimodular integer, D positive diagonal or rotation blocks a +- ib, a > 0), "
                    "strictly diagonally dominant real/complex; symmetric / Hermitian / real-spectrum matrices for "
                    "cosm, sinm; random dyadic diagonal matrices (real and complex) for expm(diag); prec in {30..200}; "
                    "non-trivial = at least 2x2 with a nonzero off-diagonal entry, counted by distinct raw inputs", c.samples,
                    {"calls_by_function": c.fn_counts, "skipped": c.skipped, "python_level_violations": c.py_violations,
                     "interval_certificates": ivc, "interval_wall_s": round(time.time() - t0, 1),
                     "interval_cmd": "coqc %s/%s_iv_*.v  (From Interval Require Import Tactic; interval with (i_prec 2p+64))"
                                     % (os.path.join(Q.BUILD, TAG), TAG)})
    rep.coverage["trusted_base"].append("expm(diag): Coq-Interval tactic (Flocq/Interval libraries, classical real axioms)")
    rep.assumptions = ["'relative error ||A||*2^(10-p)' is read as ||LHS-RHS||_F <= ||A||_F * 2^(10-p) * ||RHS||_F, with "
                       "||A||_F >= 1 (for smaller norms the factor ||A|| would make the tolerance tighter than rounding)",
                       "'away from the negative real axis' is sampled as: spectrum in the open right half plane"]


from props.c30 import replay  # noqa: E402
