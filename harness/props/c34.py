"""C34 -- odefun on linear / polynomial ODE systems with closed-form solutions: the interpolant agrees with the exact
solution to within the requested tolerance (default 2^(10-p)) at every x >= x0, and its values do not depend on the order
in which points are evaluated nor on precision changes between evaluations.

Engine B: * accuracy: every component of every sampled value y(x) gives a Coq lemma
              Rabs (y - ref(x)) <= tol * max(|ref(x)|, 1)       (tol = 2^(10-p), or the explicit tol passed to odefun)
            with ref the closed-form solution (interval; vm_compute for the rational solutions of y' = -y^2 and y' = P(x));
          * order / precision independence: a fresh interpolant of the same problem is evaluated at the same points in
            decreasing order, in random order, and in increasing order with evaluations at *other* precisions (and other
            points) interleaved; each such run must reproduce the canonical (increasing order, constant precision) values
            BIT FOR BIT -- one Z lemma per run stating the equality of all the dyadic values (the segment logic of
            odefun -- workprec and tol_prec are frozen at creation, segments form one deterministic sequence -- predicts exact
            equality, and mpmath does deliver it on the unchanged tree, so the property's tolerance is not needed here).
            Segment boundaries found in the canonical run (read from the closure) are added to the evaluation points."""
import time
from fractions import Fraction
from common import *
import cert, sweep, calcb
from cert import Const, ZERO, ONE, HALF, PI, lift
from calcb import fs, fr, fsl, frl, rq, tol_instance
from props.engineb import run_and_report, replay_generic, short, mk_mpf

LEVEL = "exploration"

ASSUMPTIONS = [
    "Closed-form solutions trusted: y'=ay, y(x0)=c -> c e^(a(x-x0)); y0'=y1, y1'=-w^2 y0, y(x0)=(A,B) -> (A cos wt + (B/w) sin wt, "
    "-A w sin wt + B cos wt), t=x-x0; y'=-y^2, y(x0)=1/c -> 1/(x-x0+c); y'=1+y^2, y(0)=0 -> tan x (x <= 5/4, well left of pi/2); "
    "y0'=y1, y1'=y0, y(0)=(1,0) -> (cosh x, sinh x); y'=-2xy, y(0)=1 -> e^(-x^2); y'=P(x) -> antiderivative; y0'=y0+y1, y1'=y1, "
    "y(0)=(0,1) -> (x e^x, e^x); decoupled pair (a y0, -y1^2).",
    "'within the requested tolerance' is read as |y - ref| <= tol*max(|ref|,1) with tol = 2^(10-p) by default and tol = the value "
    "passed as odefun(..., tol=...) otherwise.",
    "Evaluation points are dyadic rationals (exact mpf, so ctx.convert does not round them) in [x0, x0+4] (quick) / [x0, x0+8] (thorough).",
    "Order-independence is checked as exact (bitwise) equality of the returned mpf values between a canonical run and re-orderings / "
    "precision-perturbed runs on fresh interpolants of the same problem created at the same precision; values compared are those "
    "returned at the same mp.prec (the final rounding `+y` is done at the caller's precision by design).",
    "The right-hand sides are Python lambdas on mpf with integer / dyadic / small rational coefficients evaluated at the (very high) "
    "working precision odefun uses internally.",
    "Universal correctness is NOT proved: sampled problems and points only (level exploration, certified oracle).",
]

PROBLEMS = ["exp", "exp", "osc", "osc", "riccati", "tan", "hyp", "gauss", "poly", "lin2", "decoupled"]


def problem(ctx, spec):
    """-> (F, x0 (Fraction), y0 (mpf or list), ref(x: Fraction) -> list of terms, vector?)"""
    q = lambda v: ctx.mpf(Fraction(v).numerator) / Fraction(v).denominator
    name = spec["prob"]; p = frl(spec.get("params", []))
    x0 = fr(spec["x0"])
    if name == "exp":
        a, c = p
        return (lambda x, y: q(a) * y), x0, q(c), (lambda x: [Const(c) * cert.exp(Const(a * (x - x0)))]), False
    if name == "osc":
        w, A, B = p
        def ref(x):
            t = Const(w * (x - x0))
            return [Const(A) * cert.cos(t) + Const(B / w) * cert.sin(t), Const(-A * w) * cert.sin(t) + Const(B) * cert.cos(t)]
        return (lambda x, y: [y[1], -q(w * w) * y[0]]), x0, [q(A), q(B)], ref, True
    if name == "riccati":
        (c,) = p
        return (lambda x, y: -y * y), x0, 1 / q(c), (lambda x: [Const(1 / (x - x0 + c))]), False
    if name == "tan":
        return (lambda x, y: 1 + y * y), Fraction(0), ctx.mpf(0), (lambda x: [cert.tan(Const(x))]), False
    if name == "hyp":
        return (lambda x, y: [y[1], y[0]]), Fraction(0), [ctx.mpf(1), ctx.mpf(0)], (lambda x: [cert.cosh(Const(x)), cert.sinh(Const(x))]), True
    if name == "gauss":
        return (lambda x, y: -2 * x * y), Fraction(0), ctx.mpf(1), (lambda x: [cert.exp(Const(-x * x))]), False
    if name == "poly":
        P = p[:-1]; c = p[-1]
        Q = [Fraction(0)] + [v / (k + 1) for k, v in enumerate(P)]
        coeffs = [q(v) for v in reversed(P)]
        return (lambda x, y: ctx.polyval([q(v) for v in reversed(P)], x)), x0, q(c), \
               (lambda x: [Const(calcb.pval(Q, x) - calcb.pval(Q, x0) + c)]), False
    if name == "lin2":
        return (lambda x, y: [y[0] + y[1], y[1]]), Fraction(0), [ctx.mpf(0), ctx.mpf(1)], \
               (lambda x: [Const(x) * cert.exp(Const(x)), cert.exp(Const(x))]), True
    if name == "decoupled":
        a, c = p
        return (lambda x, y: [q(a) * y[0], -y[1] * y[1]]), x0, [ctx.mpf(1), 1 / q(c)], \
               (lambda x: [cert.exp(Const(a * (x - x0))), Const(1 / (x - x0 + c))]), True
    raise KeyError(name)


def g_problem(rng, tier_):
    name = rng.choice(PROBLEMS)
    x0 = Fraction(rng.randint(-8, 8), 4) if name in ("exp", "osc", "riccati", "poly", "decoupled") and rng.random() < 0.5 else Fraction(0)
    span = 4 if tier_ == "quick" else rng.choice([4, 8])
    dens = (1, 1, 2, 4, 4, 2, 3) if rng.random() < 0.6 else (1, 2, 4)          # ~20% of the initial values are not dyadic
    if name == "exp": params = [Fraction(rng.choice([1, -1, 2, -2, -3, 1, -1]), rng.choice([1, 1, 2, 3])), rq(rng, 3, dens=dens, nonzero=True)]
    elif name == "osc": params = [Fraction(rng.randint(1, 4), rng.choice([1, 1, 2])), rq(rng, 3, dens=dens), rq(rng, 3, dens=dens, nonzero=True)]
    elif name == "riccati": params = [Fraction(rng.randint(1, 12), 4)]
    elif name == "poly": params = [Fraction(rng.randint(-3, 3), rng.choice([1, 2])) for _ in range(rng.randint(1, 4))] + [rq(rng, 3)]
    elif name == "decoupled": params = [Fraction(rng.choice([1, -1, -2]), rng.choice([1, 2])), Fraction(rng.randint(1, 12), 4)]
    else: params = []
    if name == "tan":
        pts = sorted({Fraction(rng.randint(0, 40), 32) for _ in range(8)})          # <= 5/4
    elif name == "gauss":
        pts = sorted({Fraction(rng.randint(0, 16 * 3), 16) for _ in range(8)})
    else:
        pts = sorted({x0 + Fraction(rng.randint(0, 8 * span), 8) for _ in range(8)})
    if rng.random() < 0.5:
        pts = sorted(set(pts) | {x0})
    tol = None
    if rng.random() < 0.2:
        tol = rng.choice(["1/1000", "1/1000000", "1/1000000000"])
    return {"prob": name, "params": fsl(params), "x0": fs(x0), "pts": fsl(pts), "tol": tol}


def _dyadic(v):
    d = Fraction(v).denominator
    return d & (d - 1) == 0


def kfclass_of(spec, prec):
    """class used to match the two known findings"""
    name = spec["prob"]; p = frl(spec.get("params", []))
    if name == "exp" and not _dyadic(p[1]): return "linear-nondyadic-y0"
    if name == "osc" and not (_dyadic(p[1]) and _dyadic(p[2])): return "linear-nondyadic-y0"
    if name == "osc" and p[0] >= 4 and prec <= 46: return "lowprec-fast-osc"
    return "std"


def boundaries_of(f):
    """segment boundaries of an interpolant (closure introspection; None if the layout is not the expected one)"""
    try:
        d = dict(zip(f.__code__.co_freevars, [c.cell_contents for c in f.__closure__]))
        gs = d["get_series"]
        d2 = dict(zip(gs.__code__.co_freevars, [c.cell_contents for c in gs.__closure__]))
        return list(d2["series_boundaries"])
    except Exception:
        return None


def make(ctx, spec, prec):
    ctx.prec = prec
    F, x0, y0, ref, vec = problem(ctx, spec)
    kw = {}
    if spec.get("tol"):
        t = fr(spec["tol"]); kw["tol"] = ctx.mpf(t.numerator) / t.denominator
    return ctx.odefun(F, mk_mpf(ctx, x0), y0, **kw), ref, vec


def vals_of(v, vec):
    v = v if vec else [v]
    return [calcb.frac_of(t) for t in v]


def run_problem(ctx, spec, prec, rng, timeout):
    """-> dict(points, canonical values, variants {name: values}, boundaries count)"""
    p0 = ctx.prec
    try:
        def work():
            f, ref, vec = make(ctx, spec, prec)
            pts = frl(spec["pts"])
            V = {}
            for x in pts:
                ctx.prec = prec
                V[x] = vals_of(f(mk_mpf(ctx, x)), vec)
            # add (dyadic) segment boundaries inside the range as evaluation points
            bnd = boundaries_of(f)
            extra = []
            if bnd:
                for b in bnd[1:-1]:
                    bq = calcb.frac_of(b)
                    if bq is not None and bq <= pts[-1] and bq not in V and len(extra) < 4:
                        extra.append(bq)
                if extra:                      # canonical values at the boundaries: fresh interpolant, increasing order
                    f, ref, vec = make(ctx, spec, prec)
                    pts = sorted(set(pts) | set(extra))
                    V = {}
                    for x in pts:
                        ctx.prec = prec
                        V[x] = vals_of(f(mk_mpf(ctx, x)), vec)
            variants = {}
            # decreasing
            g, _, _ = make(ctx, spec, prec)
            W = {}
            for x in reversed(pts):
                ctx.prec = prec
                W[x] = vals_of(g(mk_mpf(ctx, x)), vec)
            variants["decreasing"] = W
            # random order (with repeats)
            g, _, _ = make(ctx, spec, prec)
            order = list(pts) + rng.sample(pts, min(3, len(pts)))
            rng.shuffle(order)
            W = {}
            for x in order:
                ctx.prec = prec
                W[x] = vals_of(g(mk_mpf(ctx, x)), vec)
            variants["random"] = W
            # precision changes between evaluations (other precisions, other points, possibly beyond the current segments)
            g, _, _ = make(ctx, spec, prec)
            W = {}
            order = list(pts); rng.shuffle(order)
            for x in order:
                ctx.prec = rng.choice([prec + 37, max(12, prec - 11), 2 * prec, prec + 1])
                xo = rng.choice(pts) + (Fraction(rng.randint(0, 5), 16) if spec["prob"] != "tan" else 0)
                g(mk_mpf(ctx, xo))
                ctx.prec = prec
                W[x] = vals_of(g(mk_mpf(ctx, x)), vec)
            variants["prec_changes"] = W
            return {"pts": pts, "V": V, "variants": variants, "ref": ref, "vec": vec, "nbnd": len(bnd) if bnd else None,
                    "extra": extra}
        return sweep.call_with_timeout(work, timeout)
    finally:
        ctx.prec = p0


def _zl(n):
    return "(%d)" % n if n < 0 else "%d" % n


def eq_instance(iid, pairs, meta):
    """pairs: list of (Fraction a, Fraction b): one Z lemma `a_i = b_i for all i` (numerators over a common denominator)"""
    flat = [v for ab in pairs for v in ab]
    ints = cert._zscaled(flat)
    parts = ["(%s =? %s)" % (_zl(ints[2 * i]), _zl(ints[2 * i + 1])) for i in range(len(pairs))]
    body = "(" + " && ".join(parts) + ")%bool"
    ok = all(a == b for a, b in pairs)
    return cert.Instance(iid, body + " = true", [body + " = false"], kind="Z", hint="pass" if ok else "fail", meta=meta, trivial=False)


def build_instances(cid, spec, prec, R, rng_pick, max_pts=5):
    out, direct = [], []
    tol = fr(spec["tol"]) if spec.get("tol") else calcb.eps_of(prec)
    fn = "odefun"
    pts = R["pts"]
    # accuracy at a sample of the points (first, last, boundaries, some others)
    chosen = sorted(set([pts[0], pts[-1]] + R["extra"][:2] + rng_pick(pts, max_pts)))
    for xi, x in enumerate(chosen):
        vals = R["V"][x]
        refs = R["ref"](x)
        for d, (v, r) in enumerate(zip(vals, refs)):
            meta = {"fn": fn, "regime": spec["prob"] + "/accuracy", "p": prec, "call": cid, "part": "x=%s[%d]" % (fs(x), d), "clause": "accuracy"}
            if v is None:
                direct.append("non-finite value at x=%s" % fs(x)); continue
            out.append(tol_instance("%s_a%d_%d" % (cid, xi, d), v, r, tol, meta=meta))
    for name, W in R["variants"].items():
        pairs = []
        for x in pts:
            for a, b in zip(R["V"][x], W[x]):
                if a is None or b is None:
                    direct.append("non-finite value in run %s" % name); continue
                pairs.append((a, b))
        meta = {"fn": fn, "regime": spec["prob"] + "/order:" + name, "p": prec, "call": cid, "part": "order:" + name,
                "clause": "order/precision independence (bitwise)"}
        out.append(eq_instance("%s_o_%s" % (cid, name), pairs, meta))
    return out, direct


def run(rep, tier_, rng):
    calcb.load_known_b2(rep)
    from mpmath import mp
    q = tier_ == "quick"
    t0 = time.time()
    precs = [30, 53, 100] if q else [30, 53, 100, 200]
    n_prob = 36 if q else 150
    insts, calls = [], {}
    stats = {"raised": [], "timeouts": 0, "skipped_for_time": 0, "python_level_failures": 0, "points_evaluated": 0,
             "segment_boundaries_used_as_points": 0, "order_runs": 0}
    gen_budget = 55 if q else 600
    for n in range(n_prob):
        if time.time() - t0 > gen_budget:
            stats["skipped_for_time"] = n_prob - n; break
        spec = g_problem(rng, tier_)
        prec = rng.choice(precs) if rng.random() < 0.65 else rng.randint(24, 128 if q else 210)
        cid = "o%03d" % n
        call = {"fn": "odefun", "regime": spec["prob"], "kclass": spec["prob"], "kfclass": kfclass_of(spec, prec), "prec": prec, "spec": spec,
                "sub_seed": rng.getrandbits(32)}
        sub = random.Random(call["sub_seed"])
        try:
            R = run_problem(mp, spec, prec, sub, 25 if q else 300)
        except sweep.CallTimeout:
            stats["timeouts"] += 1; continue
        except Exception as ex:
            calls[cid] = call
            stats["raised"].append({"regime": spec["prob"], "exc": repr(ex)[:100]})
            rep.violation("C34 odefun raised %s on problem %s" % (repr(ex)[:80], spec["prob"]), dict(call, clause="raised")); continue
        calls[cid] = call
        call["points"] = fsl(R["pts"]); call["segments"] = R["nbnd"]
        stats["points_evaluated"] += len(R["pts"]) * 4
        stats["segment_boundaries_used_as_points"] += len(R["extra"])
        stats["order_runs"] += len(R["variants"])
        try:
            new, direct = build_instances(cid, spec, prec, R, lambda pts, k: sub.sample(pts, min(k, len(pts))), 3 if q else 5)
        except (cert.EstimateError, ZeroDivisionError, ValueError):
            stats.setdefault("skipped_estimate", 0); stats["skipped_estimate"] += 1; continue
        for d in direct:
            stats["python_level_failures"] += 1
            rep.violation("C34 odefun: %s (%s)" % (d, spec["prob"]), dict(call, clause="nonfinite"))
        insts += new
    tgen = time.time() - t0
    regimes = {}
    for c in calls.values():
        regimes[c["regime"]] = regimes.get(c["regime"], 0) + 1
    insts, not_attempted = calcb.fit_budget(insts, max(30, (115 if q else 1100) - tgen))
    run_and_report(rep, insts, calls, tag="C34_%s" % tier_, params={"sentence_timeout": 60, "single_timeout": 80},
                   budget=max(30, (115 if q else 1100) - tgen), jobs=10,
                   rule="each evaluation = one ODE problem (y'=ay; harmonic oscillator; y'=-y^2; y'=1+y^2; cosh/sinh system; y'=-2xy; y'=P(x); "
                        "triangular system; decoupled pair) with rational parameters solved by odefun of the current /repo code at p in "
                        "{30,53,100(,200)} or (35%) uniform in [24,128] (default tol, 20% with an explicit tol), evaluated at ~8 dyadic points (+ up to 4 segment boundaries) "
                        "by 4 fresh interpolants: increasing / decreasing / random order with repeats / increasing with evaluations at other "
                        "precisions interleaved; accuracy lemmas for 3-7 points x all components, one bitwise-equality lemma per re-ordered run; "
                        "distinct = distinct lemma statements; non-trivial = every Interval lemma and every equality lemma",
                   assumptions=ASSUMPTIONS,
                   extra_cov={"lemmas_not_attempted_for_time": not_attempted, "regimes": regimes, "generation_wall_s": round(tgen, 1),
                              "tolerance": "tol*max(|ref|,1), tol = 2^(10-p) or the explicit tol; order clause: exact equality", **stats})
    rep.coverage["problems"] = len(calls)
    rep.coverage["evaluations"] = stats["points_evaluated"]      # calls of an interpolant


def replay(rep, path):
    calcb.load_known_b2(rep)

    def rebuild(r):
        from mpmath import mp
        spec = r["spec"]
        sub = random.Random(r.get("sub_seed", 0))
        R = run_problem(mp, spec, r["prec"], sub, 900)
        cid = "replay"
        call = {k: r[k] for k in ("fn", "regime", "kclass", "kfclass", "prec", "spec", "sub_seed") if k in r}
        new, direct = build_instances(cid, spec, r["prec"], R, lambda pts, k: list(pts), 99)
        for d in direct:
            rep.violation("C34 odefun: %s" % d, dict(call, clause="nonfinite"))
        return new, {cid: call}
    replay_generic(rep, path, rebuild)
