"""C30 — linear solvers, factorizations and elementwise matrix algebra, decided exactly by Coq.

What is certified per sampled instance (all norms Frobenius, compared squared, in exact integers):

 solve (square, nonsingular A; fn in lu_solve, qr_solve, cholesky_solve for SPD/HPD A):
     ||x_fn - x*||_F  <=  K * 2^(10-p) * ||x*||_F,     K = ||A||_F * ||A^-1||_F   (>= cond_2(A)),
   x* = X/dx and A^-1 = Y/d are found by untrusted Fraction elimination and CHECKED by Coq
   (A*Y = d*I, Y*A = d*I, A*X = dx*b as exact matrix identities); the inequality is decided as
   ||dx*x - X||^2 * d^2 <= ||A||^2 * ||Y||^2 * 4^(10-p) * ||X||^2.
 inverse:   ||inverse(A) - A^-1||_F <= K * 2^(10-p) * ||A^-1||_F        (same certificates)
 det:       |det(A) - det*| <= K * 2^(10-p) * |det*|,   det* computed by Coq (cofactor expansion)
 overdetermined (m > n, full column rank; fn in qr_solve, lu_solve): x* = exact least-squares
   solution, (A^H A) X = dx * A^H b checked by Coq;  ||x_fn - x*|| <= K_N 2^(10-p) ||x*|| with
   K_N = ||A^H A||_F ||(A^H A)^-1||_F  (>= cond_2(A)^2; right-hand sides are b = A x0 + small noise).
 only instances with K * 2^(10-p) <= 2^-8 are in the domain ("moderate condition number").
 factorizations: lu / LU_decomp: ||P A - L U|| <= ||A|| 2^(10-p), P permutation, L unit lower,
   U upper (exact structure tests);  qr (full and skinny, m >= n >= 2): ||A - Q R|| <= ||A|| 2^(10-p),
   ||Q^H Q - I||_F <= 2^(10-p), R upper;  cholesky: ||A - L L^H|| <= ||A|| 2^(10-p), L lower with real
   positive diagonal.
 singular A (det = 0 certified by Coq): inverse and lu_solve must raise ZeroDivisionError (observed).
 elementwise: for integer matrices whose results are representable in p bits, A+B, A-B, A*B, A**k,
   A.T, A.H, mnorm(A,1), mnorm(A,inf) EQUAL the Coq model's values exactly; norm(A,2) is within one
   ulp of sqrt(frob2) (squared comparison) and exact when frob2 is a representable perfect square;
   for full-precision operands ||(A op B) - exact||_F <= 2^-p ||exact||_F (a consequence of
   entrywise correct rounding).
"""
import math, json
from fractions import Fraction
from common import *
import qcert as Q
from qcert import *
import qlin, qprops

LEVEL = "exploration"
TAG = "c30"
DOMAIN_BITS = 8      # the bound K*2^(10-p) must promise at least this many correct bits


def tol2(p):
    return Pow2(2 * (10 - p))


def lg2(fr):
    fr = Fraction(fr)
    if fr <= 0:
        return -10**9
    return (fr.numerator.bit_length() - fr.denominator.bit_length()) + 0.0


def const_of(x):
    """dyadic scalar constant from a real mpmath number"""
    k, M = smat([[x]])
    return Const(M[0][0][0], k)


class Ctx:
    def __init__(self, rep, rng, mp):
        self.rep, self.rng, self.mp = rep, rng, mp
        self.cases = []
        self.evals = 0
        self.keys = set()
        self.samples = []
        self.skipped = {}
        self.fn_counts = {}
        self.py_violations = 0
        self.observed = {}

    def skip(self, why):
        self.skipped[why] = self.skipped.get(why, 0) + 1

    def count(self, fn):
        self.fn_counts[fn] = self.fn_counts.get(fn, 0) + 1
        self.evals += 1

    def note(self, A, text, *more):
        if qprops.nontrivial(A):
            self.keys.add(qprops.mkey(A, *more))
        if len(self.samples) < 6 and self.rng.random() < 0.15:
            self.samples.append(text)

    def pyviol(self, what, replay):
        self.py_violations += 1
        self.rep.violation(what, replay)


def call(c, fn, f, A, meta_extra=None):
    """run an mpmath entry point; exceptions on in-domain input are violations"""
    c.count(fn)
    try:
        return f(), None
    except Exception as e:  # noqa
        return None, e


def has_zero_re(A):
    mp = A.ctx
    return any(mp.re(A[i, j]) == 0 for i in range(A.rows) for j in range(A.cols))


def square_case(c, idx, A, b, p, kind, cplx, spd):
    mp = c.mp
    n = A.rows
    sA, sb = smat(A), smat(b)
    Aq, bq = qlin.from_sm(sA), qlin.from_sm(sb)
    Yq = qlin.inverse(Aq)
    if Yq is None:
        c.skip("generated matrix singular"); return
    K2 = qlin.frob2(Aq) * qlin.frob2(Yq)
    if 0.5 * lg2(K2) + 1 + 10 - p > -DOMAIN_BITS:
        c.skip("outside domain: K*2^(10-p) > 2^-%d" % DOMAIN_BITS); return
    xq = qlin.solve(Aq, bq)
    if qlin.frob2(xq) == 0:
        c.skip("zero solution"); return
    Y, d = qlin.to_int(Yq)
    X, dx = qlin.to_int(xq)
    base = {"prec": p, "n": n, "entries": kind, "complex": cplx, "A": qprops.raw(A), "b": qprops.raw(b),
            "log2_K": round(0.5 * lg2(K2), 1)}
    env = [sA, sb, (0, Y), (0, X)]
    checks = [("cert:A*Y=d*I", MatEq(Mul(V(0), V(2)), Scal(d, 0, 0, Id(n)))),
              ("cert:Y*A=d*I", MatEq(Mul(V(2), V(0)), Scal(d, 0, 0, Id(n)))),
              ("cert:A*X=dx*b", MatEq(Mul(V(0), V(3)), Scal(dx, 0, 0, V(1))))]
    fns = [("lu_solve", lambda: mp.lu_solve(A, b)), ("qr_solve", lambda: mp.qr_solve(A, b)[0])]
    if spd:
        fns.append(("cholesky_solve", lambda: mp.cholesky_solve(A, b)))
    bound = SMul(Frob2(V(0)), Frob2(V(2)), tol2(p), Frob2(V(3)))
    for fn, f in fns:
        x, exc = call(c, fn, f, A)
        if exc is not None:
            kd = "raises_nonsingular_zero_entry" if (fn == "qr_solve" and has_zero_re(A)) else "raises_nonsingular"
            r = dict(base); r.update({"fn": fn, "kind": kd, "exception": repr(exc)})
            c.pyviol("%s raised %r on a nonsingular %dx%d matrix with log2 K = %.1f at prec %d"
                     % (fn, exc, n, n, 0.5 * lg2(K2), p), r)
            continue
        try:
            env.append(smat(x))
        except NotFinite:
            r = dict(base); r.update({"fn": fn, "kind": "nonfinite"})
            c.pyviol("%s returned a non-finite entry" % fn, r); continue
        i = len(env) - 1
        checks.append((fn + "_err", Le(SMul(Frob2(Sub(Scal(dx, 0, 0, V(i)), V(3))), Const(d * d)), bound)))
    # inverse
    Xi, exc = call(c, "inverse", lambda: mp.inverse(A), A)
    if exc is not None:
        r = dict(base); r.update({"fn": "inverse", "kind": "raises_nonsingular", "exception": repr(exc)})
        c.pyviol("inverse raised %r on a nonsingular matrix" % (exc,), r)
    else:
        env.append(smat(Xi)); i = len(env) - 1
        checks.append(("inverse_err", Le(SMul(Frob2(Sub(Scal(d, 0, 0, V(i)), V(2))), Const(d * d)),
                                         SMul(Frob2(V(0)), Frob2(V(2)), tol2(p), Frob2(V(2))))))
    # det
    dc, exc = call(c, "det", lambda: mp.det(A), A)
    if exc is not None:
        r = dict(base); r.update({"fn": "det", "kind": "raises_nonsingular", "exception": repr(exc)})
        c.pyviol("det raised %r on a nonsingular matrix" % (exc,), r)
    else:
        env.append(smat([[dc]])); i = len(env) - 1
        checks.append(("det_err", Le(SMul(Frob2(Sub(V(i), Det(V(0)))), Const(d * d)),
                                     SMul(Frob2(V(0)), Frob2(V(2)), tol2(p), Frob2(Det(V(0)))))))
    meta = dict(base); meta["fn"] = "solve/inverse/det"
    c.cases.append(Case("sq%d" % idx, env, checks, meta))
    c.note(A, "square solve: prec %d, %s, %s A = %s, log2 K = %.1f" % (p, kind, "complex" if cplx else "real",
                                                                      qprops.describe(A), 0.5 * lg2(K2)), b)


def over_case(c, idx, A, b, p, kind, cplx):
    mp = c.mp
    m, n = A.rows, A.cols
    sA, sb = smat(A), smat(b)
    Aq, bq = qlin.from_sm(sA), qlin.from_sm(sb)
    AH = qlin.conjT(Aq)
    Nq = qlin.mmul(AH, Aq)
    Yq = qlin.inverse(Nq)
    if Yq is None:
        c.skip("rank deficient overdetermined"); return
    K2 = qlin.frob2(Nq) * qlin.frob2(Yq)
    if 0.5 * lg2(K2) + 1 + 10 - p > -DOMAIN_BITS:
        c.skip("outside domain: K_N*2^(10-p) > 2^-%d" % DOMAIN_BITS); return
    xq = qlin.solve(Nq, qlin.mmul(AH, bq))
    if qlin.frob2(xq) == 0:
        c.skip("zero solution"); return
    Y, d = qlin.to_int(Yq)
    X, dx = qlin.to_int(xq)
    base = {"prec": p, "m": m, "n": n, "entries": kind, "complex": cplx, "A": qprops.raw(A), "b": qprops.raw(b),
            "log2_K": round(0.5 * lg2(K2), 1)}
    N = Mul(H(V(0)), V(0))
    env = [sA, sb, (0, Y), (0, X)]
    checks = [("cert:N*Y=d*I", MatEq(Mul(N, V(2)), Scal(d, 0, 0, Id(n)))),
              ("cert:Y*N=d*I", MatEq(Mul(V(2), N), Scal(d, 0, 0, Id(n)))),
              ("cert:N*X=dx*A^H*b", MatEq(Mul(N, V(3)), Scal(dx, 0, 0, Mul(H(V(0)), V(1)))))]
    bound = SMul(Frob2(N), Frob2(V(2)), tol2(p), Frob2(V(3)))
    for fn, f in (("qr_solve", lambda: mp.qr_solve(A, b)[0]), ("lu_solve", lambda: mp.lu_solve(A, b))):
        x, exc = call(c, fn + "_overdetermined", f, A)
        if exc is not None:
            kd = "raises_nonsingular_zero_entry" if (fn == "qr_solve" and has_zero_re(A)) else "raises_nonsingular"
            r = dict(base); r.update({"fn": fn, "kind": kd, "exception": repr(exc)})
            c.pyviol("%s raised %r on a full-rank %dx%d system at prec %d" % (fn, exc, m, n, p), r); continue
        env.append(smat(x)); i = len(env) - 1
        checks.append((fn + "_lsq_err", Le(SMul(Frob2(Sub(Scal(dx, 0, 0, V(i)), V(3))), Const(d * d)), bound)))
    meta = dict(base); meta["fn"] = "least_squares"
    c.cases.append(Case("ov%d" % idx, env, checks, meta))
    c.note(A, "overdetermined: prec %d, %dx%d %s, log2 K_N = %.1f" % (p, m, n, kind, 0.5 * lg2(K2)), b)


def unpack_lu(mp, LU, piv):
    n = LU.rows
    L = mp.matrix(n); U = mp.matrix(n)
    for i in range(n):
        for j in range(n):
            if i > j: L[i, j] = LU[i, j]
            elif i == j: L[i, j] = 1; U[i, j] = LU[i, j]
            else: U[i, j] = LU[i, j]
    P = mp.eye(n)
    for k in range(len(piv)):
        mp.swap_row(P, k, piv[k])
    return P, L, U


def fact_case(c, idx, A, p, kind, cplx, spd):
    """lu, LU_decomp, cholesky (SPD) on a square matrix"""
    mp = c.mp
    n = A.rows
    sA = smat(A)
    Aq = qlin.from_sm(sA)
    Yq = qlin.inverse(Aq)
    if Yq is None:
        c.skip("generated matrix singular"); return
    K2 = qlin.frob2(Aq) * qlin.frob2(Yq)
    if 0.5 * lg2(K2) + 1 + 10 - p > -DOMAIN_BITS:
        c.skip("outside domain: K*2^(10-p) > 2^-%d" % DOMAIN_BITS); return
    base = {"prec": p, "n": n, "entries": kind, "complex": cplx, "A": qprops.raw(A), "log2_K": round(0.5 * lg2(K2), 1)}
    env = [sA]
    checks = []
    nA = SMul(tol2(p), Frob2(V(0)))
    if c.rng.random() < 0.4 and p >= 64:
        # the same matrix object factorised earlier at a lower precision: the later call must not reuse that factorisation
        plo = c.rng.choice([20, 30]); mp.prec = plo
        try: mp.lu(A)
        except Exception: pass
        finally: mp.prec = p
    for fn in ("lu", "LU_decomp"):
        if fn == "lu":
            r_, exc = call(c, fn, lambda: mp.lu(A), A)
        else:
            r_, exc = call(c, fn, lambda: mp.LU_decomp(A.copy()), A)
            if exc is None:
                LU, piv = r_
                if not (len(piv) == n - 1 and all(isinstance(q, int) and j <= q < n for j, q in enumerate(piv))):
                    r = dict(base); r.update({"fn": fn, "kind": "pivot_indices", "pivots": repr(piv)})
                    c.pyviol("LU_decomp returned invalid pivot indices %r" % (piv,), r); continue
                r_ = unpack_lu(mp, LU, piv)
        if exc is not None:
            r = dict(base); r.update({"fn": fn, "kind": "raises_nonsingular", "exception": repr(exc)})
            c.pyviol("%s raised %r on a nonsingular matrix (log2 K = %.1f, prec %d)" % (fn, exc, 0.5 * lg2(K2), p), r)
            continue
        P, L, U = r_
        i = len(env)
        env += [smat(P), smat(L), smat(U)]
        checks += [(fn + "_resid", Le(Frob2(Sub(Mul(V(i), V(0)), Mul(V(i + 1), V(i + 2)))), nA)),
                   (fn + "_P_permutation", Kind("KPerm", V(i))),
                   (fn + "_L_unit_lower", Kind("KUnitLower", V(i + 1))),
                   (fn + "_U_upper", Kind("KUpper", V(i + 2)))]
    if spd:
        L, exc = call(c, "cholesky", lambda: mp.cholesky(A), A)
        if exc is not None:
            r = dict(base); r.update({"fn": "cholesky", "kind": "raises_spd", "exception": repr(exc)})
            c.pyviol("cholesky raised %r on a positive definite matrix" % (exc,), r)
        else:
            i = len(env); env.append(smat(L))
            checks += [("cholesky_resid", Le(Frob2(Sub(V(0), Mul(V(i), H(V(i))))), nA)),
                       ("cholesky_L_lower", Kind("KLower", V(i))),
                       ("cholesky_L_posdiag", Kind("KPosDiag", V(i)))]
    if checks:
        meta = dict(base); meta["fn"] = "lu/LU_decomp/cholesky"
        c.cases.append(Case("fa%d" % idx, env, checks, meta))
        c.note(A, "factorization: prec %d, %s%s A = %s" % (p, "SPD " if spd else "", kind, qprops.describe(A)))


def qr_case(c, idx, A, p, kind, cplx, mode):
    mp = c.mp
    m, n = A.rows, A.cols
    base = {"prec": p, "m": m, "n": n, "entries": kind, "complex": cplx, "A": qprops.raw(A), "mode": mode}
    r_, exc = call(c, "qr", lambda: mp.qr(A, mode=mode), A)
    if exc is not None:
        r = dict(base); r.update({"fn": "qr", "kind": "raises", "exception": repr(exc)})
        c.pyviol("qr raised %r on a %dx%d matrix" % (exc, m, n), r); return
    Qm, R = r_
    env = [smat(A), smat(Qm), smat(R)]
    checks = [("qr_resid", Le(Frob2(Sub(V(0), Mul(V(1), V(2)))), SMul(tol2(p), Frob2(V(0))))),
              ("qr_Q_orthonormal", Le(Frob2(Sub(Mul(H(V(1)), V(1)), Id(Qm.cols))), tol2(p))),
              ("qr_R_upper", Kind("KUpper", V(2)))]
    meta = dict(base); meta["fn"] = "qr"
    c.cases.append(Case("qr%d" % idx, env, checks, meta))
    c.note(A, "qr(%s): prec %d, %dx%d %s %s" % (mode, p, m, n, kind, "complex" if cplx else "real"))


def singular_case(c, idx, A, style, p):
    """exactly singular A.  For structurally singular matrices (zero / duplicated rows, zero column, 0 as 1x1) the
    elimination is exact in floating point and ZeroDivisionError is required; for generic integer rank deficiency
    (a row/column that is an integer combination of the others) detection depends on rounding residues versus the
    internal threshold ||A||_1*eps and is not covered by the property's text: the outcome is only recorded."""
    mp = c.mp
    n = A.rows
    strict = style in ("zero", "dup", "zerorow", "zerocol")
    b = mp.matrix([c.rng.randint(-9, 9) for _ in range(n)])
    base = {"prec": p, "n": n, "A": qprops.raw(A), "b": qprops.raw(b), "style": style}
    env = [smat(A)]
    checks = [("cert:det(A)=0", MatEq(Det(V(0)), Sub(Id(1), Id(1))))]
    for fn, f in (("inverse", lambda: mp.inverse(A)), ("lu_solve", lambda: mp.lu_solve(A, b))):
        r_, exc = call(c, fn + "_singular", f, A)
        out = "returned" if exc is None else type(exc).__name__
        key = "%s:%s:%s" % (fn, "structural" if strict else "generic_rank_deficient", out)
        c.observed[key] = c.observed.get(key, 0) + 1
        if strict and not isinstance(exc, ZeroDivisionError):
            r = dict(base); r.update({"fn": fn, "kind": "singular_" + out, "exception": repr(exc)})
            c.pyviol("%s on a structurally singular %dx%d matrix (%s): %s instead of ZeroDivisionError (prec %d)"
                     % (fn, n, n, style, "returned a result" if exc is None else repr(exc), p), r)
    meta = dict(base); meta["fn"] = "singular"
    c.cases.append(Case("sg%d" % idx, env, checks, meta))
    c.note(A, "singular (%s): prec %d, A = %s" % (style, p, qprops.describe(A)))


def fits(M, p):
    return all(abs(x).bit_length() <= p and abs(y).bit_length() <= p for r in M for x, y in r)


def elementwise_case(c, idx, p, cplx, exact):
    """exact: integer operands with representable results (equality);
       otherwise full-precision operands (one correct rounding per entry)"""
    mp, rng = c.mp, c.rng
    n = rng.randint(1, 6); m = rng.randint(1, 6); q = rng.randint(1, 6)
    kind = rng.choice(["int", "bigint"] if p >= 53 else ["int"]) if exact else "full"
    A = qprops.rand_matrix(rng, mp, m, n, kind, cplx)
    B = qprops.rand_matrix(rng, mp, m, n, kind, cplx)
    C2 = qprops.rand_matrix(rng, mp, n, q, kind, cplx)
    S = qprops.rand_matrix(rng, mp, n, n, "int", cplx)
    k = rng.randint(0, 4)
    env = [smat(A), smat(B), smat(C2), smat(S)]
    base = {"prec": p, "complex": cplx, "A": qprops.raw(A), "B": qprops.raw(B), "C": qprops.raw(C2), "S": qprops.raw(S),
            "k": k, "fn": "elementwise"}
    checks = []
    ops = [("add", lambda: A + B, Add(V(0), V(1))), ("sub", lambda: A - B, Sub(V(0), V(1))),
           ("mul", lambda: A * C2, Mul(V(0), V(2))), ("transpose", lambda: A.T, T(V(0))),
           ("conj_transpose", lambda: A.H, H(V(0)))]
    if exact:
        ops.append(("pow%d" % k, lambda: S ** k, Pow(V(3), k)))
        # products whose partial products need about 2p bits while the entries of the result fit p bits (cancellation):
        # rows (a, b) against columns (b + s, -a + t) give a*s + b*t
        a_ = (1 << (p - 5)) + rng.randint(1, 1 << 12); b_ = (1 << (p - 5)) + rng.randint(0, 1 << 12)
        cols = [(b_ + rng.randint(-2, 2), -a_ + rng.randint(-2, 2)) for _ in range(rng.randint(1, 3))]
        Mc1 = mp.matrix([[a_, b_]])
        Mc2 = mp.matrix([[x for x, _ in cols], [y for _, y in cols]])
        env += [smat(Mc1), smat(Mc2)]; i1 = len(env) - 2
        ops.append(("mul_cancel", lambda: Mc1 * Mc2, Mul(V(i1), V(i1 + 1))))
        base["Mc1"] = qprops.raw(Mc1); base["Mc2"] = qprops.raw(Mc2)
    for name, f, model in ops:
        c.count("matrix_" + name.rstrip("0123456789"))
        try:
            Rm = f()
        except Exception as e:  # noqa
            r = dict(base); r.update({"kind": name + "_raises", "exception": repr(e)})
            c.pyviol("matrix %s raised %r" % (name, e), r); continue
        want = Q.meval(env, model)
        env.append(smat(Rm)); i = len(env) - 1
        if name in ("transpose", "conj_transpose") or (exact and fits(want[1], p)):
            checks.append((name + "_exact", MatEq(V(i), model)))
        elif not exact:
            checks.append((name + "_rounded", Le(Frob2(Sub(V(i), model)), SMul(Pow2(-2 * p), Frob2(model)))))
        else:
            c.skip("exact result not representable in p bits")
    if not cplx:
        for name, f, model in (("mnorm1", lambda: mp.mnorm(A, 1), Norm1(V(0))),
                               ("mnorminf", lambda: mp.mnorm(A, mp.inf), NormInf(V(0)))):
            c.count(name)
            try:
                v = f()
            except Exception as e:  # noqa
                r = dict(base); r.update({"kind": name + "_raises", "exception": repr(e)})
                c.pyviol("%s raised %r on a %dx%d matrix" % (name, e, m, n), r); continue
            if exact:
                kc = const_of(v)
                checks.append((name + "_exact", And(Le(model, kc), Le(kc, model))))
            else:
                kc = const_of(v)          # one rounding of the exact maximum column/row sum
                checks.append((name + "_rounded", And(Le(SMul(Const((1 << p) - 1, p), model), kc),
                                                       Le(kc, SMul(Const((1 << p) + 1, p), model)))))
    # Frobenius norm: within one ulp of the square root of frob2 (squared comparison)
    c.count("norm2")
    try:
        N = mp.norm(A, 2)
    except Exception as e:  # noqa
        r = dict(base); r.update({"kind": "norm2_raises", "exception": repr(e)})
        c.pyviol("norm(A, 2) raised %r" % (e,), r); N = mp.mpf(0)
    if N != 0:
        s, man, ex, bc = N._mpf_
        u = mp.ldexp(mp.mpf(1), ex + bc - p)
        lo = mp.fsub(N, u, exact=True); hi = mp.fadd(N, u, exact=True)
        checks.append(("frobenius_within_1ulp", And(Le(Sqr(const_of(lo)), Frob2(V(0))), Le(Frob2(V(0)), Sqr(const_of(hi))))))
        if exact:
            F = Q.seval(env, Frob2(V(0)))[0]
            rt = math.isqrt(F)
            if rt * rt == F and rt.bit_length() <= p:
                checks.append(("frobenius_exact_square", And(Le(Sqr(const_of(N)), Frob2(V(0))), Le(Frob2(V(0)), Sqr(const_of(N))))))
    c.cases.append(Case("el%d" % idx, env, checks, base))
    c.note(A, "elementwise (%s): prec %d, %s A %dx%d, B %dx%d, C %dx%d, S^%d" %
           ("exact" if exact else "rounded", p, "complex" if cplx else "real", m, n, m, n, n, q, k), B, C2, S)


def make_spd(mp, rng, n, cplx, kind):
    B = qprops.rand_matrix(rng, mp, n, n, kind, cplx)
    return B.H * B + mp.eye(n)       # exact for small integer B


def make_singular(mp, rng, n):
    """exactly singular integer matrix: one row is an integer combination of the others (or structural zeros)"""
    A = qprops.rand_matrix(rng, mp, n, n, rng.choice(["int", "sparse"]), False)
    style = rng.choice(["rowcomb", "dup", "zerorow", "zerocol", "colcomb"]) if n > 1 else "zero"
    i = rng.randrange(n)
    if style == "zero":
        A[0, 0] = 0
    elif style == "rowcomb":
        co = [rng.randint(-3, 3) for _ in range(n)]
        for j in range(n):
            A[i, j] = sum(co[r] * A[r, j] for r in range(n) if r != i)
    elif style == "colcomb":
        co = [rng.randint(-3, 3) for _ in range(n)]
        for r in range(n):
            A[r, i] = sum(co[j] * A[r, j] for j in range(n) if j != i)
    elif style == "dup":
        j2 = (i + 1 + rng.randrange(n - 1)) % n
        for j in range(n):
            A[i, j] = A[j2, j]
        if not any(A[i, j] != 0 for j in range(n)):
            A[i, 0] = A[j2, 0] = 1
    elif style == "zerorow":
        for j in range(n):
            A[i, j] = 0
    else:
        for r in range(n):
            A[r, i] = 0
    return A, style


def build(rep, tier_, rng):
    import mpmath
    from mpmath import mp
    c = Ctx(rep, rng, mp)
    N = 80 if tier_ == "quick" else 1200
    precs = [30, 40, 53, 64, 100, 150, 200, 300]
    p0 = mp.prec
    try:
        for idx in range(N):
            p = rng.choice(precs); mp.prec = p
            cplx = rng.random() < 0.35
            kind = rng.choice(["int", "int", "dy", "dec", "full", "sparse", "hilbert"])
            n = rng.randint(1, 8)
            spd = rng.random() < 0.3
            # --- square systems
            if kind == "hilbert":
                n = rng.randint(1, 7)
                A = mp.hilbert(n); cplx = False; spd = True
            elif spd:
                A = make_spd(mp, rng, n, cplx, "int")
            else:
                A = qprops.rand_matrix(rng, mp, n, n, kind, cplx)
            b = qprops.rand_matrix(rng, mp, n, 1, "int" if kind in ("hilbert", "sparse") else kind, cplx)
            square_case(c, idx, A, b, p, kind, cplx, spd)
            if idx % 2 == 0:
                fact_case(c, idx, A, p, kind, cplx, spd)
            # --- overdetermined
            if idx % 3 == 0:
                n2 = rng.randint(1, 6); m2 = min(8, n2 + rng.randint(1, 3))
                k2 = rng.choice(["int", "dy", "dec"])
                A2 = qprops.rand_matrix(rng, mp, m2, n2, k2, cplx)
                x0 = qprops.rand_matrix(rng, mp, n2, 1, "int", cplx)
                b2 = A2 * x0 + qprops.rand_matrix(rng, mp, m2, 1, "int", cplx) / 8
                over_case(c, idx, A2, b2, p, k2, cplx)
            # --- qr
            if idx % 2 == 1:
                n3 = rng.randint(2, 7); m3 = min(8, n3 + rng.randint(0, 3))
                k3 = rng.choice(["int", "dy", "dec", "full", "sparse"])
                A3 = qprops.rand_matrix(rng, mp, m3, n3, k3, cplx)
                if rng.random() < 0.35:
                    # graded columns: the part below the diagonal is 2^-20 ... 2^-60 of the diagonal entry (the Householder
                    # reflection must not cancel alpha against a norm of the same sign)
                    k3 = "graded"
                    for j in range(n3):
                        sc = mp.ldexp(mp.mpf(1), -rng.randint(20, 60))
                        for i in range(j + 1, m3): A3[i, j] = A3[i, j] * sc
                        if A3[j, j] == 0: A3[j, j] = rng.choice([-3, 2, 5, -7])
                qr_case(c, idx, A3, p, k3, cplx, rng.choice(["full", "skinny"]))
            # --- singular
            if idx % 4 == 0:
                singular_case(c, idx, *make_singular(mp, rng, rng.randint(1, 7)), p)
            # --- elementwise
            if idx % 2 == 0:
                elementwise_case(c, idx, p, cplx, exact=(idx % 4 == 0))
    finally:
        mp.prec = p0
    return c


def what(case, label):
    m = case.meta
    return "%s: certified violation of '%s' (prec %s, size %s) — Coq proved the bound false" % (
        m.get("fn"), label, m.get("prec"), m.get("n", m.get("m")))


def run(rep, tier_, rng):
    qprops.load_known(rep)
    c = build(rep, tier_, rng)
    stats = run_cases(TAG, c.cases, timeout=600 if tier_ == "quick" else 1500)
    counts = summarize(rep, TAG, c.cases, what)
    qprops.coverage(rep, TAG, c.cases, stats, counts, c.evals, c.keys,
                    "random square (1..8), SPD (B^H B + I), Hilbert, overdetermined (m<=8), exactly singular and sparse "
                    "matrices with integer / dyadic / decimal-string / full-precision entries, real and complex, "
                    "prec in {30..300}; non-trivial = at least 2x2 with a nonzero off-diagonal entry, counted by distinct "
                    "raw input tuples", c.samples,
                    {"calls_by_function": c.fn_counts, "skipped": c.skipped,
                     "python_level_violations": c.py_violations,
                     "singular_outcomes": c.observed,
                     "not_certified": "the residual norm returned by qr_solve (second component) is not checked; "
                                      "singular-matrix behaviour is an observation of the raised exception type, "
                                      "only det(A) = 0 is certified"})
    rep.assumptions = ["cond(A) is taken in the Frobenius norm, K = ||A||_F ||A^-1||_F >= cond_2(A) (norm unspecified in the property)",
                       "moderate condition number = K * 2^(10-p) <= 2^-%d" % DOMAIN_BITS,
                       "orthonormality of Q is certified as ||Q^H Q - I||_F <= 2^(10-p) (absolute: ||Q||_2 = 1)"]


def replay(rep, path):
    d = json.load(open(path))["replay"]
    if "coq_text" in d:
        ok, cmd, log = replay_file(rep, d)
        print("replay: Coq %s the recorded statement (%s)" % ("re-proved" if ok else "could NOT re-prove", cmd))
        if ok:
            rep.violation("replayed certified violation: " + str(d.get("kind")), d)
    else:
        print("python-level observation; re-run the call described in the replay dict:", d.get("fn"), d.get("kind"))
    rep.coverage = {"evaluations": 1, "distinct_nontrivial": 1, "rule": "replay", "samples": [str(d.get("kind"))]}
