"""C36 -- chebyfit reproduces polynomials of degree < N to 2^(10-p) relative and its reported error is consistent with the
actual error on sample points; fourier recovers the coefficients of trigonometric polynomials of degree <= N to the same
accuracy; fourierval evaluates a series as its definition.

Engine B:
  * chebyfit on a polynomial P (rational coefficients, rational interval): the returned dyadic coefficients define a
    polynomial R; at N+20 rational points x_i of [a,b] (endpoints included) the exact rational |R(x_i) - P(x_i)| is bounded by
    2^(10-p) * max_j |P(x_j)| -- one Z lemma per call in which Coq evaluates both polynomials (Horner over Z);
  * error=True: at the same points |f(x_i) - R(x_i)| <= 2*err + 2^(10-p)*max|f| (polynomials: Z lemma; exp / sin / 1/(x+c): interval);
  * fourier on a planted trigonometric polynomial: |a_n - A_n|, |b_n - B_n| <= 2^(10-p)*max|planted| for all n <= N (Z lemma);
  * fourierval(series, [a,b], x) against sum c_n cos(2 pi n x/L) + s_n sin(2 pi n x/L) by `interval`."""
import time
from fractions import Fraction
from common import *
import cert, sweep, calcb
from cert import Const, ZERO, ONE, HALF, PI, lift
from calcb import fs, fr, fsl, frl, rq, rpoly, tol_instance
from props.engineb import run_and_report, replay_generic, short, mk_mpf
from props import c12

LEVEL = "exploration"

ASSUMPTIONS = [
    "'reproduces polynomials of degree below N to within 2^(10-p) relative' is read in the sup norm on the sample: "
    "|R(x_i) - P(x_i)| <= 2^(10-p) * max_j |P(x_j)| at N+20 rational points x_i of [a,b] including both endpoints (the pointwise "
    "relative error is meaningless at zeros of P).",
    "Domain sampled: N <= 12, endpoints rational with |a|,|b| <= 2 and b-a >= 1/2 (chebyfit returns *expanded* monomial coefficients "
    "whose conditioning the docstring warns about; intervals far from the origin / high degrees are not generated).",
    "'its reported error bound is consistent with the actual error on sample points' is read as: the actual error at each of the N+20 "
    "sample points is at most 2*err + 2^(10-p)*max|f| (err is itself only the maximum over N Chebyshev points, so a factor 2 and the "
    "rounding floor are allowed; the other direction -- err not grossly pessimistic -- is not checked).",
    "fourier: f(t) = A_0 + sum_{n<=D} A_n cos(2 pi n (t)/L) + B_n sin(2 pi n t/L) with planted rational coefficients, D <= N <= 8, L = b-a; "
    "'the same accuracy' is read as |recovered - planted| <= 2^(10-p)*max(|A_n|,|B_n|); coefficients of order D < n <= N must come back as "
    "(near) zero under the same absolute bound; the sine coefficient of order 0 must be 0.",
    "fourierval reference = the definition sum c_n cos(2 pi n x/L) + s_n sin(2 pi n x/L) with L = b-a (exact dyadic coefficients and "
    "point; cos(pi r)/sin(pi r) after exact reduction of the rational r to [-1/2,1/2] by periodicity, exact values at multiples of 1/2); "
    "'exactly as their definition' is read up to rounding: |y - ref| <= 2^(10-p)*max(|ref|, sum|c_n|+sum|s_n|, 1) (the terms are computed in p-bit "
    "arithmetic with arguments 2 pi n x/L up to ~90 rad, so the achievable error is relative to the size of the terms, not of the possibly "
    "cancelling sum); coefficients |c| <= 64, |x| <= 2, L >= 1.",
    "The functions handed to mpmath are Python lambdas evaluating the same expressions at the working precision in force.",
    "Universal accuracy is NOT proved: sampled instances only (level exploration, certified oracle).",
]


def _zl(n):
    return "(%d)" % n if n < 0 else "%d" % n


def horner_z(coeffs_int, xn, xd, deg):
    """Z text of  sum_k c_k xn^k xd^(deg-k)  (= xd^deg * P(xn/xd) for integer c_k), Horner form"""
    # ((c_deg * xn + c_{deg-1} * xd) * xn + c_{deg-2} * xd^2) ...
    t = _zl(coeffs_int[deg])
    for j in range(1, deg + 1):
        t = "(%s * %s + %s * %s ^ %d)" % (t, _zl(xn), _zl(coeffs_int[deg - j]), _zl(xd), j)
    return t


def horner_val(coeffs_int, xn, xd, deg):
    t = coeffs_int[deg]
    for j in range(1, deg + 1):
        t = t * xn + coeffs_int[deg - j] * xd ** j
    return t


def sample_points(a, b, n):
    return [a + (b - a) * Fraction(i, n - 1) for i in range(n)]


def common_int(vals):
    from math import lcm
    L = 1
    for v in vals:
        L = lcm(L, Fraction(v).denominator)
    return [int(Fraction(v) * L) for v in vals], L


# ------------------------------------------------------------------------------------------ generators

def g_cheby_poly(rng):
    N = rng.randint(1, 12)
    deg = rng.randint(0, N - 1)
    P = rpoly(rng, deg)
    a = Fraction(rng.randint(-8, 6), 4)
    b = a + Fraction(rng.randint(2, 12), 4)
    b = min(b, Fraction(2))
    if b - a < Fraction(1, 2): a = b - 1
    return {"kind": "cheby_poly", "P": fsl(P), "a": fs(a), "b": fs(b), "N": N, "error": rng.random() < 0.5}


def g_cheby_fn(rng):
    f = rng.choice(["exp", "sin", "recip"])
    a = Fraction(rng.randint(-8, 4), 4)
    b = min(a + Fraction(rng.randint(2, 8), 4), Fraction(2))
    if b - a < Fraction(1, 2): a = b - 1
    c = Fraction(rng.randint(1, 3), rng.choice([1, 2]))
    return {"kind": "cheby_fn", "f": f, "c": fs(c), "a": fs(a), "b": fs(b), "N": rng.randint(3, 12), "error": True}


def g_fourier(rng):
    N = rng.randint(0, 8)
    D = rng.randint(0, N)
    a = Fraction(rng.randint(-8, 8), 4)
    L = Fraction(rng.choice([1, 2, 3, 4, 1, 2]), rng.choice([1, 1, 2]))
    A = [rq(rng, 4, dens=(1, 2, 3)) for _ in range(D + 1)]
    B = [Fraction(0)] + [rq(rng, 4, dens=(1, 2, 3)) for _ in range(D)]
    if all(v == 0 for v in A + B): A[0] = Fraction(1)
    return {"kind": "fourier", "A": fsl(A), "B": fsl(B), "a": fs(a), "b": fs(a + L), "N": N}


def g_fourierval(rng, prec):
    n1, n2 = rng.randint(1, 7), rng.randint(0, 7)
    def co():
        return Fraction(rng.randint(-2 ** 12, 2 ** 12), 2 ** rng.randint(6, 12)) if rng.random() < 0.8 else Fraction(0)
    cs = [co() for _ in range(n1)]; ss = [co() for _ in range(n2)]
    a = Fraction(rng.randint(-8, 8), 4); L = Fraction(rng.choice([1, 2, 3, 4, 6]), 1) if rng.random() < 0.7 else Fraction(rng.choice([3, 5]), 2)
    x = Fraction(rng.randint(-32, 32), 16)
    return {"kind": "fourierval", "cs": fsl(cs), "ss": fsl(ss), "a": fs(a), "b": fs(a + L), "x": fs(x)}


# ------------------------------------------------------------------------------------------ calls

def fn_term(spec, x):
    c = fr(spec["c"])
    if spec["f"] == "exp": return cert.exp(Const(c) * x)
    if spec["f"] == "sin": return cert.sin(Const(c) * x)
    return ONE / (x + Const(c + 2))            # pole at -(c+2) <= -3, interval inside [-2,2]


def do_call(ctx, spec, prec, timeout):
    k = spec["kind"]
    p0 = ctx.prec
    q = lambda v: ctx.mpf(Fraction(v).numerator) / Fraction(v).denominator
    try:
        ctx.prec = prec
        if k in ("cheby_poly", "cheby_fn"):
            a, b = fr(spec["a"]), fr(spec["b"])
            if k == "cheby_poly":
                P = frl(spec["P"])
                f = lambda x: ctx.polyval([q(c) for c in reversed(P)], x)
            else:
                f = calcb.compile_mp(fn_term(spec, calcb.X()), ["x"], ctx)
            iv = [mk_mpf(ctx, a), mk_mpf(ctx, b)]
            r = sweep.call_with_timeout(lambda: ctx.chebyfit(f, iv, spec["N"], error=bool(spec["error"])), timeout)
            if spec["error"]:
                return {"coeffs": list(r[0]), "err": r[1]}
            return {"coeffs": list(r), "err": None}
        if k == "fourier":
            A, B = frl(spec["A"]), frl(spec["B"]); a, b = fr(spec["a"]), fr(spec["b"]); L = b - a
            def f(t):
                w = 2 * ctx.pi * t / q(L)
                s = q(A[0])
                for n in range(1, len(A)):
                    s = s + q(A[n]) * ctx.cos(n * w) + q(B[n]) * ctx.sin(n * w)
                return s
            cs, ss = sweep.call_with_timeout(lambda: ctx.fourier(f, [mk_mpf(ctx, a), mk_mpf(ctx, b)], spec["N"]), timeout)
            return {"cs": list(cs), "ss": list(ss)}
        if k == "fourierval":
            cs = [mk_mpf(ctx, v) for v in frl(spec["cs"])]; ss = [mk_mpf(ctx, v) for v in frl(spec["ss"])]
            a, b = fr(spec["a"]), fr(spec["b"])
            y = ctx.fourierval((cs, ss), [mk_mpf(ctx, a), mk_mpf(ctx, b)], mk_mpf(ctx, fr(spec["x"])))
            return {"y": y}
        raise KeyError(k)
    finally:
        ctx.prec = p0


def build_instances(cid, spec, prec, R, regime):
    eps = calcb.eps_of(prec)
    k = spec["kind"]
    out, direct = [], []
    def meta(part, fn, clause="accuracy"):
        return {"fn": fn, "regime": regime, "p": prec, "call": cid, "part": part, "clause": clause}
    if k in ("cheby_poly", "cheby_fn"):
        N = spec["N"]
        d = [calcb.frac_of(v) for v in R["coeffs"]]
        if len(d) != N or any(v is None for v in d):
            return [], ["chebyfit returned %d coefficients for N=%d (or non-finite entries)" % (len(d), N)]
        Rl = list(reversed(d))                         # low-order first
        a, b = fr(spec["a"]), fr(spec["b"])
        xs = sample_points(a, b, N + 20)
        err = calcb.frac_of(R["err"]) if R["err"] is not None else None
        if k == "cheby_poly":
            P = frl(spec["P"]) + [Fraction(0)] * (N - len(frl(spec["P"])))
            ints, Lc = common_int(Rl + P)              # R and P over one common denominator
            Ri, Pi = ints[:N], ints[N:]
            Di = [r - p for r, p in zip(Ri, Pi)]       # difference polynomial (exact)
            deg = N - 1
            M = max(abs(calcb.pval(P, x)) for x in xs)
            # |D(x_i)| <= eps * M  for all i:  |Dnum_i| * 2^(p-10) * M.den <= M.num * Lc * xd_i^deg
            parts, ok = [], True
            e_n, e_d = eps.numerator, eps.denominator
            for x in xs:
                xn, xd = x.numerator, x.denominator
                lhs = "Z.abs %s * %d * %d" % (horner_z(Di, xn, xd, deg), e_d, M.denominator)
                rhs = "%d * %d * %d * %s ^ %d" % (e_n, M.numerator, Lc, _zl(xd), deg)
                parts.append("(%s <=? %s)" % (lhs, rhs))
                ok = ok and abs(horner_val(Di, xn, xd, deg)) * e_d * M.denominator <= e_n * M.numerator * Lc * xd ** deg
            body = "(" + " && ".join(parts) + ")%bool"
            out.append(cert.Instance(cid + "_fit", body + " = true", [body + " = false"], kind="Z", hint="pass" if ok else "fail",
                                     meta=meta("fit", "chebyfit"), trivial=False))
            if err is not None:
                parts, ok = [], True
                bnd = 2 * err + eps * M
                for x in xs:
                    xn, xd = x.numerator, x.denominator
                    lhs = "Z.abs %s * %d" % (horner_z(Di, xn, xd, deg), bnd.denominator)
                    rhs = "%d * %d * %s ^ %d" % (bnd.numerator, Lc, _zl(xd), deg)
                    parts.append("(%s <=? %s)" % (lhs, rhs))
                    ok = ok and abs(horner_val(Di, xn, xd, deg)) * bnd.denominator <= bnd.numerator * Lc * xd ** deg
                body = "(" + " && ".join(parts) + ")%bool"
                out.append(cert.Instance(cid + "_err", body + " = true", [body + " = false"], kind="Z", hint="pass" if ok else "fail",
                                         meta=meta("error-estimate", "chebyfit", "reported error consistent"), trivial=False))
        else:
            if err is None:
                return [], ["no error estimate returned"]
            ft = fn_term(spec, calcb.X())
            vals = [calcb.at(ft, "x", x) for x in xs]
            M = max(abs(calcb.num(v, 60)) for v in vals)
            Mq = Fraction(int(M * 2 ** 40), 2 ** 40)                  # rational below max|f| on the sample (floor)
            bnd = 2 * err + eps * Mq
            for i in sorted(set([0, len(xs) - 1] + list(range(1, len(xs) - 1, max(1, len(xs) // 6))))):
                x = xs[i]
                Rx = calcb.pval(Rl, x)
                e = abs(vals[i] - Const(Rx))
                atoms = [(e, "<=", Const(bnd))]
                negs = [[(Const(bnd), "<", e)]]
                out.append(cert.atoms_instance("%s_err%d" % (cid, i), atoms, negs, meta=meta("error-estimate@%s" % fs(x), "chebyfit", "reported error consistent")))
        return out, direct
    if k == "fourier":
        A, B = frl(spec["A"]), frl(spec["B"]); N = spec["N"]
        cs = [calcb.frac_of(v) for v in R["cs"]]; ss = [calcb.frac_of(v) for v in R["ss"]]
        if len(cs) != N + 1 or len(ss) != N + 1 or any(v is None for v in cs + ss):
            return [], ["fourier returned lists of length %d/%d for N=%d" % (len(cs), len(ss), N)]
        M = max(abs(v) for v in A + B)
        bnd = eps * M
        parts, ok, exact = [], True, True
        for n in range(N + 1):
            for got, want in ((cs[n], A[n] if n < len(A) else Fraction(0)), (ss[n], B[n] if n < len(B) else Fraction(0))):
                x, y = cert._zscaled([abs(got - want), bnd])
                parts.append("(%s <=? %s)" % (_zl(x), _zl(y)))
                ok = ok and x <= y
                exact = exact and got == want
        body = "(" + " && ".join(parts) + ")%bool"
        out.append(cert.Instance(cid + "_coef", body + " = true", [body + " = false"], kind="Z", hint="pass" if ok else "fail",
                                 meta=meta("coefficients", "fourier"), trivial=exact))
        return out, direct
    if k == "fourierval":
        y = calcb.frac_of(R["y"])
        if y is None:
            return [], ["fourierval returned %r" % (R["y"],)]
        cs, ss = frl(spec["cs"]), frl(spec["ss"]); a, b = fr(spec["a"]), fr(spec["b"]); x = fr(spec["x"])
        ref = ZERO
        for n, c in enumerate(cs):
            if c: ref = ref + Const(c) * c12.cospi_real(2 * n * x / (b - a))
        for n, c in enumerate(ss):
            if c: ref = ref + Const(c) * c12.sinpi_real(2 * n * x / (b - a))
        S = sum(abs(c) for c in cs) + sum(abs(c) for c in ss)
        out.append(tol_instance(cid + "_val", y, ref, eps, meta=meta("value", "fourierval"), abs_floor=Const(max(S, Fraction(1)))))
        return out, direct
    raise KeyError(k)


def regime_of(spec):
    k = spec["kind"]
    if k == "cheby_poly": return "poly/N%s/%s" % ("<=6" if spec["N"] <= 6 else ">6", "error" if spec["error"] else "plain")
    if k == "cheby_fn": return "fn:%s" % spec["f"]
    if k == "fourier": return "N%d" % spec["N"]
    return "fourierval"


def fn_of(spec):
    return {"cheby_poly": "chebyfit", "cheby_fn": "chebyfit", "fourier": "fourier", "fourierval": "fourierval"}[spec["kind"]]


def plan(rng, tier_):
    q = tier_ == "quick"
    precs = [30, 53, 100] if q else [30, 53, 100, 200]
    jobs = []
    for i in range(30 if q else 200): jobs.append((g_cheby_poly(rng), rng.choice(precs)))
    for i in range(8 if q else 50): jobs.append((g_cheby_fn(rng), rng.choice(precs[:3])))
    for i in range(16 if q else 100): jobs.append((g_fourier(rng), rng.choice(precs[:3] if q else precs)))
    for i in range(24 if q else 150):
        p = rng.choice(precs); jobs.append((g_fourierval(rng, p), p))
    rng.shuffle(jobs)
    return jobs


def run(rep, tier_, rng):
    calcb.load_known_b2(rep)
    from mpmath import mp
    q = tier_ == "quick"
    t0 = time.time()
    jobs = plan(rng, tier_)
    insts, calls = [], {}
    stats = {"raised": [], "timeouts": 0, "skipped_for_time": 0, "python_level_failures": 0}
    gen_budget = 60 if q else 600
    for n, (spec, prec) in enumerate(jobs):
        if time.time() - t0 > gen_budget:
            stats["skipped_for_time"] = len(jobs) - n; break
        fn = fn_of(spec); regime = regime_of(spec)
        cid = "a%04d" % n
        call = {"fn": fn, "regime": regime, "kclass": spec["kind"], "prec": prec, "spec": spec}
        try:
            R = do_call(mp, spec, prec, 30 if q else 200)
        except sweep.CallTimeout:
            stats["timeouts"] += 1; continue
        except Exception as ex:
            calls[cid] = call
            stats["raised"].append({"regime": regime, "exc": repr(ex)[:100]})
            rep.violation("C36 %s raised %s (%s)" % (fn, repr(ex)[:80], regime), dict(call, clause="raised")); continue
        calls[cid] = call
        try:
            new, direct = build_instances(cid, spec, prec, R, regime)
        except (cert.EstimateError, ZeroDivisionError, ValueError):
            stats.setdefault("skipped_estimate", 0); stats["skipped_estimate"] += 1; continue
        for d in direct:
            stats["python_level_failures"] += 1
            rep.violation("C36 %s: %s (%s)" % (fn, d, regime), dict(call, clause="shape"))
        insts += new
    tgen = time.time() - t0
    regimes = {}
    for c in calls.values():
        regimes[c["fn"] + ":" + c["regime"]] = regimes.get(c["fn"] + ":" + c["regime"], 0) + 1
    insts, not_attempted = calcb.fit_budget(insts, max(30, (115 if q else 1100) - tgen))
    run_and_report(rep, insts, calls, tag="C36_%s" % tier_, params={"sentence_timeout": 60, "single_timeout": 80},
                   budget=max(30, (115 if q else 1100) - tgen), jobs=10,
                   rule="each evaluation = one call of chebyfit / fourier / fourierval of the current /repo code: chebyfit on random "
                        "polynomials (degree < N <= 12, rational coefficients, rational interval inside [-2,2]) with and without error=True, "
                        "and on exp(cx), sin(cx), 1/(x+c+2) with error=True; fourier on planted trigonometric polynomials (degree <= N <= 8, "
                        "rational coefficients, period 1/2..4); fourierval on random dyadic series at dyadic points; p in {30,53,100(,200)}; "
                        "distinct = distinct lemma statements; non-trivial = not an exact hit against a rational",
                   assumptions=ASSUMPTIONS,
                   extra_cov={"lemmas_not_attempted_for_time": not_attempted, "regimes": regimes, "generation_wall_s": round(tgen, 1), "tolerance": "2^(10-p) (see assumptions for the scale)", **stats})


def replay(rep, path):
    calcb.load_known_b2(rep)

    def rebuild(r):
        from mpmath import mp
        spec = r["spec"]
        R = do_call(mp, spec, r["prec"], 600)
        cid = "replay"
        call = {k: r[k] for k in ("fn", "regime", "kclass", "prec", "spec") if k in r}
        new, direct = build_instances(cid, spec, r["prec"], R, r["regime"])
        for d in direct:
            rep.violation("C36 %s: %s" % (r["fn"], d), dict(call, clause="shape"))
        return new, {cid: call}
    replay_generic(rep, path, rebuild)
