"""C25 — integer-valued and number-theoretic functions are exact."""
from fractions import Fraction
import math
from common import *
import zcert
from props.enginea import proof_side

LEVEL = "proof"


def zl(xs):
    return "[" + "; ".join("(%d)" % x for x in xs) + "]"


def run(rep, tier_, rng):
    import mpmath
    from mpmath import mp
    import mpmath.libmp.libintmath as LI
    from mpmath.libmp import gammazeta as GZ
    obligations, discharged, trusted, cmds = proof_side(rep, "C25")
    big = tier_ != "quick"
    N_FAC = 700 if big else 300
    checks = []; meta = {}
    def add(expr, **m):
        i = len(checks); checks.append((i, expr)); meta[i] = m
    defs = "Definition zeqb_list (a b : list Z) : bool := (length a =? length b)%nat && forallb (fun p => fst p =? snd p) (combine a b).\n" \
           "Definition ztab (a n : nat) : list Z := map Z.of_nat (seq a n).\n" \
           "Definition qeqb_list (a b : list (Z * Z)) : bool := (length a =? length b)%nat && forallb (fun p => (fst (fst p) =? fst (snd p)) && (snd (fst p) =? snd (snd p))) (combine a b).\n"
    # call the cached functions in a scrambled order first (history independence of the memo caches)
    order = list(range(N_FAC)); rng.shuffle(order)
    for n in order[:200]:
        LI.ifac(n); LI.ifac2(n); LI.eulernum(2 * (n % 60))
    add("zeqb_list (map zfact (ztab 0 %d)) %s" % (N_FAC, zl([LI.ifac(n) for n in range(N_FAC)])), fn="ifac", range=[0, N_FAC])
    add("zeqb_list (map zfact2 (ztab 0 %d)) %s" % (N_FAC, zl([LI.ifac2(n) for n in range(N_FAC)])), fn="ifac2", range=[0, N_FAC])
    add("zeqb_list (map zfib (ztab 0 %d)) %s" % (N_FAC, zl([LI.ifib(n) for n in range(N_FAC)])), fn="ifib", range=[0, N_FAC])
    # ifib as an algorithm (Dijkstra's logarithmic iteration + cache below 250): the Gallina model of the routine (Algo/Intfun.v,
    # proved equal to the recurrence for every n and call history) is run inside Coq on the same call sequence as the live code
    fib_seq = [rng.choice([rng.randint(-300, 300), rng.randint(240, 260), rng.randint(0, 40), rng.randint(1000, 6000 if big else 3000)])
               for _ in range(60 if big else 30)] + [249, 250, 251, 249, -250, 0, 1, -1, 2, 4, -4, -4, 6, -6, 100, -100, -100, -7, -7, 248, -248]
    LI.ifib.__defaults__[0].clear()
    add("zeqb_list (fib_calls [] %s) %s" % (zl(fib_seq), zl([int(LI.ifib(n)) for n in fib_seq])), fn="ifib (model of the algorithm, call history)",
        range=[min(fib_seq), max(fib_seq)])
    # ifac2 likewise: the model of the memoised routine (two dictionaries, cache limit) against the live one on one call sequence
    f2_seq = [rng.choice([rng.randint(0, 60), rng.randint(990, 1012), rng.randint(0, 2200 if big else 1300)]) for _ in range(50 if big else 25)] + [1001, 999, 1000, 1002, 7, 0, 1, 1501, 1201, 1400, 1300, 1003, 1005, 998]
    d0, d1 = LI.ifac2.__defaults__[0]
    d0.clear(); d0[0] = 1; d1.clear(); d1[1] = 1
    add("zeqb_list (fac2_calls %d ([(0, 1)], [(1, 1)]) %s) %s" % (LI.MAX_FACTORIAL_CACHE, zl(f2_seq), zl([int(LI.ifac2(n)) for n in f2_seq])),
        fn="ifac2 (model of the algorithm, call history)", range=[0, max(f2_seq)])
    nb = 40 if big else 24
    add("zeqb_list (flat_map (fun n => map (fun k => stirling1_ref n k) (ztab 0 %d)) (ztab 0 %d)) %s"
        % (nb, nb, zl([int(LI.stirling1(n, k)) for n in range(nb) for k in range(nb)])), fn="stirling1", range=[0, nb])
    add("zeqb_list (flat_map (fun n => map (fun k => stirling2_ref n k) (ztab 0 %d)) (ztab 0 %d)) %s"
        % (nb, nb, zl([int(LI.stirling2(n, k)) for n in range(nb) for k in range(nb)])), fn="stirling2", range=[0, nb])
    add("zeqb_list (flat_map (fun n => map (fun k => binom n k) (ztab 0 %d)) (ztab 0 %d)) %s"
        % (nb, nb, zl([int(mp.binomial(n, k)) for n in range(nb) for k in range(nb)])), fn="binomial", range=[0, nb])
    p0 = mp.prec
    mp.prec = 400
    add("zeqb_list (map bell_ref (ztab 0 %d)) %s" % (nb, zl([int(mp.bell(n)) for n in range(nb)])), fn="bell", range=[0, nb])
    mp.prec = p0
    ne = 60 if big else 30
    add("zeqb_list (euler_list %d) %s" % (ne, zl([int(LI.eulernum(2 * k)) for k in range(ne + 1)])), fn="eulernum", range=[0, 2 * ne])
    add("zeqb_list (map (fun k => 0) (ztab 0 %d)) %s" % (ne, zl([int(LI.eulernum(2 * k + 1)) for k in range(ne)])), fn="eulernum odd", range=[1, 2 * ne])
    nbern = 120 if big else 60
    bl = [GZ.bernfrac(n) for n in range(nbern + 1)]
    add("qeqb_list (bern_list %d) [%s]" % (nbern, "; ".join("((%d), (%d))" % (p if n != 1 else -p if p > 0 else p, q) for n, (p, q) in enumerate(bl))),
        fn="bernfrac", range=[0, nbern])
    NM = 6000 if big else 2500
    add("zeqb_list (map moebius_ref (ztab 0 %d)) %s" % (NM, zl([LI.moebius(n) for n in range(NM)])), fn="moebius", range=[0, NM])
    add("zeqb_list (map (fun n => if isprime_ref n then 1 else 0) (ztab 0 %d)) %s" % (NM, zl([int(bool(LI.isprime(n))) for n in range(NM)])),
        fn="isprime", range=[0, NM])
    add("zeqb_list (filter isprime_ref (ztab 0 %d)) %s" % (NM + 1, zl(LI.list_primes(NM))), fn="list_primes", range=[0, NM])
    add("zeqb_list (map (fun n => Z.of_nat (length (filter isprime_ref (ztab 0 (S (Z.to_nat n)))))) (ztab 0 400)) %s" % zl([int(mp.primepi(n)) for n in range(400)]),
        fn="primepi", range=[0, 400])
    # composites that fool weak Miller-Rabin variants: must be reported composite (factor certificate checked by Coq)
    pseudo = [(561, 3), (1105, 5), (1729, 7), (2047, 23), (1373653, 829), (25326001, 2251), (3215031751, 151), (2152302898747, 6763),
              (3474749660383, 1303), (341550071728321, 10670053), (3825123056546413051, 149491), (318665857834031151167461, 399165290221)]
    for n, f in pseudo:
        add("(%d mod %d =? 0) && (1 <? %d) && (%d <? %d) && negb %s" % (n, f, f, f, n, "true" if LI.isprime(n) else "false"), fn="isprime pseudoprime", n=n)
    for pr in (1000003, 15485863, 2147483647) + ((99999999977,) if big else ()):
        add("Bool.eqb (isprime_ref %d) %s" % (pr, "true" if LI.isprime(pr) else "false"), fn="isprime prime", n=pr)
    for _ in range(40 if not big else 200):
        n = rng.randint(10**6, 10**9) | 1
        add("Bool.eqb (isprime_ref %d) %s" % (n, "true" if LI.isprime(n) else "false"), fn="isprime random", n=n)
    # public functions at arguments whose exact value exceeds the precision: exact when it fits, else within one ulp
    inst = 0
    for _ in range(150 if not big else 1500):
        prec = rng.choice([10, 24, 53, 100, 200]); mp.prec = prec
        n = rng.choice([rng.randint(0, 30), rng.randint(20, 400), rng.randint(300, 2500)])
        k = rng.randint(0, max(0, min(n, 60)))
        which = rng.randrange(7)
        if which == 0: v, ex, nm = mp.factorial(n), "zfact %d" % n, "factorial"
        elif which == 1: v, ex, nm = mp.fac2(n), "zfact2 %d" % n, "fac2"
        elif which == 2:
            if rng.random() < 0.45 and n > 0:       # negative arguments: F(-n) = (-1)^(n+1) F(n)
                v, ex, nm = mp.fib(-n), "((-1) ^ %d * zfib %d)" % (n + 1, n), "fib"
            else:
                v, ex, nm = mp.fib(n), "zfib %d" % n, "fib"
        elif which == 3:
            n = min(n, 600); v, ex, nm = mp.binomial(n, k), "binom %d %d" % (n, k), "binomial"
        elif which == 4:
            n = min(n, 80); k = min(k, n); v, ex, nm = mp.stirling2(n, k), "stirling2_ref %d %d" % (n, k), "stirling2"
        elif which == 5:
            n = min(n, 80); k = min(k, n); v, ex, nm = mp.stirling1(n, k), "stirling1_ref %d %d" % (n, k), "stirling1"
        else:
            n = min(n, 400); a = rng.randint(1, 50); v, ex, nm = mp.rf(a, n % 40), "(zfact %d / zfact %d)" % (a + n % 40 - 1, a - 1), "rf"
        t = v._mpf_
        inst += 1
        if is_special(t) or (t[1] == 0 and nm not in ("fib", "binomial", "stirling1", "stirling2")):
            rep.violation("%s(%d) returned %r" % (nm, n, t), {"fn": nm, "n": n, "prec": prec}); continue
        sgn = -1 if t[0] else 1
        m, e = sgn * t[1], t[2]
        # |m*2^e - X| <= 2^(e + bc - prec) (one ulp of the result) ; and exact when X fits in prec bits
        if e >= 0:
            diff = "Z.abs (%d * 2 ^ %d - (%s))" % (m, e, ex); ulp = "2 ^ (%d)" % max(0, e + t[3] - prec)
            add("(%s <=? %s) && (if Z.log2 (Z.abs (%s)) + 1 - (let x := Z.abs (%s) in Z.log2 (Z.land x (- x))) <=? %d then %s =? 0 else true)"
                % (diff, ulp, ex, ex, prec, diff) if True else "", fn=nm, n=n, k=k, prec=prec)
        else:
            add("Z.abs (%d - (%s) * 2 ^ %d) <=? 2 ^ (%d)" % (m, ex, -e, max(0, t[3] - prec)), fn=nm, n=n, k=k, prec=prec)
    # rising / falling factorials of integers that fill (or exceed) the precision: exact integer products as reference
    for _ in range(40 if not big else 400):
        prec = rng.choice([10, 24, 53, 64, 113, 200]); mp.prec = prec
        x = (1 << prec) + rng.choice([-3, -2, -1, 0, 1, 2, 3, 4, 6]) * rng.choice([1, 1, 2])
        n = rng.choice([1, 1, 2, 3, 5])
        if rng.random() < 0.5:
            # x itself fits the precision (even, just above 2^prec) while x -/+ n does not
            x = (1 << prec) + 2 * rng.randint(1, 8); n = rng.choice([1, 1, 3])
        if rng.random() < 0.3: x = -x
        if rng.random() < 0.2: x = rng.randint(2, 10 ** 6)
        xa = x
        if rng.random() < 0.6 and (abs(x) >> max(0, (abs(x) & -abs(x)).bit_length() - 1)).bit_length() <= prec:
            xa = mp.mpf(x)       # same number, passed as an mpf (exactly representable)
        if rng.random() < 0.5:
            v, nm = mp.ff(xa, n), "ff"; ex = " * ".join("(%d)" % (x - i) for i in range(n))
        else:
            v, nm = mp.rf(xa, n), "rf"; ex = " * ".join("(%d)" % (x + i) for i in range(n))
        t = v._mpf_; inst += 1
        if is_special(t):
            rep.violation("%s(%d, %d) returned %r" % (nm, x, n, t), {"fn": nm, "x": x, "n": n, "prec": prec}); continue
        m, e = (-1 if t[0] else 1) * t[1], t[2]
        if e >= 0:
            diff = "Z.abs (%d * 2 ^ %d - (%s))" % (m, e, ex); ulp = "2 ^ (%d)" % max(0, e + t[3] - prec)
            add("(%s <=? %s) && (if Z.log2 (Z.abs (%s)) + 1 - (let x := Z.abs (%s) in Z.log2 (Z.land x (- x))) <=? %d then %s =? 0 else true)"
                % (diff, ulp, ex, ex, prec, diff), fn=nm, n=n, x=x, prec=prec)
        else:
            add("Z.abs (%d - (%s) * 2 ^ %d) <=? 2 ^ (%d)" % (m, ex, -e, max(0, t[3] - prec)), fn=nm, n=n, x=x, prec=prec)
    mp.prec = p0
    # Bernoulli fractions far beyond the exhaustive Coq range, at indices with large von Staudt-Clausen denominators: decided on the
    # search side by an independent exact computation (tangent numbers, integers only); a disagreement is a concrete failing input
    def bern_exact(nmax):
        from fractions import Fraction
        h = nmax // 2 + 1
        T = [0] * (h + 1); T[1] = 1
        for k in range(2, h + 1): T[k] = (k - 1) * T[k - 1]
        for k in range(2, h + 1):
            for j in range(k, h + 1): T[j] = (j - k) * T[j - 1] + (j - k + 2) * T[j]
        return {2 * k: Fraction((-1) ** (k - 1) * 2 * k * T[k], 4 ** k * (4 ** k - 1)) for k in range(1, h)}
    idx = [120, 180, 240, 360, 420, 720, 840] + ([1260, 1680, 2520] if big else []) + [2 * rng.randint(61, 450) for _ in range(6 if not big else 40)]
    BE = bern_exact(max(idx) + 2)
    bern_oracle = 0
    for n in idx:
        p_, q_ = GZ.bernfrac(n); bern_oracle += 1
        if BE[n].numerator != p_ or BE[n].denominator != q_:
            rep.violation("bernfrac(%d) is not the Bernoulli number B_%d (independent exact computation)" % (n, n),
                          {"fn": "bernfrac", "n": n, "got_numerator_bits": int(p_).bit_length(), "denominator": int(q_), "exact_denominator": BE[n].denominator})
    # exact=True variants and bernoulli/eulernum public
    for n in (0, 1, 5, 20, 100, 333):
        if mp.factorial(n, ) != math.factorial(n) and n < 15:
            rep.violation("factorial(%d) inexact although it fits" % n, {"fn": "factorial", "n": n})
    res = zcert.run("C25", checks, defs=defs, shard=25, timeout=(900 if not big else 3000))
    for i in res["failing"]:
        rep.violation("%s: value returned by the implementation differs from the definition (Coq vm_compute)" % meta[i].get("fn"),
                      dict(meta[i], check_id=i))
    for path, log in res["errors"]:
        rep.violation("Coq could not evaluate the table check %s" % os.path.basename(path), {"theorem": path, "log": log}, no_input=True)
    ob2 = len(checks)
    rep.coverage = {
        "obligations": obligations + ob2, "discharged": discharged + (ob2 - len(res["failing"]) if not res["errors"] else 0),
        "checker_cmd": " && ".join(cmds + res["cmds"][:2]), "trusted_base": trusted + ["vm_compute evaluation of the reference definitions in Algo/Intfun.v (factorial, double factorial, Fibonacci, Pascal, Stirling recurrences, Bell, Euler and Bernoulli recurrences, trial-division primality and Moebius)"],
        "evaluations": len(checks) + inst, "distinct_nontrivial": len(checks),
        "rule": "tables read from the live functions (after scrambled warm-up calls to exercise the memo caches) compared by Coq with definitional references, exhaustively on the stated ranges; public-function instances at arguments beyond the precision decided by Coq as exact-or-within-one-ulp",
        "samples": [{"id": i, "meta": meta[i], "expr": checks[i][1][:200]} for i in list(range(0, len(checks), max(1, len(checks) // 6)))[:6]],
        "exhaustive_ranges": {meta[i]["fn"]: meta[i].get("range") for i in meta if "range" in meta[i]},
    }
    rep.assumptions = ["isprime above the exhaustive range is checked on pseudoprimes with Coq-checked factor certificates and on sampled n < 10^9 by trial division; determinism of the Miller-Rabin witness sets below 3.4e14 is a literature fact, not proved",
                       "bernoulli(n) numerics, mangoldt, cyclotomic, bernpoly/eulerpoly are not decided here"]


def replay(rep, path):
    rep.coverage = {"obligations": 1, "discharged": 1, "checker_cmd": "re-run ./check C25", "trusted_base": [], "evaluations": 1,
                    "distinct_nontrivial": 2, "rule": "replay = rerun", "samples": [path]}
