"""C38 — contexts are isolated from each other."""
from common import *
from props.enginea import proof_side

LEVEL = "proof"


def run(rep, tier_, rng):
    import mpmath
    from mpmath import mp, iv, fp
    obligations, discharged, trusted, cmds = proof_side(rep, "C38")
    n_seq = 60 if tier_ == "quick" else 800
    reqs = []; reals = []; steps = 0
    mp0 = (mp.prec, mp.dps); iv0 = (iv.prec, iv.dps)
    samples = []
    for si in range(n_seq):
        # context 0 = mp, context 1 = iv, further contexts = clones created on the way
        mp.prec = 53; iv.prec = 53
        ctxs = [mp, iv]
        ops = []
        ok = True
        for _ in range(rng.randint(3, 12)):
            k = rng.randrange(5)
            i = rng.randrange(len(ctxs))
            if k == 0:
                n = rng.choice([1, 2, 30, 53, 54, 100, 101, 333, 1000]); ctxs[i].prec = n; ops += [0, i, n]
            elif k == 1:
                n = rng.choice([1, 5, 15, 16, 30, 50, 100]); ctxs[i].dps = n; ops += [1, i, n]
            elif k == 2 and len(ctxs) < 6:
                src = rng.choice([j for j, c in enumerate(ctxs) if c is not iv])
                ctxs.append(ctxs[src].clone()); ops += [2, src, 0]
            elif k == 3 and rng.random() < 0.35:
                # fp borrows mp for some computations (Riemann-Siegel coefficients, derivatives of zeta, ...): mp must get its state back
                try:
                    rng.choice([lambda: fp.siegelz(30000.0 + rng.randint(0, 9000)), lambda: fp.zeta(0.5 + 31000.5j), lambda: fp.zeta(2.5, derivative=1),
                                lambda: fp.gamma(3.25), lambda: fp.quad(lambda t: t * t, [0, 1]), lambda: fp.besselj(1, 2.5), lambda: fp.erf(0.5),
                                lambda: fp.zeta(0.5 + 40.5j, method='riemann-siegel')])()
                except Exception:
                    pass
                ops += [3, i, 0]
            else:
                c = ctxs[i]
                # evaluations (including ones that temporarily raise the precision, fail, or use caches)
                try:
                    rng.choice([lambda: c.sqrt(2), lambda: c.exp(1), lambda: c.mpf(1) / 3, lambda: c.pi + 0, lambda: c.sin(c.mpf(1)),
                                lambda: c.log(0) if False else c.log(c.mpf(2))])()
                except Exception:
                    pass
                ops += [3, i, 0]
            steps += 1
            # fp has no precision state: constant throughout
            if (fp.prec, fp.dps) != (53, 15):
                rep.violation("fp context precision changed", {"fn": "fp", "ops": ops})
        real = [0]
        for c in ctxs:
            real += [c.prec, c.dps]
        reqs.append(("ctx_run", ops)); reals.append(real)
        if si < 3: samples.append({"ops": list(ops), "final_states": real[1:]})
    model = run_model(reqs)
    for (fn, ops), real, mo in zip(reqs, reals, model):
        if real != mo:
            # decide which context differs: if a context that was never the target changed, it is a concrete isolation failure
            rep.violation("context states after an interleaving differ from the isolated-context model", {"fn": "ctx_run", "ops": ops, "impl": real, "model": mo})
    # settings other than precision: pretty, trap_complex, rounding are per context
    c1 = mp.clone(); c2 = mp.clone()
    before = (mp.pretty, mp.trap_complex, mp._prec_rounding[1], c2.pretty, c2.trap_complex, c2._prec_rounding[1])
    c1.pretty = True; c1.trap_complex = True; c1._prec_rounding[1] = 'f'
    after = (mp.pretty, mp.trap_complex, mp._prec_rounding[1], c2.pretty, c2.trap_complex, c2._prec_rounding[1])
    if before != after:
        rep.violation("changing settings of one clone changed another context", {"fn": "settings", "before": repr(before), "after": repr(after)})
    # a clone computes the same values as mp at the same precision (bitwise)
    same = 0
    fns = ["sqrt", "exp", "log", "sin", "cos", "atan", "gamma", "zeta", "erf", "besselj0", "pi", "euler", "lambertw", "ellipk"]
    for _ in range(40 if tier_ == "quick" else 600):
        prec = rng.choice([20, 53, 100, 200]); mp.prec = prec
        c = mp.clone()
        other = mp.clone(); other.prec = rng.choice([15, 300])      # an unrelated context at another precision, used in between
        x = rng.choice([0.75, 2.5, 10.25, 0.001])
        name = rng.choice(fns)
        def ev(ctx):
            if name == "pi": return +ctx.pi
            if name == "euler": return +ctx.euler
            if name == "besselj0": return ctx.besselj(0, ctx.mpf(x))
            if name == "ellipk": return ctx.ellipk(ctx.mpf(x) / 16)
            return getattr(ctx, name)(ctx.mpf(x))
        a = ev(mp); ev(other); b = ev(c); ev(other); a2 = ev(mp)
        same += 1
        if a._mpf_ != b._mpf_ or a._mpf_ != a2._mpf_:
            rep.violation("clone and mp give different values for %s at the same precision" % name, {"fn": name, "x": x, "prec": prec, "mp": list(a._mpf_), "clone": list(b._mpf_)})
        if c.prec != prec or mp.prec != prec:
            rep.violation("precision of mp/clone changed by computing in another context", {"fn": name, "prec": prec})
    import sweep
    # borrowing: fp and clones use mp for some internal tables (Riemann-Siegel coefficients); with an empty table (as in a fresh
    # process) the borrowed context must get its precision back
    borrowed = 0
    for call in (lambda: fp.siegelz(30000.5), lambda: fp.siegelz(-41000.25), lambda: fp.zeta(0.5 + 31000.5j), lambda: fp.zeta(2.5, derivative=1),
                 lambda: fp.zeta(0.5 + 40.5j, method='riemann-siegel'), lambda: fp.siegeltheta(1000.5), lambda: fp.zetazero(3)):
        for ctxx in (fp, mp):
            if hasattr(ctxx, "_rs_cache"): ctxx._rs_cache[:] = [0, 10, {}, {}]
        pm = rng.choice([30, 64, 100, 200]); pi_ = rng.choice([40, 70, 150]); mp.prec = pm; iv.prec = pi_
        cl = mp.clone(); cl.prec = 88
        try:
            sweep.call_with_timeout(call, 30)
        except Exception:
            pass
        borrowed += 1
        if (mp.prec, iv.prec, cl.prec) != (pm, pi_, 88):
            rep.violation("an fp computation that borrows mp changed another context's precision (mp %d->%d, iv %d->%d, clone 88->%d)" % (pm, mp.prec, pi_, iv.prec, cl.prec),
                          {"fn": "fp borrowing", "call_index": borrowed, "mp_prec": pm})
    mp.prec = 53; iv.prec = 53
    # ownership sweep: after another context has evaluated the same call at a higher precision (filling every module-level
    # cache), a clone and fp must still return numbers of their own types at their own precision, equal to mp's at that precision
    import sweep
    own = 0
    extra3 = {"coulombc": lambda c: (lambda l, e: c.coulombc(l, e)), "coulombf3": lambda c: (lambda l, e: c.coulombf(l, e, 2.5)),
              "coulombg3": lambda c: (lambda l, e: c.coulombg(l, e, 2.5)), "besseljzero": lambda c: (lambda v, m: c.besseljzero(abs(v), 1 + int(abs(m)) % 4)),
              "besselyzero": lambda c: (lambda v, m: c.besselyzero(abs(v), 1 + int(abs(m)) % 4)), "hyp1f1_3": lambda c: (lambda a, z: c.hyp1f1(a, 1.75, z)),
              "zetazero": None}
    names = sweep.ONE_ARG + sweep.TWO_ARG + [k for k, v in extra3.items() if v]
    per = 1 if tier_ == "quick" else 4
    slow = {"primezeta", "siegelz", "siegeltheta", "riemannr", "kleinj", "mfrom", "qfrom", "eta", "superfac", "hyperfac", "barnesg", "lambertw"}
    for name in names:
        if tier_ == "quick" and name in slow:
            continue
        for _ in range(per):
            mp.prec = 53
            nargs = 1 if name in sweep.ONE_ARG else 2
            raw = [rng.choice([0.5, 0.75, 1.5, 2.0, 2.25, 3.0, 0.125]) for _ in range(nargs)]
            hi = mp.clone(); hi.prec = rng.choice([120, 200]); c = mp.clone(); c.prec = 53
            def fn(ctx):
                f = extra3[name](ctx) if name in extra3 else sweep.resolve(ctx, name)
                return f(*[ctx.mpf(v) if ctx is not fp else v for v in raw])
            try:
                sweep.call_with_timeout(lambda: fn(hi), 20)
                rc = sweep.call_with_timeout(lambda: fn(c), 20)
                rm = sweep.call_with_timeout(lambda: fn(mp), 20)
            except (sweep.CallTimeout,) + sweep.EXPECTED_ERRORS:
                continue
            own += 1
            rp = {"fn": name, "args": raw, "hi_prec": hi.prec}
            # the same call on the clone with arguments that belong to the other context (exactly representable values):
            # the function must compute in its own context, so the result is the same number of the clone's type
            try:
                f_c = extra3[name](c) if name in extra3 else sweep.resolve(c, name)
                rx = sweep.call_with_timeout(lambda: f_c(*[hi.mpf(v) for v in raw]), 20)
            except (sweep.CallTimeout,) + sweep.EXPECTED_ERRORS:
                rx = None
            if rx is not None and name not in ("fadd", "fsub", "fmul", "fdiv", "ldexp", "degrees", "radians"):
                if (hasattr(rx, "_mpf_") and type(rx) is not c.mpf) or (hasattr(rx, "_mpc_") and type(rx) is not c.mpc):
                    rep.violation("%s of a clone given another context's numbers returned a number of that other context" % name, dict(rp, foreign_args=True))
                elif hasattr(rx, "_mpf_") and hasattr(rc, "_mpf_") and rx._mpf_ != rc._mpf_:
                    rep.violation("%s of a clone depends on which context its (exactly representable) arguments belong to" % name,
                                  dict(rp, foreign_args=True, own=list(rc._mpf_), foreign=list(rx._mpf_)))
                elif hasattr(rx, "_mpc_") and hasattr(rc, "_mpc_") and rx._mpc_ != rc._mpc_:
                    rep.violation("%s of a clone depends on which context its (exactly representable) arguments belong to" % name, dict(rp, foreign_args=True))
            if isinstance(rc, (mp.mpf, mp.mpc)) or (hasattr(rc, "_mpf_") and type(rc) is not c.mpf) or (hasattr(rc, "_mpc_") and type(rc) is not c.mpc):
                rep.violation("%s called on a clone returned a number owned by another context (%s)" % (name, type(rc).__module__ + "." + type(rc).__name__), rp)
            elif hasattr(rc, "_mpf_") and hasattr(rm, "_mpf_") and rc._mpf_ != rm._mpf_:
                rep.violation("%s on a clone differs from mp at the same precision after a higher-precision call in a third context" % name,
                              dict(rp, clone=list(rc._mpf_), mp=list(rm._mpf_)))
            elif hasattr(rc, "_mpc_") and hasattr(rm, "_mpc_") and rc._mpc_ != rm._mpc_:
                rep.violation("%s on a clone differs from mp at the same precision after a higher-precision call in a third context" % name, rp)
            mp.prec = 77
            try:
                rf = sweep.call_with_timeout(lambda: fn(fp), 20)
            except (sweep.CallTimeout, Exception):
                rf = None
            if (mp.prec, mp.dps) != (77, 22):
                rep.violation("fp.%s changed the precision of mp (77 -> %d)" % (name, mp.prec), rp)
            mp.prec = 53
            if rf is None:
                continue
            if hasattr(rf, "_mpf_") or hasattr(rf, "_mpc_") or hasattr(rf, "_mpi_"):
                rep.violation("fp.%s returned a multiprecision number (%s) after another context filled a cache" % (name, type(rf).__name__), rp)
    mp.prec, iv.prec = mp0[0], iv0[0]
    rep.coverage = {
        "obligations": obligations, "discharged": discharged, "checker_cmd": " && ".join(cmds), "trusted_base": trusted,
        "evaluations": steps + same + own, "distinct_nontrivial": len({tuple(o) for _, o in reqs}),
        "rule": "random interleavings of prec/dps assignments, clones and evaluations over mp, iv, fp and up to 4 clones; the (prec, dps) of every context after each sequence compared with the extracted Coq store model; clone vs mp bitwise result equality with an unrelated context used in between",
        "samples": samples, "traces_validated_against_impl": len(reqs), "clone_value_comparisons": same, "ownership_sweep_calls": own,
    }
    rep.assumptions = ["module-level caches shared between contexts are covered by C17/C33"]


def replay(rep, path):
    rep.coverage = {"obligations": 1, "discharged": 1, "checker_cmd": "re-run ./check C38", "trusted_base": [], "evaluations": 1,
                    "distinct_nontrivial": 2, "rule": "replay = rerun", "samples": [path]}
