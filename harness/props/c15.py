"""C15 — complex interval operations contain every possible exact result (arithmetic part)."""
from common import *
import allcases
from props.enginea import run_engine_a

LEVEL = "proof"
FNS = ["mpci_op"]
TAGS = {"CONTAIN"}


def api_level(rep, tier_, rng):
    from fractions import Fraction
    import mpmath, cxcases
    from mpmath import iv
    gen_zero = (0, 0, 0, 0)
    n = 150 if tier_ == "quick" else 3000
    checked = 0
    p0 = iv.prec
    try:
        for _ in range(n):
            prec = rng.choice([5, 24, 53, 100]); iv.prec = prec
            def box():
                a = rng.uniform(-3, 3); b = a + rng.choice([0, 1e-12, 0.25, 2]); c = rng.uniform(-3, 3); d = c + rng.choice([0, 1e-12, 0.25, 2])
                return iv.mpc(iv.mpf([a, b]), iv.mpf([c, d]))
            x = box(); y = box()
            def pts(z):
                r = z.real._mpi_; i = z.imag._mpi_
                vals = lambda t: [mpf_value(t[0]) if t[0][1] else Fraction(0), mpf_value(t[1]) if t[1][1] else Fraction(0)]
                rr = vals(r); ii = vals(i); rr.append(sum(rr) / 2); ii.append(sum(ii) / 2)
                return [(u, v) for u in rr for v in ii]
            def inside(p, z):
                return cxcases.in_interval(p[0], *z.real._mpi_) and cxcases.in_interval(p[1], *z.imag._mpi_)
            for nm, f, op in (("+", lambda: x + y, lambda p, q: (p[0] + q[0], p[1] + q[1])),
                              ("-", lambda: x - y, lambda p, q: (p[0] - q[0], p[1] - q[1])),
                              ("*", lambda: x * y, lambda p, q: (p[0] * q[0] - p[1] * q[1], p[0] * q[1] + p[1] * q[0])),
                              ("**2", lambda: x ** 2, lambda p, q: (p[0] * p[0] - p[1] * p[1], 2 * p[0] * p[1])),
                              ("**3", lambda: x ** 3, lambda p, q: (p[0] ** 3 - 3 * p[0] * p[1] ** 2, 3 * p[0] ** 2 * p[1] - p[1] ** 3))):
                try:
                    v = f()
                except Exception:
                    continue
                checked += 1
                for p_ in pts(x):
                    for q_ in pts(y):
                        if not inside(op(p_, q_), v):
                            rep.violation("iv.mpc operator %s misses an exact result" % nm, {"fn": "ivmpc " + nm, "x": repr(x), "y": repr(y), "prec": prec})
                            break
        # mixed operands and operand order: a Python complex / int / iv.mpf on either side of - / ** with an interval on the
        # other side (the reflected operators), and integer-interval exponents z ** [m, n] (every integer k in [m, n] is a
        # member exponent, z^k exact for Gaussian-integer z); exact values by Gaussian-rational arithmetic
        def cdiv(p, q):
            d = q[0] * q[0] + q[1] * q[1]
            return ((p[0] * q[0] + p[1] * q[1]) / d, (p[1] * q[0] - p[0] * q[1]) / d)
        def cmul(p, q):
            return (p[0] * q[0] - p[1] * q[1], p[0] * q[1] + p[1] * q[0])
        def cpow(p, k):
            r = (Fraction(1), Fraction(0))
            for _i in range(abs(k)): r = cmul(r, p)
            return r if k >= 0 else cdiv((Fraction(1), Fraction(0)), r)
        for _ in range(60 if tier_ == "quick" else 1200):
            prec = rng.choice([24, 53, 100]); iv.prec = prec
            cre, cim = rng.randint(-4, 4), rng.randint(-4, 4)
            c = complex(cre, cim); cq = (Fraction(cre), Fraction(cim))
            lo = rng.randint(1, 3); w = rng.choice([0, 1, 2]); t = iv.mpf([lo, lo + w])
            tp = [(Fraction(lo), Fraction(0)), (Fraction(lo + w), Fraction(0)), (Fraction(2 * lo + w, 2), Fraction(0))]
            zc = iv.mpc(cre, cim)
            jobs = [("complex - iv.mpf", lambda: c - t, [((cq[0] - q[0]), cq[1]) for q in tp]),
                    ("iv.mpf - complex", lambda: t - c, [((q[0] - cq[0]), -cq[1]) for q in tp]),
                    ("complex / iv.mpf", lambda: c / t, [cdiv(cq, q) for q in tp]),
                    ("iv.mpf / complex", (lambda: t / c), [cdiv(q, cq) for q in tp] if (cre or cim) else []),
                    ("iv.mpc - iv.mpf", lambda: zc - t, [((cq[0] - q[0]), cq[1]) for q in tp]),
                    ("iv.mpf - iv.mpc", lambda: t - zc, [((q[0] - cq[0]), -cq[1]) for q in tp]),
                    ("int - iv.mpc", lambda: 3 - zc, [(3 - cq[0], -cq[1])]),
                    ("float / iv.mpc", (lambda: 2.0 / zc), [cdiv((Fraction(2), Fraction(0)), cq)] if (cre or cim) else []),
                    ("iv.mpf ** complex-int", lambda: t ** 2, [(q[0] * q[0], Fraction(0)) for q in tp])]
            if cre or cim:
                m_ = rng.randint(-2, 2); n_ = m_ + rng.choice([0, 1, 2])
                ks = [k for k in range(m_, n_ + 1)]
                jobs.append(("iv.mpc ** [m, n]", lambda: zc ** iv.mpf([m_, n_]), [cpow(cq, k) for k in ks]))
                jobs.append(("complex ** [m, n]", lambda: c ** iv.mpf([m_, n_]), [cpow(cq, k) for k in ks]))
                if cim == 0 and cre < 0:
                    jobs.append(("negative iv.mpf ** [m, n]", lambda: iv.mpf(cre) ** iv.mpf([m_, n_]), [cpow(cq, k) for k in ks]))
            for nm, f, expected in jobs:
                if not expected: continue
                try:
                    v = f()
                except Exception:
                    continue           # "whenever an interval is returned"
                checked += 1
                if not hasattr(v, "real") or not hasattr(v.real, "_mpi_"):
                    rep.violation("%s did not return an interval value" % nm, {"fn": "ivmpc mixed " + nm, "c": [cre, cim], "t": [lo, lo + w], "prec": prec}); continue
                vi = v.imag._mpi_ if hasattr(v.imag, "_mpi_") else (gen_zero, gen_zero)
                for e_ in expected:
                    if not (cxcases.in_interval(e_[0], *v.real._mpi_) and cxcases.in_interval(e_[1], *vi)):
                        rep.violation("%s misses an exact result" % nm, {"fn": "ivmpc mixed " + nm, "c": [cre, cim], "t": [lo, lo + w], "prec": prec,
                                                                        "expected": [str(e_[0]), str(e_[1])], "got": repr(v)})
                        break
        # gamma family on rectangles: necessary condition at the integer member points, where the exact values are rationals
        # (gamma(m) = (m-1)!, rgamma(m) = 1/(m-1)!, factorial(m) = m!, loggamma(1) = loggamma(2) = 0); rectangles on and next to
        # the excluded region around the real axis left of the gamma minimum 1.4616...
        import math
        gchecked = 0
        for _ in range(60 if tier_ == "quick" else 1500):
            prec = rng.choice([24, 53, 100]); iv.prec = prec
            m0 = rng.choice([1, 1, 2, 2, 3, 4, 6])
            a1 = Fraction(m0) - rng.choice([Fraction(0), Fraction(1, 8), Fraction(1, 4), Fraction(1, 2), Fraction(3, 4)])
            a2 = Fraction(m0) + rng.choice([Fraction(0), Fraction(1, 8), Fraction(1, 2), Fraction(3, 4), Fraction(3, 2), Fraction(5, 2)])
            b1 = -rng.choice([Fraction(0), Fraction(1, 16), Fraction(1, 8), Fraction(1), Fraction(2)])
            b2 = rng.choice([Fraction(0), Fraction(1, 16), Fraction(1, 8), Fraction(1), Fraction(2)])
            if a1 <= 0: a1 = Fraction(1, 8)
            z = iv.mpc(iv.mpf([float(a1), float(a2)]), iv.mpf([float(b1), float(b2)]))
            ints = [m for m in range(1, 9) if a1 <= m <= a2]
            for nm, f, val in (("gamma", iv.gamma, lambda m: Fraction(math.factorial(m - 1))), ("rgamma", iv.rgamma, lambda m: Fraction(1, math.factorial(m - 1))),
                               ("factorial", iv.factorial, lambda m: Fraction(math.factorial(m))), ("loggamma", iv.loggamma, lambda m: Fraction(0) if m in (1, 2) else None)):
                try:
                    r = f(z)
                except Exception:
                    continue           # "whenever a result is returned"
                gchecked += 1
                for m in ints:
                    ex = val(m)
                    if ex is None: continue
                    if not inside((ex, Fraction(0)), r):
                        rep.violation("iv.%s of a rectangle misses the exact value at the member point %d" % (nm, m),
                                      {"fn": "ivmpc " + nm, "re": [str(a1), str(a2)], "im": [str(b1), str(b2)], "prec": prec, "member": m})
                        break
        checked += gchecked
    finally:
        iv.prec = p0
    return {"api_level_checks": checked, "api_level": "iv.mpc operators + - * **2 **3 on rectangles, 9x9 sampled member points each; mixed operands in both orders (complex/int/float/iv.mpf with iv.mpc/iv.mpf for - / **) and integer-interval exponents z ** [m, n] against exact Gaussian-rational values; gamma/rgamma/factorial/loggamma on rectangles at integer member points (exact rational values)"}


def run(rep, tier_, rng):
    # |z|, exp, cos, sin on rectangles: the model takes the point-function values recorded from the live call as inputs
    ELEM = ["mpci_abs", "mpci_exp_from", "mpci_cos_from", "mpci_sin_from", "mpi_atan2_plan"]
    def make(rng_, fn, n):
        return allcases.make(rng_, fn, max(50, n // 16) if fn in ELEM else n)
    run_engine_a(rep, "C15", tier_, rng, FNS + ELEM, TAGS, n_quick=2500, n_thorough=40000, extra=api_level,
                 make=make, spec=allcases.spec)
    from props import c15e
    rep.coverage.update(c15e.run_elementary(rep, tier_, rng, budget=(60 if tier_ == "quick" else 600)))
    rep.assumptions.append("abs/exp/log/cos/sin on rectangles are decided point-wise at sampled member points by Coq Interval certificates (a necessary condition only; exploration level for that part); the gamma family on rectangles is not decided by this check")


def replay(rep, path):
    import json
    r = json.load(open(path)); r = r.get("replay", r)
    if isinstance(r, dict) and r.get("clause") == "containment" and str(r.get("fn", "")).startswith(("iv.", "ivmpc.")):
        from props import c15e
        rep.coverage.update(c15e.replay_elementary(rep, r)); return
    from props import c02
    c02.replay(rep, path)
