"""C42 -- invertlaplace (talbot, stehfest, dehoog) on Laplace-space functions with singularities in the closed left
half-plane and known inverses: f(t) at moderate t to within 10^(3-dps/2) relative (or what the method documents).

Engine B: each call y = invertlaplace(F, t, method=m) of the current /repo code at mp.dps = d gives one Coq lemma
    Rabs (y - f(t)) <= 10^(3-d/2) * Rabs (f(t))
with f(t) the known inverse written with exp/sin/cos (interval), a rational (vm_compute), or -- for 1/sqrt(p^2+1) -> J0(t)
and exp(-a sqrt p)/p -> erfc(a/(2 sqrt t)) -- an integral representation `RInt` certified with the `integral` tactic."""
import time
from fractions import Fraction
from math import factorial
from common import *
import cert, sweep, calcb
from cert import Const, ZERO, ONE, HALF, PI, lift
from calcb import fs, fr, fsl, frl, rq
from props.engineb import run_and_report, replay_generic, short

LEVEL = "exploration"

ASSUMPTIONS = [
    "Transform pairs trusted (tables, e.g. DLMF 1.14): 1/(p+a) -> e^(-at); 1/((p+a)^2+b^2) -> e^(-at) sin(bt)/b; (p+a)/((p+a)^2+b^2) -> "
    "e^(-at) cos(bt) (a=0,b=1: p/(p^2+1) -> cos t); 1/p^n -> t^(n-1)/(n-1)!; 1/(p(p+a)) -> (1-e^(-at))/a; 1/(p+a)^2 -> t e^(-at); "
    "1/sqrt(p^2+1) -> J0(t) = (1/pi) int_0^pi cos(t sin u) du (Bessel's integral); exp(-a sqrt p)/p -> erfc(a/(2 sqrt t)) = "
    "1 - (2/sqrt pi) int_0^z e^(-u^2) du.",
    "Tolerance exactly 10^(3-dps/2) relative to |f(t)|; for odd dps the irrational 10^(3-dps/2) is bracketed by rationals within 2^-40 "
    "(the bound is proved with the lower one, a violation with the upper one).  Because the bound is relative, times where f(t) is "
    "within 2^-7 of a zero of the oscillation (|sin bt| or |cos bt| < 2^-7) are not generated.",
    "Per-method domain, following the docstrings: Stehfest is only given non-oscillatory inverses (its docstring excludes oscillatory "
    "ones); fixed Talbot is not given 1/sqrt(p^2+1) with the principal square root (its branch cuts run to +-i*infinity and cross the "
    "Talbot parabola -- 'the method will fail' per the docstring) nor oscillations with b*t > 12 rad ('some oscillatory behaviors'); "
    "de Hoog (the default, 'most robust') is given everything.",
    "t is a rational in [0.01, 10] (converted to mpf at the calling precision); a in {1/2,1,2,3}, b in {1/2,1,2,3}, n <= 5.  'Moderate t' is "
    "taken to mean a*t <= 16 and b*t <= 20 rad; samples beyond that are still generated and certified, and their failures are the known "
    "finding C42-beyond-moderate-t (the methods' errors are absolute with respect to the O(1) scale of f, so the relative error grows "
    "like e^(at)).",
    "The Laplace-space callables are Python lambdas on mpf/mpc evaluated at the raised working precision the methods select.",
    "Universal accuracy is NOT proved: sampled instances only (level exploration, certified oracle).",
]

PAIRS = ["exp", "expsin", "expcos", "cos", "pow", "one_minus_exp", "texp", "j0", "erfc"]
OSC = ("expsin", "expcos", "cos", "j0")


def laplace_fn(ctx, spec):
    q = lambda v: ctx.mpf(Fraction(v).numerator) / Fraction(v).denominator
    k = spec["pair"]; a = fr(spec.get("a", "0")); b = fr(spec.get("b", "1")); n = int(spec.get("n", 1))
    if k == "exp": return lambda p: 1 / (p + q(a))
    if k == "expsin": return lambda p: 1 / ((p + q(a)) ** 2 + q(b * b))
    if k == "expcos": return lambda p: (p + q(a)) / ((p + q(a)) ** 2 + q(b * b))
    if k == "cos": return lambda p: p / (p * p + 1)
    if k == "pow": return lambda p: 1 / p ** n
    if k == "one_minus_exp": return lambda p: 1 / (p * (p + q(a)))
    if k == "texp": return lambda p: 1 / (p + q(a)) ** 2
    if k == "j0": return lambda p: 1 / ctx.sqrt(p * p + 1)
    if k == "erfc": return lambda p: ctx.exp(-q(a) * ctx.sqrt(p)) / p
    raise KeyError(k)


def time_fn(spec):
    """reference term for f(t)"""
    k = spec["pair"]; a = fr(spec.get("a", "0")); b = fr(spec.get("b", "1")); n = int(spec.get("n", 1)); t = fr(spec["t"])
    if k == "exp": return cert.exp(Const(-a * t))
    if k == "expsin": return cert.exp(Const(-a * t)) * cert.sin(Const(b * t)) / Const(b)
    if k == "expcos": return cert.exp(Const(-a * t)) * cert.cos(Const(b * t))
    if k == "cos": return cert.cos(Const(t))
    if k == "pow": return Const(t ** (n - 1) / factorial(n - 1))
    if k == "one_minus_exp": return (ONE - cert.exp(Const(-a * t))) / Const(a)
    if k == "texp": return Const(t) * cert.exp(Const(-a * t))
    if k == "j0":
        u = cert.var("u")
        return cert.rint("u", cert.cos(Const(t) * cert.sin(u)), ZERO, PI) / PI
    if k == "erfc":
        # z = a/(2 sqrt t) is kept rational by generating t = (a/(2 z))^2 with rational z
        z = fr(spec["z"])
        assert (a / (2 * z)) ** 2 == t
        u = cert.var("u")
        return ONE - Const(2) * cert.rint("u", cert.exp(-(u * u)), ZERO, Const(z)) / cert.sqrt(PI)
    raise KeyError(k)


def is_osc(spec):
    return spec["pair"] in OSC


def g_t(rng):
    return rng.choice([Fraction(1, 100), Fraction(1, 50), Fraction(1, 10), Fraction(1, 4), Fraction(1, 2), Fraction(3, 4), Fraction(1),
                       Fraction(3, 2), Fraction(2), Fraction(3), Fraction(5), Fraction(7), Fraction(10),
                       Fraction(rng.randint(1, 1000), 100)])


def g_spec(rng, method):
    import math
    for _ in range(200):
        k = rng.choice(PAIRS)
        if method == "stehfest" and k in OSC: continue
        if method == "talbot" and k == "j0": continue
        a = rng.choice([Fraction(1, 2), Fraction(1), Fraction(2), Fraction(3)])
        b = rng.choice([Fraction(1, 2), Fraction(1), Fraction(2), Fraction(3)])
        t = g_t(rng)
        spec = {"pair": k, "t": fs(t)}
        if k in ("exp", "expsin", "expcos", "one_minus_exp", "texp"): spec["a"] = fs(a)
        if k in ("expsin", "expcos"): spec["b"] = fs(b)
        if k == "pow": spec["n"] = rng.randint(1, 5)
        if k == "erfc":
            z = rng.choice([Fraction(1, 4), Fraction(1, 2), Fraction(1), Fraction(3, 2), Fraction(2)])
            t = (a / (2 * z)) ** 2
            if not (Fraction(1, 100) <= t <= 10): continue
            spec.update({"a": fs(a), "z": fs(z), "t": fs(t)})
        if k in ("expsin", "expcos", "cos"):
            bb = b if k != "cos" else Fraction(1)
            if k == "expcos" and rng.random() < 0.25:
                spec["a"] = "0"; spec["b"] = "1"; bb = Fraction(1)
            x = float(bb * t)
            v = abs(math.sin(x)) if k == "expsin" else abs(math.cos(x))
            if v < 2.0 ** -7: continue
            if method == "talbot" and x > 12: continue
        return spec
    raise RuntimeError("generator exhausted")


def eps_bracket(dps):
    """rationals lo <= 10^(3-dps/2) <= hi"""
    if dps % 2 == 0:
        e = Fraction(10) ** (3 - dps // 2)
        return e, e
    from math import isqrt
    # 10^(3-dps/2) = sqrt(10^(6-dps)) ; scale by 2^80 for a tight integer square root
    v = Fraction(10) ** (6 - dps)
    S = 2 ** 160
    n = (v * S)
    r = isqrt(n.numerator // n.denominator)
    lo = Fraction(r, 2 ** 80); hi = Fraction(r + 1, 2 ** 80)
    assert lo * lo <= v <= hi * hi
    return lo, hi


def rel2_instance(iid, y, ref, eps_lo, eps_hi, meta, params=None):
    """|y - ref| <= eps*|ref| with eps bracketed by rationals: bound proved with eps_lo, negation with eps_hi"""
    ref = lift(ref)
    if ref.is_const():
        err = abs(Fraction(y) - ref.v)
        return cert.Instance(iid, cert.q_le_text(err, eps_lo * abs(ref.v)), [cert.q_lt_text(eps_hi * abs(ref.v), err)], kind="Z",
                             hint="pass" if err <= eps_lo * abs(ref.v) else "fail", meta=meta, trivial=(err == 0))
    err = abs(Const(y) - ref)
    atoms = [(err, "<=", Const(eps_lo) * abs(ref))]
    negs = [[(Const(eps_hi) * abs(ref), "<", err)]]
    return cert.atoms_instance(iid, atoms, negs, params=params, meta=meta)


def do_call(ctx, spec, method, dps, timeout):
    d0 = ctx.prec
    try:
        ctx.dps = dps
        F = laplace_fn(ctx, spec)
        t = calcb.to_mpf(ctx, fr(spec["t"]))
        kw = {} if method == "default" else {"method": method}
        return sweep.call_with_timeout(lambda: ctx.invertlaplace(F, t, **kw), timeout)
    finally:
        ctx.prec = d0


def kclass_of(spec, method, dps):
    k = spec["pair"]
    a = fr(spec.get("a", "0")); b = fr(spec.get("b", "1")); t = fr(spec["t"])
    m = "dehoog" if method == "default" else method
    return "%s/%s/%s" % (m, k, tclass_of(spec))


def tclass_of(spec):
    """'moderate t': the inverse has not decayed below e^-16 of its scale and has made at most 20 rad of oscillation"""
    k = spec["pair"]
    a = fr(spec.get("a", "0")); b = fr(spec.get("b", "1")); t = fr(spec["t"])
    if k in ("exp", "texp", "expsin", "expcos") and a * t > 16: return "beyond-moderate"
    if k in ("expsin", "expcos", "cos", "j0") and (b if k in ("expsin", "expcos") else 1) * t > 20: return "beyond-moderate"
    return "moderate"


def build_instances(cid, spec, method, dps, y, regime):
    yq = calcb.frac_of(y)
    if yq is None:
        return [], ["invertlaplace returned %r" % (y,)]
    lo, hi = eps_bracket(dps)
    meta = {"fn": "invertlaplace[%s]" % method, "regime": regime, "p": dps, "call": cid, "part": "value"}
    params = None
    if spec["pair"] in ("j0", "erfc"):
        params = {"i_degree": 14, "i_fuel": 300, "sentence_timeout": 100, "single_timeout": 110, "ladder": [1]}
    ins = rel2_instance(cid + "_v", yq, time_fn(spec), lo, hi, meta, params=params)
    if spec["pair"] in ("j0", "erfc"):
        ins.meta["rint"] = True
    return [ins], []


def plan(rng, tier_):
    q = tier_ == "quick"
    dpss = [15, 20, 30] if q else [15, 20, 30, 50]
    jobs = []
    for i in range(110 if q else 700):
        method = rng.choice(["talbot", "stehfest", "dehoog", "dehoog", "default"])
        spec = g_spec(rng, "dehoog" if method == "default" else method)
        jobs.append((spec, method, rng.choice(dpss)))
    return jobs


def run(rep, tier_, rng):
    calcb.load_known_b2(rep)
    from mpmath import mp
    q = tier_ == "quick"
    t0 = time.time()
    jobs = plan(rng, tier_)
    insts, calls = [], {}
    stats = {"raised": [], "timeouts": 0, "skipped_for_time": 0, "python_level_failures": 0}
    gen_budget = 60 if q else 600
    nrint = 0
    for n, (spec, method, dps) in enumerate(jobs):
        if time.time() - t0 > gen_budget:
            stats["skipped_for_time"] = len(jobs) - n; break
        if spec["pair"] in ("j0", "erfc"):
            nrint += 1
            if nrint > (14 if q else 80): continue          # RInt certificates are the expensive ones
        regime = "%s/%s" % (spec["pair"], method)
        cid = "l%04d" % n
        call = {"fn": "invertlaplace", "method": method, "regime": regime, "kclass": kclass_of(spec, method, dps), "tclass": tclass_of(spec), "prec": dps, "dps": dps, "spec": spec}
        try:
            y = do_call(mp, spec, method, dps, 30 if q else 200)
        except sweep.CallTimeout:
            stats["timeouts"] += 1; continue
        except Exception as ex:
            calls[cid] = call
            stats["raised"].append({"regime": regime, "exc": repr(ex)[:100]})
            rep.violation("C42 invertlaplace raised %s (%s)" % (repr(ex)[:80], regime), dict(call, clause="raised")); continue
        calls[cid] = call
        call["result"] = str(y)
        try:
            new, direct = build_instances(cid, spec, method, dps, y, regime)
        except (cert.EstimateError, ZeroDivisionError, ValueError):
            stats.setdefault("skipped_estimate", 0); stats["skipped_estimate"] += 1; continue
        for d in direct:
            stats["python_level_failures"] += 1
            rep.violation("C42 %s (%s)" % (d, regime), dict(call, clause="nonfinite"))
        insts += new
    tgen = time.time() - t0
    regimes = {}
    for c in calls.values():
        regimes[c["regime"]] = regimes.get(c["regime"], 0) + 1
    insts, not_attempted = calcb.fit_budget(insts, max(30, (115 if q else 1100) - tgen))
    run_and_report(rep, insts, calls, tag="C42_%s" % tier_, params={"sentence_timeout": 60, "single_timeout": 80},
                   budget=max(30, (115 if q else 1100) - tgen), jobs=10,
                   rule="each evaluation = one call invertlaplace(F, t, method) of the current /repo code at mp.dps in {15,20,30(,50)}: "
                        "F from the pairs 1/(p+a), 1/((p+a)^2+b^2), (p+a)/((p+a)^2+b^2), p/(p^2+1), 1/p^n (n<=5), 1/(p(p+a)), 1/(p+a)^2, "
                        "1/sqrt(p^2+1), exp(-a sqrt p)/p with a,b in {1/2,1,2,3}; t rational in [0.01,10]; method talbot / stehfest / dehoog / "
                        "default restricted per method to what its docstring covers (see assumptions); distinct = distinct lemma statements; "
                        "non-trivial = error not exactly zero",
                   assumptions=ASSUMPTIONS,
                   extra_cov={"lemmas_not_attempted_for_time": not_attempted, "regimes": regimes, "generation_wall_s": round(tgen, 1), "tolerance": "10^(3-dps/2) relative",
                              "rint_lemmas": sum(1 for i in insts if i.meta.get("rint")), **stats})


def replay(rep, path):
    calcb.load_known_b2(rep)

    def rebuild(r):
        from mpmath import mp
        spec = r["spec"]
        y = do_call(mp, spec, r["method"], r["dps"], 600)
        cid = "replay"
        call = {k: r[k] for k in ("fn", "method", "regime", "kclass", "tclass", "prec", "dps", "spec") if k in r}
        new, direct = build_instances(cid, spec, r["method"], r["dps"], y, r["regime"])
        for d in direct:
            rep.violation("C42 %s" % d, dict(call, clause="nonfinite"))
        return new, {cid: call}
    replay_generic(rep, path, rebuild)
