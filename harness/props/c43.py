"""C43 -- the fp context: Python float/complex results, principal complex values outside the real domain (no raise),
agreement of the fp elementary functions with mp at 53 bits (2^-48 relative or 2^-300 absolute).

* agreement fp vs mp(53): both values are exact dyadics, so `|a-b| <= 2^-48|b| \\/ |a-b| <= 2^-300` (complex: moduli,
  decided on the squares) is a closed statement over Z -- one Coq lemma per call, `vm_compute`;
* return types, no-raise outside the real domain, exact (half-)integer values of cospi/sinpi: decided in the harness;
* independently, a sample of the fp values is certified against the *true* function (the C12 reference terms) with
  Coq Interval at 2^-48 relative (complex: modulus of the error against the modulus of the value)."""
import math, cmath
from fractions import Fraction
from common import *
import cert, sweep
from cert import Const, ZERO, lift, Instance, atoms_instance, rel_instance
from props.engineb import *
from props import c12

LEVEL = "exploration"

ASSUMPTIONS = [
    "'agree with mp at 53 bits to within 2^-48 relative or 2^-300 absolute' is read, for a complex value, on the complex "
    "modulus: |a-b| <= 2^-48|b| or |a-b| <= 2^-300 (decided exactly on the squares, over Z).",
    "The set of functions is the intersection of the property's list with what fp actually provides: sqrt, exp, log/ln, "
    "power, sin, cos, tan, sec, csc, cot, sinh, cosh, tanh, sech, csch, coth, asin, acos, atan, asec, acsc, acot, cbrt, "
    "root, cospi, sinpi (fp has no asinh/acosh/atanh/hypot: nothing to check there, recorded as `missing_in_fp`).",
    "Arguments are machine doubles (exact dyadics) whose results stay inside the double range; overflow to "
    "OverflowError outside that range is not covered by the property and is not sampled.",
    "The Interval certificates use the C12 reference terms (documented definitions, principal branches), tolerance "
    "2^-48 relative to the modulus of the true value (or 2^-300 absolute).",
    "Universal agreement is not proved: sampled instances only.",
]

EPS = Fraction(1, 2 ** 48)
ABS = Fraction(1, 2 ** 300)
ONE_ARG = ["sqrt", "exp", "log", "sin", "cos", "tan", "sec", "csc", "cot", "sinh", "cosh", "tanh", "sech", "csch", "coth",
           "asin", "acos", "atan", "asec", "acsc", "acot", "cbrt", "cospi", "sinpi"]
MISSING = ["asinh", "acosh", "atanh", "asech", "acsch", "acoth", "hypot"]

REFS = dict(c12.REFS)
REFS["sech"] = lambda z: cert.cdiv(cert.Cx(1, 0), cert.ccosh(z))
REFS["csch"] = lambda z: cert.cdiv(cert.Cx(1, 0), cert.csinh(z))
REFS["coth"] = lambda z: cert.cdiv(cert.Cx(1, 0), c12.r_tanh(z))


def fdbl(rng, lo, hi, signed=True):
    """random double with binary exponent in [lo, hi]"""
    m = rng.getrandbits(52) | (1 << 52)
    if rng.random() < 0.2: m = (rng.getrandbits(8) | 128) << 45
    v = math.ldexp(m, rng.randint(lo, hi) - 53)
    return -v if signed and rng.random() < 0.5 else v


def near_zero_of_pi_fn(rng, fn, near):
    """argument of cospi/sinpi at distance d from the nearest zero: d <= 0.01 (near) or d >= 0.06 (away)"""
    n = rng.choice([0, 1, 2, 5, 100, 10 ** 6, -3, -77])
    zero = n + (0.5 if fn == "cospi" else 0.0)
    d = rng.choice([2.0 ** -rng.randint(8, 40), rng.uniform(1e-6, 0.01)]) if near else rng.uniform(0.06, 0.44)
    if near and rng.random() < 0.3:
        n = rng.choice([0, 0, 1, -1, 2]); zero = n + (0.5 if fn == "cospi" else 0.0)
        d = 2.0 ** -rng.randint(41, 52) * rng.choice([1, 1, 3])          # a few ulps from the zero
    return zero + rng.choice([1, -1]) * d


def gen_args(rng, fn):
    """-> (regime, args) with args floats / complex / int (root order)"""
    u = rng.random()
    if fn in ("cospi", "sinpi"):
        if u < 0.45: return "away", [near_zero_of_pi_fn(rng, fn, False)]
        if u < 0.65: return "near_zero", [near_zero_of_pi_fn(rng, fn, True)]
        if u < 0.85: return "halfint", [rng.choice([1, -1]) * (rng.randint(0, 10 ** rng.randint(1, 15)) + rng.choice([0.0, 0.5]))]
        return "cgen", [complex(fdbl(rng, -3, 2), fdbl(rng, -3, 1))]
    if fn in ("cbrt", "root"):
        n = [] if fn == "cbrt" else [rng.choice([2, 3, 4, 5, 7, 10])]
        if u < 0.4: return "gen", [abs(fdbl(rng, -50, 50))] + n
        if u < 0.6: return "wide", [abs(fdbl(rng, *rng.choice([(300, 1000), (-1000, -300)])))] + n
        if u < 0.8: return "neg", [-abs(fdbl(rng, -20, 20))] + n
        return "cgen", [complex(fdbl(rng, -8, 8), fdbl(rng, -8, 8))] + n
    if fn == "power":
        if u < 0.35: return "gen", [abs(fdbl(rng, -4, 4)), fdbl(rng, -3, 4)]
        if u < 0.5: return "int_exp", [fdbl(rng, -4, 4), float(rng.randint(-20, 20))]
        if u < 0.7: return "neg_base", [-abs(fdbl(rng, -4, 4)), fdbl(rng, -3, 3)]
        if u < 0.85: return "cgen", [complex(fdbl(rng, -3, 2), fdbl(rng, -3, 2)), complex(fdbl(rng, -3, 2), fdbl(rng, -3, 1))]
        return "wide", [abs(fdbl(rng, -200, 200)), fdbl(rng, -2, 1)]
    if fn in ("asin", "acos", "asec", "acsc"):
        inv = fn in ("asec", "acsc")
        def dom(x): return 1.0 / x if inv and x else x
        if u < 0.35: return "gen", [dom(fdbl(rng, -8, 0))] if not inv else [rng.choice([1, -1]) * (1 + abs(fdbl(rng, -2, 6)))]
        if u < 0.5:
            x = 1 - 2.0 ** -rng.randint(1, 52)
            return "near1_in", [rng.choice([1, -1]) * (x if not inv else 1 / x)]
        if u < 0.62:
            x = 1 + abs(fdbl(rng, -8, 5))
            return "out_gt1", [x if not inv else 1 / x]
        if u < 0.74:
            x = -1 - abs(fdbl(rng, -8, 5))
            return "out_lt_m1", [x if not inv else 1 / x]
        return "cgen", [complex(fdbl(rng, -4, 3), fdbl(rng, -4, 3))]
    if fn == "log":
        if u < 0.3: return "gen", [abs(fdbl(rng, -8, 8))]
        if u < 0.45: return "wide", [abs(fdbl(rng, -1000, 1000))]
        if u < 0.6: return "near1", [1 + rng.choice([1, -1]) * 2.0 ** -rng.randint(1, 52)]
        if u < 0.8: return "neg", [-abs(fdbl(rng, -8, 8))]
        return "cgen", [complex(fdbl(rng, -8, 8), fdbl(rng, -8, 8))]
    if fn == "sqrt":
        if u < 0.3: return "gen", [abs(fdbl(rng, -8, 8))]
        if u < 0.5: return "wide", [abs(fdbl(rng, -1000, 1000))]
        if u < 0.75: return "neg", [-abs(fdbl(rng, -8, 8))]
        return "cgen", [complex(fdbl(rng, -8, 8), fdbl(rng, -8, 8))]
    if fn in ("exp", "sinh", "cosh", "tanh", "sech", "csch", "coth"):
        if u < 0.45: return "gen", [fdbl(rng, -8, 3)]
        if u < 0.6: return "tiny", [fdbl(rng, -60, -20)]
        if u < 0.75: return "large", [fdbl(rng, 4, 8)]
        return "cgen", [complex(fdbl(rng, -4, 3), fdbl(rng, -4, 3))]
    if fn in ("sin", "cos", "tan", "sec", "csc", "cot"):
        if u < 0.35: return "gen", [fdbl(rng, -8, 4)]
        if u < 0.45: return "tiny", [fdbl(rng, -60, -20)]
        if u < 0.6: return "huge", [fdbl(rng, 20, 200)]
        if u < 0.8:
            k = rng.randint(1, 10 ** 6)
            return "kpi2", [rng.choice([1, -1]) * float(k * 1.5707963267948966)]
        return "cgen", [complex(fdbl(rng, -4, 3), fdbl(rng, -4, 3))]
    if fn in ("atan", "acot"):
        if u < 0.4: return "gen", [fdbl(rng, -8, 8)]
        if u < 0.6: return "wide", [fdbl(rng, -300, 300)]
        return "cgen", [complex(fdbl(rng, -4, 3), fdbl(rng, -4, 3))]
    raise KeyError(fn)


def to_frac_arg(a):
    if isinstance(a, complex): return (Fraction(a.real), Fraction(a.imag))
    if isinstance(a, int): return a
    return Fraction(a)


def agree_instance(cid, a, b, meta):
    """a, b: ('real', q) / ('complex', re, im) -> Z lemma for |a-b| <= 2^-48|b| \\/ |a-b| <= 2^-300 (squares if complex)."""
    if a[0] == "real" and b[0] == "real":
        d = abs(a[1] - b[1]); nb = abs(b[1]); e1, e2 = EPS, ABS
    else:
        ar, ai = (a[1], a[2]) if a[0] == "complex" else (a[1], Fraction(0))
        br, bi = (b[1], b[2]) if b[0] == "complex" else (b[1], Fraction(0))
        d = (ar - br) ** 2 + (ai - bi) ** 2; nb = br ** 2 + bi ** 2; e1, e2 = EPS ** 2, ABS ** 2
    A, B, C, D = cert._zscaled([d, e1 * nb, d, e2])
    txt = "((%d <=? %d) || (%d <=? %d))%%bool" % (A, B, C, D)
    ok = d <= e1 * nb or d <= e2
    return Instance(cid, txt + " = true", [txt + " = false"], kind="Z", hint="pass" if ok else "fail", meta=meta, trivial=(d == 0))


def true_instance(cid, fn, fargs, a, meta):
    """Interval certificate of the fp value `a` against the reference term of fn."""
    zargs = [arg_cx(x) if not isinstance(x, int) else x for x in fargs]
    ref = REFS[fn](*zargs)
    if a[0] == "real":
        if not c12._is0(ref.im):
            return None
        return rel_instance(cid, a[1], ref.re, EPS, conds=ref.conds, meta=meta)
    er = Const(a[1]) - ref.re; ei = Const(a[2]) - ref.im
    err2 = er * er + ei * ei
    mod2 = ref.re * ref.re + ref.im * ref.im
    atoms = [tuple(c) for c in ref.conds] + [(err2, "<=", Const(EPS ** 2) * mod2)]
    negs = [[tuple(c) for c in ref.conds] + [(Const(EPS ** 2) * mod2, "<", err2), (Const(ABS ** 2), "<", err2)]]
    return atoms_instance(cid, atoms, negs, meta=meta)


def one_call(rng, i, fn, insts, calls, direct, stats, cert_fraction):
    from mpmath import mp, fp
    regime, args = gen_args(rng, fn)
    cid = "f%05d_%s" % (i, fn)
    fargs = [to_frac_arg(a) for a in args]
    call = {"fn": fn, "regime": regime, "prec": 53, "args": [enc_arg(x) if not isinstance(x, int) else {"int": x} for x in fargs]}
    f_fp = getattr(fp, fn); f_mp = getattr(mp, fn)
    try:
        a = f_fp(*args)
    except OverflowError:
        stats["overflow"] += 1; return
    except Exception as ex:
        calls[cid] = call
        direct.append(("fp.%s raised %r (mp returns a value)" % (fn, ex), dict(call, clause="no-raise"))); return
    try:
        margs = [x if isinstance(x, int) else mk_arg(mp, x) for x in fargs]
        p0 = mp.prec
        try:
            mp.prec = 53
            b = sweep.call_with_timeout(lambda: f_mp(*margs), 30)
        finally:
            mp.prec = p0
    except (Exception, sweep.CallTimeout) as ex:
        stats["mp_raised"] += 1; return
    calls[cid] = call
    if type(a) not in (float, complex):
        direct.append(("fp.%s returned %s, not float/complex" % (fn, type(a).__name__), dict(call, clause="type"))); return
    av, bv = value_of(a), value_of(b)
    if av[0] == "nonfinite" or bv[0] == "nonfinite":
        if av[0] != bv[0]:
            direct.append(("fp.%s = %r but mp gives %r" % (fn, a, b), dict(call, clause="agreement")))
        return
    call["fp"] = repr(a); call["mp53"] = str(b)
    real_in = all(not isinstance(x, tuple) for x in fargs)
    if real_in:
        want_real = c12.real_domain(fn, [x for x in fargs])
        if want_real and type(a) is not float:
            direct.append(("fp.%s of a real argument inside the real domain returned complex" % fn, dict(call, clause="type")))
        if not want_real and type(a) is not complex:
            direct.append(("fp.%s of a real argument outside the real domain returned %r, not the principal complex value" % (fn, a),
                           dict(call, clause="domain")))
    meta = {"fn": fn, "regime": regime, "call": cid, "clause": "agreement", "part": "value"}
    insts.append(agree_instance(cid + "_agree", av, bv, meta))
    if rng.random() < cert_fraction:
        m2 = dict(meta); m2["clause"] = "true-function"
        try:
            ins = true_instance(cid + "_true", fn, fargs, av, m2)
        except (cert.EstimateError, ZeroDivisionError, ValueError):
            ins = None
        if ins is not None and "estimate_error" not in ins.meta:
            insts.append(ins)


def halfint_checks(rng, n, direct, calls):
    from mpmath import fp
    cnt = 0
    for i in range(n):
        k = rng.choice([rng.randint(-50, 50), rng.randint(-2 ** 40, 2 ** 40), rng.randint(-2 ** 51, 2 ** 51),
                        rng.choice([1, -1]) * rng.randint(2 ** 52, 2 ** 53), rng.choice([1, -1]) * int(float(rng.randint(2 ** 53, 2 ** 70))),
                        rng.choice([1, -1]) * int(float(10 ** rng.randint(20, 300)))])
        xk = float(k)
        if Fraction(xk) != k: continue            # k itself not representable
        for fn, x, want, exact_arg in (("sinpi", xk, 0, Fraction(k)), ("cospi", xk, -1 if k & 1 else 1, Fraction(k)),
                                       ("sinpi", k + 0.5, -1 if k & 1 else 1, Fraction(k) + Fraction(1, 2)),
                                       ("cospi", k + 0.5, 0, Fraction(k) + Fraction(1, 2))):
            if Fraction(x) != exact_arg: continue        # k + 1/2 is not representable for |k| >= 2^52
            cnt += 1
            v = getattr(fp, fn)(x)
            if type(v) is not float or v != want:
                cid = "hi%05d_%d" % (i, cnt)
                calls[cid] = {"fn": fn, "regime": "halfint_exact", "prec": 53, "args": [enc_arg(Fraction(x))], "clause": "halfint"}
                direct.append(("fp.%s(%r) = %r, exact value %d" % (fn, x, v, want), calls[cid]))
    return cnt


DOMAIN_CASES = [("sqrt", -1.0), ("sqrt", -4.0), ("log", -1.0), ("log", -2.5), ("asin", 2.0), ("asin", -2.0), ("acos", -3.0), ("acos", 3.0),
                ("asec", 0.5), ("acsc", -0.25), ("cbrt", -8.0), ("power", (-8.0, 0.5)), ("power", (-2.0, 1.5)), ("root", (-8.0, 3))]


def run(rep, tier_, rng):
    load_known_b(rep)
    from mpmath import mp, fp
    q = tier_ == "quick"
    insts, calls, direct = [], {}, []
    stats = {"overflow": 0, "mp_raised": 0}
    t0 = time.time()
    fns = ONE_ARG + ["power", "root"]
    ncalls = 330 if q else 6000
    for i in range(ncalls):
        one_call(rng, i, rng.choice(fns), insts, calls, direct, stats, 0.45 if q else 0.5)
    # fixed domain list of the property text
    for j, (fn, a) in enumerate(DOMAIN_CASES):
        args = list(a) if isinstance(a, tuple) else [a]
        cid = "dom%02d_%s" % (j, fn)
        call = {"fn": fn, "regime": "domain_list", "prec": 53, "args": [repr(x) for x in args], "clause": "domain"}
        calls[cid] = call
        try:
            v = getattr(fp, fn)(*args)
            if type(v) is not complex:
                direct.append(("fp.%s%r returned %r instead of the principal complex value" % (fn, tuple(args), v), call))
        except Exception as ex:
            direct.append(("fp.%s%r raised %r instead of returning the principal complex value" % (fn, tuple(args), ex), call))
    nhalf = halfint_checks(rng, 60 if q else 2000, direct, calls)
    tgen = time.time() - t0
    for viol, call in direct:
        rep.violation("C43 %s: %s" % (call["fn"], viol), call)
    regimes = {}
    for c in calls.values():
        k = "%s/%s" % (c["fn"], c["regime"]); regimes[k] = regimes.get(k, 0) + 1
    run_and_report(rep, insts, calls, tag="C43_%s" % tier_, params={"sentence_timeout": 60, "single_timeout": 80},
                   budget=max(30, (115 if q else 1000) - tgen),
                   rule="each evaluation = one call fp.f(args) and mp.f(args) at 53 bits on the same doubles; functions uniformly from "
                        "26 fp elementary functions, regimes gen/wide/tiny/huge/kpi2 (doubles next to k*pi/2, k<=10^6)/near1/near a "
                        "zero of cospi,sinpi/outside the real domain (both sides)/complex; one Z lemma (agreement, vm_compute) per call "
                        "and an Interval lemma against the true function for about half of them; non-trivial = a != b for agreement "
                        "lemmas, every Interval lemma",
                   assumptions=ASSUMPTIONS,
                   extra_cov={"fn_regime_cells_hit": len(regimes), "exact_halfinteger_checks": nhalf,
                              "domain_list_cases": len(DOMAIN_CASES), "skipped_overflow": stats["overflow"],
                              "skipped_mp_raised": stats["mp_raised"], "missing_in_fp": MISSING,
                              "python_level_failures": len(direct), "generation_wall_s": round(tgen, 1),
                              "tolerance": "2^-48 relative or 2^-300 absolute"})
    rep.coverage["evaluations"] = len(calls) + nhalf


def replay(rep, path):
    def rebuild(r):
        from mpmath import mp, fp
        fn = r["fn"]
        if r.get("regime") in ("domain_list", "halfint_exact") or r.get("clause") in ("type", "domain", "no-raise"):
            rep.violation("C43 replay (harness-level clause %s): re-run ./check C43" % r.get("clause"), dict(r))
            return [], {}
        fargs = [dec_arg(a) for a in r["args"]]
        args = [x if isinstance(x, int) else (complex(float(x[0]), float(x[1])) if isinstance(x, tuple) else float(x)) for x in fargs]
        a = getattr(fp, fn)(*args)
        mp.prec = 53
        b = getattr(mp, fn)(*[x if isinstance(x, int) else mk_arg(mp, x) for x in fargs])
        cid = "replay_%s" % fn
        meta = {"fn": fn, "regime": r["regime"], "call": cid, "clause": r.get("clause", "agreement")}
        if r.get("clause") == "true-function":
            ins = true_instance(cid, fn, fargs, value_of(a), meta)
        else:
            ins = agree_instance(cid, value_of(a), value_of(b), meta)
        return [ins], {cid: {k: r[k] for k in ("fn", "regime", "prec", "args")}}
    replay_generic(rep, path, rebuild)
