"""C19 -- zeta family accurate to 2^(8-p) relative (in modulus).
Engine B, sub-domain certificates (the installed Coq libraries define no zeta / polylogarithm, so the universal statement
cannot be stated; see DESIGN.md "C18-C23").  One Coq lemma per verdict (specb default builder): `vm_compute` over Z for
exact rational references, `interval` for references in PI / ln, `integral` (Interval's integral_intro) for the
dilogarithm, squares for complex values.

CERTIFIED per instance (reference = closed form, Bernoulli/Euler/Stirling numbers computed exactly in Python and embedded
as rationals):
  zeta(2n), n = 1..60 (150 thorough), argument as int and as exact mpf: |B_2n| (2 PI)^(2n) / (2 (2n)!);
  zeta(-n), n = 0 and odd n <= 201 (401 thorough), int and mpf: -B_{n+1}/(n+1) (zeta(0) = -1/2); the trivial zeros
  zeta(-2k), k >= 1 (up to -10^6): the result must be EXACTLY 0 (that is what the unchanged code returns, and a relative
  bound against 0 admits nothing else);
  altzeta(s) = (1 - 2^(1-s)) zeta(s) at s = 2n, s = -n (exact zeros at -2k), altzeta(0) = 1/2, altzeta(1) = ln 2;
  dirichlet(s, chi) for the principal characters chi = [1], [0,1], [0,1,1] ((1 - q^-s) zeta(s)) at s = 2n and s = -n
  (exact zeros at the trivial zeros; (s, chi) = (0, [0,1,1]) is SKIPPED: the value is 0 and mpmath returns 2^-64-size
  rounding noise, the relative error is undefined there), and for chi = [0,1,0,-1] (Dirichlet beta) at odd s = 2k+1:
  |E_2k| PI^(2k+1) / (4^(k+1) (2k)!) (s = 1: PI/4, the perturbed-pole branch) and at s = -2k: E_2k/2;
  polylog(1, z) = -ln(1-z): real z < 1, real z > 1 (principal log: -ln(z-1) - i PI), complex dyadic z (-clog(1-z));
  polylog(0, z) = z/(1-z), polylog(-n, z) = sum_{k<=n} k! S(n+1,k+1) (z/(1-z))^(k+1), n <= 30: exact (Gaussian) rational
  for real and complex dyadic z inside the disk, in the annulus 0.75 < |z| < 1.4 and outside;
  polylog(2, z): Li2(1) = PI^2/6, Li2(-1) = -PI^2/12, Li2(1/2) = PI^2/12 - ln(2)^2/2; for x in [1/8, 15/16]
  Li2(x) = Li2(1/2) - RInt (ln(1-t)/t) (1/2) x and for x in [-6, -1/8] Li2(x) = Li2(-1) - RInt (ln(1-t)/t) (-1) x
  (proper integrals; precisions 15 and 53 in the quick tier, 113 only in the thorough tier: one such lemma costs 5-40 s CPU);
  bernpoly(n, x), eulerpoly(n, x), n <= 80 (200 thorough), at dyadic x in [-16, 16] (some up to +-1000; exact rational), at
  x in {0, 1/2, 1} (including the exact zeros) and -- separate regime "near-zero" -- at the dyadic point next to a real
  root of the polynomial (n <= 11);
  Hurwitz zeta(-n, a) = -B_{n+1}(a)/(n+1) for dyadic a > 0 (exact mpf) and rational a = (p, q) (mpmath keeps the tuple as
  an exact mpq), zeta(2n, a) for integer a = 2..6 (zeta(2n) - sum_{j<a} j^-2n: Euler-Maclaurin branch) and for
  a = m + 1/2 ((2^(2n) - 1) zeta(2n) - sum_{j<m} (j+1/2)^-2n), a as mpf and as (p, q); the points with a > 1 whose value
  ~ a^-2n is below 2^-24 form their own regime (known finding: absolute stopping criterion);
  zeta(0, a, derivative=1) = ln Gamma(a) - ln(2 PI)/2 (Lerch) at integer and half-integer a (the only derivative values
  with a closed form in PI / ln);  lerchphi(z, 1, 1) = -ln(1-z)/z and lerchphi(z, 0, a) = 1/(1-z) for real |z| < 1.
METAMORPHIC only (soundness lemmas lin2_violation / lin3_violation in /verif/coq_meta/Meta.v; a certified residual above
the bound proves that one of the named calls violates the tolerance, a residual within the bound proves nothing and is
counted `consistent`):
  Li2(x) + Li2(1-x) = PI^2/6 - ln(x) ln(1-x) (0 < x < 1); Li2(1-2^k) + Li2(1-2^-k) = -(k ln 2)^2/2 (Landen);
  Li2(-2^k) + Li2(-2^-k) = -PI^2/6 - (k ln 2)^2/2 (inversion); polylog(s, x) + polylog(s, -x) = 2^(1-s) polylog(s, x^2)
  for integer s = 2..8 (the only coverage of polylog orders >= 3); z lerchphi(z, s, 1) = polylog(s, z), s = 2..6.
KNOWN FINDINGS (genuine accuracy defects of the unchanged code, recorded in /verif/known_findings_B3.json, each confined to a
kind with its own `regime` so that it masks nothing else): polylog(-n, z), n >= 2, summed as an alternating/rotating power
series (z < 0 or complex, |z| <= 0.75 or >= 1.4); bernpoly(2, x) next to a root (Horner form without cancellation
detection); Hurwitz zeta(2n, a), a > 1, when the value a^-2n is far below 1 (absolute stopping criterion in _hurwitz_em).
NOT DECIDED: see NOT_DECIDED (zeta at generic real/complex s, derivatives, stieltjes, primezeta, siegeltheta, siegelz,
riemannr, lerchphi and polylog at general parameters)."""
import math
from fractions import Fraction
from common import *
import cert
from cert import Const, Cx, ZERO, ONE, HALF, PI, lift, sqrt, ln, exp, powz, Instance, rint, var, clog
from specb import *

LEVEL = "exploration"

PRECS_QUICK = [15, 53, 113, 400]
PRECS_THOROUGH = [15, 53, 113, 400, 1000, 3000]
TIER = ["quick"]

NOT_DECIDED = [
    "zeta(s), altzeta(s), dirichlet(s, chi), zeta(s, a) at real s that is not an even positive or a non-positive integer, and at "
    "every complex s (critical strip, large imaginary part, Riemann-Siegel branch): zeta(odd), zeta(1/2 + it) have no formal "
    "definition or closed form in the installed Coq libraries; the reflection branch of mpf_zeta/mpc_zeta (non-integer negative "
    "s) is therefore not exercised",
    "derivatives zeta(s, a, k >= 1) except the single point s = 0, k = 1 (Lerch's formula); dirichlet derivatives",
    "stieltjes, primezeta, siegeltheta, siegelz, grampoint, riemannr, secondzeta: no reference available (not even a metamorphic one "
    "with rational coefficients)",
    "lerchphi at general (z, s, a) and polylog(s, z) for s not in {1, 0, -1, -2, ...} and s != 2: only identities among the "
    "functions themselves (metamorphic, integer s = 2..8, real 0 < x < 1); polylog(2, z) for complex z and for real z outside [-6, -1/8] u [1/8, 15/16] u {1}",
    "dirichlet(0, [0,1,1]) (true value 0, mpmath returns rounding noise of size 2^-(p+10); relative error undefined), Hurwitz "
    "zeta(-n, a) at the points where B_{n+1}(a) = 0, complex a, a <= 0",
    "arguments with more significant bits than the working precision (all sampled inputs have at most p bits)",
]

ASSUMPTIONS = [
    "Closed forms used as references (textbook identities, not proved in Coq): zeta(2n) = |B_2n| (2 PI)^(2n) / (2 (2n)!) (Euler); "
    "zeta(-n) = -B_{n+1}/(n+1) with B_1 = -1/2, zeta(0) = -1/2; altzeta(s) = (1 - 2^(1-s)) zeta(s), altzeta(1) = ln 2; "
    "dirichlet(s, principal character mod q) = (1 - q^-s) zeta(s) for prime q; beta(2k+1) = |E_2k| PI^(2k+1) / (4^(k+1) (2k)!), "
    "beta(-n) = E_n/2 (E_n Euler numbers, E_n = 2^n E_n(1/2)); polylog(1, z) = -log(1-z) (principal branch, on the cut z > 1 the "
    "value of log at the negative real 1-z, i.e. imaginary part -PI: the formula mpmath documents and implements); polylog(0, z) = "
    "z/(1-z); polylog(-n, z) = sum_{k=0}^{n} k! S(n+1,k+1) (z/(1-z))^(k+1) (S = Stirling numbers of the second kind; cross-checked "
    "in the generator against the Eulerian-number form for small n); Li2(1) = PI^2/6, Li2(-1) = -PI^2/12, Li2(1/2) = PI^2/12 - "
    "ln(2)^2/2, d/dx Li2(x) = -ln(1-x)/x; B_n(x) = sum C(n,k) B_k x^(n-k); E_n(x) = 2/(n+1) (B_{n+1}(x) - 2^(n+1) B_{n+1}(x/2)); "
    "zeta(-n, a) = -B_{n+1}(a)/(n+1); zeta(s, a+1) = zeta(s, a) - a^-s; zeta(s, 1/2) = (2^s - 1) zeta(s); "
    "d/ds zeta(s, a) at s = 0 equals ln Gamma(a) - ln(2 PI)/2 (Lerch), Gamma(n) = (n-1)!, Gamma(n+1/2) = (2n-1)!!/2^n sqrt(PI); "
    "lerchphi(z, 1, 1) = -ln(1-z)/z, lerchphi(z, 0, a) = 1/(1-z).",
    "Trivial zeros: at s = -2k the reference is 0 and the check demands an exactly zero result (EXACT_ZERO clause, no Coq lemma "
    "needed beyond the comparison with 0).",
    "Relative error is measured in modulus: |y - ref| <= 2^(8-p) |ref| (complex values: on the squares; Gaussian-rational "
    "references: the squared inequality is decided over Z by vm_compute).",
    "Metamorphic certificates: the functional equations (Euler reflection, Landen, inversion, duplication of polylog, "
    "z lerchphi(z,s,1) = polylog(s,z)) are assumed to hold for the true functions AT THE SAMPLED POINT; the implication "
    "'residual > bound => one of the calls is outside the tolerance' is proved in Coq (Meta.v: lin2_violation, lin3_violation).",
    "Inputs are exact (Python ints, tuples (p, q) that mpmath converts to exact mpq, dyadic rationals converted to mpf/mpc without "
    "rounding, at most p significant bits); only the sampled instances are certified (level exploration, certified oracle).",
    "mpmath caches (zeta_int_cache, bernoulli_cache, Borwein coefficients) make a returned value depend on the call history of the "
    "process; the certificates are about the values returned in this run's call order (which is a function of VERIF_SEED).",
]


# ------------------------------------------------------------------------------------------------ exact number theory

def zeta_even_coef(j2):
    """zeta(j2) = coef * PI^j2 for even j2 >= 2"""
    return abs(bernoulli(j2)) * Fraction(2) ** j2 / (2 * math.factorial(j2))


def zeta_even(j2):
    return HC(zeta_even_coef(j2)) * powz(PI, j2)


def zeta_neg(n):
    """zeta(-n), n >= 0, exact"""
    if n == 0: return Fraction(-1, 2)
    if n % 2 == 0: return Fraction(0)               # B_odd = 0 (trivial zeros; n may be 10^6 here)
    return -bernoulli(n + 1) / (n + 1)


_EUL = {}


def eulernum(n):
    """Euler number E_n (E_0 = 1, E_2 = -1, E_4 = 5, odd: 0), exact"""
    if n not in _EUL:
        _EUL[n] = eulerpoly(n, Fraction(1, 2)) * 2 ** n
        assert _EUL[n].denominator == 1
    return _EUL[n]


_STIR = {}


def stirling2_row(n):
    """[S(n, k) for k = 0..n]"""
    if n not in _STIR:
        row = [1]
        for i in range(1, n + 1):
            new = [0] * (i + 1)
            for k in range(i + 1):
                new[k] = (row[k - 1] if k >= 1 else 0) + (k * row[k] if k < i else 0)
            row = new
        _STIR[n] = row
    return _STIR[n]


class G(object):
    """Gaussian rational (exact complex arithmetic of the generator side)"""
    __slots__ = ("a", "b")

    def __init__(s, a, b=0): s.a = Fraction(a); s.b = Fraction(b)
    def __add__(s, o): o = _g(o); return G(s.a + o.a, s.b + o.b)
    __radd__ = __add__
    def __sub__(s, o): o = _g(o); return G(s.a - o.a, s.b - o.b)
    def __rsub__(s, o): return _g(o) - s
    def __mul__(s, o): o = _g(o); return G(s.a * o.a - s.b * o.b, s.a * o.b + s.b * o.a)
    __rmul__ = __mul__

    def __truediv__(s, o):
        o = _g(o); d = o.a ** 2 + o.b ** 2
        return G((s.a * o.a + s.b * o.b) / d, (s.b * o.a - s.a * o.b) / d)


def _g(x):
    return x if isinstance(x, G) else G(x)


def polylog_nonpos(n, z):
    """Li_{-n}(z), n >= 0, z a Fraction or a G: sum_{k=0}^{n} k! S(n+1, k+1) w^(k+1), w = z/(1-z)"""
    w = z / (1 - z)
    if n == 0: return w
    S = stirling2_row(n + 1)
    acc = 0; pw = 1
    for k in range(n + 1):
        pw = pw * w
        acc = acc + pw * (math.factorial(k) * S[k + 1])
    return acc


def _eulerian_check():
    """generator self-test of the Stirling form against Li_{-n}(z) = sum_k A(n,k) z^(n-k) / (1-z)^(n+1)"""
    def A(n, k): return sum((-1) ** j * math.comb(n + 1, j) * (k + 1 - j) ** n for j in range(k + 2))
    for n in (1, 2, 5, 9):
        for z in (Fraction(-3, 4), Fraction(5, 2), Fraction(1, 8)):
            assert polylog_nonpos(n, z) == sum(A(n, k) * z ** (n - k) for k in range(n)) / (1 - z) ** (n + 1)


_eulerian_check()


def real_roots(f, lo, hi, steps=193, bits=160):
    """isolating approximations (from below, to 2^-bits) of the sign changes of the exact polynomial function f on [lo, hi]"""
    out = []
    xs = [Fraction(lo) + Fraction(hi - lo) * i / steps for i in range(steps + 1)]
    vals = [f(x) for x in xs]
    for i in range(steps):
        a, b, fa, fb = xs[i], xs[i + 1], vals[i], vals[i + 1]
        if fa == 0 or fa * fb >= 0: continue
        while b - a > Fraction(1, 2 ** bits):
            m = (a + b) / 2; fm = f(m)
            if fm == 0: a = m; break
            if fa * fm < 0: b = m
            else: a, fa = m, fm
        out.append(a)
    return out


_ROOTS = {}


def poly_roots(which, n):
    key = (which, n)
    if key not in _ROOTS:
        f = (lambda t: bernpoly(n, t)) if which == "B" else (lambda t: eulerpoly(n, t))
        _ROOTS[key] = real_roots(f, Fraction(-5, 2) + Fraction(1, 1000), Fraction(7, 2) + Fraction(1, 997))
    return _ROOTS[key]


# ------------------------------------------------------------------------------------------------ generators

def big(q, t):
    return q if TIER[0] == "quick" else t


def g_form(rng):
    return rng.randint(0, 1)            # 0: Python int argument, 1: exact mpf argument


def g_even(rng, p):
    n = rng.choice([rng.randint(1, 8), rng.randint(9, 30), rng.randint(31, big(60, 150))])
    return [n, g_form(rng)]


def g_negodd(rng, p):
    u = rng.random()
    if u < 0.12: n = 0
    elif u < 0.5: n = 2 * rng.randint(0, 15) + 1
    else: n = 2 * rng.randint(16, big(100, 200)) + 1
    return [n, g_form(rng)]


def g_negeven(rng, p):
    u = rng.random()
    if u < 0.5: n = 2 * rng.randint(1, 30)
    elif u < 0.85: n = 2 * rng.randint(31, 500)
    else: n = 2 * rng.randint(501, 500000)
    return [n, g_form(rng)]


def S(c, n, form):
    """the integer n as the s argument in the chosen form"""
    return n if form == 0 else M(c, n)


def g_x(rng, p, lo, hi, avoid=(), maxbits=40):
    """random dyadic in [lo, hi], not in `avoid`, whose numerator has at most p bits (fractional bits: one of 3, 6, 10, 20,
    maxbits, capped by maxbits, p - 6 and p - (integer bits of the range))"""
    ib = max(abs(math.floor(lo)), abs(math.ceil(hi))).bit_length()
    for _ in range(1000):
        b = rng.choice([3, 6, 10, 20, maxbits])
        b = max(0, min(b, maxbits, p - 6, p - ib))
        x = rand_dyadic(rng, lo, hi, b)
        if x not in avoid and x.numerator.bit_length() <= p:
            return x
    raise Skip("no admissible dyadic point in [%s, %s]" % (lo, hi))


def g_cz(rng, p, region):
    """complex dyadic z = re + i im (im != 0) with |z| in the region: 'in' <= 0.75, 'mid' (0.75, 1.4), 'out' >= 1.4"""
    while True:
        b = rng.choice([3, 5, 8]) if p > 20 else 3
        re_ = rand_dyadic(rng, -4, 4, b); im_ = rand_dyadic(rng, -4, 4, b)
        if im_ == 0: continue
        a2 = re_ * re_ + im_ * im_
        r = "in" if a2 <= Fraction(9, 16) else ("mid" if a2 < Fraction(49, 25) else "out")
        if r == region and (re_ - 1) ** 2 + im_ ** 2 >= Fraction(1, 64):
            return (re_, im_)


# ------------------------------------------------------------------------------------------------ builders

def gauss_instance(id, yre, yim, ref, eps, meta):
    """|y - ref|^2 <= eps^2 |ref|^2 for a Gaussian-rational reference, decided over Z (vm_compute); the integer
    expressions keep the structure  ((a1 D - N1 b)^2 + (a2 D - N2 b)^2) ed^2 <= en^2 (N1^2 + N2^2) b^2  with
    y = (a1 + i a2)/b, ref = (N1 + i N2)/D, eps = en/ed."""
    yre = Fraction(yre); yim = Fraction(yim); eps = Fraction(eps)
    b = math.lcm(yre.denominator, yim.denominator)
    a1 = int(yre * b); a2 = int(yim * b)
    D = math.lcm(ref.a.denominator, ref.b.denominator)
    N1 = int(ref.a * D); N2 = int(ref.b * D)
    en, ed = eps.numerator, eps.denominator
    kb = b.bit_length() - 1
    bt = "(2 ^ %d)" % kb if kb else "1"
    ke = ed.bit_length() - 1
    assert ed == 1 << ke and b == 1 << kb
    et = "(2 ^ %d)" % ke if ke else "1"
    lhs = "((%s * %s - %s * %s) ^ 2 + (%s * %s - %s * %s) ^ 2) * %s ^ 2" % (
        zlit(a1), zlit(D), zlit(N1), bt, zlit(a2), zlit(D), zlit(N2), bt, et)
    rhs = "%s ^ 2 * (%s ^ 2 + %s ^ 2) * %s ^ 2" % (zlit(en), zlit(N1), zlit(N2), bt)
    lv = ((a1 * D - N1 * b) ** 2 + (a2 * D - N2 * b) ** 2) * ed ** 2
    rv = en ** 2 * (N1 ** 2 + N2 ** 2) * b ** 2
    m = dict(meta); m["part"] = "modulus"
    return Instance(id, "(%s <=? %s) = true" % (lhs, rhs), ["(%s <? %s) = true" % (rhs, lhs)], kind="Z",
                    hint="pass" if lv <= rv else "fail", meta=m, trivial=(lv == 0))


def b_gauss(reffn):
    def build(cid, k, args, p, yvs, eps, meta, params):
        ref = reffn(*args)
        yv = yvs[0]
        if yv[0] in ("nonfinite", "other"):
            return [], "non-finite/unknown result %s where the reference value is finite" % (yv[1],)
        yre, yim = (yv[1], yv[2]) if yv[0] == "complex" else (yv[1], Fraction(0))
        if ref.a == 0 and ref.b == 0:
            raise Skip("reference value is 0")
        return [gauss_instance(cid + "_g", yre, yim, ref, eps, meta)], None
    return build


def _reals(yvs):
    out = []
    for yv in yvs:
        if yv[0] == "complex" and yv[2] == 0: yv = ("real", yv[1])
        if yv[0] != "real": raise Skip("non-real value in a real metamorphic check")
        out.append(yv[1])
    return out


LN2 = ln(Const(2))
PI2_6 = powz(PI, 2) * Const(Fraction(1, 6))
PI2_12 = powz(PI, 2) * Const(Fraction(1, 12))
LI2_HALF = PI2_12 - powz(LN2, 2) * HALF


def b_li2_reflect(cid, k, args, p, yvs, eps, meta, params):
    x, = args; y1, y2 = _reals(yvs)              # Li2(x) + Li2(1-x) = PI^2/6 - ln x ln(1-x)
    c = PI2_6 - ln(Const(x)) * ln(Const(1 - x))
    return [meta_lin(cid + "_refl", [1, 1], [y1, y2], eps, p, c_term=c, meta=meta)]


def b_li2_landen(cid, k, args, p, yvs, eps, meta, params):
    kk, = args; y1, y2 = _reals(yvs)             # Li2(1-2^k) + Li2(1-2^-k) = -(k ln 2)^2/2
    c = -(powz(Const(kk) * LN2, 2) * HALF)
    return [meta_lin(cid + "_landen", [1, 1], [y1, y2], eps, p, c_term=c, meta=meta)]


def b_li2_inversion(cid, k, args, p, yvs, eps, meta, params):
    kk, = args; y1, y2 = _reals(yvs)             # Li2(-2^k) + Li2(-2^-k) = -PI^2/6 - (k ln 2)^2/2
    c = -PI2_6 - powz(Const(kk) * LN2, 2) * HALF
    return [meta_lin(cid + "_inv", [1, 1], [y1, y2], eps, p, c_term=c, meta=meta)]


def b_polylog_dup(cid, k, args, p, yvs, eps, meta, params):
    s, x = args; y1, y2, y3 = _reals(yvs)        # Li_s(x) + Li_s(-x) - 2^(1-s) Li_s(x^2) = 0
    return [meta_lin(cid + "_dup", [1, 1, -Fraction(2) ** (1 - s)], [y1, y2, y3], eps, p, meta=meta)]


def b_lerch_polylog(cid, k, args, p, yvs, eps, meta, params):
    s, x = args; y1, y2 = _reals(yvs)            # x lerchphi(x, s, 1) - polylog(s, x) = 0
    return [meta_lin(cid + "_lerch", [x, -1], [y1, y2], eps, p, meta=meta)]


# ------------------------------------------------------------------------------------------------ references

def r_zeta_neg(n, form):
    v = zeta_neg(n)
    if v == 0: return EXACT_ZERO
    return v


def r_altzeta_even(n, form):
    return HC(zeta_even_coef(2 * n) * (1 - Fraction(2) ** (1 - 2 * n))) * powz(PI, 2 * n)


def r_altzeta_neg(n, form):
    v = zeta_neg(n) * (1 - Fraction(2) ** (1 + n))
    return EXACT_ZERO if v == 0 else v


def chi_of(q):
    return {1: [1], 2: [0, 1], 3: [0, 1, 1]}[q]


def r_dirichlet_even(n, q):
    f = Fraction(1) if q == 1 else 1 - Fraction(1, q ** (2 * n))
    return HC(zeta_even_coef(2 * n) * f) * powz(PI, 2 * n)


def r_dirichlet_neg(n, q):
    v = zeta_neg(n) * (1 if q == 1 else 1 - Fraction(q) ** n)
    if v == 0:
        if n == 0 and q == 3: raise Skip("dirichlet(0,[0,1,1]): zero value, rounding noise returned (documented, not decided)")
        return EXACT_ZERO
    return v


def g_dirichlet_neg(rng, p):
    q = rng.choice([1, 2, 2, 3, 3])
    u = rng.random()
    if u < 0.25: n = 2 * rng.randint(1, 40)             # trivial zero
    elif u < 0.35: n = 0
    elif u < 0.7: n = 2 * rng.randint(0, 15) + 1
    else: n = 2 * rng.randint(16, big(80, 160)) + 1
    if n == 0 and q == 3: q = 2
    return [n, q]


def r_beta_odd(k):
    c = Fraction(abs(eulernum(2 * k)), 4 ** (k + 1) * math.factorial(2 * k))
    return HC(c) * powz(PI, 2 * k + 1) if k else PI * Const(Fraction(1, 4))


def r_beta_neg(k):
    return Fraction(eulernum(2 * k), 2)


BETA_CHI = [0, 1, 0, -1]


def r_polylog1_real(z):
    return -ln(Const(1 - z))


def r_polylog1_cut(z):
    return Cx(-ln(Const(z - 1)), -PI)


def r_polylog1_cx(z):
    return -clog(Cx(Const(1 - z[0]), Const(-z[1])))


def g_polylog1_real(rng, p):
    u = rng.random()
    if u < 0.45: return [g_x(rng, p, Fraction(-3, 4), Fraction(3, 4), avoid=(0,))]
    if u < 0.75: return [g_x(rng, p, Fraction(3, 4), Fraction(1023, 1024), avoid=(1,))]
    return [g_x(rng, p, -64, Fraction(-3, 4))]


def r_polylog_nonpos_q(n, z):
    return polylog_nonpos(n, Fraction(z))


def r_polylog_nonpos_g(n, z):
    return polylog_nonpos(n, G(z[0], z[1]))


def g_negorder(rng, lo=1):
    return rng.choice([rng.randint(lo, 6), rng.randint(lo, 30)])


def g_polylog_neg_pos(rng, p):
    u = rng.random()
    if u < 0.4: z = g_x(rng, p, Fraction(1, 64), Fraction(3, 4))
    elif u < 0.7: z = g_x(rng, p, Fraction(3, 4), Fraction(7, 5), avoid=(1,))
    else: z = g_x(rng, p, Fraction(7, 5), 64)
    return [g_negorder(rng, 0), z]


def g_polylog_neg_annulus(rng, p):
    if rng.random() < 0.5:
        return [g_negorder(rng, 0), g_x(rng, p, Fraction(-11, 8), Fraction(-25, 32), avoid=(-1,))]
    return [g_negorder(rng, 0), g_cz(rng, p, "mid")]


def b_polylog_nonpos(cid, k, args, p, yvs, eps, meta, params):
    n, z = args
    if isinstance(z, tuple):
        return b_gauss(r_polylog_nonpos_g)(cid, k, args, p, yvs, eps, meta, params)
    r = default_build(cid, k, args, p, yvs[0], eps, meta, params)
    return r


def g_polylog_neg_series(rng, p):
    n = g_negorder(rng, 2)
    u = rng.random()
    if u < 0.25: z = g_x(rng, p, Fraction(-3, 4), Fraction(-1, 64))
    elif u < 0.5: z = g_x(rng, p, -32, Fraction(-7, 5))
    elif u < 0.75: z = g_cz(rng, p, "in")
    else: z = g_cz(rng, p, "out")
    return [n, z]


def li2_term(x):
    """Li2(x) as a certified term with a proper integral (x in [-6,-1/8] or [1/8,15/16])"""
    t = var("t")
    f = ln(1 - t) / t
    X = Const(x)
    if x > 0:
        if x == Fraction(1, 2): return LI2_HALF
        if x > Fraction(1, 2): return LI2_HALF - rint("t", f, HALF, X)
        return LI2_HALF + rint("t", f, X, HALF)
    if x == -1: return -PI2_12
    if x > -1: return -PI2_12 - rint("t", f, Const(-1), X)
    return -PI2_12 + rint("t", f, X, Const(-1))


def g_li2(rng, p):
    b = rng.choice([4, 6, 10, 16])
    b = max(4, min(b, p - 6))
    u = rng.random()
    while True:
        if u < 0.45: x = rand_dyadic(rng, Fraction(1, 8), Fraction(15, 16), b)
        elif u < 0.75: x = rand_dyadic(rng, -1, Fraction(-1, 8), b)
        else: x = rand_dyadic(rng, -6, -1, b)
        if x not in (Fraction(1, 2), Fraction(-1)): return [x]


def r_li2_special(i):
    return [PI2_6, -PI2_12, LI2_HALF, PI2_6, -PI2_12][i]


def c_li2_special(c, i):
    z = [1, -1, M(c, Fraction(1, 2)), M(c, 1), M(c, -1)][i]
    return c.polylog(2, z)


# Bernoulli / Euler polynomials

def g_polyn(rng):
    return rng.choice([rng.randint(0, 4), rng.randint(5, 14), rng.randint(15, big(80, 200))])


SPECIALX = (Fraction(0), Fraction(1, 2), Fraction(1))


def g_poly_generic(rng, p):
    n = g_polyn(rng)
    u = rng.random()
    if u < 0.45: x = g_x(rng, p, -2, 3, avoid=SPECIALX)
    elif u < 0.8: x = g_x(rng, p, -16, 16, avoid=SPECIALX)
    else: x = g_x(rng, p, -1000, 1000, avoid=SPECIALX, maxbits=20)
    return [n, x]


def g_poly_special(rng, p):
    return [rng.choice([rng.randint(0, 12), rng.randint(13, big(150, 400))]), rng.choice(SPECIALX)]


def g_nearzero(which):
    def gen(rng, p):
        for _ in range(50):
            n = rng.choice([2, 2, 3, 4, 5, 6, 8, 11])
            roots = poly_roots(which, n)
            if not roots: continue
            r = rng.choice(roots)
            bits = rng.choice([p - 2, p - 2, max(4, p // 2), min(p - 2, 12)])
            bits = min(bits, 150)
            x = Fraction(math.floor(r * 2 ** bits) + rng.choice([0, 1]), 2 ** bits)
            v = bernpoly(n, x) if which == "B" else eulerpoly(n, x)
            if v != 0 and x.numerator.bit_length() <= p:
                return [n, x]
        raise Skip("no root")
    return gen


def r_poly(f):
    def ref(n, x):
        return f(n, x)
    return ref


# Hurwitz

def g_hurwitz_neg_mpf(rng, p):
    n = rng.choice([rng.randint(0, 8), rng.randint(9, big(60, 120))])
    u = rng.random()
    if u < 0.6: a = g_x(rng, p, Fraction(1, 32), 4, avoid=(Fraction(1, 2), Fraction(1)))
    else: a = g_x(rng, p, 4, 300, maxbits=16)
    return [n, a]


def g_hurwitz_neg_pq(rng, p):
    n = rng.choice([rng.randint(0, 8), rng.randint(9, big(60, 120))])
    while True:
        q = rng.randint(2, 12); pp = rng.randint(1, 6 * q)
        a = Fraction(pp, q)
        if a.denominator > 1 and a != Fraction(1, 2): return [n, a]


def r_hurwitz_neg(n, a):
    v = -bernpoly(n + 1, a) / (n + 1)
    if v == 0: raise Skip("B_{n+1}(a) = 0")
    return v


def g_hurwitz_even(half_, small):
    """(n, a) with a = 2..6 (or a = m + 1/2, m = 0..3); `small`: the value ~ a^-2n is below 2^-24 (own regime: the absolute
    stopping criterion of the Euler-Maclaurin code loses relative accuracy there), otherwise it is above"""
    def gen(rng, p):
        for _ in range(1000):
            n = rng.choice([rng.randint(1, 5), rng.randint(6, 30)])
            if half_:
                m = rng.choice([1, 2, 3]) if small else rng.choice([0, 0, 1, 2, 3])
                a = m + 0.5
            else:
                m = rng.randint(2, 6); a = m
            if (2 * n * math.log2(a) > 24) == small:
                return [n, m, rng.randint(0, 1)] if half_ else [n, m]
        raise Skip("no (n, a)")
    return gen


def r_hurwitz_even_int(n, a):
    s = sum(Fraction(1, j ** (2 * n)) for j in range(1, a))
    return zeta_even(2 * n) - HC(s)


def r_hurwitz_even_half(n, m, form):
    s = sum(Fraction(1) / (Fraction(2 * j + 1, 2)) ** (2 * n) for j in range(m))
    return HC(zeta_even_coef(2 * n) * (4 ** n - 1)) * powz(PI, 2 * n) - HC(s)


def c_hurwitz_even_half(c, n, m, form):
    a = Fraction(2 * m + 1, 2)
    return c.zeta(2 * n, M(c, a) if form == 0 else (a.numerator, a.denominator))


def r_lerch_deriv0(a2):
    """d/ds zeta(s, a) at s = 0, a = a2/2 > 0 (integer or half-integer, a != 1, 2 avoided by the generator when the value is tiny)"""
    a = Fraction(a2, 2)
    if a.denominator == 1:
        lg = ln(HC(math.factorial(int(a) - 1))) if a > 2 else ZERO
    else:
        n = int(a - Fraction(1, 2))
        lg = ln(HC(Fraction(fac2(2 * n - 1), 2 ** n))) + ln(PI) * HALF if n else ln(PI) * HALF
    return lg - ln(2 * PI) * HALF


def c_lerch_deriv0(c, a2):
    a = Fraction(a2, 2)
    return c.zeta(0, int(a) if a.denominator == 1 else M(c, a), 1)


# ------------------------------------------------------------------------------------------------ registry

K = []


def reg(*a, **kw):
    K.append(Kind(*a, **kw))


EV = "even-integer"; NI = "negative-integer"; TZ = "trivial-zero"

# 1-2 zeta
reg("zeta_even", "zeta", lambda c, n, f: c.zeta(S(c, 2 * n, f)), lambda n, f: zeta_even(2 * n), g_even, w=2.5, regime=EV)
reg("zeta_negint", "zeta", lambda c, n, f: c.zeta(S(c, -n, f)), r_zeta_neg, g_negodd, w=2.0, regime=NI)
reg("zeta_trivial_zero", "zeta", lambda c, n, f: c.zeta(S(c, -n, f)), r_zeta_neg, g_negeven, w=0.7, regime=TZ)
# 3 altzeta
reg("altzeta_even", "altzeta", lambda c, n, f: c.altzeta(S(c, 2 * n, f)), r_altzeta_even, g_even, w=1.5, regime=EV)
reg("altzeta_negint", "altzeta", lambda c, n, f: c.altzeta(S(c, -n, f)), r_altzeta_neg, g_negodd, w=1.5, regime=NI)
reg("altzeta_trivial_zero", "altzeta", lambda c, n, f: c.altzeta(S(c, -n, f)), r_altzeta_neg,
    lambda rng, p: [2 * rng.randint(1, 200), g_form(rng)], w=0.4, regime=TZ)
reg("altzeta_one", "altzeta", lambda c, f: c.altzeta(S(c, 1, f)), lambda f: LN2, lambda rng, p: [g_form(rng)], w=0.4, regime="s=1")
# 4 dirichlet
reg("dirichlet_even", "dirichlet", lambda c, n, q: c.dirichlet(2 * n, chi_of(q)), r_dirichlet_even,
    lambda rng, p: [rng.choice([rng.randint(1, 8), rng.randint(9, big(40, 100))]), rng.choice([1, 2, 3])], w=2.0, regime=EV)
reg("dirichlet_negint", "dirichlet", lambda c, n, q: c.dirichlet(-n, chi_of(q)), r_dirichlet_neg, g_dirichlet_neg, w=2.0, regime=NI)
reg("dirichlet_beta_odd", "dirichlet", lambda c, k: c.dirichlet(2 * k + 1, BETA_CHI), r_beta_odd,
    lambda rng, p: [rng.choice([0, rng.randint(1, 6), rng.randint(7, big(40, 100))])], w=1.5, regime="beta odd s")
reg("dirichlet_beta_negint", "dirichlet", lambda c, k: c.dirichlet(-2 * k, BETA_CHI), r_beta_neg,
    lambda rng, p: [rng.choice([rng.randint(0, 6), rng.randint(7, big(60, 120))])], w=0.8, regime="beta negative s")
# 5 polylog order 1, 0, -n
reg("polylog1_real", "polylog", lambda c, z: c.polylog(1, M(c, z)), r_polylog1_real, g_polylog1_real, w=2.0, regime="order 1")
reg("polylog1_cut", "polylog", lambda c, z: c.polylog(1, M(c, z)), r_polylog1_cut,
    lambda rng, p: [g_x(rng, p, Fraction(33, 32), 64, avoid=(2,))], w=0.6, regime="order 1 branch cut")
reg("polylog1_complex", "polylog", lambda c, z: c.polylog(1, M(c, z)), r_polylog1_cx,
    lambda rng, p: [g_cz(rng, p, rng.choice(["in", "mid", "out"]))], w=1.5, regime="order 1 complex")
reg("polylog_nonpos_zpos", "polylog", lambda c, n, z: c.polylog(-n, M(c, z)), r_polylog_nonpos_q, g_polylog_neg_pos, w=2.0,
    regime="order <= 0, z > 0")
reg("polylog_nonpos_annulus", "polylog", lambda c, n, z: c.polylog(-n, M(c, z)), r_polylog_nonpos_q, g_polylog_neg_annulus,
    build=b_polylog_nonpos, w=1.5, regime="order <= 0, annulus 0.75<|z|<1.4")
reg("polylog_nonpos_01", "polylog", lambda c, n, z: c.polylog(-n, M(c, z)), r_polylog_nonpos_q,
    lambda rng, p: [rng.randint(0, 1), rng.choice([g_x(rng, p, -32, Fraction(-1, 64)), g_cz(rng, p, rng.choice(["in", "out"]))])],
    build=b_polylog_nonpos, w=1.0, regime="order 0/-1 closed form")
reg("polylog_nonpos_series", "polylog", lambda c, n, z: c.polylog(-n, M(c, z)), r_polylog_nonpos_q, g_polylog_neg_series,
    build=b_polylog_nonpos, w=1.2, regime="order <= -2 series-cancellation")
# 6 dilogarithm
reg("polylog2_special", "polylog", c_li2_special, r_li2_special, lambda rng, p: [rng.randint(0, 4)], w=1.0, regime="order 2 special")
reg("polylog2_integral", "polylog", lambda c, x: c.polylog(2, M(c, x)), li2_term, g_li2, w=1.0, regime="order 2 integral",
    maxprec=53, params={"i_degree": 20})
reg("polylog2_integral_p113", "polylog", lambda c, x: c.polylog(2, M(c, x)), li2_term, g_li2, w=0.6, regime="order 2 integral",
    precs=[113], tiers=("thorough",), params={"i_degree": 30})
MM = "metamorphic"
reg("m_li2_reflection", "polylog(2,x) & polylog(2,1-x)", lambda c, x: (c.polylog(2, M(c, x)), c.polylog(2, M(c, 1 - x))),
    gen=lambda rng, p: [g_x(rng, p, Fraction(1, 64), Fraction(63, 64), avoid=(Fraction(1, 2),))], build=b_li2_reflect, w=1.5, regime=MM)
reg("m_li2_landen", "polylog(2,1-2^k) & polylog(2,1-2^-k)",
    lambda c, k: (c.polylog(2, M(c, 1 - Fraction(2) ** k)), c.polylog(2, M(c, 1 - Fraction(1, 2 ** k)))),
    gen=lambda rng, p: [rng.randint(1, max(1, min(12, p - 3)))], build=b_li2_landen, w=0.8, regime=MM)
reg("m_li2_inversion", "polylog(2,-2^k) & polylog(2,-2^-k)",
    lambda c, k: (c.polylog(2, M(c, -Fraction(2) ** k)), c.polylog(2, M(c, -Fraction(1, 2 ** k)))),
    gen=lambda rng, p: [rng.randint(1, 30)], build=b_li2_inversion, w=0.8, regime=MM)
reg("m_polylog_dup", "polylog(s,x) & polylog(s,-x) & polylog(s,x^2)",
    lambda c, s, x: (c.polylog(s, M(c, x)), c.polylog(s, M(c, -x)), c.polylog(s, M(c, x * x))),
    gen=lambda rng, p: [rng.choice([2, 2, 3, 4, 5, 8]), g_x(rng, p, Fraction(1, 32), Fraction(31, 32), maxbits=max(3, min(24, p // 2 - 1)))],
    build=b_polylog_dup, w=1.5, regime=MM)
reg("m_lerchphi_polylog", "lerchphi(x,s,1) & polylog(s,x)", lambda c, s, x: (c.lerchphi(M(c, x), s, 1), c.polylog(s, M(c, x))),
    gen=lambda rng, p: [rng.randint(2, 6), g_x(rng, p, Fraction(-15, 16), Fraction(15, 16), avoid=(0,), maxbits=20)],
    build=b_lerch_polylog, w=0.6, regime=MM, maxprec=400)
# 7 Bernoulli / Euler polynomials
reg("bernpoly", "bernpoly", lambda c, n, x: c.bernpoly(n, M(c, x)), r_poly(bernpoly), g_poly_generic, w=2.5, regime="generic dyadic x")
reg("eulerpoly", "eulerpoly", lambda c, n, x: c.eulerpoly(n, M(c, x)), r_poly(eulerpoly), g_poly_generic, w=2.5, regime="generic dyadic x")
reg("bernpoly_special", "bernpoly", lambda c, n, x: c.bernpoly(n, M(c, x)), r_poly(bernpoly), g_poly_special, w=0.6, regime="x in {0,1/2,1}")
reg("eulerpoly_special", "eulerpoly", lambda c, n, x: c.eulerpoly(n, M(c, x)), r_poly(eulerpoly), g_poly_special, w=0.6, regime="x in {0,1/2,1}")
reg("bernpoly_nearzero", "bernpoly", lambda c, n, x: c.bernpoly(n, M(c, x)), r_poly(bernpoly), g_nearzero("B"), w=0.8, regime="near-zero")
reg("eulerpoly_nearzero", "eulerpoly", lambda c, n, x: c.eulerpoly(n, M(c, x)), r_poly(eulerpoly), g_nearzero("E"), w=0.8, regime="near-zero")
# 8 Hurwitz
reg("hurwitz_negint_mpf", "zeta(s,a)", lambda c, n, a: c.zeta(-n, M(c, a)), r_hurwitz_neg, g_hurwitz_neg_mpf, w=1.5, regime="s=-n dyadic a")
reg("hurwitz_negint_pq", "zeta(s,a)", lambda c, n, a: c.zeta(-n, (a.numerator, a.denominator)), r_hurwitz_neg, g_hurwitz_neg_pq, w=1.5,
    regime="s=-n rational a")
reg("hurwitz_even_int", "zeta(s,a)", lambda c, n, a: c.zeta(2 * n, a), r_hurwitz_even_int, g_hurwitz_even(False, False), w=1.2,
    regime="s=2n integer a")
reg("hurwitz_even_half", "zeta(s,a)", c_hurwitz_even_half, r_hurwitz_even_half, g_hurwitz_even(True, False), w=1.2,
    regime="s=2n half-integer a")
SMALLV = "s=2n, a>1, value < 2^-24"
reg("hurwitz_even_int_small", "zeta(s,a)", lambda c, n, a: c.zeta(2 * n, a), r_hurwitz_even_int, g_hurwitz_even(False, True), w=0.5,
    regime=SMALLV)
reg("hurwitz_even_half_small", "zeta(s,a)", c_hurwitz_even_half, r_hurwitz_even_half, g_hurwitz_even(True, True), w=0.4, regime=SMALLV)
reg("zeta_deriv0", "zeta(s,a,1)", c_lerch_deriv0, r_lerch_deriv0,
    lambda rng, p: [rng.choice([2, 1, 3, 5, 6, 7, 8, rng.randint(9, 60)])], w=0.8, regime="derivative at s=0 (Lerch)", maxprec=400)
# lerchphi closed forms
reg("lerchphi_s1", "lerchphi", lambda c, z: c.lerchphi(M(c, z), 1, 1), lambda z: -ln(Const(1 - z)) / Const(z),
    lambda rng, p: [g_x(rng, p, Fraction(-15, 16), Fraction(15, 16), avoid=(0,), maxbits=20)], w=0.5, regime="s=1, a=1", maxprec=400)
reg("lerchphi_s0", "lerchphi", lambda c, z, a: c.lerchphi(M(c, z), 0, M(c, a)), lambda z, a: 1 / (1 - z),
    lambda rng, p: [g_x(rng, p, Fraction(-15, 16), Fraction(15, 16), avoid=(0,), maxbits=20), g_x(rng, p, Fraction(1, 8), 8)], w=0.4,
    regime="s=0", maxprec=400)

RULE = ("each evaluation = one call (metamorphic kinds: 2-3 calls) of the current /repo code at a precision from the tier's list; the "
        "call form is drawn from the %d-entry registry (every entry once, then by weight); arguments: s = 2n (n <= 60 quick / 150 "
        "thorough), s = -n (n <= 201 / 401; trivial zeros down to -10^6), as int or exact mpf; dyadic real z, x, a with at most "
        "min(p-6, 40) fractional bits; complex dyadic z with 3-8 fractional bits in |re|,|im| <= 4 split by |z| into disk / annulus / "
        "outside; near-zero kinds: the p-2 (or p/2, 12)-bit dyadic neighbour of a real root of B_n / E_n (n <= 11); non-trivial = "
        "the lemma needed a real interval/vm_compute proof (not err = 0); distinct = distinct lemma statements" % len(K))


def run(rep, tier_, rng):
    TIER[0] = tier_
    run_kinds(rep, K, tier_, rng, n_quick=140, n_thorough=1000, precs_quick=PRECS_QUICK, precs_thorough=PRECS_THOROUGH,
              assumptions=ASSUMPTIONS, rule=RULE, not_decided=NOT_DECIDED)


def replay(rep, path):
    replay_kinds(rep, path, K)
