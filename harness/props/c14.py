"""C14 — real interval operations contain every possible exact result."""
from fractions import Fraction
import math
from common import *
import allcases, gen, cxcases
from props.enginea import run_engine_a
from mpfcases import V

LEVEL = "proof"
FNS = ["mpi_add", "mpi_sub", "mpi_mul", "mpi_div", "mpi_neg", "mpi_pos", "mpi_abs", "mpi_square", "mpi_sqrt",
       "mpi_pow_int", "mpi_delta", "mpi_mid"]
# elementary functions on intervals: the model takes the point-function values recorded from the live call as inputs
ELEM = ["mpi_outward", "mpi_exp_from", "mpi_log_from", "mpi_cos_sin_from", "mpi_finalize", "mpi_tan_from", "mpi_cot_from",
        "mpi_pow_from", "mpi_cosh_sinh_from", "mpi_atan2_plan"]


def make(rng, fn, n):
    return allcases.make(rng, fn, max(50, n // 4) if fn in ELEM else n)
TAGS = {"CONTAIN", "ROUND"}


def api_level(rep, tier_, rng):
    """iv.mpf operators, conversions of ints/floats/mpf/Fraction/strings; containment decided with exact rationals"""
    import mpmath
    from mpmath import iv, mp
    n = 200 if tier_ == "quick" else 4000
    checked = 0
    p0 = iv.prec
    def inside(x, v):
        return cxcases.in_interval(x, v._mpi_[0], v._mpi_[1])
    try:
        for _ in range(n):
            prec = rng.choice([3, 10, 24, 53, 100])
            iv.prec = prec
            # conversions
            k = rng.randrange(6)
            if k == 0:
                x = rng.randint(-10**30, 10**30); v = iv.mpf(x); ex = Fraction(x)
            elif k == 1:
                x = rng.uniform(-1e10, 1e10) * 10.0 ** rng.randint(-20, 20); v = iv.mpf(x); ex = Fraction(x)
            elif k == 2:
                num = rng.randint(-10**6, 10**6); den = rng.randint(1, 10**6)
                s = "%d/%d" % (num, den); v = iv.mpf(s); ex = Fraction(num, den)
            elif k == 3:
                digs = rng.randint(1, 40); m = rng.randint(0, 10**digs); e = rng.randint(-60, 60)
                s = "%s%de%d" % (rng.choice(["", "-"]), m, e); v = iv.mpf(s); ex = Fraction(s)
            elif k == 4:
                m = rng.randint(1, 10**12); d = rng.randint(1, 6)
                s = "%s.%s" % (m, str(rng.randint(0, 10**d - 1)).zfill(d)); v = iv.mpf(s); ex = Fraction(s)
            else:
                t = gen.norm(rng.randrange(2), gen.mant(rng, rng.randint(1, 200)), rng.randint(-100, 100))
                v = iv.mpf(mp.make_mpf(t)); ex = mpf_value(t)
            checked += 1
            if not inside(ex, v):
                rep.violation("iv.mpf conversion does not contain the denoted number", {"fn": "iv.mpf", "kind": k, "value": str(ex), "prec": prec})
            # range strings
            a = Fraction(rng.randint(-10**6, 10**6), 10**rng.randint(0, 6)); w = Fraction(rng.randint(0, 10**6), 10**rng.randint(0, 6))
            def dec(fr):
                return format(float(fr), ".17g") if False else str(fr.numerator) + "/" + str(fr.denominator)
            lo, hi = a, a + w
            def d(fr, digits=12):
                sgn = "-" if fr < 0 else ""
                fr = abs(fr); ip = fr.numerator // fr.denominator
                frac = fr - ip; s = ""
                for _i in range(digits):
                    frac *= 10; dg = frac.numerator // frac.denominator; s += str(dg); frac -= dg
                    if frac == 0: break
                return (sgn + str(ip) + "." + s, frac == 0)
            slo, exlo = d(lo); shi, exhi = d(hi)
            if exlo and exhi:
                for form in ("[%s, %s]" % (slo, shi),):
                    v = iv.mpf(form); checked += 1
                    if not (inside(lo, v) and inside(hi, v)):
                        rep.violation("interval string %r does not contain its range" % form, {"fn": "iv.mpf(str)", "form": form, "prec": prec})
            # operators on iv.mpf objects against sampled points
            x = iv.mpf([float(lo), float(hi)]); y = iv.mpf([rng.uniform(0.5, 2.0), rng.uniform(2.0, 9.0)])
            xs = [mpf_value(x._mpi_[0]) if x._mpi_[0][1] else Fraction(0), mpf_value(x._mpi_[1]) if x._mpi_[1][1] else Fraction(0)]
            xs.append((xs[0] + xs[1]) / 2)
            ys = [mpf_value(y._mpi_[0]), mpf_value(y._mpi_[1])]; ys.append((ys[0] + ys[1]) / 2)
            for nm, f, op in (("+", lambda: x + y, lambda p, q: p + q), ("-", lambda: x - y, lambda p, q: p - q),
                              ("*", lambda: x * y, lambda p, q: p * q), ("/", lambda: x / y, lambda p, q: p / q),
                              ("**3", lambda: x ** 3, lambda p, q: p ** 3), ("**-2", lambda: y ** -2, lambda p, q: 1 / (q * q)),
                              ("abs", lambda: abs(x), lambda p, q: abs(p)), ("neg", lambda: -x, lambda p, q: -p),
                              ("+int", lambda: x + 3, lambda p, q: p + 3), ("*float", lambda: x * 0.1, lambda p, q: p * Fraction(0.1))):
                v = f(); checked += 1
                for p_ in xs:
                    for q_ in ys:
                        if not inside(op(p_, q_), v):
                            rep.violation("iv operator %s misses an exact result" % nm, {"fn": "iv " + nm, "x": repr(x), "y": repr(y), "prec": prec})
                            break
            # gamma family: necessary condition — the result must contain Gamma at every integer / half-integer
            # member point (exact factorials; sqrt(pi) from the Coq-certified enclosure Cert/Consts.v)
            SQPI = (Fraction(17724538509055160272981674833411451827975, 10**40), Fraction(17724538509055160272981674833411451827976, 10**40))
            def gamma_half(k):     # enclosure of Gamma(k/2), k >= 1
                if k % 2 == 0:
                    v = Fraction(math.factorial(k // 2 - 1)); return (v, v)
                n = (k - 1) // 2
                c = Fraction(math.factorial(2 * n), 4**n * math.factorial(n))
                return (c * SQPI[0], c * SQPI[1])
            k = rng.randint(1, 24)
            c = Fraction(k, 2)
            wl = Fraction(rng.choice([0, 1, 3, 9, 30]), 16); wr = Fraction(rng.choice([0, 1, 3, 9, 30]), 16)
            lo = c - wl
            if lo <= 0: lo = Fraction(1, 16)
            g = iv.mpf([float(lo), float(c + wr)])
            glo, ghi = gamma_half(k)
            for nm, f, tr in (("gamma", iv.gamma, lambda v: v), ("rgamma", iv.rgamma, lambda v: 1 / v),
                              ("factorial", iv.factorial, None)):
                try:
                    v = f(g) if tr is not None else f(g - 1)
                except Exception:
                    continue
                checked += 1
                a_, b_ = v._mpi_
                vlo, vhi = (glo, ghi) if nm != "rgamma" else (1 / ghi, 1 / glo)
                below = (a_ != gen.FNINF) and ((mpf_value(a_) if a_[1] else Fraction(0)) > vhi)
                above = (b_ != gen.FINF) and ((mpf_value(b_) if b_[1] else Fraction(0)) < vlo)
                if below or above:
                    rep.violation("iv.%s misses the exact value at the member point %s" % (nm, c),
                                  {"fn": "iv." + nm, "interval": [str(lo), str(c + wr)], "point": str(c), "prec": prec})
    finally:
        iv.prec = p0
    return {"api_level_checks": checked, "api_level": "iv.mpf conversions (int, float, p/q, decimal strings, mpf, [a, b] strings) and operators + - * / ** abs neg with mixed operands"}


def run(rep, tier_, rng):
    run_engine_a(rep, "C14", tier_, rng, FNS + ELEM, TAGS, n_quick=500, n_thorough=8000, extra=api_level,
                 make=make, spec=allcases.spec)
    from props import c14e
    rep.coverage.update(c14e.run_elementary(rep, tier_, rng, budget=(60 if tier_ == "quick" else 600)))
    rep.assumptions.append("elementary functions on intervals (exp/log/sin/cos/tan/atan2/x**y/sqrt...) are decided per sampled interval by universally quantified Coq Interval certificates (exploration level for that part); the gamma family is not decided here")


def replay(rep, path):
    import json
    r = json.load(open(path)); r = r.get("replay", r)
    if isinstance(r, dict) and r.get("clause") == "containment" and str(r.get("fn", "")).startswith(("iv.", "ivmpc.")):
        from props import c14e
        rep.coverage.update(c14e.replay_elementary(rep, r)); return
    from props import c02
    c02.replay(rep, path)
