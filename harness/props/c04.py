"""C04 — complex arithmetic is correctly rounded per component."""
from fractions import Fraction
from common import *
import allcases, gen
from props.enginea import run_engine_a
from mpfcases import V, fv

LEVEL = "proof"
FNS = ["mpc_add", "mpc_sub", "mpc_mul", "mpc_square", "mpc_mul_mpf", "mpc_add_mpf", "mpc_sub_mpf", "mpc_mul_int",
       "mpc_div", "mpc_div_mpf", "mpc_mpf_div", "mpc_reciprocal", "mpc_pow_int", "mpc_pos", "mpc_neg", "mpc_conjugate",
       "complex_int_pow", "mpc_mul_imag_mpf"]
TAGS = {"ROUND", "VALUE"}


def api_level(rep, tier_, rng):
    """operators on mpc objects with mpc/complex/int/float/mpf operands, fadd/fsub/fmul with complex arguments and
    rounding keywords, z**n, and equality with complex/int/float/mpf — decided with exact rationals."""
    import mpmath
    from mpmath import mp
    n = 300 if tier_ == "quick" else 5000
    checked = 0
    p0 = mp.prec
    def q(x):
        if isinstance(x, (int, float)): return (Fraction(x), Fraction(0))
        if isinstance(x, complex): return (Fraction(x.real), Fraction(x.imag))
        if hasattr(x, "_mpf_"): return (mpf_value(x._mpf_) if x._mpf_[1] else Fraction(0), Fraction(0))
        return tuple((mpf_value(t) if t[1] else Fraction(0)) for t in x._mpc_)
    try:
        for _ in range(n):
            prec = rng.choice([2, 10, 24, 53, 100])
            mp.prec = prec
            def rnum(bits=30):
                t = gen.norm(rng.randrange(2), gen.mant(rng, rng.randint(1, bits)), rng.randint(-30, 30))
                return mp.make_mpf(t)
            z = mp.mpc(rnum(80), rnum(80))
            k = rng.randrange(5)
            w = [mp.mpc(rnum(), rnum()), complex(rng.randint(-9, 9), rng.randint(-9, 9) / 4), rng.randint(-50, 50),
                 rng.randint(-64, 64) / 8, rnum()][k]
            (a, b), (c, d) = q(z), q(w)
            ops = [("+", lambda: z + w, (a + c, b + d)), ("-", lambda: z - w, (a - c, b - d)),
                   ("*", lambda: z * w, (a * c - b * d, a * d + b * c)), ("r+", lambda: w + z, (a + c, b + d)),
                   ("r*", lambda: w * z, (a * c - b * d, a * d + b * c))]
            rnd = rng.choice(RND)
            ops += [("fadd-rev", lambda: mp.fadd(w, z, rounding=rnd), (a + c, b + d), rnd),
                    ("fsub-rev", lambda: mp.fsub(w, z, rounding=rnd), (c - a, d - b), rnd),
                    ("fmul-rev", lambda: mp.fmul(w, z, rounding=rnd), (a * c - b * d, a * d + b * c), rnd),
                    ("fadd", lambda: mp.fadd(z, w, rounding=rnd), (a + c, b + d), rnd),
                    ("fsub", lambda: mp.fsub(z, w, rounding=rnd), (a - c, b - d), rnd),
                    ("fmul", lambda: mp.fmul(z, w, rounding=rnd), (a * c - b * d, a * d + b * c), rnd)]
            m = rng.randint(0, 9)
            re, im = Fraction(1), Fraction(0)
            for _i in range(m): re, im = re * a - im * b, re * b + im * a
            ops.append(("**%d" % m, lambda: z ** m, (re, im)))
            for op in ops:
                name, f, ex = op[0], op[1], op[2]
                r = op[3] if len(op) > 3 else 'n'
                v = f()
                checked += 1
                if not hasattr(v, "_mpc_"):
                    continue
                for i in (0, 1):
                    if not value_eq_round(v._mpc_[i], ex[i], prec, r):
                        rep.violation("mpc %s: component %d not correctly rounded" % (name, i),
                                      {"fn": "operator " + name, "z": repr(z), "w": repr(w), "prec": prec, "rnd": r})
            # exact equality
            for other in (complex(3, -2), 7, -2.5, mp.make_mpf((0, 5, -2, 3))):
                mp.prec = 200        # exact conversions of the comparands
                zz = mp.mpc(other) if not hasattr(other, "_mpf_") else mp.mpc(other, 0)
                tiny = mp.ldexp(1, -300)
                z2 = mp.make_mpc((zz.real._mpf_, mp.fadd(zz.imag, tiny, exact=True)._mpf_))
                z3 = mp.make_mpc((mp.fadd(zz.real, tiny, exact=True)._mpf_, zz.imag._mpf_))
                mp.prec = prec
                checked += 1
                if not (zz == other) or (zz != other) or not (other == zz):
                    rep.violation("mpc equality with %r is not exact" % (other,), {"fn": "mpc.__eq__", "other": repr(other)})
                if z2 == other or z3 == other or not (z2 != other):
                    rep.violation("mpc equality ignores a tiny difference in one component", {"fn": "mpc.__eq__", "other": repr(other)})
    finally:
        mp.prec = p0
    return {"api_level_checks": checked, "api_level": "mpc operators with mpc/complex/int/float/mpf operands, fadd/fsub/fmul with rounding keyword, z**n (0<=n<=9), exact equality"}


def run(rep, tier_, rng):
    run_engine_a(rep, "C04", tier_, rng, FNS, TAGS, n_quick=400, n_thorough=6000, extra=api_level,
                 make=allcases.make, spec=allcases.spec)
    rep.assumptions.append("division family: |q - z/w| <= 4*2^-p |z/w| checked exactly on generated cases (certified-oracle level, not a universal theorem)")


def replay(rep, path):
    from props import c02
    c02.replay(rep, path)
