"""C08 — printed numbers round-trip and are nearest decimal approximations."""
from fractions import Fraction
from decimal import Decimal
from common import *
import allcases, strcases, gen, mpfcases
from props.enginea import run_engine_a

LEVEL = "proof"
FNS = ["to_str", "prec_dps"]
TAGS = {"C08"}


def api_level(rep, tier_, rng):
    import mpmath
    from mpmath import mp
    n = 400 if tier_ == "quick" else 8000
    checked = 0
    p0 = mp.prec
    try:
        for _ in range(n):
            prec = rng.choice([1, 2, 5, 10, 24, 53, 53, 64, 100, 113, 200, 333, 1000]); mp.prec = prec
            k = rng.randrange(4)
            if k == 0:
                t = gen.finite(rng, prec, bits=rng.randint(1, prec)); t = (t[0], t[1], t[2] % 4000 - 2000, t[3])
            elif k == 1:
                t, _ = strcases.near_decimal_tie(rng, prec)
            elif k == 2:
                t = gen.norm(rng.randrange(2), gen.mant(rng, rng.randint(1, prec)), rng.choice([-1, 1]) * rng.choice([5000, 20000, 10**5]))
            else:
                t = gen.norm(rng.randrange(2), (1 << prec) - 1, rng.randint(-100, 100))
            x = mp.make_mpf(t)
            # repr round trip at the same precision (parse and eval)
            r = repr(x); checked += 1
            y = eval(r, {"mpf": mp.mpf})
            if y._mpf_ != x._mpf_:
                rep.violation("eval(repr(x)) != x", {"fn": "repr", "x": list(t), "prec": prec, "repr": r[:80], "regime": "repr"})
            inner = r[len("mpf('"):-2]
            if mp.mpf(inner)._mpf_ != x._mpf_:
                rep.violation("mpf(parsed repr) != x", {"fn": "repr", "x": list(t), "prec": prec, "repr": r[:80], "regime": "repr"})
            u = gen.finite(rng, prec, bits=rng.randint(1, prec)); u = (u[0], u[1], u[2] % 200 - 100, u[3])
            z = mp.make_mpc((t, u)); checked += 1
            zz = eval(repr(z), {"mpc": mp.mpc})
            if zz._mpc_ != z._mpc_:
                rep.violation("eval(repr(z)) != z for mpc", {"fn": "repr mpc", "x": [list(t), list(u)], "prec": prec, "regime": "repr"})
            # str / nstr parse with float() and Decimal(), and are nearest n-digit decimals
            for nd in (1, 2, rng.randint(1, 25)):
                s = mp.nstr(x, nd); checked += 1
                try:
                    float(s); d = Fraction(Decimal(s))
                except Exception:
                    rep.violation("nstr output %r not parseable by float()/Decimal()" % s[:40], {"fn": "nstr", "x": list(t), "n": nd, "regime": "parse"}); continue
                if abs(t[2]) < 30000:
                    v = mpf_value(t)
                    if abs(d) not in strcases.nearest_ndigit(abs(v), nd) or (d < 0) != (v < 0):
                        import math
                        bitprec = int((nd + 3) * math.log(10, 2)) + 10
                        rep.violation("nstr(x, %d) is not a nearest %d-digit decimal" % (nd, nd),
                                      {"fn": "nstr", "x": list(t), "n": nd, "prec": prec, "out": s[:60], "regime": strcases.tostr_regime(t, bitprec)})
            s = str(x); checked += 1
            try:
                float(s); Decimal(s)
            except Exception:
                rep.violation("str(x) not parseable", {"fn": "str", "x": list(t), "regime": "parse"})
        for v, want in ((mp.inf, "+inf"), (mp.ninf, "-inf"), (mp.nan, "nan")):
            checked += 1
            if mp.nstr(v, 5) != want or str(v) != want:
                rep.violation("special value printed as %r" % str(v), {"fn": "nstr special", "regime": "special"})
    finally:
        mp.prec = p0
    return {"api_level_checks": checked, "api_level": "eval(repr(x))==x and mpf(repr)==x for mpf/mpc at precisions 1..1000 incl. huge exponents; nstr/str parseable by float()/Decimal() and nearest n-digit"}


def run(rep, tier_, rng):
    orig_replay = mpfcases.Case.replay
    def replay_with_regime(self):
        d = orig_replay(self)
        if self.exact is not None and self.exact[0] == "tostr":
            import math
            d["regime"] = strcases.tostr_regime(self.exact[1], int(self.exact[3] * math.log(10, 2)) + 10)
        return d
    mpfcases.Case.replay = replay_with_regime
    try:
        run_engine_a(rep, "C08", tier_, rng, FNS, TAGS, n_quick=2500, n_thorough=40000, make=allcases.make, spec=allcases.spec, extra=api_level)
    finally:
        mpfcases.Case.replay = orig_replay
    rep.assumptions += ["bitprec and fixdps (double arithmetic on math.log(10,2)) are computed by the harness with the same expressions as the code and passed to the model",
                        "the path for |exp+bc| > 3500 (uses ln2/ln10) is not modelled: decided by the exact nearest-decimal oracle only"]


def replay(rep, path):
    from props import c02
    c02.replay(rep, path)
