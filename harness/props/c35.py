"""C35 — pslq / findpoly / identify post-conditions, decided exactly by Coq.

 pslq(x, tol, maxcoeff) = c (not None), x_k dyadic (the mpf values actually passed), tol dyadic:
     c is a vector of Python ints of the length of x (Python), c != 0, max|c_k| < maxcoeff and
     (sum c_k x_k)^2 <= tol^2 * sum x_k^2                                  (Coq, exact integers)
 planted relations: x = (constants..., combination) built at the working precision from
     1, sqrt(2), sqrt(3), pi, e, log(2), log(3), euler with an integer relation |a_k| <= 9 planted, prec >= 100,
     maxcoeff = 1000, maxsteps = 100000: pslq must return a relation (any relation satisfying the post-conditions;
     None is a violation of "when an exact small relation exists and the precision suffices, it is found").
 findpoly(x, n, tol, maxcoeff) = P (not None): ints, P != 0, deg P <= n, max|coeff| < maxcoeff and
     P(x)^2 <= tol^2 * sum_{k<=deg} x^(2k)       with the exact powers of the dyadic x (Coq);
     planted algebraic numbers (sqrt(a)+sqrt(b), cube roots, quadratic irrationals) must be found at ample precision
     and degree.
 identify(x, constants, tol) = s (not None): s is parsed (Python ast, a whitelisted grammar) into a real term and
     |x - value(s)| <= 2^10 * tol * max(1, |x|) is certified by the Interval engine (harness/cert.py); the factor
     2^10 is this check's reading of "within its tolerance" (identify inverts exp/log/sqrt/power transforms of the
     PSLQ relation, which amplifies the PSLQ residual); rational values are decided over Z.
"""
import ast, json, math
from fractions import Fraction
from common import *
import qcert as Q
from qcert import *
import qprops
from props.c30 import Ctx, call, const_of

LEVEL = "exploration"
TAG = "c35"

CONSTS = ["1", "sqrt(2)", "sqrt(3)", "pi", "e", "log(2)", "log(3)", "euler", "sqrt(5)", "catalan"]


def mpeval(mp, s):
    """evaluate a closed-form string with mpmath numbers at the working precision (integers are NOT floats)"""
    def ev(nd):
        if isinstance(nd, ast.Expression): return ev(nd.body)
        if isinstance(nd, ast.Constant): return mp.mpf(nd.value)
        if isinstance(nd, ast.Name): return +getattr(mp, nd.id)
        if isinstance(nd, ast.UnaryOp): return -ev(nd.operand)
        if isinstance(nd, ast.BinOp):
            l, r = ev(nd.left), ev(nd.right)
            if isinstance(nd.op, ast.Add): return l + r
            if isinstance(nd.op, ast.Sub): return l - r
            if isinstance(nd.op, ast.Mult): return l * r
            if isinstance(nd.op, ast.Div): return l / r
            if isinstance(nd.op, ast.Pow): return l ** r
        if isinstance(nd, ast.Call): return getattr(mp, nd.func.id)(*[ev(a) for a in nd.args])
        raise ValueError(ast.dump(nd))
    return mp.mpf(ev(ast.parse(s, mode="eval")))


def cval(mp, name):
    return mpeval(mp, name)


def is_intvec(c):
    return isinstance(c, list) and all(isinstance(v, int) and not isinstance(v, bool) for v in c)


def pslq_checks(xs, c, tol, maxcoeff, prefix="pslq"):
    """env + checks for the post-conditions of one returned relation"""
    env = [svec(xs), imat([[v] for v in c])]
    tolc = const_of(tol)
    checks = [(prefix + "_nonzero", Kind("KNonzero", V(1))),
              (prefix + "_maxcoeff", Lt(NormInf(V(1)), Const(int(maxcoeff)))),
              (prefix + "_residual", Le(Frob2(Mul(T(V(1)), V(0))), SMul(Sqr(tolc), Frob2(V(0)))))]
    return env, checks


def default_tol(mp):
    return mp.mpf(2) ** (-int(mp.prec * 0.75))


def pslq_case(c, idx, p, planted):
    mp, rng = c.mp, c.rng
    n = rng.randint(2, 6)
    names = rng.sample(CONSTS, n - 1) if planted else rng.sample(CONSTS, min(n, len(CONSTS)))
    if planted:
        vals = [cval(mp, s) for s in names]
        a = [rng.randint(-9, 9) for _ in range(n - 1)]
        if not any(a): a[0] = 1
        an = rng.choice([1, 1, 2, 3, 5, 7])
        last = mp.fsum(ai * v for ai, v in zip(a, vals)) / an
        if last == 0:
            c.skip("degenerate planted value"); return
        xs = vals + [last]
        perm = list(range(n)); rng.shuffle(perm)
        xs = [xs[i] for i in perm]
        tol, maxcoeff, maxsteps = None, 1000, 100000
        desc = "planted %s*x = %s" % (an, " + ".join("%d*%s" % (ai, s) for ai, s in zip(a, names)))
    else:
        xs = [cval(mp, s) * rng.choice([1, 1, mp.mpf(rng.randint(1, 20)) / rng.randint(1, 20)]) for s in names]
        tol = rng.choice([None, mp.mpf(10) ** -rng.randint(2, 12), mp.mpf(2) ** -rng.randint(8, 40)])
        maxcoeff = rng.choice([10, 100, 1000, 10 ** 6])
        maxsteps = rng.choice([100, 1000])
        desc = "constants %s" % names
    if rng.random() < 0.4:
        # the bound is relative to the norm of x: the same vector scaled by a power of two (exact) far away from norm 1
        sc = rng.choice([-60, -30, -20, -8, 12, 40])
        xs = [mp.ldexp(v, sc) for v in xs]; desc += " scaled by 2^%d" % sc
    base = {"prec": p, "n": n, "x": [list(x._mpf_) for x in xs], "tol": None if tol is None else list(tol._mpf_),
            "maxcoeff": maxcoeff, "maxsteps": maxsteps, "fn": "pslq", "planted": planted, "desc": desc}
    kw = {"maxcoeff": maxcoeff, "maxsteps": maxsteps}
    if tol is not None:
        kw["tol"] = tol
    r_, exc = call(c, "pslq_planted" if planted else "pslq", lambda: mp.pslq(xs, **kw), None)
    if exc is not None:
        r = dict(base); r.update({"kind": "raises", "exception": repr(exc)})
        c.pyviol("pslq raised %r (%s, prec %d)" % (exc, desc, p), r); return
    c.keys.add(qprops.hashlib.sha1(repr(base["x"]).encode()).hexdigest()[:16])
    if len(c.samples) < 6 and rng.random() < 0.2:
        c.samples.append("pslq at prec %d: %s, tol=%s, maxcoeff=%d -> %r" % (p, desc, "default" if tol is None else mp.nstr(tol, 3), maxcoeff, r_))
    if r_ is None:
        c.observed["pslq_none_planted" if planted else "pslq_none"] = c.observed.get("pslq_none_planted" if planted else "pslq_none", 0) + 1
        if planted:
            r = dict(base); r.update({"kind": "planted_not_found"})
            c.pyviol("pslq returned None although an integer relation with coefficients <= 9 exists (%s, prec %d)" % (desc, p), r)
        return
    if not is_intvec(r_) or len(r_) != n:
        r = dict(base); r.update({"kind": "not_integer_vector", "result": repr(r_)})
        c.pyviol("pslq returned %r: not a list of %d ints" % (r_, n), r); return
    env, checks = pslq_checks(xs, r_, tol if tol is not None else default_tol(mp), maxcoeff)
    meta = dict(base); meta["result"] = r_
    c.cases.append(Case("ps%d" % idx, env, checks, meta))


ALGEBRAIC = [("sqrt(2)+sqrt(3)", 4), ("2**(1/3)", 3), ("(1+sqrt(5))/2", 2), ("sqrt(7)-2", 2), ("sqrt(2+sqrt(2))", 4),
             ("3**(1/3)+1", 3), ("sqrt(2)/3+1/7", 2), ("5/7", 1), ("sqrt(3)*sqrt(2)", 2), ("2**(1/4)", 4)]


def findpoly_case(c, idx, p, planted):
    mp, rng = c.mp, c.rng
    if planted:
        s, deg = rng.choice(ALGEBRAIC)
        x = mpeval(mp, s)
        n = deg + rng.randint(0, 2)
        kw = {"maxcoeff": 1000, "maxsteps": 100000}
        tol = None
    else:
        s = rng.choice(["pi", "e", "log(2)", "euler"])
        x = cval(mp, s) * rng.choice([1, mp.mpf(3) / 7])
        n = rng.randint(1, 5)
        tol = mp.mpf(10) ** -rng.randint(2, 9)
        kw = {"maxcoeff": rng.choice([100, 1000, 10000]), "tol": tol, "maxsteps": 200}
    base = {"prec": p, "degree": n, "x": list(x._mpf_), "value": s, "kw": {k: (mp.nstr(v, 5) if k == "tol" else v) for k, v in kw.items()},
            "fn": "findpoly", "planted": planted}
    r_, exc = call(c, "findpoly_planted" if planted else "findpoly", lambda: mp.findpoly(x, n, **kw), None)
    if exc is not None:
        r = dict(base); r.update({"kind": "raises", "exception": repr(exc)})
        c.pyviol("findpoly raised %r (%s, degree %d, prec %d)" % (exc, s, n, p), r); return
    c.keys.add("fp-%s-%d-%d-%s" % (s, n, p, kw.get("maxcoeff")))
    if len(c.samples) < 6 and rng.random() < 0.2:
        c.samples.append("findpoly(%s, %d) at prec %d -> %r" % (s, n, p, r_))
    if r_ is None:
        if planted:
            r = dict(base); r.update({"kind": "planted_not_found"})
            c.pyviol("findpoly returned None for the algebraic number %s of degree %d <= %d at prec %d" % (s, deg, n, p), r)
        return
    if not is_intvec(r_) or len(r_) < 1 or len(r_) > n + 1:
        r = dict(base); r.update({"kind": "bad_polynomial", "result": repr(r_)})
        c.pyviol("findpoly returned %r: not an integer coefficient list of degree <= %d" % (r_, n), r); return
    d = len(r_) - 1
    co = r_[::-1]                              # ascending powers
    # powers of x formed exactly by Coq:  v = (1, x, x^2, ...), as the columns of a 1 x 1 "matrix" power
    env = [smat([[x]]), imat([[v] for v in co])]
    terms = None
    pw2 = None
    for k in range(d + 1):
        t = Scal(co[k], 0, 0, Pow(V(0), k))
        terms = t if terms is None else Add(terms, t)
        q = Frob2(Pow(V(0), k))
        pw2 = q if pw2 is None else SAdd(pw2, q)
    tolc = const_of(tol if tol is not None else default_tol(mp))
    checks = [("findpoly_nonzero", Kind("KNonzero", V(1))),
              ("findpoly_maxcoeff", Lt(NormInf(V(1)), Const(int(kw["maxcoeff"])))),
              ("findpoly_root_residual", Le(Frob2(terms), SMul(Sqr(tolc), pw2)))]
    meta = dict(base); meta["result"] = r_
    c.cases.append(Case("fp%d" % idx, env, checks, meta))


# ----------------------------------------------------------------------------- identify
IDENT = [("exp(-sqrt(2))", []), ("exp(-sqrt(3)/2)", []), ("exp(sqrt(2))", []), ("exp(-sqrt(5)/3)", []), ("exp(-2/3)", []),
         ("3/7", []), ("sqrt(2)/3", []), ("(1+sqrt(5))/2", []), ("2*pi+1", ["pi"]), ("pi/4", ["pi"]), ("exp(2)", []),
         ("3*e-1", ["e"]), ("log(2)/3+1", ["log(2)"]), ("sqrt(pi)", ["pi"]), ("2**(1/3)*3", []), ("(2/3)*pi+(1/5)*e", ["pi", "e"]),
         ("exp(pi/2)", ["pi"]), ("7/(1+sqrt(2))", []), ("log(3)*2", ["log(3)"]), ("5**(2/3)/7", [])]


def to_cert(node, C):
    """ast node -> cert.py real term (whitelisted grammar); raises ValueError otherwise"""
    if isinstance(node, ast.Expression):
        return to_cert(node.body, C)
    if isinstance(node, ast.Constant) and isinstance(node.value, int):
        return C.Q(node.value)
    if isinstance(node, ast.Name):
        if node.id == "pi": return C.PI
        if node.id == "e": return C.exp(C.Q(1))
        raise ValueError("name " + node.id)
    if isinstance(node, ast.UnaryOp) and isinstance(node.op, (ast.USub, ast.UAdd)):
        v = to_cert(node.operand, C)
        return -v if isinstance(node.op, ast.USub) else v
    if isinstance(node, ast.BinOp):
        if isinstance(node.op, ast.Pow):
            b = to_cert(node.left, C)
            ex = rational_of(node.right)
            if ex.denominator == 1:
                return C.powz(b, int(ex))
            if ex.denominator == 2 and ex.numerator == 1:
                return C.sqrt(b)
            return C.exp(C.Q(ex.numerator, ex.denominator) * C.ln(b))        # b > 0 in identify's output
        l, r = to_cert(node.left, C), to_cert(node.right, C)
        if isinstance(node.op, ast.Add): return l + r
        if isinstance(node.op, ast.Sub): return l - r
        if isinstance(node.op, ast.Mult): return l * r
        if isinstance(node.op, ast.Div): return l / r
        raise ValueError("operator")
    if isinstance(node, ast.Call) and isinstance(node.func, ast.Name) and len(node.args) == 1 and not node.keywords:
        a = to_cert(node.args[0], C)
        if node.func.id == "sqrt": return C.sqrt(a)
        if node.func.id == "exp": return C.exp(a)
        if node.func.id == "log": return C.ln(a)
        raise ValueError("function " + node.func.id)
    raise ValueError("syntax " + type(node).__name__)


def rational_of(node):
    if isinstance(node, ast.Constant) and isinstance(node.value, int):
        return Fraction(node.value)
    if isinstance(node, ast.UnaryOp) and isinstance(node.op, ast.USub):
        return -rational_of(node.operand)
    if isinstance(node, ast.BinOp) and isinstance(node.op, ast.Div):
        return rational_of(node.left) / rational_of(node.right)
    raise ValueError("exponent is not a rational literal")


# minimised failures of earlier runs: replayed first in every run
IDENT_CORPUS = [("3*e-1", ["e"], 8, True, False, 53)]     # listed 1/log((920-sqrt(0))/800), 1.8e-4 off, before fix 99b280e


def identify_items(c, idx, p, forced=None):
    mp, rng = c.mp, c.rng
    if forced is not None:
        s, consts, tdig, full, neg = forced[:5]
        x = mpeval(mp, s)
        if neg: x = -x
        tol = None if tdig is None else mp.mpf(10) ** -tdig
    else:
        s, consts = rng.choice(IDENT)
        x = mpeval(mp, s)
        if rng.random() < 0.3:
            x = -x
        tol = rng.choice([None, mp.mpf(10) ** -rng.randint(6, 12)])
        full = rng.random() < 0.4
    base = {"prec": p, "x": list(x._mpf_), "planted": s, "constants": consts, "tol": None if tol is None else mp.nstr(tol, 5),
            "full": full, "fn": "identify"}
    r_, exc = call(c, "identify", lambda: mp.identify(x, consts, tol=tol, full=full), None)
    if exc is not None:
        r = dict(base); r.update({"kind": "raises", "exception": repr(exc)})
        c.pyviol("identify raised %r (x = %s, prec %d)" % (exc, s, p), r); return []
    c.keys.add("id-%s-%d-%s-%s" % (s, p, base["tol"], x < 0))
    if r_ is None or r_ == []:
        c.observed["identify_none"] = c.observed.get("identify_none", 0) + 1
        return []
    if len(c.samples) < 6 and rng.random() < 0.3:
        c.samples.append("identify(%s = %s, %s) at prec %d -> %r" % (s, mp.nstr(x, 10), consts, p, r_))
    efftol = tol if tol is not None else mp.eps ** 0.7
    out = []
    for j, st in enumerate(r_ if full else [r_]):
        out.append({"id": "id%d_%d" % (idx, j), "string": st, "x": x._mpf_, "tol": efftol._mpf_, "meta": dict(base, string=st)})
    return out


def certify_identify(c, items, rep):
    """parse + certify with the Interval engine; returns counters"""
    res = {"pass": 0, "fail": 0, "inconclusive": 0, "unparsed": 0, "skipped_no_cert_engine": 0}
    if not items:
        return res, ""
    try:
        import cert as C
    except Exception as e:  # noqa
        res["skipped_no_cert_engine"] = len(items)
        return res, "cert.py unavailable: %r" % (e,)
    insts = []
    for it in items:
        try:
            term = to_cert(ast.parse(it["string"], mode="eval"), C)
            xv = C.mpf_fraction(it["x"]); tv = C.mpf_fraction(it["tol"])
            scale = max(Fraction(1), abs(xv))
            insts.append(C.rel_instance(it["id"], it["x"], term, Fraction(1024) * tv, scale=C.Const(scale), meta=it["meta"]))
        except Exception as e:  # noqa  (grammar outside the whitelist, or an engine error): not certified
            res["unparsed"] += 1
            c.observed["identify_unparsed"] = c.observed.get("identify_unparsed", 0) + 1
    if not insts:
        return res, ""
    try:
        out = C.certify(insts, tag="c35_identify", timeout=240)
    except Exception as e:  # noqa
        res["inconclusive"] += len(insts)
        return res, "cert.certify failed: %r" % (e,)
    for iid, v in out["verdicts"].items():
        res[v["verdict"]] += 1
        if v["verdict"] == "fail":
            path = os.path.join(out["dir"], v.get("file", ""))
            r = {k: v[k] for k in v if k in ("prec", "x", "planted", "constants", "tol", "full", "fn", "string")}
            r.update({"kind": "identify_value", "coq_file": path,
                      "coq_text": open(path).read() if os.path.exists(path) else ""})
            c.py_violations += 1
            rep.violation("identify returned %r which does not evaluate to x within 2^10*tol*max(1,|x|) (certified by Interval)"
                          % (v.get("string"),), r)
    return res, "; ".join(out["cmds"][:2])


def build(rep, tier_, rng):
    from mpmath import mp
    c = Ctx(rep, rng, mp)
    c.identify_items = []
    N = 240 if tier_ == "quick" else 4000
    p0 = mp.prec
    try:
        for k, forced in enumerate(IDENT_CORPUS):
            mp.prec = forced[5]
            c.identify_items += identify_items(c, 90000 + k, forced[5], forced=forced)
        for idx in range(N):
            which = idx % 8
            if which in (0, 1):
                p = rng.choice([100, 150, 200, 300]); mp.prec = p
                pslq_case(c, idx, p, planted=True)
            elif which in (2, 3, 4):
                p = rng.choice([53, 64, 100, 150, 200]); mp.prec = p
                pslq_case(c, idx, p, planted=False)
            elif which == 5:
                p = rng.choice([150, 200, 300]); mp.prec = p
                findpoly_case(c, idx, p, planted=True)
            elif which == 6:
                p = rng.choice([53, 100, 200]); mp.prec = p
                findpoly_case(c, idx, p, planted=False)
            else:
                p = rng.choice([53, 64, 100]); mp.prec = p
                c.identify_items += identify_items(c, idx, p)
    finally:
        mp.prec = p0
    return c


def what(case, label):
    m = case.meta
    return "%s: certified violation of '%s' (prec %s; result %r) — Coq proved the post-condition false" % (
        m.get("fn"), label, m.get("prec"), m.get("result"))


def run(rep, tier_, rng):
    qprops.load_known(rep)
    c = build(rep, tier_, rng)
    stats = run_cases(TAG, c.cases, timeout=600 if tier_ == "quick" else 1500)
    counts = summarize(rep, TAG, c.cases, what)
    idres, idcmd = certify_identify(c, c.identify_items, rep)
    counts["certified_pass"] += idres["pass"]
    counts["certified_fail"] += idres["fail"]
    counts["inconclusive"] += idres["inconclusive"] + idres["unparsed"] + idres["skipped_no_cert_engine"]
    qprops.coverage(rep, TAG, c.cases, stats, counts, c.evals, c.keys,
                    "pslq on vectors of 2..6 values drawn from {1, sqrt2, sqrt3, sqrt5, pi, e, log2, log3, euler, catalan} "
                    "(optionally rescaled), random tol / maxcoeff / maxsteps, prec 53..200; planted integer relations "
                    "(|a_k| <= 9, prec 100..300, maxsteps 10^5); findpoly on algebraic numbers of degree <= 4 (planted, ample "
                    "degree) and on transcendental constants with loose tolerances; identify on 15 planted closed forms "
                    "(rational, quadratic, constants pi/e/log, exp/log/sqrt/power transforms), both signs, tol default or "
                    "1e-6..1e-12, full=False/True; non-trivial = distinct input vectors / (value, degree, precision) "
                    "combinations (all have at least 2 components)", c.samples,
                    {"calls_by_function": c.fn_counts, "skipped": c.skipped, "python_level_violations": c.py_violations,
                     "outcomes": c.observed, "identify_certificates": idres, "identify_cmd": idcmd})
    rep.coverage["trusted_base"].append("identify: harness/cert.py Interval certificates (Coq-Interval, Flocq, classical reals); "
                                        "the parser from identify's string to the real term is Python (whitelisted ast)")
    rep.assumptions = ["identify: 'within its tolerance' is certified as |x - value| <= 2^10 * tol * max(1,|x|)",
                       "findpoly: the root residual uses the exact powers of the dyadic x (mpmath feeds rounded powers to pslq)"]


from props.c30 import replay  # noqa: E402
