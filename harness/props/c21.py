"""C21 -- Bessel family accurate to 2^(8-p) relative (in modulus); zeros of the requested index.
Engine B, sub-domain certificates (the installed Coq libraries define no Bessel/Airy function).

CERTIFIED per instance (one Coq lemma `Rabs (y - ref) <= 2^(8-p) * Rabs ref`; integrals are Coquelicot `RInt` terms enclosed by
Coq Interval's `integral_intro`):
  besselj(n, x), integer n (incl. negative), real dyadic x:  (1/PI) RInt cos(n t - x sin t) 0 PI   (Bessel's integral);
  besselj(n, x), 0 <= n <= 16, 0 < x < 1 tiny (down to 2^-36): exact rational partial sums of the defining alternating series,
  the value lies between two consecutive partial sums (ASSUMED Leibniz bound);
  besseli(n, x), integer n:                                 (1/PI) RInt exp(x cos t) cos(n t) 0 PI;
  angerj(v, x), webere(v, x), any dyadic order v:            (1/PI) RInt cos / sin (v t - x sin t) 0 PI   (their definitions);
  struveh(n, x), struvel(n, x), n = 0, 1, 2:                 2 (x/2)^n / (sqrt(PI) Gamma(n+1/2)) RInt sin / sinh (x cos t) sin^(2n) t 0 (PI/2);
  half-integer orders v = n + 1/2, |n| <= 6, x > 0 in closed form (exact rational coefficients A, B obtained from the three-term
  recurrence at the dyadic x):  besselj = sqrt(2/(PI x)) (A sin x + B cos x), bessely(v) = (-1)^(n+1) besselj(-v),
  besseli = sqrt(2/(PI x)) (A sinh x + B cosh x), besselk = sqrt(PI/(2x)) e^-x sum_k (n+k)!/(k!(n-k)!) (2x)^-k,
  hankel1/hankel2 = J +- iY (complex modulus);
  besseljzero(1/2, m) = m PI, besselyzero(1/2, m) = (m - 1/2) PI  (mpmath rejects negative orders);
  besseljzero(n, m), integer n: certified SIGN CHANGE of Bessel's integral between z(1-e) and z(1+e) (a zero lies within the
  tolerance; the INDEX m is not certified; same sign at both ends is reported as a violation under the assumption that two zeros
  of J_n are more than 1 apart).
METAMORPHIC only (Coq-proved soundness lemmas Meta.lin3_violation / wronskian_violation; `consistent` proves nothing):
  three-term recurrences Z_(v-1)(x) + Z_(v+1)(x) = (2v/x) Z_v(x) for besselj, bessely, I_(v-1) - I_(v+1) = (2v/x) I_v for besseli,
  K_(v+1) - K_(v-1) = (2v/x) K_v for besselk at random dyadic (non-integer and integer) orders;  Wronskians
  J_(v+1) Y_v - J_v Y_(v+1) = 2/(PI x),  I_v K_(v+1) + I_(v+1) K_v = 1/x,  Ai Bi' - Ai' Bi = 1/PI;  scorergi + scorerhi = airybi.
NOT DECIDED: bessely/besselk/hankel values at orders that are not half-integers, besselj/besseli at non-integer non-half-integer
order, complex arguments, airyai/airybi values themselves, scorer, kelvin (ber, bei, ker, kei), coulombf/coulombg, lommels1/lommels2,
besselyzero/airyaizero/airybizero (except v = +-1/2), derivative zeros, the index of a zero."""
import math
from fractions import Fraction
from common import *
import cert
from cert import Const, Cx, ZERO, ONE, HALF, PI, lift, sqrt, ln, exp, sin, cos, powz, var, rint, Instance, atoms_instance
from specb import *

LEVEL = "exploration"
PRECS_QUICK = [20, 53, 53, 53]
PRECS_THOROUGH = [20, 53, 53, 100, 100, 200]
PRECS_EL = [15, 53, 113, 400]
PRECS_EL_T = [15, 53, 113, 400, 1000]

NOT_DECIDED = [
    "bessely/besselk/hankel1/hankel2 at orders that are not half-integers and besselj/besseli at orders that are neither integers nor "
    "half-integers (only recurrences/Wronskians, metamorphic); every complex argument",
    "airyai/airybi values (only the Wronskian), scorergi/scorerhi (only Gi + Hi = Bi), ber/bei/ker/kei, coulombf/coulombg, "
    "lommels1/lommels2: not covered",
    "besselyzero, airyaizero, airybizero, derivative zeros, and the INDEX of any zero (only: a zero lies within the tolerance of the "
    "returned value); integral references above 53 bits (quick) / 200 bits (thorough)",
]

ASSUMPTIONS = [
    "Integral representations used as references (textbook, not proved in Coq): J_n(x) = (1/PI) RInt cos(n t - x sin t) 0 PI (integer n); "
    "I_n(x) = (1/PI) RInt exp(x cos t) cos(n t) 0 PI; Anger J_v and Weber E_v: the same integrals with cos / sin and real v (definitions); "
    "Struve H_v(x) = 2 (x/2)^v/(sqrt(PI) Gamma(v+1/2)) RInt sin(x cos t) sin^(2v) t 0 (PI/2), L_v with sinh; Gamma(n+1/2) = (2n-1)!!/2^n sqrt(PI).",
    "Small arguments: J_n(x) = sum_k (-1)^k (x/2)^(2k+n)/(k!(n+k)!); for 0 < x <= 1 the terms decrease in modulus, so J_n(x) lies between two "
    "consecutive partial sums (alternating series theorem, assumed).",
    "Half-integer orders: J_(1/2) = sqrt(2/(PI x)) sin x, J_(-1/2) = sqrt(2/(PI x)) cos x, I_(+-1/2) with sinh/cosh, the recurrences "
    "J_(v+1) = (2v/x) J_v - J_(v-1), I_(v+1) = I_(v-1) - (2v/x) I_v, Y_(n+1/2) = (-1)^(n+1) J_(-n-1/2), "
    "K_(n+1/2)(x) = sqrt(PI/(2x)) e^-x sum_{k<=n} (n+k)!/(k!(n-k)!) (2x)^-k, K_(-v) = K_v, H1 = J + iY, H2 = J - iY.",
    "Zeros: a certified sign change of Bessel's integral between z(1-e) and z(1+e) proves (intermediate value theorem, J_n continuous) that a "
    "zero lies within relative e of the returned z; it does NOT prove that it is the m-th one.  'Same sign at both ends => violation' "
    "assumes that two zeros of J_n are more than 1 apart (interlacing; the bracket is much shorter).",
    "Metamorphic identities assumed for the true functions at the sampled point: the three-term recurrences, the Wronskians "
    "J_(v+1) Y_v - J_v Y_(v+1) = 2/(PI x), I_v K_(v+1) + I_(v+1) K_v = 1/x, Ai Bi' - Ai' Bi = 1/PI, and Gi + Hi = Bi.",
    "Relative error in modulus, tolerance exactly 2^(8-p); inputs are exact dyadic rationals; only sampled instances are certified.",
]

T = var("t")


def C(x):
    return HC(Fraction(x))


def iparams(p):
    d = max(10, min(32, (p + 24) // 5))
    return {"i_degree": d, "i_fuel": 600, "margin": 22}


# ------------------------------------------------------------------------------------------------ references

def r_besselj_int(n, x):
    if x == 0: raise Skip("x = 0")
    return (1 / PI) * rint("t", cos(C(n) * T - C(x) * sin(T)), 0, PI)


def r_besseli_int(n, x):
    if x == 0: raise Skip("x = 0")
    return (1 / PI) * rint("t", exp(C(x) * cos(T)) * cos(C(n) * T), 0, PI)


def r_angerj(v, x):
    return (1 / PI) * rint("t", cos(C(v) * T - C(x) * sin(T)), 0, PI)


def r_webere(v, x):
    return (1 / PI) * rint("t", sin(C(v) * T - C(x) * sin(T)), 0, PI)


def _struve_coeff(n, x):
    # 2 (x/2)^n / (sqrt(PI) * (2n-1)!!/2^n * sqrt(PI)) = 2 (x/2)^n 2^n / ((2n-1)!! PI)
    return C(2 * (Fraction(x) / 2) ** n * 2 ** n / fac2(2 * n - 1)) / PI


def r_struveh(n, x):
    s2n = powz(sin(T), 2 * n) if n else ONE
    return _struve_coeff(n, x) * rint("t", sin(C(x) * cos(T)) * s2n, 0, PI * HALF)


def r_struvel(n, x):
    s2n = powz(sin(T), 2 * n) if n else ONE
    u = C(x) * cos(T)
    return _struve_coeff(n, x) * rint("t", (exp(u) - exp(-u)) * HALF * s2n, 0, PI * HALF)


def b_besselj_small(cid, k, args, p, yvs, eps, meta, params):
    """J_n(x) for 0 < x <= 1 by the defining power series in exact rational arithmetic: the terms alternate and decrease, so the
    value lies between two consecutive partial sums (Leibniz; an ASSUMED textbook bound) -- tail_instance decides the tolerance
    for every value of that interval."""
    n, x = args
    y, = _reals(yvs)
    x = Fraction(x); h = x / 2
    t = h ** n / math.factorial(n); s = t; j = 0
    while True:
        j += 1
        t_next = -t * h * h / (j * (n + j))
        if abs(t_next) * 2 ** (p + 40) < abs(s + t_next) and j >= 2:
            break
        s += t_next; t = t_next
    lo = min(s, s + t_next)
    return [tail_instance(cid + "_series", y, C(lo), C(abs(t_next)), eps, params=params, meta=meta)]


def half_coeffs(n, x, hyperbolic=False):
    """(A, B) with  F_(n+1/2)(x) = sqrt(2/(PI x)) (A s(x) + B c(x)),  (s, c) = (sin, cos) or (sinh, cosh); exact Fractions."""
    x = Fraction(x)
    up = {0: (Fraction(1), Fraction(0)), -1: (Fraction(0), Fraction(1))}          # order 1/2 and -1/2
    def mul(c, ab): return (c * ab[0], c * ab[1])
    def sub(a, b): return (a[0] - b[0], a[1] - b[1])
    k = 0
    while k < n:            # F_(v+1) = (2v/x) F_v - F_(v-1)   [J];   F_(v+1) = F_(v-1) - (2v/x) F_v   [I],  v = k + 1/2
        v = Fraction(2 * k + 1, 2)
        t = mul(2 * v / x, up[k])
        up[k + 1] = sub(up[k - 1], t) if hyperbolic else sub(t, up[k - 1])
        k += 1
    k = -1
    while k > n:            # F_(v-1) = (2v/x) F_v - F_(v+1)   [J];   F_(v-1) = F_(v+1) + (2v/x) F_v   [I],  v = k + 1/2
        v = Fraction(2 * k + 1, 2)
        t = mul(2 * v / x, up[k])
        up[k - 1] = (up[k + 1][0] + t[0], up[k + 1][1] + t[1]) if hyperbolic else sub(t, up[k + 1])
        k -= 1
    return up[n]


def r_jhalf(n, x):
    A, B = half_coeffs(n, x)
    X = C(x)
    return sqrt(2 / (PI * X)) * (C(A) * sin(X) + C(B) * cos(X))


def r_yhalf(n, x):
    r = r_jhalf(-n - 1, x)                 # -(n + 1/2) = (-n-1) + 1/2
    return -r if n % 2 == 0 else r         # (-1)^(n+1)


def r_ihalf(n, x):
    A, B = half_coeffs(n, x, hyperbolic=True)
    X = C(x)
    return sqrt(2 / (PI * X)) * (C(A) * cert.sinh(X) + C(B) * cert.cosh(X))


def r_khalf(n, x):
    if n < 0: n = -n - 1                  # K_(-v) = K_v:  -(n+1/2) -> (-n-1) + 1/2
    x = Fraction(x)
    s = sum(Fraction(math.factorial(n + k), math.factorial(k) * math.factorial(n - k)) / (2 * x) ** k for k in range(n + 1))
    X = C(x)
    return sqrt(PI / (2 * X)) * exp(-X) * C(s)


def r_hankel(n, x, kind):
    j, y = r_jhalf(n, x), r_yhalf(n, x)
    return Cx(j, y if kind == 1 else -y)


def half(n):
    return Fraction(2 * n + 1, 2)


# ------------------------------------------------------------------------------------------------ builders

def _reals(yvs):
    out = []
    for yv in yvs:
        if yv[0] == "complex" and yv[2] == 0: yv = ("real", yv[1])
        if yv[0] != "real": raise Skip("non-real value in a real metamorphic check")
        out.append(yv[1])
    return out


def b_rec(sign_pattern):
    """a0*Z_(v-1) + a1*Z_(v+1) + a2*Z_v = 0 with (a0, a1) = sign_pattern and a2 = -2v/x"""
    def build(cid, k, args, p, yvs, eps, meta, params):
        v, x = args
        y0, y1, y2 = _reals(yvs)
        return [meta_lin(cid + "_rec", [sign_pattern[0], sign_pattern[1], -2 * v / x], [y0, y1, y2], eps, p, meta=meta)]
    return build


def b_wronsk_jy(cid, k, args, p, yvs, eps, meta, params):
    v, x = args
    j1, y0, j0, y1 = _reals(yvs)                     # J_(v+1) Y_v - J_v Y_(v+1) = 2/(PI x)
    return [meta_wronskian(cid + "_w", 2 / (PI * C(x)), [j1, j0, y1, y0], eps, p, meta=meta)]


def b_wronsk_ik(cid, k, args, p, yvs, eps, meta, params):
    v, x = args
    i0, k1, i1, k0 = _reals(yvs)                     # I_v K_(v+1) - (-I_(v+1)) K_v = 1/x
    return [meta_wronskian(cid + "_w", C(1 / Fraction(x)), [i0, -i1, k0, k1], eps, p, meta=meta)]


def b_wronsk_airy(cid, k, args, p, yvs, eps, meta, params):
    ai, aip, bi, bip = _reals(yvs)                   # Ai Bi' - Ai' Bi = 1/PI
    return [meta_wronskian(cid + "_w", 1 / PI, [ai, aip, bi, bip], eps, p, meta=meta)]


def b_scorer(cid, k, args, p, yvs, eps, meta, params):
    gi, hi, bi = _reals(yvs)
    return [meta_lin(cid + "_sum", [1, 1, -1], [gi, hi, bi], eps, p, meta=meta)]


def b_jzero_int(cid, k, args, p, yvs, eps, meta, params):
    n, m = args
    z, = _reals(yvs)
    if z <= 0:
        return [], "besseljzero returned a non-positive value"
    lo = r_besselj_int(n, z * (1 - eps))
    hi_t = (1 / PI) * rint("u", cos(C(n) * var("u") - C(z * (1 + eps)) * sin(var("u"))), 0, PI)
    mm = dict(meta); mm["part"] = "sign-change"
    g1 = [(ZERO, "<", lo), (hi_t, "<", ZERO)]
    g2 = [(lo, "<", ZERO), (ZERO, "<", hi_t)]
    same1 = [(ZERO, "<", lo), (ZERO, "<", hi_t)]
    same2 = [(lo, "<", ZERO), (hi_t, "<", ZERO)]
    v = cert.approx(lo, 2 * p + 60)
    first, second = (g1, g2) if v > 0 else (g2, g1)
    a = atoms_instance(cid + "_sc", first, [same1, same2], params=params, meta=mm)
    return [a], None


# ------------------------------------------------------------------------------------------------ generators

def gx(rng, lo, hi, bits=None):
    b = bits or rng.choice([3, 6, 12, 30])
    x = rand_dyadic(rng, lo, hi, b)
    return x if x != 0 else Fraction(1, 2 ** b)


def g_xs(rng, hi=30):
    x = gx(rng, Fraction(1, 8), rng.choice([4, 12, hi]))
    return -x if rng.random() < 0.25 else x


def g_order(rng):
    if rng.random() < 0.25:
        # next to an integer order (the J_v cos - J_-v cancellation in bessely, the limits in besselk)
        return Fraction(rng.randint(0, 5)) + rng.choice([1, -1]) * Fraction(1, 2 ** rng.choice([10, 12, 20, 30, 40]))
    return rng.choice([Fraction(rng.randint(-6, 8)), gx(rng, -6, 8, 4), gx(rng, 0, 4, 12)])


def g_nonint_order(rng):
    while True:
        v = gx(rng, -6, 8, rng.choice([2, 4, 12]))
        if v.denominator > 2: return v


K = []


def reg(*a, **kw):
    K.append(Kind(*a, **kw))


IQ = dict(precs=PRECS_QUICK, params=iparams)
EL = dict(precs=PRECS_EL)
MQ = dict(precs=PRECS_EL, regime="metamorphic")

reg("besselj_int", "besselj", lambda c, n, x: c.besselj(n, M(c, x)), r_besselj_int, lambda rng, p: [rng.randint(-4, 12), g_xs(rng)], w=1.5, regime="integral", **IQ)
reg("besselj_int_small", "besselj", lambda c, n, x: c.besselj(n, M(c, x)), gen=lambda rng, p: [rng.choice([rng.randint(0, 3), rng.randint(4, 16), rng.randint(10, 20), rng.randint(10, 20)]),
                         Fraction(rng.randint(1, 255), 2 ** rng.choice([rng.randint(10, 36), rng.randint(14, 18), rng.randint(14, 18)]))],
    build=b_besselj_small, w=4.0, regime="small-argument-series", **EL)
reg("besseli_int", "besseli", lambda c, n, x: c.besseli(n, M(c, x)), r_besseli_int, lambda rng, p: [rng.randint(-3, 8), g_xs(rng, 10)], w=1.2, regime="integral", **IQ)
reg("angerj", "angerj", lambda c, v, x: c.angerj(M(c, v), M(c, x)), r_angerj, lambda rng, p: [g_nonint_order(rng), g_xs(rng, 12)], w=0.6, regime="integral", **IQ)
reg("webere", "webere", lambda c, v, x: c.webere(M(c, v), M(c, x)), r_webere, lambda rng, p: [g_order(rng), g_xs(rng, 12)], w=0.6, regime="integral", **IQ)
reg("struveh", "struveh", lambda c, n, x: c.struveh(n, M(c, x)), r_struveh, lambda rng, p: [rng.randint(0, 2), abs(g_xs(rng, 20))], w=0.6, regime="integral", **IQ)
reg("struvel", "struvel", lambda c, n, x: c.struvel(n, M(c, x)), r_struvel, lambda rng, p: [rng.randint(0, 2), abs(g_xs(rng, 12))], w=0.5, regime="integral", **IQ)


def g_half(rng, p):
    return [rng.randint(-6, 6), gx(rng, Fraction(1, 4), rng.choice([4, 30, 200]))]


reg("besselj_half", "besselj", lambda c, n, x: c.besselj(M(c, half(n)), M(c, x)), r_jhalf, g_half, w=2.0, regime="half-integer", **EL)
reg("bessely_half", "bessely", lambda c, n, x: c.bessely(M(c, half(n)), M(c, x)), r_yhalf, g_half, w=2.0, regime="half-integer", **EL)
reg("besseli_half", "besseli", lambda c, n, x: c.besseli(M(c, half(n)), M(c, x)), r_ihalf,
    lambda rng, p: [rng.randint(-6, 6), gx(rng, Fraction(1, 4), rng.choice([4, 30]))], w=1.5, regime="half-integer", **EL)
reg("besselk_half", "besselk", lambda c, n, x: c.besselk(M(c, half(n)), M(c, x)), r_khalf, g_half, w=1.5, regime="half-integer", **EL)
reg("hankel1_half", "hankel1", lambda c, n, x: c.hankel1(M(c, half(n)), M(c, x)), lambda n, x: r_hankel(n, x, 1), g_half, w=1.0, regime="half-integer", **EL)
reg("hankel2_half", "hankel2", lambda c, n, x: c.hankel2(M(c, half(n)), M(c, x)), lambda n, x: r_hankel(n, x, 2), g_half, w=1.0, regime="half-integer", **EL)
reg("besseljzero_half", "besseljzero", lambda c, s, m: c.besseljzero(M(c, Fraction(s, 2)), m),
    lambda s, m: PI * m if s == 1 else PI * C(Fraction(2 * m - 1, 2)), lambda rng, p: [1, rng.choice([rng.randint(1, 8), rng.randint(9, 200)])],
    w=1.0, regime="zero-closed-form", **EL)
reg("besselyzero_half", "besselyzero", lambda c, s, m: c.besselyzero(M(c, Fraction(s, 2)), m),
    lambda s, m: PI * m if s == -1 else PI * C(Fraction(2 * m - 1, 2)), lambda rng, p: [1, rng.choice([rng.randint(1, 8), rng.randint(9, 200)])],
    w=0.8, regime="zero-closed-form", **EL)
reg("besseljzero_int", "besseljzero", lambda c, n, m: c.besseljzero(n, m), gen=lambda rng, p: [rng.randint(0, 6), rng.randint(1, 6)], build=b_jzero_int,
    w=0.7, regime="zero-sign-change", precs=[20, 20, 53], params=iparams)

for _fn, _pat, _w in (("besselj", (1, 1), 1.5), ("bessely", (1, 1), 1.2), ("besseli", (1, -1), 1.0), ("besselk", (-1, 1), 1.0)):
    reg("m_rec_" + _fn, "%s(v-1,x) & %s(v+1,x) & %s(v,x)" % (_fn, _fn, _fn),
        (lambda f: lambda c, v, x: (getattr(c, f)(M(c, v - 1), M(c, x)), getattr(c, f)(M(c, v + 1), M(c, x)), getattr(c, f)(M(c, v), M(c, x))))(_fn),
        gen=lambda rng, p: [g_order(rng), gx(rng, Fraction(1, 4), rng.choice([4, 30, 100]))], build=b_rec(_pat), w=_w, **MQ)
reg("m_wronsk_jy", "besselj(v+1,x) & bessely(v,x) & besselj(v,x) & bessely(v+1,x)",
    lambda c, v, x: (c.besselj(M(c, v + 1), M(c, x)), c.bessely(M(c, v), M(c, x)), c.besselj(M(c, v), M(c, x)), c.bessely(M(c, v + 1), M(c, x))),
    gen=lambda rng, p: [g_order(rng), gx(rng, Fraction(1, 4), rng.choice([4, 30]))], build=b_wronsk_jy, w=1.5, **MQ)
reg("m_wronsk_ik", "besseli(v,x) & besselk(v+1,x) & besseli(v+1,x) & besselk(v,x)",
    lambda c, v, x: (c.besseli(M(c, v), M(c, x)), c.besselk(M(c, v + 1), M(c, x)), c.besseli(M(c, v + 1), M(c, x)), c.besselk(M(c, v), M(c, x))),
    gen=lambda rng, p: [g_order(rng), gx(rng, Fraction(1, 4), rng.choice([4, 30]))], build=b_wronsk_ik, w=1.2, **MQ)
reg("m_wronsk_airy", "airyai(x) & airyai'(x) & airybi(x) & airybi'(x)",
    lambda c, x: (c.airyai(M(c, x)), c.airyai(M(c, x), derivative=1), c.airybi(M(c, x)), c.airybi(M(c, x), derivative=1)),
    gen=lambda rng, p: [gx(rng, -20, 12)], build=b_wronsk_airy, w=2.0, **MQ)
reg("m_scorer", "scorergi(x) & scorerhi(x) & airybi(x)", lambda c, x: (c.scorergi(M(c, x)), c.scorerhi(M(c, x)), c.airybi(M(c, x))),
    gen=lambda rng, p: [gx(rng, -8, 8)], build=b_scorer, w=0.8, **MQ)

RULE = ("each evaluation = one call (metamorphic kinds: 3-4 calls) of the current /repo code; call form drawn from the %d-entry registry "
        "(every entry once, then by weight); integer orders -4..12, half-integer orders -11/2..13/2, random dyadic orders in [-6, 8]; "
        "arguments random short dyadics up to 30 (200 for half-integer closed forms); precisions 20/53 for integral references "
        "(200 thorough), 15..400 (1000 thorough) otherwise; non-trivial = a real Interval/integral proof; distinct = distinct lemma statements"
        % len(K))


def run(rep, tier_, rng):
    if tier_ == "thorough":
        for k in K:
            if k.precs is PRECS_QUICK: k.precs = PRECS_THOROUGH
            elif k.precs is PRECS_EL: k.precs = PRECS_EL_T
    run_kinds(rep, K, tier_, rng, n_quick=int(os.environ.get("VERIF_B3_N", 50)), n_thorough=200, precs_quick=PRECS_QUICK,
              precs_thorough=PRECS_THOROUGH, assumptions=ASSUMPTIONS, rule=RULE, not_decided=NOT_DECIDED,
              params={"sentence_timeout": 100 if tier_ == "quick" else 400, "single_timeout": 100 if tier_ == "quick" else 400,
                      "batch": 5, "ladder": [1]}, budget_quick=95)


def replay(rep, path):
    replay_kinds(rep, path, K)
