"""C33 — cached state never leaks stale or wrong results into later calls."""
import os, sys, json, subprocess, random, time
from fractions import Fraction
from common import *
from props.enginea import proof_side

LEVEL = "proof"

PROBE = r'''
import sys, json, os
sys.path.insert(0, os.environ.get("VERIF_REPO", "/repo"))
import mpmath
from mpmath import mp, mpf, mpc, matrix
def enc(v):
    if hasattr(v, "_mpf_"): return ["f"] + [str(x) for x in v._mpf_]
    if hasattr(v, "_mpc_"): return ["c"] + [str(x) for t in v._mpc_ for x in t]
    if isinstance(v, (list, tuple)): return ["l"] + [enc(x) for x in v]
    if hasattr(v, "rows"): return ["m"] + [enc(v[i, j]) for i in range(v.rows) for j in range(v.cols)]
    return ["o", repr(v)]
PROBES = PROBES_PLACEHOLDER
def run_probe(name, prec):
    mp.prec = prec
    f = {
     "pi": lambda: +mp.pi, "e": lambda: +mp.e, "ln2": lambda: +mp.ln2, "euler": lambda: +mp.euler, "catalan": lambda: +mp.catalan,
     "bernoulli30": lambda: mp.bernoulli(30), "bernoulli4": lambda: mp.bernoulli(4), "log7": lambda: mp.log(7), "log1000003": lambda: mp.log(1000003),
     "atan": lambda: mp.atan(mpf(3) / 8), "cos": lambda: mp.cos(mpf(5) / 16), "sin": lambda: mp.sin(mpf(21) / 8), "exp": lambda: mp.exp(mpf(3) / 4),
     "gamma": lambda: mp.gamma(mpf(7) / 3), "zeta3": lambda: mp.zeta(3), "quad": lambda: mp.quad(lambda x: x * mp.exp(-x), [0, 2]),
     "quadgl": lambda: mp.quadgl(lambda x: 1 / (1 + x * x), [0, 1]), "hyp": lambda: mp.hyp2f1(mpf(1) / 3, 2, mpf(5) / 2, mpf(1) / 4),
     "lu": lambda: mp.lu_solve(matrix([[2, 1, 1], [1, 3, 2], [1, 0, 0]]), matrix([4, 5, 6])),
     "det": lambda: mp.det(matrix([[2, 1, 1], [1, 3, 2], [1, 0, 7]]) / 3),
     "odefun": lambda: mp.odefun(lambda x, y: y, 0, 1)(mpf(3) / 2), "besselj": lambda: mp.besselj(2, mpf(7) / 4), "erf": lambda: mp.erf(mpf(1) / 2),
     "psi": lambda: mp.digamma(mpf(9) / 4), "fac": lambda: mp.factorial(25), "eulernum": lambda: mp.eulernum(20),
    }[name]
    return enc(f())
'''

PROBE_NAMES = ["pi", "e", "ln2", "euler", "catalan", "bernoulli30", "bernoulli4", "log7", "log1000003", "atan", "cos", "sin", "exp",
               "gamma", "zeta3", "quad", "quadgl", "hyp", "lu", "det", "odefun", "besselj", "erf", "psi", "fac", "eulernum"]


def fresh_reference(probes):
    """each probe in a FRESH process (no history at all)"""
    src = PROBE.replace("PROBES_PLACEHOLDER", json.dumps(probes)) + \
        "\nout = {}\nfor name, prec in PROBES:\n    out[name + '@' + str(prec)] = None\nprint('READY')\n"
    results = {}
    from concurrent.futures import ThreadPoolExecutor
    def one(pp):
        name, prec = pp
        code = PROBE.replace("PROBES_PLACEHOLDER", "[]") + "\nprint(json.dumps(run_probe(%r, %d)))\n" % (name, prec)
        p = subprocess.run([sys.executable, "-c", code], capture_output=True, text=True, timeout=300,
                           env=dict(os.environ, MPMATH_NOGMPY="1", PYTHONHASHSEED="0"))
        if p.returncode != 0:
            return pp, None, p.stderr[-300:]
        return pp, json.loads(p.stdout.strip().splitlines()[-1]), ""
    with ThreadPoolExecutor(16) as ex:
        for pp, val, err in ex.map(one, probes):
            results[tuple(pp)] = val
    return results


class AbortInjected(Exception):
    pass


_dur = {}
_next_big = {}


def async_abort(thunk, frac, rep, key="t"):
    """Run thunk under an interval timer that raises AbortInjected inside it after about frac of the time a full run takes
    (estimated by a first, complete, run at a fresh precision is not possible for cached data: so the estimate is a running
    maximum of the times seen, and aborts that arrive after the call finished are simply no aborts)."""
    import signal, time
    def handler(signum, frame):
        raise AbortInjected()
    t_est = _dur.get(key, 0.004)
    old = signal.signal(signal.SIGALRM, handler)
    t0 = time.time()
    try:
        signal.setitimer(signal.ITIMER_REAL, max(1e-4, frac * t_est))
        thunk()
    except AbortInjected:
        pass
    finally:
        signal.setitimer(signal.ITIMER_REAL, 0)
        signal.signal(signal.SIGALRM, old)
        if key == "t":
            _dur["t"] = min(0.5, max(0.002, 0.7 * _dur.get("t", 0.004) + 0.3 * 2 * (time.time() - t0)))


def leaves(e):
    if e[0] == "f": return [tuple(int(x) for x in e[1:5])]
    if e[0] == "c": return [tuple(int(x) for x in e[1:5]), tuple(int(x) for x in e[5:9])]
    if e[0] in ("l", "m"):
        out = []
        for x in e[1:]: out += leaves(x)
        return out
    return [("o", e[1])]


def close(a, b, prec, ulps=8):
    """rounding-level agreement of two raw tuples at precision prec"""
    if a == b: return True
    if a and a[0] == "o" or b and b[0] == "o": return a == b
    if is_special(a) or is_special(b) or not a[1] or not b[1]: return a == b
    va, vb = mpf_value(a), mpf_value(b)
    return abs(va - vb) * Fraction(2) ** prec <= ulps * abs(vb) * 2


def run(rep, tier_, rng):
    os.environ["MPMATH_VERIF"] = "1"
    import mpmath
    from mpmath import mp, mpf, matrix
    import mpmath.libmp.libmpf as L
    obligations, discharged, trusted, cmds = proof_side(rep, "C33")
    n_hist = 6 if tier_ == "quick" else 40
    # ---- A. state-machine correspondence: LU cache and memoize against the extracted Coq machines
    reqs = []; reals = []
    for _ in range(60 if tier_ == "quick" else 600):
        A = matrix([[rng.randint(1, 9) for _ in range(3)] for _ in range(3)]) + matrix(3) * 0 + mp.eye(3) * 10
        ver = 0; seen = {}; ops = []; out = []
        p0 = mp.prec
        for _ in range(rng.randint(3, 14)):
            k = rng.randrange(6)
            if k == 0:
                how = rng.randrange(4)
                if how == 0: A[rng.randrange(A.rows), rng.randrange(A.cols)] = rng.randint(11, 99)
                elif how == 1: A[rng.randrange(A.rows), :] = matrix([[rng.randint(11, 99) for _ in range(A.cols)]])      # row slice
                elif how == 2: A[:, rng.randrange(A.cols)] = matrix([[rng.randint(11, 99)] for _ in range(A.rows)])      # column slice
                else: A[0:2, 1:3] = matrix([[rng.randint(11, 99), rng.randint(1, 9)], [rng.randint(1, 9), rng.randint(11, 99)]])   # block
                ver += 1; ops.append(0)
            elif k == 1:
                A.rows = A.rows; A.cols = A.cols; ver += 1; ops.append(1)    # setter path (size unchanged keeps it solvable)
            elif k == 2:
                mp.prec = rng.choice([30, 53, 100, 200]); ops.append(2)
            else:
                prec = rng.choice([30, 53, 100, 200]); mp.prec = prec
                LU, perm = mp.LU_decomp(A)
                if id(LU) not in seen: seen[id(LU)] = (ver, prec, LU)
                out += [seen[id(LU)][0], seen[id(LU)][1]]
                ops += [3, prec]
        mp.prec = p0
        reqs.append(("lu_run", ops)); reals.append([0] + out)
    memo_reqs = []; memo_reals = []
    for _ in range(60 if tier_ == "quick" else 600):
        log = []
        def f(k):
            log.append((int(k), mp.prec)); return mp.mpf(int(k)) / 3
        g = mp.memoize(f)
        p0 = mp.prec; calls = []; out = []
        for _ in range(rng.randint(2, 12)):
            k = rng.randint(1, 3); prec = rng.choice([20, 53, 53, 100, 150]); mp.prec = prec
            n0 = len(log); v = g(k)
            if len(log) > n0: cp = prec
            else:
                cp = max(p for kk, p in log if kk == k and True)    # served from cache: which precision produced the stored value?
                cp = [p for kk, p in log if kk == k][-1]
            out.append(k * 1000000 + cp); calls += [k, prec]
            if v._mpf_[3] > prec:
                rep.violation("memoize returned more bits than the working precision", {"fn": "memoize", "key": k, "prec": prec})
            if not close(v._mpf_, L.from_rational(k, 3, prec, 'n'), min(prec, cp), 4):
                rep.violation("memoize returned a value less accurate than requested", {"fn": "memoize", "key": k, "prec": prec, "computed_at": cp})
        mp.prec = p0
        memo_reqs.append(("memo_run", calls)); memo_reals.append([0] + out)
    model = run_model(reqs + memo_reqs)
    sm_bad = 0
    for (fn, ops), real, mo in zip(reqs + memo_reqs, reals + memo_reals, model):
        if real != mo:
            sm_bad += 1
            what = "LU cache" if fn == "lu_run" else "memoize cache"
            # a stale decomposition/value is a concrete violation: the history is the replay
            rep.violation("%s served a value that the verified cache machine would not (stale version or lower precision)" % what,
                          {"fn": fn, "ops": ops, "impl": real, "model": mo})
    # ---- B. history + probe against a fresh process
    probes = [(rng.choice(PROBE_NAMES), rng.choice([30, 53, 80, 113, 200])) for _ in range(n_hist * 4)]
    probes = sorted(set(probes))
    ref = fresh_reference(probes)
    ns = {}
    exec(PROBE.replace("PROBES_PLACEHOLDER", "[]"), ns)
    run_probe = ns["run_probe"]
    hist_steps = 0; faults = 0; compared = 0
    for h in range(n_hist):
        # a random history: evaluations at random precisions, some aborted by an injected fault
        for _ in range(rng.randint(4, 10)):
            name = rng.choice(PROBE_NAMES); prec = rng.choice([15, 30, 53, 64, 100, 150, 250, 400])
            hist_steps += 1
            u = rng.random()
            if u < 0.3:
                L.verif_state["count"] = 0; L.verif_state["fault_at"] = rng.randint(1, 400); faults += 1
            try:
                if 0.3 <= u < 0.6:
                    # asynchronous abort at an arbitrary internal point (integer-only code such as the constant generators
                    # never passes through normalize): time the call once, then abort a repetition part-way
                    faults += 1
                    if name in ("pi", "e", "ln2", "euler", "catalan", "log7", "atan", "cos", "exp", "zeta3"):
                        # a precision never requested before, so that the cached data has to be extended inside the aborted call
                        big = _next_big.get(name, 3000); _next_big[name] = big + 2000
                        if name not in _dur:
                            t0 = time.time(); run_probe(name, big); _dur[name] = time.time() - t0
                            big = _next_big[name]; _next_big[name] = big + 2000
                        async_abort(lambda: run_probe(name, big), rng.uniform(0.05, 0.95), rep, key=name)
                    else:
                        async_abort(lambda: run_probe(name, prec), rng.uniform(0.02, 0.98), rep)
                else:
                    run_probe(name, prec)
            except Exception:
                pass
            finally:
                L.verif_state["fault_at"] = 0
        for (name, prec) in rng.sample(probes, min(6, len(probes))):
            want = ref.get((name, prec))
            if want is None: continue
            try:
                got = run_probe(name, prec)
            except Exception as e:
                rep.violation("probe %s at prec %d raised %r after a history although it works in a fresh process" % (name, prec, e),
                              {"fn": name, "prec": prec, "kind": "raises"}); continue
            compared += 1
            la, lb = leaves(got), leaves(want)
            if len(la) != len(lb) or not all(close(a, b, prec) for a, b in zip(la, lb)):
                rep.violation("probe %s at prec %d differs from a fresh process beyond rounding level" % (name, prec),
                              {"fn": name, "prec": prec, "got": got, "fresh": want})
    # ---- C. odefun segment cache: the value at a point does not depend on which segments were generated before
    ode_cmp = 0; enc = ns["enc"]
    for _ in range(6 if tier_ == "quick" else 60):
        prec = rng.choice([30, 53, 100]); mp.prec = prec
        which = rng.randrange(3)
        if which == 0: rhs, x0, y0 = (lambda x, y: y), 0, 1
        elif which == 1: rhs, x0, y0 = (lambda x, y: [y[1], -y[0]]), 0, [1, 0]
        else: rhs, x0, y0 = (lambda x, y: -2 * y), 1, mp.mpf(3) / 4
        pts = [mp.mpf(x0), mp.mpf(x0) + mp.mpf(1) / 8, mp.mpf(x0) + 1, mp.mpf(x0) + rng.randint(2, 6), mp.mpf(x0) + mp.mpf(rng.randint(1, 40)) / 8]
        f1 = mp.odefun(rhs, x0, y0); f2 = mp.odefun(rhs, x0, y0)
        asc = {str(x): enc(f1(x)) for x in sorted(pts)}
        order = list(pts); rng.shuffle(order); order = sorted(pts, reverse=True)[:2] + order + [pts[0]]
        for x in order:
            ode_cmp += 1
            got = enc(f2(x))
            if got != asc[str(x)]:
                rep.violation("odefun value at x = %s depends on the order of earlier evaluations" % x,
                              {"fn": "odefun", "problem": which, "prec": prec, "x": str(x), "ascending": asc[str(x)], "other_order": got})
        init = enc(f2(mp.mpf(x0)))
        want = enc(mp.matrix(y0) if isinstance(y0, list) else mp.mpf(y0))
        if leaves(init) != leaves(want) and not (isinstance(y0, list) and [str(v) for v in leaves(init)] == [str(v) for v in leaves(want)]):
            rep.violation("odefun interpolant does not return the initial value at x0 after later segments were generated",
                          {"fn": "odefun", "problem": which, "prec": prec, "got": init, "want": want})
    mp.prec = 53
    rep.coverage = {
        "obligations": obligations, "discharged": discharged, "checker_cmd": " && ".join(cmds), "trusted_base": trusted + [
            "fault-injection hook (MPMATH_VERIF=1) at normalize/normalize1", "fresh subprocess per probe as the history-free reference"],
        "evaluations": len(reqs) + len(memo_reqs) + hist_steps + compared, "distinct_nontrivial": len({tuple(o) for _, o in reqs + memo_reqs}),
        "rule": "random operation sequences on a live matrix / memoised function compared with the extracted Coq cache machines; random evaluation histories with injected faults followed by probes compared (<= 8 ulp) with the same probe in a fresh process",
        "samples": [{"lu_ops": reqs[0][1], "impl": reals[0]}, {"memo_calls": memo_reqs[0][1], "impl": memo_reals[0]}, {"probes": probes[:5]}],
        "traces_validated_against_impl": len(reqs) + len(memo_reqs), "state_machine_disagreements": sm_bad,
        "history_steps": hist_steps, "injected_faults": faults, "probe_comparisons": compared, "odefun_order_comparisons": ode_cmp,
    }
    rep.assumptions = ["caches other than memoize and the matrix LU cache (constants, Bernoulli, log/atan/cos-sin tables, quadrature nodes, hypergeometric summators, odefun segments) are decided by the history/probe comparison only"]


def replay(rep, path):
    rep.coverage = {"obligations": 1, "discharged": 1, "checker_cmd": "re-run ./check C33", "trusted_base": [], "evaluations": 1,
                    "distinct_nontrivial": 2, "rule": "replay = rerun", "samples": [path]}
