"""C27 -- nsum / nprod over finite ranges equal the exact sum / product up to rounding; convergent series, products and
limits with closed forms are returned to within 2^(10-p) relative by nsum (methods direct, richardson, shanks, levin,
alternating = cohen_alt, euler-maclaurin), nprod, sumem, sumap and limit; multidimensional nsum = iterated sum.

Engine B: each call of the current /repo code gives one Coq lemma  Rabs (y - S) <= 2^(10-p) * Rabs S  where S is
  * the exact rational value (finite ranges, geometric / telescoping / k^m r^k series, rational limits): a closed
    statement over Z proved by vm_compute, or
  * the closed form written with PI / exp / ln / sqrt / sin / cos: proved by `interval`."""
import time
from fractions import Fraction
from math import comb, factorial
from common import *
import cert, sweep, calcb
from cert import Const, ZERO, ONE, HALF, PI, lift
from calcb import fs, fr, fsl, frl, rq, INF, NINF
from props.engineb import run_and_report, replay_generic, short

LEVEL = "exploration"

ASSUMPTIONS = [
    "Closed forms trusted (classical identities): sum_{k>=k0} c r^k = c r^k0/(1-r); sum_{k>=1} k r^k = r/(1-r)^2, "
    "sum k^2 r^k = r(1+r)/(1-r)^3; zeta(2)=pi^2/6, zeta(4)=pi^4/90, and their tails zeta(s) - sum_{k<N} k^-s; "
    "sum_{k>=1} 1/(k(k+m)) = H_m/m; sum (-1)^(k+1)/k = ln 2; sum (-1)^(k+1)/k^2 = pi^2/12; sum_{k>=0} (-1)^k/(2k+1) = pi/4; "
    "sum x^k/k! = e^x; sum (-1)^k x^(2k)/(2k)! = cos x; sum_{k>=1} x^k/k = -ln(1-x); sum C(2k,k) z^k = 1/sqrt(1-4z); "
    "prod_{k>=2}(1-1/k^2) = 1/2; prod_{k>=2}(k^3-1)/(k^3+1) = 2/3; prod_{k>=1}(1-1/(4k^2)) = 2/pi; prod_{k>=1}(1+1/k^2) = sinh(pi)/pi; "
    "lim (1+x/n)^n = e^x; lim_{x->0} sin(x)/x = 1; lim n(2^(1/n)-1) = ln 2; lim_{x->0}(x-sin x)/x^3 = 1/6; "
    "lim_{x->0}(e^x-1)/x = 1; lim_{n->inf} (a n^2+b n+c)/(d n^2+e n+f) = a/d; a double series of a product f(x)g(y) with positive "
    "terms (or absolutely convergent) equals the product of the two sums (the expanding-hypercube order used by nsum converges to it).",
    "'finite ranges equal the exact sum (up to rounding)' is read as |y - S| <= 2^(10-p)|S| with S computed exactly in Q from the rational "
    "terms; the generated finite sums have sum|t_k| <= 8|S| (no catastrophic cancellation, which the property does not promise to survive).",
    "Only method/series combinations that the mpmath docstrings describe as suitable are generated: richardson for P(k)/Q(k) and "
    "(-1)^k P(k)/Q(k) terms; shanks for ~c^k and alternating terms; direct for rapidly convergent terms (|r| <= 1/2, factorial); "
    "alternating (cohen_alt) for alternating series; levin (variant u) for logarithmically convergent and alternating series; "
    "euler-maclaurin / sumem for smooth positive non-alternating terms (sumem started at k >= 32 as in its docstring); sumap for "
    "power-like summands; the default r+s everywhere.  nsum's own tolerance is absolute (eps/2^10) -- the sampled sums have |S| in "
    "[2^-6, 2^6] so the relative reading is the binding one.",
    "The summand handed to mpmath is a Python lambda on mpf arguments evaluating the same rational/elementary expression as the "
    "reference at the working precision in force (nsum raises it internally).",
    "Universal accuracy is NOT proved: sampled instances only (level exploration, certified oracle).",
]


# ------------------------------------------------------------------------------------------ term families (finite ranges)

def t_exact(spec, k):
    """exact value of the term at integer k"""
    t = spec["term"]; p = [fr(x) for x in spec.get("params", [])]
    if t == "recip_quad": return 1 / (k * k + p[0] * k + p[1])
    if t == "lin_over_quad": return (k + p[0]) / (k * k + p[1])
    if t == "poly": return calcb.pval(p, Fraction(k))
    if t == "geo": return p[0] * p[1] ** k
    if t == "alt_recip": return Fraction((-1) ** (k % 2)) / (k + p[0])
    if t == "kgeo": return Fraction(k) ** int(p[0]) * p[1] ** k
    if t == "prod_1m_inv_sq": return 1 - Fraction(1, k * k)
    if t == "prod_lin_ratio": return (k + p[0]) / (k + p[1])
    if t == "prod_1p_r": return 1 + p[0] / (k * k)
    raise KeyError(t)


def t_mp(ctx, spec):
    """the summand as the user would write it (mpf argument, working precision)"""
    t = spec["term"]; p = [fr(x) for x in spec.get("params", [])]
    q = lambda v: ctx.mpf(v.numerator) / v.denominator
    if t == "recip_quad": return lambda k: 1 / (k * k + q(p[0]) * k + q(p[1]))
    if t == "lin_over_quad": return lambda k: (k + q(p[0])) / (k * k + q(p[1]))
    if t == "poly": return lambda k: ctx.polyval([q(c) for c in reversed(p)], k)
    if t == "geo": return lambda k: q(p[0]) * q(p[1]) ** k
    if t == "alt_recip": return lambda k: (-1) ** k / (k + q(p[0]))
    if t == "kgeo": return lambda k: k ** int(p[0]) * q(p[1]) ** k
    if t == "prod_1m_inv_sq": return lambda k: 1 - 1 / (k * k)
    if t == "prod_lin_ratio": return lambda k: (k + q(p[0])) / (k + q(p[1]))
    if t == "prod_1p_r": return lambda k: 1 + q(p[0]) / (k * k)
    raise KeyError(t)


def g_finite(rng):
    kind = rng.choice(["sum", "sum", "sum", "prod", "sum2d"])
    a = rng.randint(1, 8); n = rng.choice([1, 2, 5, 10, 30, 60, 120]); b = a + n - 1
    if kind == "prod":
        t = rng.choice(["prod_1m_inv_sq", "prod_lin_ratio", "prod_1p_r"])
        if t == "prod_1m_inv_sq": a = max(a, 2); b = a + n - 1; params = []
        elif t == "prod_lin_ratio": params = [rq(rng, 5, positive=True), rq(rng, 5, positive=True)]
        else: params = [rq(rng, 4, positive=True)]
        return {"kind": "finite_prod", "term": t, "params": fsl(params), "range": [a, b]}
    t = rng.choice(["recip_quad", "lin_over_quad", "poly", "geo", "alt_recip", "kgeo"])
    if t == "recip_quad": params = [rq(rng, 4, positive=True), rq(rng, 5, positive=True)]
    elif t == "lin_over_quad": params = [rq(rng, 4, positive=True), rq(rng, 5, positive=True)]
    elif t == "poly": params = [Fraction(rng.randint(0, 5), rng.choice([1, 1, 2])) for _ in range(rng.randint(1, 4))]; params[-1] += 1
    elif t == "geo": params = [rq(rng, 3, nonzero=True), Fraction(rng.choice([1, -1, 1]) * rng.randint(1, 5), rng.randint(2, 6))]
    elif t == "alt_recip": params = [rq(rng, 3, positive=True)]
    else: params = [Fraction(rng.randint(1, 3)), Fraction(rng.randint(1, 4), rng.randint(5, 8))]
    if t in ("geo", "kgeo") and abs(params[1]) > 1:
        b = min(b, a + 30)
    if kind == "sum2d":
        t2 = rng.choice(["recip_quad", "lin_over_quad", "poly"])
        p2 = [rq(rng, 4, positive=True), rq(rng, 5, positive=True)] if t2 != "poly" else [Fraction(rng.randint(1, 3)), Fraction(rng.randint(0, 3))]
        n1, n2 = rng.choice([(2, 3), (4, 4), (6, 10), (1, 12)])
        a2 = rng.randint(1, 5)
        return {"kind": "finite_sum2d", "term": t, "params": fsl(params), "range": [a, a + n1 - 1],
                "term2": t2, "params2": fsl(p2), "range2": [a2, a2 + n2 - 1], "combine": rng.choice(["prod", "sum"])}
    return {"kind": "finite_sum", "term": t, "params": fsl(params), "range": [a, b]}


def finite_exact(spec):
    a, b = spec["range"]
    if spec["kind"] == "finite_prod":
        r = Fraction(1)
        for k in range(a, b + 1): r *= t_exact(spec, k)
        return r, None
    if spec["kind"] == "finite_sum":
        ts = [t_exact(spec, k) for k in range(a, b + 1)]
        return sum(ts), sum(abs(t) for t in ts)
    s2 = {"term": spec["term2"], "params": spec["params2"]}
    a2, b2 = spec["range2"]
    ts = []
    for x in range(a, b + 1):
        for y in range(a2, b2 + 1):
            u, v = t_exact(spec, x), t_exact(s2, y)
            ts.append(u * v if spec["combine"] == "prod" else u + v)
    return sum(ts), sum(abs(t) for t in ts)


def finite_call(ctx, spec):
    a, b = spec["range"]
    f = t_mp(ctx, spec)
    if spec["kind"] == "finite_prod":
        return lambda: ctx.nprod(f, [a, b])
    if spec["kind"] == "finite_sum":
        return lambda: ctx.nsum(f, [a, b])
    g = t_mp(ctx, {"term": spec["term2"], "params": spec["params2"]})
    if spec["combine"] == "prod":
        return lambda: ctx.nsum(lambda x, y: f(x) * g(y), [a, b], spec["range2"])
    return lambda: ctx.nsum(lambda x, y: f(x) + g(y), [a, b], spec["range2"])


# ------------------------------------------------------------------------------------------ infinite series / products / limits

def H(m):
    return sum(Fraction(1, i) for i in range(1, m + 1))


def series(ctx, spec):
    """-> (summand f (mpf -> mpf), start index k0 (int), reference term S, suitable-method list).
    Every summand is written the way the nsum docstring writes its examples."""
    s = spec["series"]; p = [fr(x) for x in spec.get("params", [])]
    q = lambda v: ctx.mpf(v.numerator) / v.denominator
    if s == "geo":             # c r^k, k >= k0
        c, r, k0 = p[0], p[1], int(p[2])
        ms = ["default", "shanks", "levin"] + (["direct"] if abs(r) <= Fraction(1, 2) else []) + (["alternating"] if r < 0 else [])
        return (lambda k: q(c) * q(r) ** k), k0, Const(c * r ** k0 / (1 - r)), ms
    if s == "kgeo":            # k^m r^k, k >= 1, m in {1,2}
        m, r = int(p[0]), p[1]
        S = r / (1 - r) ** 2 if m == 1 else r * (1 + r) / (1 - r) ** 3
        ms = ["default", "shanks", "levin"] + (["direct"] if abs(r) <= Fraction(1, 2) else [])
        return (lambda k: k ** m * q(r) ** k), 1, Const(S), ms
    if s == "zeta":            # 1/k^s, k >= N, s in {2,4}
        sx, N = int(p[0]), int(p[1])
        full = PI * PI / 6 if sx == 2 else PI * PI * PI * PI / 90
        S = full - Const(sum(Fraction(1, k ** sx) for k in range(1, N)))
        return (lambda k: 1 / k ** sx), N, S, ["default", "richardson", "levin", "euler-maclaurin", "r+s+e"]
    if s == "telescope":       # 1/((k+a)(k+a+m)), k >= 1  = (1/m) sum_{j=1..m} 1/(a+j)
        a, m = p[0], int(p[1])
        S = sum(1 / (a + j) for j in range(1, m + 1)) / m
        return (lambda k: 1 / ((k + q(a)) * (k + q(a) + m))), 1, Const(S), ["default", "richardson", "levin", "euler-maclaurin"]
    if s == "alt_harm":        # (-1)^(k+1)/k
        return (lambda k: (-1) ** (k + 1) / k), 1, cert.ln(2), ["default", "shanks", "richardson", "alternating", "levin"]
    if s == "alt_zeta2":
        return (lambda k: (-1) ** (k + 1) / k ** 2), 1, PI * PI / 12, ["default", "shanks", "richardson", "alternating", "levin"]
    if s == "leibniz":
        return (lambda k: (-1) ** k / (2 * k + 1)), 0, PI / 4, ["default", "shanks", "richardson", "alternating", "levin"]
    if s == "exp":             # x^k/k!
        x = p[0]
        return (lambda k: q(x) ** k / ctx.fac(k)), 0, cert.exp(Const(x)), ["default", "direct"]
    if s == "cos":
        x = p[0]
        return (lambda k: (-1) ** k * q(x) ** (2 * k) / ctx.fac(2 * k)), 0, cert.cos(Const(x)), ["default", "direct"]
    if s == "log1m":           # x^k/k, k>=1 = -ln(1-x)
        x = p[0]
        ms = ["default", "shanks", "levin"] + (["direct"] if abs(x) <= Fraction(1, 2) else []) + (["alternating"] if x < 0 else [])
        return (lambda k: q(x) ** k / k), 1, -cert.ln(Const(1 - x)), ms
    if s == "central_binom":   # C(2k,k) z^k = 1/sqrt(1-4z)
        z = p[0]
        ms = ["default", "shanks", "levin"] + (["direct"] if abs(4 * z) <= Fraction(1, 2) else [])
        return (lambda k: ctx.binomial(2 * k, k) * q(z) ** k), 0, 1 / cert.sqrt(Const(1 - 4 * z)), ms
    raise KeyError(s)


def product(ctx, spec):
    s = spec["product"]
    if s == "1m_inv_sq": return (lambda k: 1 - 1 / k ** 2), 2, Const(Fraction(1, 2))
    if s == "cubes": return (lambda k: (k ** 3 - 1) / (k ** 3 + 1)), 2, Const(Fraction(2, 3))
    if s == "wallis": return (lambda k: 1 - 1 / (4 * k ** 2)), 1, 2 / PI
    if s == "sinh": return (lambda k: 1 + 1 / k ** 2), 1, cert.sinh(PI) / PI
    raise KeyError(s)


def limit_case(ctx, spec):
    """-> (f, point ('inf' or Fraction), reference, kwargs)"""
    s = spec["limit"]; p = [fr(x) for x in spec.get("params", [])]
    q = lambda v: ctx.mpf(v.numerator) / v.denominator
    if s == "exp": return (lambda n: (1 + q(p[0]) / n) ** n), INF, cert.exp(Const(p[0]))
    if s == "sinc": return (lambda x: ctx.sin(x) / x), Fraction(0), ONE
    if s == "ln2": return (lambda n: n * (2 ** (1 / n) - 1)), INF, cert.ln(2)
    if s == "xsin": return (lambda x: (x - ctx.sin(x)) / x ** 3), Fraction(0), Const(Fraction(1, 6))
    if s == "expm1": return (lambda x: (ctx.exp(x) - 1) / x), Fraction(0), ONE
    if s == "ratio":
        a, b, c, d, e, f_ = p
        return (lambda n: (q(a) * n * n + q(b) * n + q(c)) / (q(d) * n * n + q(e) * n + q(f_))), INF, Const(a / d)
    raise KeyError(s)


RATIONAL = ("zeta", "telescope")


def conv_of(spec):
    """convergence class of the partial sums: 'rational' (P/Q summands), 'alternating', 'geometric', 'factorial'"""
    k = spec.get("kind", "series")
    if k == "series2d": return conv_of(spec["a"])
    if k == "series2d_mixed": return conv_of(spec["inf"])
    s = spec.get("series")
    if s in RATIONAL: return "rational"
    if s in ("alt_harm", "alt_zeta2", "leibniz"): return "alternating"
    if s in ("exp", "cos"): return "factorial"
    if s: return "geometric"
    return k


def pband(prec):
    return "p25-32" if 25 <= prec <= 32 else "std"


def g_series(rng):
    s = rng.choice(["geo", "geo", "kgeo", "zeta", "zeta", "telescope", "alt_harm", "alt_zeta2", "leibniz", "exp", "cos", "log1m", "central_binom"])
    if s == "geo":
        r = Fraction(rng.choice([1, 1, -1]) * rng.randint(1, 9), 10) if rng.random() < 0.5 else Fraction(rng.choice([1, -1]), rng.randint(2, 5))
        params = [rq(rng, 3, nonzero=True), r, Fraction(rng.randint(0, 3))]
    elif s == "kgeo": params = [Fraction(rng.randint(1, 2)), Fraction(rng.randint(1, 7), rng.choice([8, 10]))]
    elif s == "zeta":
        sx = rng.choice([2, 2, 4])
        params = [Fraction(sx), Fraction(rng.choice([1, 1, 1, 2, 3, 5] if sx == 2 else [1, 1, 2]))]     # tails with |S| >= 2^-4
    elif s == "telescope": params = [rq(rng, 3, positive=True) if rng.random() < 0.6 else Fraction(0), Fraction(rng.randint(1, 4))]
    elif s in ("exp", "cos"): params = [rq(rng, 6, dens=(1, 2, 3), nonzero=True)]
    elif s == "log1m": params = [Fraction(rng.choice([1, -1, 1]) * rng.randint(1, 7), rng.choice([8, 10]))]
    elif s == "central_binom": params = [Fraction(rng.choice([1, -1, 1]) * rng.randint(1, 5), rng.choice([24, 32]))]
    else: params = []
    return {"kind": "series", "series": s, "params": fsl(params)}


def g_series2d(rng):
    """double series of a product of two 1-d summands (both positive or geometric)"""
    def one():
        s = rng.choice(["geo", "geo", "kgeo", "zeta", "telescope"])
        if s == "geo": return {"series": "geo", "params": fsl([Fraction(1), Fraction(1, rng.randint(2, 4)), Fraction(rng.randint(0, 1))])}
        if s == "kgeo": return {"series": "kgeo", "params": fsl([Fraction(1), Fraction(1, rng.randint(2, 3))])}
        if s == "zeta": return {"series": "zeta", "params": fsl([Fraction(2), Fraction(1)])}
        return {"series": "telescope", "params": fsl([Fraction(0), Fraction(1)])}
    a, b = one(), one()
    while conv_of(a) != conv_of(b):       # one convergence type per double series (what Richardson / Shanks each need)
        b = one()
    if rng.random() < 0.35:        # mixed finite x infinite (documented example shape x/2^y)
        fin = {"term": "poly", "params": fsl([Fraction(rng.randint(0, 2)), Fraction(1)]), "range": [1, rng.randint(2, 5)]}
        return {"kind": "series2d_mixed", "fin": fin, "inf": b if b["series"] in ("geo", "kgeo") else a, "order": rng.choice(["fin_first", "inf_first"])}
    return {"kind": "series2d", "a": a, "b": b}


def g_product(rng):
    return {"kind": "product", "product": rng.choice(["1m_inv_sq", "cubes", "wallis", "sinh"]), "nsum": rng.random() < 0.3}


def g_limit(rng):
    s = rng.choice(["exp", "sinc", "ln2", "xsin", "expm1", "ratio"])
    if s == "exp": params = [rq(rng, 3, dens=(1, 2), nonzero=True)]
    elif s == "ratio":
        params = [Fraction(rng.randint(1, 5)), rq(rng, 4), rq(rng, 4), Fraction(rng.randint(1, 5)), rq(rng, 4, positive=True), rq(rng, 4, positive=True)]
    else: params = []
    return {"kind": "limit", "limit": s, "params": fsl(params)}


def g_sumem(rng):
    if rng.random() < 0.3:
        return {"kind": "sumem_poly", "params": fsl([Fraction(rng.randint(-5, 5)) for _ in range(rng.randint(2, 5))]),
                "range": [rng.randint(-50, 0), rng.randint(1, 200)]}
    return {"kind": "sumem", "series": "zeta", "params": fsl([Fraction(rng.choice([2, 4])), Fraction(rng.choice([32, 40, 64]))])}


def g_sumap(rng):
    return {"kind": "sumap", "series": "zeta", "params": fsl([Fraction(rng.choice([2, 4])), Fraction(rng.choice([1, 1, 2, 3]))])}


# ------------------------------------------------------------------------------------------ one call

def make_call(ctx, spec, method):
    """-> (thunk, reference term or Fraction, abs-sum (finite sums) or None)"""
    k = spec["kind"]
    kw = {}
    if method not in (None, "default"):
        kw["method"] = method
    if k in ("finite_sum", "finite_prod", "finite_sum2d"):
        S, A = finite_exact(spec)
        return finite_call(ctx, spec), Const(S), A
    if k == "series":
        f, k0, S, ms = series(ctx, spec)
        assert method in ms, "unsuitable method"
        return (lambda: ctx.nsum(f, [k0, ctx.inf], **kw)), S, None
    if k == "series2d":
        f, k0, S1, _ = series(ctx, dict(spec["a"], kind="series"))
        g, k1, S2, _ = series(ctx, dict(spec["b"], kind="series"))
        return (lambda: ctx.nsum(lambda x, y: f(x) * g(y), [k0, ctx.inf], [k1, ctx.inf], **kw)), S1 * S2, None
    if k == "series2d_mixed":
        fin = spec["fin"]
        f = t_mp(ctx, fin); a, b = fin["range"]
        Sf = sum(t_exact(fin, i) for i in range(a, b + 1))
        g, k1, S2, _ = series(ctx, dict(spec["inf"], kind="series"))
        if spec["order"] == "fin_first":
            return (lambda: ctx.nsum(lambda x, y: f(x) * g(y), [a, b], [k1, ctx.inf], **kw)), Const(Sf) * S2, None
        return (lambda: ctx.nsum(lambda y, x: f(x) * g(y), [k1, ctx.inf], [a, b], **kw)), Const(Sf) * S2, None
    if k == "product":
        f, k0, S = product(ctx, spec)
        if spec.get("nsum"):
            kw["nsum"] = True
        return (lambda: ctx.nprod(f, [k0, ctx.inf], **kw)), S, None
    if k == "limit":
        f, x, S = limit_case(ctx, spec)
        pt = ctx.inf if x == INF else ctx.mpf(0)
        return (lambda: ctx.limit(f, pt, **kw)), S, None
    if k == "sumem":          # N^(s-1)/k^s from k = N: a tail of size about 1/(s-1) (sumem's tolerance is absolute)
        sx, N = [int(fr(v)) for v in spec["params"]]
        _, k0, S, _ = series(ctx, dict(spec, kind="series"))
        c = N ** (sx - 1)
        return (lambda: ctx.sumem(lambda k: c / k ** sx, [k0, ctx.inf])), Const(c) * S, None
    if k == "sumem_poly":
        P = frl(spec["params"]); a, b = spec["range"]
        S = sum(calcb.pval(P, Fraction(i)) for i in range(a, b + 1))
        coeffs = [int(c) for c in reversed(P)]
        return (lambda: ctx.sumem(lambda n: ctx.polyval(coeffs, n), [a, b])), Const(S), None
    if k == "sumap":
        sx, N = [int(fr(v)) for v in spec["params"]]
        _, _, S, _ = series(ctx, dict(spec, kind="series"))
        return (lambda: ctx.sumap(lambda t: 1 / t ** sx, [N, ctx.inf])), S, None
    raise KeyError(k)


def fn_of(spec, method):
    k = spec["kind"]
    if k.startswith("finite_prod") or k == "product": return "nprod"
    if k == "limit": return "limit"
    if k.startswith("sumem"): return "sumem"
    if k == "sumap": return "sumap"
    return "nsum"


def regime_of(spec, method):
    k = spec["kind"]
    sub = spec.get("series") or spec.get("product") or spec.get("limit") or spec.get("term") or ""
    if k == "series2d": sub = spec["a"]["series"] + "*" + spec["b"]["series"]
    if k == "series2d_mixed": sub = spec["inf"]["series"] + "/" + spec["order"]
    return "%s:%s/%s" % (k, sub, method or "default")


def methods_for(ctx, spec):
    k = spec["kind"]
    if k == "series":
        return series(ctx, spec)[3]
    if k in ("series2d", "series2d_mixed"):
        return ["default"]
    if k == "product":
        return ["default"] if spec.get("nsum") else ["default", "richardson"]
    if k == "limit":
        return ["default"]
    return ["default"]


def do_call(ctx, spec, method, prec, timeout):
    p0 = ctx.prec
    try:
        ctx.prec = prec
        thunk, S, A = make_call(ctx, spec, method)
        y = sweep.call_with_timeout(thunk, timeout)
        return y, S, A
    finally:
        ctx.prec = p0


def plan(rng, tier_, ctx):
    q = tier_ == "quick"
    precs = [30, 53, 100] if q else [30, 53, 100, 200, 300]
    jobs = []
    for i in range(50 if q else 300):
        jobs.append((g_finite(rng), "default", rng.choice(precs + [24, 113])))
    for i in range(90 if q else 500):
        spec = g_series(rng)
        ms = methods_for(ctx, spec)
        m = rng.choice(ms)
        prec = rng.choice(precs)
        if m in ("euler-maclaurin", "r+s+e") and prec > 100: prec = rng.choice([53, 100])
        jobs.append((spec, m, prec))
    for i in range(8 if q else 40):
        jobs.append((g_series2d(rng), "default", rng.choice([30, 53] if q else [30, 53, 100])))
    for i in range(14 if q else 60):
        spec = g_product(rng)
        jobs.append((spec, rng.choice(methods_for(ctx, spec)), rng.choice(precs[:3])))
    for i in range(14 if q else 60):
        jobs.append((g_limit(rng), "default", rng.choice(precs[:3])))
    for i in range(5 if q else 30):
        jobs.append((g_sumem(rng), "default", rng.choice(precs[:3])))
    for i in range(4 if q else 24):
        jobs.append((g_sumap(rng), "default", rng.choice([30, 53] if q else [30, 53, 100])))
    rng.shuffle(jobs)
    return jobs


def build_instances(cid, spec, method, prec, yq, S, A, fn, regime):
    eps = calcb.eps_of(prec)
    meta = {"fn": fn, "regime": regime, "p": prec, "call": cid, "part": "value"}
    return [cert.rel_instance(cid + "_v", yq, S, eps, meta=meta)]


def kclass_of(spec, method):
    k = spec["kind"]
    sub = spec.get("series") or spec.get("product") or spec.get("limit") or ""
    return "%s:%s/%s" % (k, sub, method)


def run(rep, tier_, rng):
    calcb.load_known_b2(rep)
    from mpmath import mp
    q = tier_ == "quick"
    t0 = time.time()
    jobs = plan(rng, tier_, mp)
    insts, calls = [], {}
    stats = {"raised": [], "timeouts": 0, "skipped_cancellation": 0, "skipped_for_time": 0, "nonfinite": 0}
    gen_budget = 75 if q else 700
    for n, (spec, method, prec) in enumerate(jobs):
        if time.time() - t0 > gen_budget:
            stats["skipped_for_time"] = len(jobs) - n; break
        fn = fn_of(spec, method); regime = regime_of(spec, method)
        cid = "s%04d" % n
        call = {"fn": fn, "method": method, "regime": regime, "kclass": kclass_of(spec, method), "conv": conv_of(spec),
                "pband": pband(prec), "mclass": "r" if method in ("default", "richardson") else "other", "prec": prec, "spec": spec}
        if spec["kind"].startswith("finite_sum"):
            S, A = finite_exact(spec)
            if S == 0 or A > 8 * abs(S):
                stats["skipped_cancellation"] += 1; continue
        try:
            y, S, A = do_call(mp, spec, method, prec, 30 if q else 200)
        except sweep.CallTimeout:
            stats["timeouts"] += 1; continue
        except Exception as ex:
            calls[cid] = call
            stats["raised"].append({"regime": regime, "exc": repr(ex)[:100]})
            rep.violation("C27 %s raised %s (%s)" % (fn, repr(ex)[:80], regime), dict(call, clause="raised")); continue
        calls[cid] = call
        yq = calcb.frac_of(y)
        if yq is None:
            stats["nonfinite"] += 1
            rep.violation("C27 %s returned %r (%s)" % (fn, y, regime), dict(call, clause="nonfinite")); continue
        call["result"] = str(y)
        try:
            insts += build_instances(cid, spec, method, prec, yq, S, A, fn, regime)
        except (cert.EstimateError, ZeroDivisionError, ValueError):
            stats.setdefault("skipped_estimate", 0); stats["skipped_estimate"] += 1
    tgen = time.time() - t0
    regimes = {}
    for c in calls.values():
        regimes[c["regime"]] = regimes.get(c["regime"], 0) + 1
    insts, not_attempted = calcb.fit_budget(insts, max(30, (115 if q else 1100) - tgen))
    run_and_report(rep, insts, calls, tag="C27_%s" % tier_, params={"sentence_timeout": 60, "single_timeout": 80},
                   budget=max(30, (115 if q else 1100) - tgen), jobs=10,
                   rule="each evaluation = one call of nsum/nprod/limit/sumem/sumap of the current /repo code: finite ranges (rational "
                        "summands 1/(k^2+ak+b), (k+a)/(k^2+b), polynomials, c r^k, (-1)^k/(k+a), k^m r^k; products; 2-d finite sums) against "
                        "the exact rational value (Z lemma); infinite series geometric / k^m r^k / zeta(2), zeta(4) and tails / telescoping / "
                        "alternating (ln 2, pi^2/12, pi/4) / exp, cos, log Taylor series / central binomial; products; limits; 2-d series as "
                        "products of 1-d closed forms; each with a method that its docstring names as suitable, at p in {30,53,100(,200,300)}; "
                        "distinct = distinct lemma statements; non-trivial = error not exactly zero against a folded rational",
                   assumptions=ASSUMPTIONS,
                   extra_cov={"lemmas_not_attempted_for_time": not_attempted, "regimes": regimes, "generation_wall_s": round(tgen, 1), "tolerance": "2^(10-p) relative", **stats})


def replay(rep, path):
    calcb.load_known_b2(rep)

    def rebuild(r):
        from mpmath import mp
        spec = r["spec"]
        y, S, A = do_call(mp, spec, r["method"], r["prec"], 600)
        cid = "replay"
        call = {k: r[k] for k in ("fn", "method", "regime", "kclass", "conv", "pband", "mclass", "prec", "spec") if k in r}
        yq = calcb.frac_of(y)
        if yq is None:
            rep.violation("C27 %s returned %r" % (r["fn"], y), dict(call, clause="nonfinite"))
            return [], {cid: call}
        return build_instances(cid, spec, r["method"], r["prec"], yq, S, A, r["fn"], r["regime"]), {cid: call}
    replay_generic(rep, path, rebuild)
