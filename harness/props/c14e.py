"""C14 (elementary part) -- containment certificates for iv.exp, iv.log, iv.sin, iv.cos, iv.tan, iv.atan2 and x**y
with real exponents.  Helper module (NOT a standalone check): props/c14.py calls `run_elementary(rep, tier_, rng)`.

For every generated interval [a, b] (exact dyadic endpoints read from / written to the raw `_mpi_` tuples, endpoints may
carry more bits than iv.prec) and the result [lo, hi] of the current /repo code the Coq goal

        forall x : R, a <= x <= b -> lo <= f x <= hi

is attempted with `interval with (i_bisect x, i_autodiff x, i_prec P)`, then with `i_taylor x`, then split by the
generator at the critical points k*pi/2 (sub-intervals with shared dyadic end points, deeper bisection).  A containment
failure is certified by a member point: a dyadic x0 with a <= x0 <= b and f x0 > hi (or < lo), proved by a point-wise
interval lemma.  Neither proved => "inconclusive" (counted, never an alarm).  Point intervals are closed goals.
Two-variable goals (x**y with a thick exponent, atan2) use `i_bisect x, i_bisect y`."""
import math, time, os
from fractions import Fraction
from common import *
import cert
from cert import Const, Instance, atoms_instance, lift

TWO = Fraction(2)
KNOWN_B4 = os.path.join(VERIF, "known_findings_B4.json")


def load_known_b4(rep):
    """known_findings_B4.json (same entry format as known_findings.json); idempotent"""
    import json
    if not hasattr(rep, "known") or not os.path.exists(KNOWN_B4):
        return
    with open(KNOWN_B4) as f:
        d = json.load(f)
    have = {k.get("key") for k in rep.known}
    rep.known.extend(k for k in d.get("findings", []) if k.get("property") == rep.pid and k.get("key") not in have)


# ----------------------------------------------------------------------------------------- exact endpoint helpers

def tup_of(fr):
    """exact raw mpf tuple of a dyadic Fraction"""
    from mpmath.libmp import from_man_exp, fzero
    fr = Fraction(fr)
    if fr == 0:
        return fzero
    d = fr.denominator
    assert d & (d - 1) == 0
    return from_man_exp(fr.numerator, -(d.bit_length() - 1))


def val_of(t):
    """raw tuple -> Fraction | '+inf' | '-inf' | 'nan'"""
    from mpmath.libmp import finf, fninf, fnan
    t = tuple(t)
    if t == finf: return "+inf"
    if t == fninf: return "-inf"
    if t[1] == 0 and t[2] != 0: return "nan"
    return mpf_value(t)


def dy_pair(fr):
    fr = Fraction(fr)
    return [fr.numerator, -(fr.denominator.bit_length() - 1)]


def from_pair(p):
    return Fraction(p[0]) * TWO ** p[1]


def rbits(rng, bits):
    return rng.getrandbits(bits) | (1 << (bits - 1)) if bits > 0 else 1


def rdy(rng, e0, bits):
    """random dyadic in [2^(e0-1), 2^e0) with a `bits`-bit mantissa"""
    return Fraction(rbits(rng, bits)) * TWO ** (e0 - bits)


def round_to(fr, bits, direction=0):
    """dyadic with `bits` significant bits next to fr (generator side, exact arithmetic): 0 nearest, -1 down, +1 up"""
    fr = Fraction(fr)
    if fr == 0: return fr
    s = -1 if fr < 0 else 1
    a = abs(fr)
    e = a.numerator.bit_length() - a.denominator.bit_length() - bits
    sc = a / TWO ** e
    q = sc.numerator // sc.denominator
    rem = sc - q
    up = (direction * s > 0 and rem > 0) or (direction == 0 and rem >= Fraction(1, 2))
    if up: q += 1
    return s * q * TWO ** e


def ulp_of(fr, bits):
    a = abs(Fraction(fr))
    if a == 0: return TWO ** (-bits)
    e = a.numerator.bit_length() - a.denominator.bit_length()
    if TWO ** e > a: e -= 1
    return TWO ** (e + 1 - bits)


_PI_CACHE = {}


def pi_fr(bits):
    """pi as a Fraction accurate to 2^-bits (generator side only: where to put end points; never part of a verdict)"""
    bits = max(64, (bits + 63) // 64 * 64)
    if bits not in _PI_CACHE:
        G = bits + 16
        def at(n):
            x = (1 << G) // n; s = x; n2 = n * n; k = 1; sg = -1
            while x:
                x //= n2; k += 2; s += sg * (x // k); sg = -sg
            return s
        _PI_CACHE[bits] = Fraction(16 * at(5) - 4 * at(239), 1 << G)
    return _PI_CACHE[bits]


def near_kpi2(rng, k, bits, off):
    """`bits`-bit dyadic next to k*pi/2, moved by `off` ulps"""
    v = round_to(k * pi_fr(bits + 80 + abs(k).bit_length()) / 2, bits, 0)
    return v + off * ulp_of(v, bits)


# ----------------------------------------------------------------------------------------- Coq text

def C(fr):
    return Const(Fraction(fr)).coq()


FN_TEXT = {
    "exp": "(exp {x})", "log": "(ln {x})", "sin": "(sin {x})", "cos": "(cos {x})", "tan": "(sin {x} / cos {x})",
}


def fn_term(fn, x, extra=None):
    """cert term of f at the closed term x (witness / point goals)"""
    x = lift(x)
    if fn == "exp": return cert.exp(x)
    if fn == "log": return cert.ln(x)
    if fn == "sin": return cert.sin(x)
    if fn == "cos": return cert.cos(x)
    if fn == "tan": return cert.sin(x) / cert.cos(x)
    if fn == "pow": return cert.exp(lift(extra) * cert.ln(x))
    raise KeyError(fn)


def bounds_text(lo, hi, body):
    if lo is not None and hi is not None: return "%s <= %s <= %s" % (C(lo), body, C(hi))
    if lo is not None: return "%s <= %s" % (C(lo), body)
    if hi is not None: return "%s <= %s" % (body, C(hi))
    return None


TAC = {
    "autodiff": "intros x Hx; interval with (i_bisect x, i_autodiff x, i_prec {prec})",
    "taylor": "intros x Hx; interval with (i_bisect x, i_taylor x, i_degree 12, i_prec {prec})",
    "deep": "intros x Hx; interval with (i_bisect x, i_autodiff x, i_depth 40, i_prec {prec})",
    "plain": "intros x Hx; interval with (i_bisect x, i_prec {prec})",
    "two": "intros x y Hx Hy; interval with (i_bisect x, i_bisect y, i_prec {prec})",
    "two_deep": "intros x y Hx Hy; interval with (i_bisect x, i_bisect y, i_depth 22, i_prec {prec})",
}


def contain_goal(fn, a, b, lo, hi, extra=None):
    body = FN_TEXT[fn].format(x="x") if fn in FN_TEXT else "(exp (%s * ln x))" % C(extra)
    bt = bounds_text(lo, hi, body)
    return "forall x : R, %s <= x <= %s -> %s" % (C(a), C(b), bt)


# ----------------------------------------------------------------------------------------- numeric hints (untrusted)

def hint_ctx():
    import mpmath
    c = mpmath.mp.clone(); c.prec = 400
    return c


def f_num(ctx, fn, x, extra=None):
    x = ctx.mpf(x.numerator) / x.denominator
    if fn == "exp": return ctx.exp(x)
    if fn == "log": return ctx.log(x)
    if fn == "sin": return ctx.sin(x)
    if fn == "cos": return ctx.cos(x)
    if fn == "tan": return ctx.tan(x)
    if fn == "pow": return ctx.exp((ctx.mpf(extra.numerator) / extra.denominator) * ctx.log(x))
    raise KeyError(fn)


def critical_points(fn, a, b, bits=200):
    """dyadic approximations of the multiples of pi/2 inside [a, b] (at most 8)"""
    if fn not in ("sin", "cos", "tan"): return []
    p = pi_fr(bits + max(0, int(abs(b)).bit_length())) / 2
    k0 = math.ceil(a / p); k1 = math.floor(b / p)
    out = []
    for k in range(k0, min(k1, k0 + 7) + 1):
        c = round_to(k * p, bits, 0)
        if a < c < b: out.append(c)
    return out


def find_witness(ctx, fn, a, b, lo, hi, extra=None):
    """a member point whose (numeric) image is outside [lo, hi] -> (x0, side) or None"""
    cands = [a, b, (a + b) / 2]
    for c in critical_points(fn, a, b):
        cands += [c, c - (c - a) / 2 ** 20 if c > a else c]
    for x0 in cands:
        if not (a <= x0 <= b): continue
        try:
            v = f_num(ctx, fn, x0, extra)
        except Exception:
            continue
        if hi is not None and v > ctx.mpf(hi.numerator) / hi.denominator: return x0, "hi"
        if lo is not None and v < ctx.mpf(lo.numerator) / lo.denominator: return x0, "lo"
    return None


# ----------------------------------------------------------------------------------------- generators

_HARD_CTX = []


def hard_point(rng, fn, prec):
    """a point x (dyadic, prec+26 bits) where f(x) lies within about 2^-(prec+24) (relative) of a number representable with
    prec bits, on a random side of it, for both signs of f: the directed roundings of the end points have no slack here.
    Generator side only (untrusted numerics choose x); the verdict is the Interval certificate for the resulting call."""
    if not _HARD_CTX: _HARD_CTX.append(hint_ctx())
    c = _HARD_CTX[0]
    sgn = rng.choice([1, -1])
    ybits = rng.choice([1, 2, 3, 8, prec])
    for _ in range(20):
        if fn in ("sin", "cos"):
            y = sgn * rdy(rng, rng.randint(-6, 0), ybits)
            if abs(y) >= 1: continue
            x0 = (c.asin if fn == "sin" else c.acos)(c.mpf(y.numerator) / y.denominator) + rng.randint(-3, 3) * 2 * c.pi
            if fn == "cos" and rng.random() < 0.5: x0 = -x0
        elif fn == "tan":
            y = sgn * rdy(rng, rng.randint(-5, 4), ybits)
            x0 = c.atan(c.mpf(y.numerator) / y.denominator) + rng.randint(-3, 3) * c.pi
        elif fn == "exp":
            y = rdy(rng, rng.randint(-20, 20), ybits)
            x0 = c.log(c.mpf(y.numerator) / y.denominator)
        elif fn == "log":
            y = sgn * rdy(rng, rng.randint(-6, 5), ybits)
            x0 = c.exp(c.mpf(y.numerator) / y.denominator)
        else:
            return None
        if x0 == 0: continue
        t = x0._mpf_
        xf = Fraction(t[1]) * TWO ** t[2] * (-1 if t[0] else 1)
        x = round_to(xf, prec + 26, rng.choice([-1, 1]))
        if x == 0: continue
        return "hard_point", x, x
    return None


def gen_interval(rng, fn, prec):
    """-> (regime, a, b[, extra]) with exact dyadic end points"""
    if fn in ("sin", "cos", "tan", "exp", "log") and rng.random() < 0.18:
        hp = hard_point(rng, fn, prec)
        if hp is not None: return hp
    long_ = rng.random() < 0.2
    pb = prec + rng.randint(1, 40) if long_ else prec
    def pt(e_lo, e_hi, signed=True, pos=False):
        v = rdy(rng, rng.randint(e_lo, e_hi), rng.choice([pb, pb, rng.randint(1, 8)]))
        return -v if (signed and not pos and rng.random() < 0.5) else v
    tag = "+long" if long_ else ""
    u = rng.random()
    if fn in ("sin", "cos", "tan"):
        if u < 0.10:
            a = pt(-4, 4); return "point" + tag, a, a
        if u < 0.20:
            a = pt(-3, 5); return "ulp" + tag, a, a + ulp_of(a, pb)
        if u < 0.30:
            a = pt(-2, 3); w = rdy(rng, rng.randint(-30, -4), 20); return "narrow" + tag, a, a + w
        if u < 0.50:          # across one or more extrema / zeros
            k = rng.randint(-6, 6); c = k * pi_fr(128) / 2
            wl = rdy(rng, rng.randint(-12, 0), 12); wr = rdy(rng, rng.randint(-12, 0), 12)
            a = round_to(c - wl, pb, -1); b = round_to(c + wr, pb, +1)
            if fn == "tan" and k % 2: # across a pole: the result must be the whole line
                return "across_pole" + tag, a, b
            return "across_kpi2" + tag, a, b
        if u < 0.72:          # end point next to k*pi/2, the other one inside the same quadrant
            k = rng.choice([rng.randint(-8, 8), rng.randint(9, 200), rng.getrandbits(rng.randint(8, 30)) + 1])
            off = rng.choice([-3, -2, -1, 0, 0, 1, 2, 3])
            e = near_kpi2(rng, k, pb, off)
            w = rdy(rng, rng.randint(-9, -1), 14)
            if rng.random() < 0.5: return "end_at_kpi2" + tag, e, e + w
            return "end_at_kpi2" + tag, e - w, e
        if u < 0.82:          # both end points next to consecutive multiples of pi/2
            k = rng.randint(-8, 8)
            a = near_kpi2(rng, k, pb, rng.choice([-1, 0, 1])); b = near_kpi2(rng, k + rng.choice([1, 1, 2]), pb, rng.choice([-1, 0, 1]))
            return "quadrant_span" + tag, a, b
        if u < 0.92:          # wide
            a = pt(-2, 3); return "wide" + tag, a, a + rdy(rng, rng.randint(0, 4), 10)
        a = rdy(rng, rng.randint(8, 40), pb) * rng.choice([1, -1])           # large argument, narrow interval
        return "large" + tag, a, a + rng.choice([0, 1, 5, 2 ** 20]) * ulp_of(a, pb)
    if fn == "exp":
        if u < 0.15:
            a = pt(-6, 6); return "point" + tag, a, a
        if u < 0.35:
            a = pt(-6, 7); return "ulp" + tag, a, a + ulp_of(a, pb)
        if u < 0.5:
            a = pt(-40, -8); return "tiny" + tag, a, a + ulp_of(a, pb) * rng.choice([1, 3, 2 ** 10])
        if u < 0.65:
            a = pt(-3, 3); return "narrow" + tag, a, a + rdy(rng, rng.randint(-30, -4), 20)
        if u < 0.85:
            a = pt(-3, 4); return "wide" + tag, a, a + rdy(rng, rng.randint(-1, 5), 10)
        a = rdy(rng, rng.randint(-3, 1), pb); return "across_zero" + tag, -a, rdy(rng, rng.randint(-3, 1), pb)
    if fn == "log":
        if u < 0.15:
            a = pt(-6, 6, pos=True); return "point" + tag, a, a
        if u < 0.3:
            a = pt(-20, 20, pos=True); return "ulp" + tag, a, a + ulp_of(a, pb)
        if u < 0.5:           # next to 1 (cancellation): [1 - d1, 1 + d2], [1 + d, 1 + d + ulp]
            k = rng.choice([3, 10, prec // 2, prec - 2, prec + 5])
            d = rdy(rng, -k, min(pb, 20))
            m = rng.random()
            if m < 0.4: return "across_1" + tag, 1 - d, 1 + rdy(rng, -k, 10)
            if m < 0.7: return "above_1" + tag, 1 + d, 1 + d + rng.choice([1, 2, 100]) * ulp_of(1, pb)
            return "below_1" + tag, 1 - d - rng.choice([1, 2, 100]) * ulp_of(Fraction(1, 2), pb), 1 - d
        if u < 0.65:
            a = pt(-3, 3, pos=True); return "narrow" + tag, a, a + rdy(rng, rng.randint(-30, -4), 20)
        if u < 0.9:
            a = pt(-6, 4, pos=True); return "wide" + tag, a, a + rdy(rng, rng.randint(-1, 8), 10)
        a = pt(-200, -100, pos=True); return "tiny_arg" + tag, a, a * rng.choice([1, 2, 1000])
    raise KeyError(fn)


def gen_pow(rng, prec):
    """x ** y, real exponent: point exponent (one-variable goal) or thick exponent (two-variable goal)"""
    pb = prec
    a = rdy(rng, rng.randint(-3, 4), rng.choice([pb, 6]))
    w = rng.choice([0, ulp_of(a, pb), rdy(rng, rng.randint(-10, 1), 10)])
    u = rng.random()
    if u < 0.65:
        y = rdy(rng, rng.randint(-4, 3), rng.choice([pb, 5, 12])) * rng.choice([1, -1])
        if y.denominator == 1: y += Fraction(1, 4)
        if y == Fraction(1, 2): y = Fraction(3, 8)
        return "point_exponent", a, a + w, y, y
    y = rdy(rng, rng.randint(-3, 2), 10) * rng.choice([1, -1])
    return "thick_exponent", a, a + w, y, y + rdy(rng, rng.randint(-8, -1), 8)


def gen_atan2(rng, prec):
    """boxes inside one open half-plane (where a single atan formula is the definition of atan2)"""
    pb = prec
    def span(sign, e_lo=-4, e_hi=4):
        a = rdy(rng, rng.randint(e_lo, e_hi), rng.choice([pb, 8])); w = rng.choice([0, ulp_of(a, pb), rdy(rng, rng.randint(-8, 1), 8)])
        return (a, a + w) if sign > 0 else (-(a + w), -a)
    def any_span():
        if rng.random() < 0.35:         # across zero
            return (-rdy(rng, rng.randint(-4, 2), 8), rdy(rng, rng.randint(-4, 2), 8))
        return span(rng.choice([1, -1]))
    half = rng.choice(["right", "upper", "lower"])
    if half == "right": return "right_half_plane", any_span(), span(1)        # (y-span, x-span)
    if half == "upper": return "upper_half_plane", span(1), any_span()
    return "lower_half_plane", span(-1), any_span()


# ----------------------------------------------------------------------------------------- one call -> instances

def _mag(v):
    return abs(v).numerator.bit_length() - abs(v).denominator.bit_length() + 1


def prec_for(prec, *vals, out=()):
    """i_prec: result precision + margin + argument magnitude (range reduction) + cancellation (a bound next to a zero of
    f has absolute size 2^-z: the interval evaluation must resolve it to prec relative bits)"""
    mag = 0
    bits = 0
    for v in vals:
        if isinstance(v, Fraction) and v != 0:
            mag = max(mag, _mag(v))
            bits = max(bits, v.numerator.bit_length())
    canc = 0
    for v in out:
        if isinstance(v, Fraction) and v != 0:
            canc = max(canc, abs(_mag(v)))        # tiny bound: next to a zero of f; huge bound: next to a pole (zero of the denominator)
    return prec + 45 + 2 * max(0, mag) + max(0, bits - prec) // 2 + max(0, canc)


def make_call(ctx_hint, iv, fn, regime, prec, a, b, extra=None):
    """run the live code on [a, b]; -> call dict (with exact result) or None when the call raised"""
    from mpmath.libmp import finf, fninf
    X = iv.make_mpf((tup_of(a), tup_of(b)))
    p0 = iv.prec
    try:
        iv.prec = prec
        if fn == "pow":
            Y = iv.make_mpf((tup_of(extra[0]), tup_of(extra[1])))
            R = X ** Y
        elif fn == "atan2":
            Y = iv.make_mpf((tup_of(extra[0]), tup_of(extra[1])))
            R = iv.atan2(X, Y)            # X is the y-span, Y the x-span
        else:
            R = getattr(iv, fn)(X)
        lo, hi = val_of(R._mpi_[0]), val_of(R._mpi_[1])
        err = None
    except Exception as ex:
        lo = hi = None; err = repr(ex)[:100]
    finally:
        iv.prec = p0
    call = {"fn": "iv." + fn, "regime": regime, "prec": prec, "a": dy_pair(a), "b": dy_pair(b)}
    if extra is not None:
        call["extra"] = [dy_pair(e) for e in (extra if isinstance(extra, tuple) else (extra,))]
    call["raised"] = err
    call["lo"] = lo if isinstance(lo, str) or lo is None else dy_pair(lo)
    call["hi"] = hi if isinstance(hi, str) or hi is None else dy_pair(hi)
    return call, lo, hi


def fin(v):
    return v if isinstance(v, Fraction) else None


def build_real(cid, ctx, fn, regime, prec, a, b, lo, hi, stage):
    """instances for one real one-variable call at ladder stage 'autodiff' | 'taylor' | 'split' ; plus witness instances"""
    meta = {"fn": "iv." + fn, "regime": regime, "call": cid, "p": prec}
    flo, fhi = fin(lo), fin(hi)
    if lo in ("nan", "+inf") or hi in ("nan", "-inf"):
        return [], ("result is not an interval of reals: [%s, %s]" % (lo, hi))
    if flo is None and fhi is None:
        return [], None                                            # [-inf, +inf] contains everything
    P = prec_for(prec, a, b, out=(flo, fhi))
    out = []
    if a == b:
        t = fn_term(fn, Const(a))
        atoms = ([(Const(flo), "<=", t)] if flo is not None else []) + ([(t, "<=", Const(fhi))] if fhi is not None else [])
        negs = ([[(t, "<", Const(flo))]] if flo is not None else []) + ([[(Const(fhi), "<", t)]] if fhi is not None else [])
        ins = atoms_instance(cid + "_pt", atoms, negs, meta=dict(meta, kind="point"), params={"margin": 40})
        return [ins], None
    trivial = fn in ("sin", "cos") and flo == -1 and fhi == 1
    if stage == "split":
        cps = critical_points(fn, a, b)
        pts = [a] + cps + [b]
        for i in range(len(pts) - 1):
            g = contain_goal(fn, pts[i], pts[i + 1], flo, fhi)
            out.append(Instance("%s_s%d" % (cid, i), g, [], kind="R", prec=P + 20, tactic=TAC["deep"], meta=dict(meta, kind="split", piece=i, pieces=len(pts) - 1), trivial=trivial))
        return out, None
    g = contain_goal(fn, a, b, flo, fhi)
    out.append(Instance(cid + "_" + stage, g, [], kind="R", prec=P, tactic=TAC[stage], hint="pass", meta=dict(meta, kind=stage), trivial=trivial))
    return out, None


def witness_instance(cid, ctx, fn, a, b, lo, hi, meta, extra=None):
    w = find_witness(ctx, fn, a, b, fin(lo), fin(hi), extra)
    if w is None:
        return None
    x0, side = w
    t = fn_term(fn, Const(x0), extra)
    atoms = [(Const(a), "<=", Const(x0)), (Const(x0), "<=", Const(b))]
    atoms.append((Const(fin(hi)), "<", t) if side == "hi" else (t, "<", Const(fin(lo))))
    exc = excess_of(ctx, f_num(ctx, fn, x0, extra), fin(hi) if side == "hi" else fin(lo), meta["p"])
    return atoms_instance(cid + "_wit", atoms, [], meta=dict(meta, kind="witness", x0=dy_pair(x0), side=side, excess_class=exc), params={"margin": 40})


def excess_of(ctx, v, bound, prec):
    """untrusted size class of a containment failure (only used to match known findings narrowly)"""
    bnd = ctx.mpf(bound.numerator) / bound.denominator
    rel = abs(v - bnd) / max(abs(v), ctx.mpf(2) ** -100000)
    return "below_1ulp" if rel < ctx.mpf(2) ** (1 - prec) else "large"


# ----------------------------------------------------------------------------------------- driver

STAGE_WALL = {}


def certify_ladder(calls, builders, tag, budget, jobs=8, taylor=True):
    """calls: cid -> call dict; builders: cid -> function(stage) -> [instances].  Round 1: `i_bisect x, i_autodiff x`.
    Round 2 (for what is left): `i_taylor x` and the generator-side split at the critical points, side by side; the
    containment of a call is proved when all instances of ONE variant pass.
    -> {cid: ("pass"|"inconclusive", stage, secs)}, all certify results"""
    t_end = time.time() + budget
    status = {}
    results = []
    pending = list(calls)
    for rnd, stages in enumerate((("autodiff",), ("taylor", "split") if taylor else ("split",))):
        if not pending: break
        insts = []
        owner = {}
        for cid in pending:
            for stage in stages:
                for ins in builders[cid](stage):
                    insts.append(ins); owner[ins.id] = (cid, stage)
        if not insts: break
        left = t_end - time.time()
        if left < 8:
            break
        res = cert.certify(insts, tactic_params={"ladder": [1] if rnd == 0 else [1, 2], "sentence_timeout": 25 if rnd == 0 else 40,
                                                 "single_timeout": 45, "batch": 12},
                           jobs=jobs, timeout=left * (0.6 if rnd == 0 else 0.9), tag="%s_r%d" % (tag, rnd + 1))
        results.append(res)
        STAGE_WALL["+".join(stages)] = res["wall_s"]
        by = {}
        for iid, v in res["verdicts"].items():
            by.setdefault(owner[iid], []).append(v)
        nxt = []
        for cid in pending:
            done = None
            for stage in stages:
                vs = by.get((cid, stage), [])
                if vs and all(v["verdict"] == "pass" for v in vs):
                    done = (stage, sum(v["secs"] for v in vs)); break
            if done: status[cid] = ("pass", done[0], done[1])
            else: nxt.append(cid)
        pending = nxt
    for cid in pending:
        status[cid] = ("inconclusive", "ladder-exhausted", 0.0)
    return status, results


def gen_specs(rng, tier_):
    """-> list of (fn, regime, prec, a, b, extra) ; extra = (y0, y1) for pow, (xa, xb) for atan2"""
    n = 64 if tier_ == "quick" else 900
    precs = [24, 53, 100] if tier_ == "quick" else [24, 53, 100, 200, 300]
    fns = ["exp", "log", "sin", "cos", "tan", "sin", "cos", "pow", "atan2"]
    specs = []
    for i in range(n):
        fn = rng.choice(fns)
        prec = rng.choice(precs)
        if fn == "pow":
            regime, a, b, y0, y1 = gen_pow(rng, prec)
            specs.append((fn, regime, prec, a, b, (y0, y1)))
        elif fn == "atan2":
            regime, (ya, yb), (xa, xb) = gen_atan2(rng, prec)
            specs.append((fn, regime, prec, ya, yb, (xa, xb)))
        else:
            regime, a, b = gen_interval(rng, fn, prec)
            if a > b: a, b = b, a
            if fn == "log" and a <= 0: continue
            specs.append((fn, regime, prec, a, b, None))
    return specs, precs


def run_elementary(rep, tier_, rng, budget=None):
    """-> dict of coverage counters (to be merged by props/c14.py); violations are reported through rep.violation with
    replay dicts containing {"fn": "iv.<f>", "regime": ...}."""
    load_known_b4(rep)
    specs, precs = gen_specs(rng, tier_)
    cov = process_specs(rep, specs, budget or (100 if tier_ == "quick" else 700), "C14E_%s_s%d" % (tier_, seed()),
                        taylor=(tier_ != "quick"))        # i_taylor never closed a goal that i_autodiff left open: thorough tier only
    cov["elementary_precisions"] = precs
    return cov


def replay_elementary(rep, r):
    """re-run one recorded call (replay dict of a violation of this module) on the current tree"""
    load_known_b4(rep)
    fn = r["fn"].split(".", 1)[1]
    extra = tuple(from_pair(p) for p in r["extra"]) if r.get("extra") else None
    spec = (fn, r["regime"], int(r["prec"]), from_pair(r["a"]), from_pair(r["b"]), extra)
    cov = process_specs(rep, [spec], 300, "C14E_replay")
    if r.get("coq_replay"):
        ok, out, cmd = cert.check_text(r["coq_replay"], tag="C14E_replay")
        cov["stored_certificate_still_checks"] = ok
    return cov


def process_specs(rep, specs, budget, tag, taylor=True):
    from mpmath import iv
    t0 = time.time()
    ctx = hint_ctx()
    calls = {}; builders = {}; direct = []; point_insts = []; wit = {}
    counters = {"calls": 0, "raised": 0, "whole_line_results": 0}
    for i, (fn, regime, prec, a, b, extra) in enumerate(specs):
        cid = "e%04d_%s" % (i, fn)
        call, lo, hi = make_call(ctx, iv, fn, regime, prec, a, b, extra)
        counters["calls"] += 1
        if call["raised"]:
            counters["raised"] += 1
            direct.append(("raised %s on a finite interval inside the domain" % call["raised"], call)); continue
        calls[cid] = call
        if lo == "-inf" and hi == "+inf":
            counters["whole_line_results"] += 1          # contains every real: nothing to certify
            del calls[cid]; continue
        meta = {"fn": "iv." + fn, "regime": regime, "call": cid, "p": prec}
        if fn in ("pow", "atan2"):
            if lo in ("nan", "+inf") or hi in ("nan", "-inf"):
                direct.append(("result is not an interval of reals: [%s, %s]" % (lo, hi), call)); del calls[cid]; continue
            builders[cid] = two_var_builder(cid, ctx, fn, call, a, b, lo, hi, meta, prec)
            w = witness_two(cid, ctx, fn, call, a, b, lo, hi, meta)
            if w is not None: wit[cid] = w
            continue
        def mk(stage, cid=cid, fn=fn, regime=regime, prec=prec, a=a, b=b, lo=lo, hi=hi):
            ins, viol = build_real(cid, ctx, fn, regime, prec, a, b, lo, hi, stage)
            return ins
        ins0, viol = build_real(cid, ctx, fn, regime, prec, a, b, lo, hi, "autodiff")
        if viol:
            direct.append((viol, call)); del calls[cid]; continue
        if a == b:
            point_insts += ins0
            builders[cid] = None                           # decided by the generic bound/negation machinery
            continue
        builders[cid] = mk
        w = witness_instance(cid, ctx, fn, a, b, lo, hi, meta)
        if w is not None: wit[cid] = w
    for viol, call in direct:
        rep.violation("C14 %s: %s (regime %s, prec %d)" % (call["fn"], viol, call["regime"], call["prec"]), dict(call, clause="finite result"))
    # point goals + predicted witnesses first (cheap), then the universally quantified containment ladder
    pre = point_insts + list(wit.values())
    res_pre = cert.certify(pre, tactic_params={"sentence_timeout": 30, "single_timeout": 45}, jobs=4, timeout=budget * 0.25,
                           tag=tag + "_points") if pre else {"verdicts": {}, "cmds": [], "dir": ""}
    Vp = res_pre["verdicts"]
    stats = {"contain_pass": 0, "contain_fail": 0, "inconclusive": 0, "trivial": 0}
    by_fn = {}
    def note(cid, verdict):
        c = calls[cid]; h = by_fn.setdefault(c["fn"], {"pass": 0, "fail": 0, "inconclusive": 0}); h[verdict] += 1
    samples = []
    ladder_calls = {}
    for cid, call in calls.items():
        if builders.get(cid) is None:                         # point interval
            v = Vp.get(cid + "_pt")
            if v is None: continue
            if v["verdict"] == "fail":
                stats["contain_fail"] += 1; note(cid, "fail")
                rep.violation("C14 %s: certified containment failure at the point interval (regime %s, prec %d)" % (call["fn"], call["regime"], call["prec"]),
                              dict(call, coq_replay=cert.replay_text(res_pre, cid + "_pt"), clause="containment"))
            elif v["verdict"] == "pass":
                stats["contain_pass"] += 1; note(cid, "pass")
            else:
                stats["inconclusive"] += 1; note(cid, "inconclusive")
            continue
        wv = Vp.get(cid + "_wit")
        if wv is not None and wv["verdict"] == "pass":
            stats["contain_fail"] += 1; note(cid, "fail")
            rep.violation("C14 %s: certified containment failure: a member point is mapped outside the result (regime %s, prec %d)"
                          % (call["fn"], call["regime"], call["prec"]),
                          dict(call, witness=wv.get("x0"), witness_y=wv.get("y0"), side=wv.get("side"), excess_class=wv.get("excess_class"),
                               coq_replay=cert.replay_text(res_pre, cid + "_wit"), clause="containment"))
            continue
        ladder_calls[cid] = call
    status, results = certify_ladder(ladder_calls, builders, tag, max(10, budget - (time.time() - t0)), taylor=taylor)
    inconc = []
    stages = {}
    for cid, (verdict, stage, secs) in status.items():
        call = calls[cid]
        if verdict == "pass":
            stats["contain_pass"] += 1; note(cid, "pass"); stages[stage] = stages.get(stage, 0) + 1
            if len(samples) < 5 and stage != "split":
                samples.append({"fn": call["fn"], "regime": call["regime"], "prec": call["prec"], "stage": stage,
                                "lemma": small_text(first_goal(results, cid))})
        else:
            stats["inconclusive"] += 1; note(cid, "inconclusive")
            inconc.append({"fn": call["fn"], "regime": call["regime"], "prec": call["prec"]})
    regimes = sorted({"%s/%s" % (c["fn"], c["regime"].replace("+long", "")) for c in calls.values()})
    cmds = list(res_pre.get("cmds", []))
    for r in results: cmds += r["cmds"]
    return {
        "elementary_calls": counters["calls"], "elementary_contain_certified": stats["contain_pass"],
        "elementary_contain_violations": stats["contain_fail"], "elementary_inconclusive": stats["inconclusive"],
        "elementary_inconclusive_list": inconc[:25], "elementary_raised": counters["raised"],
        "elementary_whole_line_results": counters["whole_line_results"], "elementary_by_function": by_fn,
        "elementary_stage_histogram": stages, "elementary_stage_wall_s": dict(STAGE_WALL, points=res_pre.get("wall_s")), "elementary_regimes": regimes, "elementary_samples": samples,
        "elementary_long_endpoint_calls": sum(1 for c in calls.values() if "+long" in c["regime"]),
        "elementary_wall_s": round(time.time() - t0, 1),
        "elementary_checker_cmd": cert.summarize_cmds(cmds)["pattern"], "elementary_coqc_runs": len(cmds),
        "elementary_technique": "forall x, a <= x <= b -> lo <= f x <= hi by interval (i_bisect x, i_autodiff x) -> i_taylor -> split at k*pi/2; "
                                "failures certified by a member point; two-variable goals for x**[y] and atan2",
    }


def small_text(s, n=500):
    s = str(s)
    return s if len(s) <= n else s[:n // 2] + " ... " + s[-n // 2:]


def first_goal(results, cid):
    for r in results:
        for iid, v in r["verdicts"].items():
            if iid.startswith(cid + "_") and v["verdict"] == "pass" and v.get("file"):
                try:
                    with open(os.path.join(r["dir"], v["file"])) as f:
                        txt = f.read()
                    m = [l for l in txt.split("\n") if l.startswith("Lemma") and ("forall" in l)]
                    if m: return m[0]
                except OSError:
                    pass
    return ""


def atan2_term(regime, Y, X):
    Y = lift(Y); X = lift(X)
    if regime == "right_half_plane": return cert.atan(Y / X)
    if regime == "upper_half_plane": return cert.PI / 2 - cert.atan(X / Y)
    return -(cert.PI / 2) - cert.atan(X / Y)


def witness_two(cid, ctx, fn, call, a, b, lo, hi, meta):
    """corner / mid points of the box whose (numeric) image is outside the result -> closed witness instance"""
    ex = [from_pair(p) for p in call["extra"]]
    flo, fhi = fin(lo), fin(hi)
    for x0 in (a, b, (a + b) / 2):
        for y0 in (ex[0], ex[1], (ex[0] + ex[1]) / 2):
            try:
                if fn == "pow":
                    v = f_num(ctx, "pow", x0, y0); t = fn_term("pow", Const(x0), Const(y0))
                else:
                    if x0 == 0 and call["regime"] != "right_half_plane": continue
                    if y0 == 0 and call["regime"] == "right_half_plane": continue
                    v = ctx.atan2(ctx.mpf(x0.numerator) / x0.denominator, ctx.mpf(y0.numerator) / y0.denominator)
                    t = atan2_term(call["regime"], Const(x0), Const(y0))
            except Exception:
                continue
            side = None
            if fhi is not None and v > ctx.mpf(fhi.numerator) / fhi.denominator: side = "hi"
            elif flo is not None and v < ctx.mpf(flo.numerator) / flo.denominator: side = "lo"
            if side:
                atoms = [(Const(fhi), "<", t)] if side == "hi" else [(t, "<", Const(flo))]
                exc = excess_of(ctx, v, fhi if side == "hi" else flo, meta["p"])
                return atoms_instance(cid + "_wit", atoms, [], meta=dict(meta, kind="witness", x0=dy_pair(x0), y0=dy_pair(y0), side=side,
                                                                         excess_class=exc), params={"margin": 40})
    return None


def two_var_builder(cid, ctx, fn, call, a, b, lo, hi, meta, prec):
    """x ** [y0, y1] on [a, b] (exp (y ln x)) and atan2([ya, yb], [xa, xb]) inside one half-plane"""
    ex = [from_pair(p) for p in call["extra"]]
    flo, fhi = fin(lo), fin(hi)
    def mk(stage):
        if flo is None and fhi is None: return []
        if lo in ("nan", "+inf") or hi in ("nan", "-inf"): return []
        P = prec_for(prec, a, b, *ex, out=(flo, fhi))
        if fn == "pow":
            y0, y1 = ex
            if y0 == y1:
                g = contain_goal("pow", a, b, flo, fhi, extra=y0)
                tac = {"autodiff": TAC["autodiff"], "taylor": TAC["taylor"], "split": TAC["deep"]}[stage]
                return [Instance("%s_%s" % (cid, stage), g, [], kind="R", prec=P, tactic=tac, meta=dict(meta, kind=stage))]
            g = "forall x y : R, %s <= x <= %s -> %s <= y <= %s -> %s" % (C(a), C(b), C(y0), C(y1), bounds_text(flo, fhi, "(exp (y * ln x))"))
            if stage == "taylor": return []
            return [Instance("%s_%s" % (cid, stage), g, [], kind="R", prec=P, tactic=TAC["two" if stage == "autodiff" else "two_deep"], meta=dict(meta, kind=stage))]
        # atan2: x is the y-span [a, b], y the x-span ex
        xa, xb = ex
        reg = call["regime"]
        if reg == "right_half_plane": body = "(atan (x / y))"
        elif reg == "upper_half_plane": body = "(PI / 2 - atan (y / x))"
        else: body = "(- (PI / 2) - atan (y / x))"
        if a == b and xa == xb:
            body = body.replace("x", "X_").replace("y", C(xa)).replace("X_", C(a))
            g = bounds_text(flo, fhi, body)
            if stage != "autodiff": return []
            return [Instance("%s_pt" % cid, g, [], kind="R", prec=P, tactic="interval with (i_prec {prec})", meta=dict(meta, kind="point"))]
        g = "forall x y : R, %s <= x <= %s -> %s <= y <= %s -> %s" % (C(a), C(b), C(xa), C(xb), bounds_text(flo, fhi, body))
        if stage == "taylor": return []
        return [Instance("%s_%s" % (cid, stage), g, [], kind="R", prec=P, tactic=TAC["two" if stage == "autodiff" else "two_deep"], meta=dict(meta, kind=stage))]
    return mk
