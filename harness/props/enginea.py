"""Shared runner for Engine-A properties: Coq theorem file + regenerated tables + correspondence
of the extracted model against the live implementation + search-side spec predicates."""
import time
from common import *
import corr, mpfcases, tables
from check import check_props_file


def proof_side(rep, pid):
    """Compile Props/<pid>.v and Tables.v; returns (obligations, discharged, trusted_base, cmds)."""
    pf = check_props_file(pid)
    tb = tables.run()
    obligations = tb["obligations"]
    discharged = tb["obligations"] if tb["ok"] else 0
    cmds = [tb["cmd"]]
    trusted = ["Coq 8.16.1 kernel + vm_compute (table checks)", "harness/tables.py (reads the tables from the live module)"]
    if not tb["ok"]:
        rep.violation("constant tables read from the live module no longer match the model (Tables.v failed)",
                      {"theorem": "build/Tables.v: tables_ok", "log": tb["log"]}, no_input=True)
    if pf is not None:
        obligations += pf["theorems"]
        cmds.append(pf["cmd"])
        if pf["ok"] and not pf["unexpected_axioms"]:
            discharged += pf["theorems"]
        else:
            rep.violation("theorem file Props/%s.v no longer checks" % pid,
                          {"theorem": "Props/%s.v" % pid, "log": pf["log"], "unexpected_axioms": pf["unexpected_axioms"]},
                          no_input=True)
        trusted.append("axioms reported by Print Assumptions: " + (", ".join(pf["axioms"]) or "none (closed under the global context)"))
    return obligations, discharged, trusted, cmds


def run_engine_a(rep, pid, tier_, rng, fns, tags, n_quick=400, n_thorough=6000, extra=None,
                 special_is_violation=True, make=None, spec=None):
    """fns: modelled functions to run in correspondence; tags: spec-failure tags that are violations
    of this property.  extra(rep, tier, rng) -> dict merged into coverage (API-level checks)."""
    t0 = time.time()
    obligations, discharged, trusted, cmds = proof_side(rep, pid)
    n = n_quick if tier_ == "quick" else n_thorough
    # structural cross-check of the model/code tie: which transliterated routines changed since the model was reconciled with them
    import drift
    moved = drift.changed()
    core = {"_normalize", "_normalize1", "from_man_exp"}
    relevant = [m for m in moved if m.split(":")[1] in core or any(m.split(":")[1].lstrip("_") in f or f in m.split(":")[1] for f in fns)]
    if relevant:
        n *= 3
    res = corr.run_correspondence(fns, n, rng, make=make, spec=spec)
    # classify
    dis_noinput = 0
    for c, io, mo in res["disagreements"]:
        bad = [b for b in (spec or mpfcases.spec_check)(c, io) if b[0] in tags]
        rp = c.replay(); rp["impl_out"] = [hexz(x) for x in io]; rp["model_out"] = [hexz(x) for x in mo]
        if bad:
            rep.violation("%s: %s" % (c.fn, bad[0][1]), rp)
        elif c.exact is None and special_is_violation and io[0] in (0, 1) and mo[0] in (0, 1):
            # no independent spec predicate applies (special values, exceptions, huge exponents):
            # the Coq model *is* the specified behaviour for these inputs
            rep.violation("%s: implementation differs from the verified model on this input" % c.fn, rp)
        else:
            dis_noinput += 1
            rep.violation("%s: correspondence between model and implementation broken" % c.fn,
                          dict(rp, theorem="correspondence %s" % c.fn), no_input=True)
    for c, io, bad in res["specfails"]:
        bad = [b for b in bad if b[0] in tags]
        if bad:
            rp = c.replay(); rp["impl_out"] = [hexz(x) for x in io]
            rep.violation("%s: %s" % (c.fn, bad[0][1]), rp)
    cov = {
        "obligations": obligations, "discharged": discharged, "checker_cmd": " && ".join(cmds),
        "trusted_base": trusted + ["extraction (ExtrOcamlBasic) + extract/driver.ml", "harness generators/encoders (Python)",
                                  "CPython int semantics"],
        "evaluations": res["n"], "distinct_nontrivial": res["distinct_nontrivial"],
        "rule": "boundary-directed generated cases per modelled function (ties/carries at the cut, far-apart exponents, "
                "specials, exact quotients, squares +-1); non-trivial = distinct case whose result is a finite nonzero "
                "number or a non-mpf value",
        "samples": corr.sample_cases(res),
        "per_function": res["stats"], "disagreements": len(res["disagreements"]),
        "spec_failures": sum(1 for _, _, b in res["specfails"] if any(x[0] in tags for x in b)),
        "impl_seconds": res["impl_s"], "model_seconds": res["model_s"],
        "model_source_drift": {"changed_since_reconciled": moved, "relevant_here": relevant, "case_budget_factor": 3 if relevant else 1,
                               "note": "normalised-AST hashes of the transliterated Python routines vs harness/model_fingerprints.json; a change is reported, not an alarm"},
    }
    if extra:
        cov.update(extra(rep, tier_, rng) or {})
    rep.coverage = cov
    rep.assumptions = ["the Gallina model is tied to the code by the correspondence run only (hand-written model)",
                       "isqrt/sqrtrem are modelled by Z.sqrt/Z.sqrtrem", "shift amounts on the model side kept below ~10^5"]
