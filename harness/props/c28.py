"""C28 -- diff (incl. partial derivatives), diffs, diffun, taylor: relative or absolute error below 2^(10-p) on polynomials,
entire functions (exp, sin, cos and products) and rational functions away from poles; difference(s, n) = exact n-th
forward difference; differint of x^k = closed form; pade(a, L, M): series of P/Q matches a up to order L+M.

Engine B: the reference derivative is produced by symbolic differentiation of the term that is also compiled into the
mpmath callable (calcb.deriv, textbook rules); each returned number gives one Coq lemma
    Rabs (y - f^(n)(x)) <= 2^(10-p) * max(|f^(n)(x)|, 1)
proved by `interval`, or by `vm_compute` over Z when the reference folds to a rational (polynomials, rational
functions at rational points, difference, pade residuals)."""
import time
from fractions import Fraction
from math import comb, factorial
from common import *
import cert, sweep, calcb
from cert import Const, ZERO, ONE, HALF, PI, lift
from calcb import fs, fr, fsl, frl, rq, rpoly, X, poly, at, tol_instance
from props.engineb import run_and_report, replay_generic, short
from props import c26

LEVEL = "exploration"

ASSUMPTIONS = [
    "Reference derivatives: symbolic differentiation (sum, product, quotient, chain rules for exp/sin/cos/powers) of the very term "
    "that is compiled into the callable given to mpmath; the rules are the textbook ones (calcb.deriv) and are trusted, as is the "
    "printer of terms.",
    "'relative or absolute error below 2^(10-p)' is read as |y - ref| <= 2^(10-p)*max(|ref|, 1); for the complex values returned by "
    "method='quad' the modulus of the error is used.",
    "Evaluation points are dyadic rationals (exact mpf), |x| <= 3; polynomial degree <= 8; |a| <= 2, |b| <= 3 in e^(ax) sin/cos(bx); poles of "
    "rational functions at distance >= 1 from x (and from the radius-1/4 contour of method='quad'); orders 0..10.",
    "difference: the property's 'equals the exact n-th forward difference' is checked as exact equality on sequences whose partial sums "
    "are exactly representable at the working precision (small integers / short dyadics), and as |y - D| <= 2^(10-p) * sum_k C(n,k)|s_k| on "
    "p-bit sequences (a rounding-aware reading: the sum is accumulated in p-bit arithmetic).",
    "differint reference: D^n x^k = k!/Gamma(k-n+1) x^(k-n) (x0 = 0), Gamma(j+1/2) = (2j)!/(4^j j!) sqrt(pi), "
    "Gamma(1/2-j) = (-4)^j j!/(2j)! sqrt(pi), 1/Gamma(non-positive integer) = 0; tolerance 2^(10-p)*max(|ref|,1).",
    "pade: with the exact dyadic values of the coefficients a_k passed in and of the returned p_k, q_k, the residuals "
    "sum_{i<=min(k,M)} q_i a_(k-i) - p_k (p_k = 0 for k > L) are computed by Coq over Z and bounded by 2^(10-p)*max|a_k| for all k <= L+M, and q_0 = 1.",
    "Universal accuracy is NOT proved: sampled instances only (level exploration, certified oracle).",
]


# ------------------------------------------------------------------------------------------ test functions

def f_term(fspec, name="x"):
    x = X(name)
    fam = fspec["fam"]
    if fam == "poly":
        return poly(frl(fspec["P"]), x)
    if fam == "pet":
        return c26.pet_terms(frl(fspec["P"]), fr(fspec["a"]), fr(fspec["b"]), fspec["trig"], x)[0]
    if fam == "sincos":
        a, b, c = fr(fspec["a"]), fr(fspec["b"]), fr(fspec["c"])
        t = cert.sin(Const(b) * x) * cert.cos(Const(c) * x)
        return cert.exp(Const(a) * x) * t if a != 0 else t
    if fam == "rat":
        f = poly(frl(fspec["P"]), x)
        for c, r, m in fspec["simple"]:
            f = f + Const(fr(c)) * cert.powz(x - Const(fr(r)), -int(m))
        for al, be, u, v in fspec["quad"]:
            al, be, u, v = fr(al), fr(be), fr(u), fr(v)
            f = f + (Const(al) * x + Const(be)) / ((x - Const(u)) * (x - Const(u)) + Const(v * v))
        return f
    raise KeyError(fam)


def g_x(rng):
    return Fraction(rng.randint(-24, 24), 8)


def g_fspec(rng, x0, maxorder):
    u = rng.random()
    if u < 0.22:
        return {"fam": "poly", "P": fsl(rpoly(rng, rng.randint(1, 8)))}
    if u < 0.6:
        trig = rng.choice(["none", "sin", "cos"])
        a = Fraction(rng.choice([0, 1, -1, 2, -2, 1, -1]), rng.choice([1, 1, 2, 3]))
        if trig == "none" and a == 0: a = Fraction(1, 2)
        b = Fraction(rng.randint(1, 3), rng.choice([1, 1, 2])) if trig != "none" else Fraction(0)
        return {"fam": "pet", "P": fsl(rpoly(rng, rng.choice([0, 0, 1, 2, 3]))), "a": fs(a), "b": fs(b), "trig": trig}
    if u < 0.72:
        return {"fam": "sincos", "a": fs(Fraction(rng.choice([0, 0, 1, -1]), rng.choice([1, 2]))), "b": fs(Fraction(rng.randint(1, 3), rng.choice([1, 2]))),
                "c": fs(Fraction(rng.randint(1, 3), rng.choice([1, 2])))}
    simple, qd = [], []
    for _ in range(rng.choice([1, 1, 2])):
        if rng.random() < 0.6 or maxorder > 5:
            r = x0 + rng.choice([1, -1]) * (1 + Fraction(rng.randint(0, 8), 4))
            simple.append([fs(rq(rng, 3, nonzero=True)), fs(r), rng.choice([1, 1, 2, 3])])
        else:
            qd.append(fsl([rq(rng, 2), rq(rng, 3, nonzero=True), Fraction(rng.randint(-12, 12), 4), 1 + Fraction(rng.randint(0, 8), 4)]))
    P = rpoly(rng, rng.choice([0, 1, 2])) if rng.random() < 0.4 else [Fraction(0)]
    return {"fam": "rat", "P": fsl(P), "simple": simple, "quad": qd}


def g_order(rng):
    return rng.choice([0, 1, 1, 2, 2, 3, 4, 5, 6, 8, 10])


def g_diff(rng):
    x0 = g_x(rng)
    n = g_order(rng)
    method = rng.choice(["step", "step", "step", "quad"])
    f = g_fspec(rng, x0, n)
    if f["fam"] == "rat" and f["quad"] and n > 5: n = rng.randint(0, 5)
    direction = rng.choice([0, 0, 1, -1]) if method == "step" else 0
    return {"kind": "diff", "f": f, "x": fs(x0), "n": n, "method": method, "direction": direction}


def g_partial(rng):
    dx, dy = rng.randint(1, 4), rng.randint(1, 4)
    C = [[rq(rng, 3, dens=(1, 1, 2)) for _ in range(dy + 1)] for _ in range(dx + 1)]
    C[dx][dy] = C[dx][dy] or Fraction(1)
    return {"kind": "partial", "C": [fsl(r) for r in C], "pt": fsl([g_x(rng), g_x(rng)]),
            "orders": [rng.randint(0, dx), rng.randint(0, dy)], "method": "step"}


def g_list(rng, kind):
    x0 = g_x(rng)
    n = rng.choice([2, 3, 4, 5, 6, 8])
    return {"kind": kind, "f": g_fspec(rng, x0, n), "x": fs(x0), "n": n, "method": "step" if rng.random() < 0.85 else "quad", "direction": 0}


def g_difference(rng, prec):
    n = rng.choice([0, 1, 2, 3, 5, 8, 12, 16])
    L = n + 1 + rng.randint(0, 3)
    mode = rng.choice(["int", "int", "dyadic", "pbit"])
    if mode == "int":
        bits = max(2, min(20, prec - n - 4))
        s = [Fraction(rng.randint(-2 ** bits, 2 ** bits)) for _ in range(L)]
    elif mode == "dyadic":
        bits = max(2, min(16, prec - n - 6))
        s = [Fraction(rng.randint(-2 ** bits, 2 ** bits), 2 ** rng.randint(0, 4)) for _ in range(L)]
    else:
        s = [Fraction(rng.getrandbits(prec) | 1, 2 ** (prec + rng.randint(-3, 3))) * rng.choice([1, -1]) for _ in range(L)]
    return {"kind": "difference", "s": fsl(s), "n": n, "mode": mode, "pyint": mode == "int" and rng.random() < 0.3}


def pade_coeffs(src, N, rng=None, seedvals=None):
    if src == "exp": return [Fraction(1, factorial(k)) for k in range(N)]
    if src == "log1p_over_x": return [Fraction((-1) ** k, k + 1) for k in range(N)]
    if src == "sqrt1p":
        out, c = [], Fraction(1)
        for k in range(N):
            out.append(c); c = c * (Fraction(1, 2) - k) / (k + 1)
        return out
    if src == "cosh_sqrt": return [Fraction(1, factorial(2 * k)) for k in range(N)]
    return frl(seedvals)[:N]


def g_pade(rng):
    L, M = rng.choice([(0, 0), (1, 1), (2, 2), (3, 3), (2, 1), (1, 2), (4, 2), (3, 0), (0, 3), (5, 5), (2, 4), (1, 0), (0, 1)])
    src = rng.choice(["exp", "log1p_over_x", "sqrt1p", "cosh_sqrt", "random"])
    N = L + M + 1 + rng.randint(0, 2)
    vals = fsl([rq(rng, 9, dens=(1, 2, 3, 5, 7), nonzero=True) for _ in range(N)]) if src == "random" else None
    return {"kind": "pade", "src": src, "L": L, "M": M, "N": N, "vals": vals}


def g_differint(rng):
    k = rng.randint(0, 5)
    order = Fraction(rng.choice([-3, -2, -1, 1, 2, 3, 4, 5, -1, 1, 3, 0]), 2) if rng.random() < 0.6 else Fraction(rng.randint(-2, 4))
    x0 = Fraction(rng.randint(2, 20), 8)
    return {"kind": "differint", "k": k, "order": fs(order), "x": fs(x0)}


def gamma_half(j2):
    """Gamma(j2/2) for odd j2 as (rational, with sqrt(pi) factor)"""
    assert j2 % 2 != 0
    if j2 > 0:
        j = (j2 - 1) // 2           # Gamma(j + 1/2)
        return Fraction(factorial(2 * j), 4 ** j * factorial(j))
    j = (1 - j2) // 2               # Gamma(1/2 - j)
    return Fraction((-4) ** j * factorial(j), factorial(2 * j))


def differint_ref(k, order, x0):
    """k!/Gamma(k-n+1) x^(k-n)"""
    e = k - order                   # exponent
    g = e + 1                       # Gamma argument
    if g.denominator == 1:
        if g <= 0:
            return ZERO
        return Const(Fraction(factorial(k), factorial(int(g) - 1)) * Fraction(x0) ** int(e))
    c = gamma_half(int(2 * g))      # Gamma(g) = c*sqrt(pi)
    # x^e with e = i + 1/2 (i integer, possibly negative):  x^i * sqrt(x)
    i = (e - Fraction(1, 2))
    assert i.denominator == 1
    return Const(Fraction(factorial(k)) / c * Fraction(x0) ** int(i)) * cert.sqrt(Const(x0)) / cert.sqrt(PI)


# ------------------------------------------------------------------------------------------ calls

def do_call(ctx, spec, prec, timeout):
    """-> list of (label, value, reference term or None, extra)"""
    k = spec["kind"]
    p0 = ctx.prec
    try:
        ctx.prec = prec
        if k in ("diff", "diffs", "diffun", "taylor"):
            ft = f_term(spec["f"])
            f = calcb.compile_mp(ft, ["x"], ctx)
            x0 = fr(spec["x"]); xm = calcb.to_mpf(ctx, x0)
            n = spec["n"]
            kw = {}
            if spec.get("method", "step") != "step": kw["method"] = spec["method"]
            if spec.get("direction"): kw["direction"] = spec["direction"]
            if k == "diff":
                y = sweep.call_with_timeout(lambda: ctx.diff(f, xm, n, **kw), timeout)
                return [("d%d" % n, y, at(calcb.nderiv(ft, "x", n), "x", x0))]
            if k == "diffun":
                y = sweep.call_with_timeout(lambda: ctx.diffun(f, n, **kw)(xm), timeout)
                return [("d%d" % n, y, at(calcb.nderiv(ft, "x", n), "x", x0))]
            if k == "diffs":
                ys = sweep.call_with_timeout(lambda: list(ctx.diffs(f, xm, n, **kw)), timeout)
            else:
                ys = sweep.call_with_timeout(lambda: ctx.taylor(f, xm, n, **kw), timeout)
            out = []
            d = ft
            if len(ys) != n + 1:
                return [("len", None, None)]
            for i, y in enumerate(ys):
                ref = at(d, "x", x0)
                if k == "taylor": ref = ref / Const(factorial(i))
                out.append(("%s%d" % ("c" if k == "taylor" else "d", i), y, ref))
                d = calcb.deriv(d, "x")
            return out
        if k == "partial":
            C = [frl(r) for r in spec["C"]]
            x = X("x"); yv = X("y")
            ft = ZERO
            for i, row in enumerate(C):
                ft = ft + poly(row, yv) * cert.powz(x, i)
            f = calcb.compile_mp(ft, ["x", "y"], ctx)
            pt = frl(spec["pt"])
            n1, n2 = spec["orders"]
            y = sweep.call_with_timeout(lambda: ctx.diff(f, (calcb.to_mpf(ctx, pt[0]), calcb.to_mpf(ctx, pt[1])), (n1, n2)), timeout)
            d = calcb.nderiv(calcb.nderiv(ft, "x", n1), "y", n2)
            return [("d%d_%d" % (n1, n2), y, calcb.subst(d, {"x": Const(pt[0]), "y": Const(pt[1])}))]
        if k == "difference":
            s = frl(spec["s"]); n = spec["n"]
            if spec.get("pyint"):
                seq = [int(v) for v in s]
            else:
                seq = []
                from props.engineb import mk_mpf
                for v in s:
                    seq.append(mk_mpf(ctx, v))
            y = ctx.difference(seq, n)
            D = sum((-1) ** (j + n) * comb(n, j) * s[j] for j in range(n + 1))
            return [("delta%d" % n, y, Const(D))]
        if k == "pade":
            a = pade_coeffs(spec["src"], spec["N"], seedvals=spec.get("vals"))
            am = [calcb.to_mpf(ctx, v) for v in a]
            p_, q_ = ctx.pade(am, spec["L"], spec["M"])
            return [("pade", (am, list(p_), list(q_)), None)]
        if k == "differint":
            kk = spec["k"]; order = fr(spec["order"]); x0 = fr(spec["x"])
            om = calcb.to_mpf(ctx, order) if order.denominator != 1 else int(order)
            xm = calcb.to_mpf(ctx, x0)
            y = sweep.call_with_timeout(lambda: ctx.differint(lambda t: t ** kk, xm, om), timeout)
            return [("differint", y, differint_ref(kk, order, x0))]
        raise KeyError(k)
    finally:
        ctx.prec = p0


def cplx_of(y):
    """mpf/mpc/int -> (re, im) Fractions or None"""
    if hasattr(y, "_mpc_"):
        a, b = y._mpc_
        for t in (a, b):
            if t[1] == 0 and t[2] != 0: return None
        return cert.mpf_fraction(a), cert.mpf_fraction(b)
    v = calcb.frac_of(y)
    return None if v is None else (v, Fraction(0))


def value_instance(iid, y, ref, eps, meta):
    re_, im_ = y
    if im_ == 0:
        return tol_instance(iid, re_, ref, eps, meta=meta)
    ref = lift(ref)
    # modulus of the error: (re-ref)^2 + im^2 <= eps^2 * max(ref^2, 1)
    er = Const(re_) - ref
    err2 = er * er + Const(im_ * im_)
    e2 = Const(eps * eps)
    if ref.is_const():
        b = eps * eps * max(ref.v * ref.v, 1)
        e = (re_ - ref.v) ** 2 + im_ * im_
        return calcb.q_tol_instance(iid, e, b, meta=meta)
    big = abs(calcb.num(ref, 80)) >= 1
    scale2 = ref * ref if big else ONE
    atoms = [(err2, "<=", e2 * scale2)]
    negs = [[(e2 * (ref * ref), "<", err2), (e2, "<", err2)]]
    return cert.atoms_instance(iid, atoms, negs, meta=meta)


def _zl(n):
    return "(%d)" % n if n < 0 else "%d" % n


def pade_instance(iid, am, p_, q_, L, M, prec, meta):
    """residuals of the Pade equations over Z (Coq computes the convolutions)"""
    from props.engineb import dyadic
    A = [calcb.frac_of(v) for v in am]; P = [calcb.frac_of(v) for v in p_]; Qc = [calcb.frac_of(v) for v in q_]
    if any(v is None for v in A + P + Qc) or len(P) != L + 1 or len(Qc) != M + 1:
        return None
    def common(vals):
        e = 0
        for v in vals:
            e = max(e, v.denominator.bit_length() - 1)
        return [int(v * 2 ** e) for v in vals], e
    Ai, E1 = common(A); Qi, E2 = common(Qc); Pi, E3 = common(P)
    E = max(E1 + E2, E3)
    amax = max(abs(v) for v in Ai[:L + M + 1])
    sh = E - E1 - E2; shp = E - E3
    # |sum_i Q_i A_(k-i) * 2^sh - P_k * 2^shp| * 2^(prec-10) * 2^E1 <= amax * 2^E      (prec >= 10)
    lhs_scale = prec - 10 + E1
    parts = []
    ok = True
    for k in range(L + M + 1):
        terms = " + ".join("%s * %s" % (_zl(Qi[i]), _zl(Ai[k - i])) for i in range(0, min(k, M) + 1))
        pk = Pi[k] if k <= L else 0
        txt = "(Z.abs ((%s) * 2 ^ %d - %s * 2 ^ %d) * 2 ^ %d <=? %d * 2 ^ %d)" % (terms, sh, _zl(pk), shp, max(lhs_scale, 0), amax, E + max(-lhs_scale, 0))
        parts.append(txt)
        val = abs(sum(Qi[i] * Ai[k - i] for i in range(0, min(k, M) + 1)) * 2 ** sh - pk * 2 ** shp) * 2 ** max(lhs_scale, 0)
        ok = ok and val <= amax * 2 ** (E + max(-lhs_scale, 0))
    parts.append("(%s =? %s)" % (_zl(Qi[0]), _zl(2 ** E2)))
    ok = ok and Qi[0] == 2 ** E2
    body = "(" + " && ".join(parts) + ")%bool"
    return cert.Instance(iid, body + " = true", [body + " = false"], kind="Z", hint="pass" if ok else "fail", meta=meta, trivial=False)


def build_instances(cid, spec, prec, results, fn, regime):
    eps = calcb.eps_of(prec)
    out = []
    direct = []
    for label, y, ref in results:
        meta = {"fn": fn, "regime": regime, "p": prec, "call": cid, "part": label}
        iid = "%s_%s" % (cid, label)
        if label == "len":
            direct.append("wrong number of values returned"); continue
        if spec["kind"] == "pade":
            am, p_, q_ = y
            ins = pade_instance(iid, am, p_, q_, spec["L"], spec["M"], prec, meta)
            if ins is None:
                direct.append("pade returned lists of the wrong length or non-finite entries (len p=%d, len q=%d)" % (len(p_), len(q_)))
            else:
                out.append(ins)
            continue
        if spec["kind"] == "difference":
            v = calcb.frac_of(y)
            if v is None:
                direct.append("non-finite value"); continue
            D = ref.v
            if spec["mode"] == "pbit":
                s = frl(spec["s"]); n = spec["n"]
                bound = eps * sum(comb(n, j) * abs(s[j]) for j in range(n + 1))
                out.append(calcb.q_tol_instance(iid, abs(v - D), bound, meta=meta, trivial=False))
            else:
                a, b = cert._zscaled([v, D])
                out.append(cert.Instance(iid, "(%s =? %s) = true" % (_zl(a), _zl(b)), ["(%s =? %s) = false" % (_zl(a), _zl(b))], kind="Z",
                                         hint="pass" if a == b else "fail", meta=meta, trivial=(spec["n"] == 0)))
            continue
        yc = cplx_of(y)
        if yc is None:
            direct.append("non-finite value %r" % (y,)); continue
        out.append(value_instance(iid, yc, ref, eps, meta))
    return out, direct


def fn_of(spec):
    k = spec["kind"]
    if k == "partial": return "diff"
    return k


def regime_of(spec):
    k = spec["kind"]
    if k in ("diff", "diffs", "diffun", "taylor"):
        d = {0: "central", 1: "right", -1: "left"}[spec.get("direction", 0)]
        return "%s/%s/%s/%s" % (spec["f"]["fam"], spec.get("method", "step"), d, "n<=4" if spec["n"] <= 4 else "n>4")
    if k == "partial": return "bivariate-poly"
    if k == "difference": return spec["mode"]
    if k == "pade": return "%s/L%dM%d" % (spec["src"], spec["L"], spec["M"])
    if k == "differint":
        o = fr(spec["order"])
        return ("half-integer" if o.denominator != 1 else "integer") + ("/negative" if o < 0 else "/nonneg")
    return k


def kclass_of(spec):
    k = spec["kind"]
    if k == "pade": return "pade/L%dM%d" % (spec["L"], spec["M"])
    if k in ("diff", "diffs", "diffun", "taylor"):
        return "%s/%s/%s" % (k, spec.get("method", "step"), "n<=4" if spec["n"] <= 4 else "n>4")
    if k == "differint":
        o = fr(spec["order"])
        return "differint/" + ("half" if o.denominator != 1 else "int")
    return k


def qclass_of(spec):
    if spec["kind"] in ("diff", "diffs", "diffun", "taylor") and spec.get("method") == "quad" and spec["n"] > 4:
        return "quad-highorder"
    return "std"


def plan(rng, tier_):
    q = tier_ == "quick"
    precs = [30, 53, 100] if q else [30, 53, 100, 200]
    jobs = []
    for i in range(60 if q else 500):
        s = g_diff(rng); p = rng.choice(precs)
        jobs.append((s, p))
    for i in range(10 if q else 60):
        jobs.append((g_partial(rng), rng.choice(precs)))
    for i in range(6 if q else 40):
        jobs.append((g_list(rng, "diffs"), rng.choice(precs)))
    for i in range(6 if q else 40):
        jobs.append((g_list(rng, "taylor"), rng.choice(precs)))
    for i in range(6 if q else 40):
        s = g_diff(rng); s["kind"] = "diffun"
        jobs.append((s, rng.choice(precs)))
    for i in range(16 if q else 100):
        p = rng.choice(precs)
        jobs.append((g_difference(rng, p), p))
    for i in range(16 if q else 100):
        jobs.append((g_pade(rng), rng.choice(precs)))
    for i in range(10 if q else 60):
        jobs.append((g_differint(rng), rng.choice([30, 53] if q else [30, 53, 100])))
    rng.shuffle(jobs)
    return jobs


def run(rep, tier_, rng):
    calcb.load_known_b2(rep)
    from mpmath import mp
    q = tier_ == "quick"
    t0 = time.time()
    jobs = plan(rng, tier_)
    insts, calls = [], {}
    stats = {"raised": [], "timeouts": 0, "skipped_for_time": 0, "python_level_failures": 0, "values": 0}
    gen_budget = 70 if q else 700
    for n, (spec, prec) in enumerate(jobs):
        if time.time() - t0 > gen_budget:
            stats["skipped_for_time"] = len(jobs) - n; break
        fn = fn_of(spec); regime = regime_of(spec)
        cid = "d%04d" % n
        call = {"fn": fn, "regime": regime, "kclass": kclass_of(spec), "qclass": qclass_of(spec), "prec": prec, "spec": spec}
        try:
            results = do_call(mp, spec, prec, 30 if q else 200)
        except sweep.CallTimeout:
            stats["timeouts"] += 1; continue
        except Exception as ex:
            calls[cid] = call
            stats["raised"].append({"regime": regime, "exc": repr(ex)[:100]})
            rep.violation("C28 %s raised %s (%s)" % (fn, repr(ex)[:80], regime), dict(call, clause="raised")); continue
        calls[cid] = call
        try:
            new, direct = build_instances(cid, spec, prec, results, fn, regime)
        except (cert.EstimateError, ZeroDivisionError, ValueError):
            stats.setdefault("skipped_estimate", 0); stats["skipped_estimate"] += 1; continue
        for d in direct:
            stats["python_level_failures"] += 1
            rep.violation("C28 %s: %s (%s)" % (fn, d, regime), dict(call, clause="shape"))
        stats["values"] += len(new)
        insts += new
    tgen = time.time() - t0
    regimes = {}
    for c in calls.values():
        regimes[c["fn"] + ":" + c["regime"]] = regimes.get(c["fn"] + ":" + c["regime"], 0) + 1
    insts, not_attempted = calcb.fit_budget(insts, max(30, (115 if q else 1100) - tgen))
    run_and_report(rep, insts, calls, tag="C28_%s" % tier_, params={"sentence_timeout": 60, "single_timeout": 80},
                   budget=max(30, (115 if q else 1100) - tgen), jobs=10,
                   rule="each evaluation = one call of diff/diffs/diffun/taylor/difference/pade/differint of the current /repo code: test functions "
                        "polynomials (deg <= 8), P(x)e^(ax){1,sin bx,cos bx}, e^(ax) sin(bx) cos(cx), rational functions (partial fractions, poles at "
                        "distance >= 1), bivariate polynomials; dyadic evaluation points; orders 0..10; method step (central/left/right) or quad; "
                        "p in {30,53,100(,200)}; one lemma per returned number (every element of diffs/taylor lists); difference on exact integer/"
                        "dyadic and on p-bit sequences; pade on Taylor coefficients of exp, log(1+x)/x, sqrt(1+x), cosh(sqrt x) and random rationals "
                        "for (L,M) incl. (0,0); differint of x^k at integer and half-integer orders in [-2, 4]; distinct = distinct lemma "
                        "statements; non-trivial = error not exactly zero against a folded rational",
                   assumptions=ASSUMPTIONS,
                   extra_cov={"lemmas_not_attempted_for_time": not_attempted, "regimes": regimes, "generation_wall_s": round(tgen, 1), "tolerance": "2^(10-p)*max(|ref|,1)", **stats})


def replay(rep, path):
    calcb.load_known_b2(rep)

    def rebuild(r):
        from mpmath import mp
        spec = r["spec"]
        results = do_call(mp, spec, r["prec"], 600)
        cid = "replay"
        call = {k: r[k] for k in ("fn", "regime", "kclass", "qclass", "prec", "spec") if k in r}
        new, direct = build_instances(cid, spec, r["prec"], results, r["fn"], r["regime"])
        for d in direct:
            rep.violation("C28 %s: %s" % (r["fn"], d), dict(call, clause="shape"))
        if r.get("part"):
            new = [i for i in new if i.meta.get("part") == r["part"]] or new
        return new, {cid: call}
    replay_generic(rep, path, rebuild)
