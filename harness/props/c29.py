"""C29 -- root finders return genuine roots, in the documented order (Engine B: per-instance Coq certificates).

Every sampled call of findroot / polyroots / multiplicity of the current tree is turned into Coq lemmas about the
*returned* values, which are exact (complex) dyadic rationals read from the raw `_mpf_`/`_mpc_` tuples (sign included):

  clause 1  resid     |f(x)|^2 <= tol for the x findroot returned with verify=True (tol = the default of findroot,
                      eps(prec+20)*2^10 = 2^(-prec-9) read off the source, or the user-supplied tol).  f is a polynomial
                      with integer (Gaussian) coefficients -> the lemma is a closed boolean statement over Z in which Coq
                      itself evaluates D^n*p(x) by Horner (`vm_compute`); f elementary (exp x - c, ln x - c, sin x - c,
                      cos x - x, x e^x - c, atan x - c) -> a real goal proved by `interval`; mdnewton on small polynomial
                      systems -> Z lemma per component (max-norm).
  clause 2  bracket   a <= x <= b for bisect/illinois/pegasus/anderson/ridder (Z lemma).
  clause 3  mnerr     mnewton on (x-r)^m q(x), m=1..4, r rational, start r+-2^-3..2^-8 (relative), derivatives numerical /
                      df only / df and d2f user supplied, verify True and False: any exception is a violation ("instead
                      of failing"), and |x-r|^m < 2^(4m-p) (i.e. |x-r| < 2^(4-p/m), exact over Z).
  clause 4  polyroots count (len = deg and every planted root has a returned root in its separation disc and vice
                      versa), residual consistent with err, root error consistent with err (well conditioned simple
                      roots only), ordering (real coefficients: reals first, then adjacent conjugate pairs).
  clause 5  multiplicity(f, r) = m together with the certificate that m is the true multiplicity (p^(j)(r)=0 for j<m,
                      p^(m)(r)<>0, evaluated by Coq).

Verdicts come from coqc only (bound proved -> pass, negation proved -> violation, else inconclusive); Python only
predicts (hints) and builds the statements.  Exceptions have no certificate: they are classified directly
(ValueError of findroot = allowed non-convergence, counted; any exception in clause 3/5 = violation)."""
import os, json, time, math
from fractions import Fraction
from math import lcm
from common import *
import cert, sweep
from cert import mpf_fraction, atoms_instance, z_instance
from props.engineb import *

LEVEL = "exploration"
KNOWN_B4 = os.path.join(VERIF, "known_findings_B4.json")

K_RESID = 4        # residual predicate: |p(x_i)| <= K_RESID * err * rho_i * S1(rho_i)
K_ROOT = 16        # root-error predicate: |x_i - r_j| <= K_ROOT * err * max(1,|r_j|)
COND_LIMIT = 2048  # root-error predicate only claimed when deg * abscond_j <= COND_LIMIT * max(1,|r_j|) for all j

BRACKETING = ("bisect", "illinois", "pegasus", "anderson", "ridder")
OPEN_SOLVERS = ("secant", "newton", "mnewton", "halley", "muller", "anewton")

ASSUMPTIONS = [
    "Reading of clause 1 ('|f(x)|^2 <= tol at the working precision'): the certified statement is about the EXACT "
    "mathematical f (polynomial with exact integer coefficients / elementary function as a real term) at the returned "
    "point, with exactly findroot's tolerance (default tol = eps*2^10 evaluated after findroot's `prec += 20`, i.e. "
    "2^(-prec-9); or the user-supplied dyadic tol).  findroot itself tested the floating-point evaluation of f at prec+20 "
    "bits; the two can only differ when the residual sits within rounding distance of tol.  If the exact residual "
    "exceeds tol while the floating residual re-evaluated at prec+20 does not, the lemma certified instead is "
    "(exact <= tol) \\/ (floating residual^2 <= tol) and the case is counted under `rounding_of_f_cases` (rounding inside "
    "the user's f is not findroot's fault); a violation needs both to exceed tol.  The returned x is not rounded back "
    "to prec by findroot, so it is exactly the point findroot verified.",
    "User functions are Horner evaluations (ctx.polyval) with exact integer coefficients, or c-shifted elementary "
    "functions with dyadic c; starting points, brackets, tolerances are exact dyadics, so the only inexactness in a "
    "call is inside mpmath.",
    "findroot raising ValueError is the documented non-convergence outcome and is allowed in clause 1/2 (counted per "
    "solver); other exception types there (ZeroDivisionError from a vanishing slope, as in findroot's own docstring) "
    "are reported in evidence, not as violations.  In clause 3 (mnewton on polynomial roots from nearby starting "
    "points) and clause 5 every exception is a violation.",
    "Clause 2 (bracket) is certified for every point a bracketing solver returns, with verify=True and (same problem, same bracket) "
    "with verify=False: the clause does not mention the verification step and the unverified result is the point the solver itself "
    "settled on.  Brackets always contain a sign change of f (checked exactly when the case is generated) and exactly one planted root; "
    "other roots may lie just outside.",
    "Clause 3 tolerance: 'error below 2^(4-p/m)' is read as the absolute error |x-r| < 2^(4-p/m) with p the caller's "
    "precision, decided exactly as |x-r|^(2m) * 2^(2p) < 2^(8m); 'nearby' = |x0-r| between 2^-8 and 2^-3 times "
    "max(1,|r|), the cofactor q has no root within distance 2 of r.",
    "polyroots err: by the source, err = max_i |last Durand-Kerner correction of root i|, floored at 2^(1-prec); the "
    "returned roots are the corrected iterates rounded to prec bits.  'Residual consistent with err' is defined as "
    "|p(x_i)| <= %d * err * rho_i * S1(rho_i), rho_i = |Re x_i|+|Im x_i|+1 >= max(1,|x_i|), S1(rho) = sum_k k|a_k| rho^(k-1) "
    "(|a_k| := |Re a_k|+|Im a_k|) a majorant of |p'| on the disc |z|<=rho: any x_i within err(+ the final rounding "
    "2^-p|x_i|, + as much again for the (p+10)-bit Horner evaluation) of an exact root satisfies it (mean value bound); "
    "factor %d = 1 (err) + 1 (final rounding, <= err*rho/2 per component) times 2.  Additionally, for simple roots with "
    "deg*abscond_j <= %d*max(1,|r_j|) (abscond_j = sum|a_k||r_j|^k/|p'(r_j)|, generator-side float filter, justified "
    "by the 10 guard bits polyroots works with) the forward form |x_i - r_j| <= %d*err*max(1,|r_j|) for some planted r_j "
    "(and every planted root is hit) is certified too." % (K_RESID, K_RESID, COND_LIMIT, K_ROOT),
    "polyroots ordering (real integer coefficients): with k planted real roots, returned[0..k) have imaginary part "
    "exactly 0, returned[k..) have a non-zero imaginary part, and returned[k+2j+1] is within sep/4 of the complex "
    "conjugate of returned[k+2j] (sep = least distance between distinct planted roots).  NoConvergence with the "
    "default maxsteps/extraprec is documented behaviour (polyroots docstring) and is counted, the call is repeated "
    "once with maxsteps=200, extraprec=2*prec+20 and that result is checked instead.",
    "multiplicity: f is a Horner evaluation whose value at the dyadic root is exactly 0 in floating point (checked "
    "before the call, otherwise the case is skipped and counted) or the factored form (x-r)^m*q(x).",
    "Universal statements are NOT proved: only the sampled calls are certified (level exploration, certified oracle).",
]


# ------------------------------------------------------------------------------------------------ known findings

def load_known_b4(rep):
    """known_findings_B4.json has the format of known_findings_B.json; it may be edited concurrently by other agents."""
    for attempt in range(5):
        if not os.path.exists(KNOWN_B4):
            return
        try:
            with open(KNOWN_B4) as f:
                d = json.load(f)
            break
        except ValueError:
            time.sleep(0.3)
    else:
        return
    have = {k.get("key") for k in rep.known}
    rep.known.extend(k for k in d.get("findings", []) if k.get("property") == rep.pid and k.get("key") not in have)


# ------------------------------------------------------------------------------------------------ exact helpers

def zt(n):
    return "(%d)" % n if n < 0 else "%d" % n


def common_den(vals):
    L = 1
    for v in vals:
        L = lcm(L, Fraction(v).denominator)
    return [int(Fraction(v) * L) for v in vals], L


def enc_q(v):
    v = Fraction(v)
    return [v.numerator, v.denominator]


def dec_q(p):
    return Fraction(p[0], p[1])


def enc_dy(v):
    return list(dyadic(Fraction(v)))


def dec_dy(p):
    return Fraction(p[0]) * Fraction(2) ** p[1]


def xval(x):
    """mp number -> (re, im) exact Fractions, or None when not finite / not a number"""
    v = value_of(x)
    if v[0] == "real":
        return (v[1], Fraction(0))
    if v[0] == "complex":
        return (v[1], v[2])
    return None


def norm_coeffs(cs):
    return [(int(c), 0) if isinstance(c, int) else (int(c[0]), int(c[1])) for c in cs]


def enc_coeffs(cs):
    return [c[0] if c[1] == 0 else [c[0], c[1]] for c in cs]


def is_real_poly(cs):
    return all(c[1] == 0 for c in cs)


def pmul(a, b):
    r = [[0, 0] for _ in range(len(a) + len(b) - 1)]
    for i, (xr, xi) in enumerate(a):
        for j, (yr, yi) in enumerate(b):
            r[i + j][0] += xr * yr - xi * yi
            r[i + j][1] += xr * yi + xi * yr
    return [tuple(x) for x in r]


def from_roots(roots):
    """roots: list of (re, im) Fractions (with repetition) -> integer Gaussian coefficients, highest first"""
    cs = [(1, 0)]
    for (a, b) in roots:
        L = lcm(a.denominator, b.denominator)
        cs = pmul(cs, [(L, 0), (-int(a * L), -int(b * L))])
    return cs


def peval(cs, x):
    pr, pi = Fraction(0), Fraction(0)
    for (cr, ci) in cs:
        pr, pi = pr * x[0] - pi * x[1] + cr, pr * x[1] + pi * x[0] + ci
    return pr, pi


def pderiv(cs):
    n = len(cs) - 1
    return [(cr * (n - i), ci * (n - i)) for i, (cr, ci) in enumerate(cs[:-1])] or [(0, 0)]


def mp_coeffs(ctx, cs):
    from mpmath.libmp import from_int
    if is_real_poly(cs):
        return [c[0] for c in cs]
    return [ctx.make_mpc((from_int(c[0]), from_int(c[1]))) for c in cs]


def abs2(z):
    return z[0] * z[0] + z[1] * z[1]


# ------------------------------------------------------------------------------------------------ Coq text builders

def horner_lets(pref, cs, A, B, D):
    """x = (A + i B)/D.  -> (lets, re_name, im_name): after the lets, re + i*im = D^n * p(x), computed by Coq."""
    real = (B == 0 and is_real_poly(cs))
    L = ["let %sA := %s in let %sB := %s in let %sD := %s in" % (pref, zt(A), pref, zt(B), pref, zt(D))]
    L.append("let %sr0 := %s in" % (pref, zt(cs[0][0])))
    if not real:
        L.append("let %si0 := %s in" % (pref, zt(cs[0][1])))
    for k in range(1, len(cs)):
        cr, ci = cs[k]
        p = pref
        if real:
            L.append("let %sr%d := %sr%d * %sA + %s * %sD ^ %d in" % (p, k, p, k - 1, p, zt(cr), p, k))
        else:
            L.append("let %sr%d := %sr%d * %sA - %si%d * %sB + %s * %sD ^ %d in" % (p, k, p, k - 1, p, p, k - 1, p, zt(cr), p, k))
            L.append("let %si%d := %sr%d * %sB + %si%d * %sA + %s * %sD ^ %d in" % (p, k, p, k - 1, p, p, k - 1, p, zt(ci), p, k))
    n = len(cs) - 1
    return " ".join(L), "%sr%d" % (pref, n), ("0" if real else "%si%d" % (pref, n))


def poly_resid_cmp(pref, cs, x, tol):
    """boolean Coq term (lets included) for |p(x)|^2 <= tol"""
    (A, B), D = common_den([x[0], x[1]])
    n = len(cs) - 1
    lets, hr, hi = horner_lets(pref, cs, A, B, D)
    tol = Fraction(tol)
    return "(%s (%s * %s + %s * %s) * %s <=? %s * %sD ^ %d)" % (lets, hr, hr, hi, hi, zt(tol.denominator), zt(tol.numerator),
                                                               pref, 2 * n)


def q_le_bool(a, b):
    x, y = cert._zscaled([a, b])
    return "(%s <=? %s)" % (zt(x), zt(y))


def band(parts):
    parts = list(parts)
    if not parts:
        return "true"
    s = parts[-1]
    for p in reversed(parts[:-1]):
        s = "(andb %s %s)" % (p, s)
    return s


def bor(parts):
    parts = list(parts)
    if not parts:
        return "false"
    s = parts[-1]
    for p in reversed(parts[:-1]):
        s = "(orb %s %s)" % (p, s)
    return s


def bool_instance(id, body, hint=None, meta=None, trivial=False):
    return z_instance(id, body + " = true", body + " = false", hint=hint, meta=meta, trivial=trivial)


# ------------------------------------------------------------------------------------------------ problems

class PolyProblem(object):
    kind = "poly"

    def __init__(self, spec):
        self.cs = norm_coeffs(spec["coeffs"])

    def funcs(self, ctx):
        c0 = mp_coeffs(ctx, self.cs); c1 = mp_coeffs(ctx, pderiv(self.cs)); c2 = mp_coeffs(ctx, pderiv(pderiv(self.cs)))
        return (lambda x: ctx.polyval(c0, x)), (lambda x: ctx.polyval(c1, x)), (lambda x: ctx.polyval(c2, x))

    def exact_resid2(self, x):
        return abs2(peval(self.cs, x))


def _e_exp(ctx, c): return lambda x: ctx.exp(x) - c
def _e_ln(ctx, c): return lambda x: ctx.ln(x) - c
def _e_sin(ctx, c): return lambda x: ctx.sin(x) - c
def _e_cos(ctx, c): return lambda x: ctx.cos(x) - x
def _e_xexp(ctx, c): return lambda x: x * ctx.exp(x) - c
def _e_atan(ctx, c): return lambda x: ctx.atan(x) - c
def _e_inv(ctx, c): return lambda x: c / x


ELEM = {   # name -> (python f builder, real term builder, float root locator, domain predicate on the returned x)
    "exp_c": (_e_exp, lambda X, c: cert.exp(X) - c, lambda c: math.log(c), lambda x: True),
    "ln_c": (_e_ln, lambda X, c: cert.ln(X) - c, lambda c: math.exp(c), lambda x: x > 0),
    "sin_c": (_e_sin, lambda X, c: cert.sin(X) - c, lambda c: math.asin(c), lambda x: True),
    "cos_x": (_e_cos, lambda X, c: cert.cos(X) - X, lambda c: 0.7390851332151607, lambda x: True),
    "xexp_c": (_e_xexp, lambda X, c: X * cert.exp(X) - c, None, lambda x: True),
    "atan_c": (_e_atan, lambda X, c: cert.atan(X) - c, lambda c: math.tan(c), lambda x: True),
    # no root at all: the iterations run off to large |x| where f is small but not below the tolerance; whatever is returned must
    # still satisfy |f(x)|^2 <= tol
    "inv_c": (_e_inv, lambda X, c: c / X, lambda c: 3.0, lambda x: x != 0),
}


def _lambertw_float(c):
    w = math.log(1 + c)
    for _ in range(60):
        w -= (w * math.exp(w) - c) / (math.exp(w) * (w + 1))
    return w


class ElemProblem(object):
    kind = "elem"

    def __init__(self, spec):
        self.name = spec["name"]; self.c = dec_dy(spec["c"])

    def funcs(self, ctx):
        return ELEM[self.name][0](ctx, mk_mpf(ctx, self.c)), None, None

    def term(self, x):
        return ELEM[self.name][1](cert.Const(x), cert.Const(self.c))

    def in_domain(self, x):
        return ELEM[self.name][3](x)


class SysProblem(object):
    """small polynomial systems with a planted dyadic solution; constants are exact dyadics"""
    kind = "sys"

    def __init__(self, spec):
        self.name = spec["name"]; self.root = [dec_dy(v) for v in spec["root"]]
        r = self.root
        if self.name == "sys2":      # f1 = x^2 + y - a ; f2 = x*y + x - b
            self.consts = [r[0] ** 2 + r[1], r[0] * r[1] + r[0]]
        else:                        # f1 = x + y + z - a ; f2 = x*y - z - b ; f3 = x^2 + z - c
            self.consts = [r[0] + r[1] + r[2], r[0] * r[1] - r[2], r[0] ** 2 + r[2]]

    def funcs(self, ctx):
        k = [mk_mpf(ctx, c) for c in self.consts]
        if self.name == "sys2":
            return (lambda x, y: [x ** 2 + y - k[0], x * y + x - k[1]]), None, None
        return (lambda x, y, z: [x + y + z - k[0], x * y - z - k[1], x ** 2 + z - k[2]]), None, None

    def exact_components(self, xs):
        c = self.consts
        if self.name == "sys2":
            x, y = xs
            return [x * x + y - c[0], x * y + x - c[1]]
        x, y, z = xs
        return [x + y + z - c[0], x * y - z - c[1], x * x + z - c[2]]

    def resid_bool(self, xs, tol):
        """Coq boolean: every component f_i(x)^2 <= tol, with the homogenised numerators computed by Coq"""
        ints, D = common_den(xs)
        tol = Fraction(tol); tn, td = tol.numerator, tol.denominator
        cn = [(c.numerator, c.denominator) for c in self.consts]
        names = ["X", "Y", "Z"][:len(ints)]
        lets = " ".join("let %s := %s in" % (nm, zt(v)) for nm, v in zip(names, ints)) + " let D := %s in" % zt(D)
        if self.name == "sys2":
            comps = [("X * X * %s + Y * D * %s - %s * D ^ 2" % (zt(cn[0][1]), zt(cn[0][1]), zt(cn[0][0])), "D ^ 2 * %s" % zt(cn[0][1])),
                     ("X * Y * %s + X * D * %s - %s * D ^ 2" % (zt(cn[1][1]), zt(cn[1][1]), zt(cn[1][0])), "D ^ 2 * %s" % zt(cn[1][1]))]
        else:
            comps = [("(X + Y + Z) * %s - %s * D" % (zt(cn[0][1]), zt(cn[0][0])), "D * %s" % zt(cn[0][1])),
                     ("(X * Y - Z * D) * %s - %s * D ^ 2" % (zt(cn[1][1]), zt(cn[1][0])), "D ^ 2 * %s" % zt(cn[1][1])),
                     ("(X * X + Z * D) * %s - %s * D ^ 2" % (zt(cn[2][1]), zt(cn[2][0])), "D ^ 2 * %s" % zt(cn[2][1]))]
        parts = ["((%s) ^ 2 * %s <=? %s * (%s) ^ 2)" % (num, zt(td), zt(tn), den) for num, den in comps]
        return "(%s %s)" % (lets, band(parts))


def make_problem(spec):
    return {"poly": PolyProblem, "elem": ElemProblem, "sys": SysProblem}[spec["kind"]](spec)


def default_tol(prec):
    """findroot: `ctx.prec += 20; tol = ctx.eps * 2**10` with eps = 2^(1-prec)"""
    return Fraction(1, 2 ** (prec + 9))


def tol_sanity():
    """the reading of findroot's default tolerance is re-checked against the live eps of the tree under test"""
    from mpmath import mp
    bad = []
    p0 = mp.prec
    try:
        for p in (30, 53, 100, 200, 300):
            mp.prec = p + 20
            v = xval(mp.eps * 2 ** 10)
            if v is None or v[0] != default_tol(p):
                bad.append(p)
    finally:
        mp.prec = p0
    return bad


# ------------------------------------------------------------------------------------------------ findroot calls

CALL_TIMEOUT = 30


def run_findroot(call):
    """Perform the recorded findroot call on the current tree.  -> result dict (outcome, x, exception, d2f_calls, fl)"""
    from mpmath import mp
    prob = make_problem(call["problem"])
    prec = call["prec"]
    p0 = mp.prec
    res = {"outcome": None}
    try:
        mp.prec = prec
        f, df, d2f = prob.funcs(mp)
        pts = []
        if call["fn"] == "findroot_mnewton":
            # record every point at which the solver (or its numerical differentiation) evaluates f: used to tell
            # "reached the root to the required accuracy and then lost it" from "never got there"
            def f(x, _g=f):
                pts.append(x)
                return _g(x)
        x0 = [mk_arg(mp, dec_arg(a)) for a in call["x0"]]
        kw = {}
        d2f_calls = [0]
        deriv = call.get("deriv", "num")
        if deriv in ("df", "df_d2f") and df is not None:
            kw["df"] = df
        if deriv == "df_d2f" and d2f is not None:
            def d2f_counted(x, _g=d2f):
                d2f_calls[0] += 1
                return _g(x)
            kw["d2f"] = d2f_counted
        if call.get("tol") is not None:
            kw["tol"] = mk_mpf(mp, dec_dy(call["tol"]))
        if call.get("maxsteps") is not None:
            kw["maxsteps"] = call["maxsteps"]
        verify = call.get("verify", True)
        arg0 = tuple(x0) if (len(x0) > 1 or prob.kind == "sys") else x0[0]
        try:
            x = sweep.call_with_timeout(lambda: mp.findroot(f, arg0, solver=call["solver"], verify=verify, **kw), CALL_TIMEOUT)
            res["outcome"] = "returned"; res["x"] = x
        except sweep.CallTimeout:
            res["outcome"] = "timeout"
        except ValueError as ex:
            res["outcome"] = "ValueError"; res["exc"] = repr(ex)[:160]
        except Exception as ex:
            res["outcome"] = "exc:" + type(ex).__name__; res["exc"] = repr(ex)[:160]
        res["d2f_calls"] = d2f_calls[0]
        res["prec_after"] = mp.prec
        if call["fn"] == "findroot_mnewton":
            r = dec_q(call["planted"]["root"]); mm = call["planted"]["m"]
            best = None
            for pt in pts:
                v = xval(pt)
                if v is not None:
                    d2_ = (v[0] - r) ** 2 + v[1] ** 2
                    if best is None or d2_ < best: best = d2_
            res["reached_root"] = bool(best is not None and best ** mm * 2 ** (2 * prec) < 2 ** (8 * mm))
            res["f_evaluations"] = len(pts)
        if res["outcome"] == "returned":
            # the floating residual findroot saw: f(x) at prec+20, norm = abs (max-norm for systems)
            try:
                mp.prec = prec + 20
                tol = dec_dy(call["tol"]) if call.get("tol") is not None else default_tol(prec)
                if prob.kind == "sys":
                    fx = f(*list(x)); fl = max(abs(v) for v in fx) ** 2
                else:
                    fl = abs(f(x)) ** 2
                fv = xval(fl)
                res["fl2"] = fv[0] if fv is not None else None
                res["fl_ok"] = (fv is not None and fv[0] <= tol)
            except Exception as ex:
                res["fl2"] = None; res["fl_ok"] = None; res["fl_exc"] = repr(ex)[:80]
    finally:
        mp.prec = p0
    return res


def findroot_instances(cid, call, res):
    """-> (instances, direct violations [(text, extra dict)], notes dict)"""
    insts, direct, notes = [], [], {}
    prob = make_problem(call["problem"])
    prec = call["prec"]
    tol = dec_dy(call["tol"]) if call.get("tol") is not None else default_tol(prec)
    solver = call["solver"]
    base = {"regime": call["regime"], "p": prec, "call": cid, "solver": solver}
    is_mn = call["fn"] == "findroot_mnewton"
    out = res["outcome"]
    if res.get("prec_after") not in (None, prec):
        direct.append(("findroot left mp.prec = %s (was %d)" % (res.get("prec_after"), prec), {"clause": "precision restored"}))
    if out != "returned":
        if is_mn:
            direct.append(("mnewton failed (%s: %s) on a polynomial root of multiplicity %d from a nearby starting point "
                           "(verify=%s, derivatives: %s)" % (out, res.get("exc", ""), call["planted"]["m"], call.get("verify", True),
                                                             call["regime"]),
                           {"clause": "mnewton must not fail", "failure": out.replace("exc:", "")}))
        return insts, direct, notes
    x = res["x"]
    if prob.kind == "sys":
        xs = [xval(v) for v in list(x)]
        if any(v is None for v in xs):
            direct.append(("findroot(mdnewton) returned a non-finite vector %r" % (x,), {"clause": "residual"}))
            return insts, direct, notes
        xs = [v[0] for v in xs]
        call["result"] = [enc_dy(v) for v in xs]
        ok = all(c * c <= tol for c in prob.exact_components(xs))
        body = prob.resid_bool(xs, tol)
        m = dict(base, fn="findroot/mdnewton", clause="residual", part="max-norm")
        trivial = all(c == 0 for c in prob.exact_components(xs))
        if not ok and res.get("fl_ok"):
            body = bor([body, q_le_bool(res["fl2"], tol)]); m["rounding_of_f"] = True; notes["rounding_of_f"] = 1
        insts.append(bool_instance(cid + "_resid", body, hint="pass" if (ok or res.get("fl_ok")) else "fail", meta=m, trivial=trivial))
        return insts, direct, notes
    xv = xval(x)
    if xv is None:
        direct.append(("findroot(%s) returned the non-finite value %r with verify=%s" % (solver, x, call.get("verify", True)),
                       {"clause": "residual"}))
        return insts, direct, notes
    call["result"] = {"re": enc_dy(xv[0]), "im": enc_dy(xv[1])}
    verify = call.get("verify", True)
    # ---- clause 1
    if verify:
        m = dict(base, fn="findroot/" + solver, clause="residual", part="|f(x)|^2<=tol")
        if prob.kind == "poly":
            r2 = prob.exact_resid2(xv)
            ok = r2 <= tol
            body = poly_resid_cmp("p", prob.cs, xv, tol)
            if not ok and res.get("fl_ok"):
                body = bor([body, q_le_bool(res["fl2"], tol)]); m["rounding_of_f"] = True; notes["rounding_of_f"] = 1
            insts.append(bool_instance(cid + "_resid", body, hint="pass" if (ok or res.get("fl_ok")) else "fail", meta=m,
                                       trivial=(r2 == 0)))
        else:
            if xv[1] != 0 or not prob.in_domain(xv[0]):
                notes["elem_unbuildable"] = 1
            else:
                try:
                    t = prob.term(xv[0])
                    T = cert.Const(tol)
                    # |f(x)| ~ 2^-(prec+20) has to be separated from sqrt(tol) ~ 2^-(prec+9)/2 in spite of the
                    # cancellation in f: start the interval evaluation with prec/2 + 64 bits
                    ins = atoms_instance(cid + "_resid", [(t * t, "<=", T)], [[(T, "<", t * t)]], meta=m,
                                         params={"min_prec": prec // 2 + 64})
                    if ins.hint == "fail" and res.get("fl_ok"):
                        m2 = dict(m, rounding_of_f=True); notes["rounding_of_f"] = 1
                        ins = bool_instance(cid + "_resid", q_le_bool(res["fl2"], tol), hint="pass", meta=m2, trivial=True)
                    insts.append(ins)
                except (cert.EstimateError, ValueError, ZeroDivisionError):
                    notes["elem_unbuildable"] = 1
    # ---- clause 2
    if solver in BRACKETING:
        a, b = [dec_arg(v) for v in call["x0"]]
        lo, hi = min(a, b), max(a, b)
        m = dict(base, fn="bracket/" + solver, clause="bracket", part="a<=x<=b")
        if xv[1] != 0:
            direct.append(("bracketing solver %s returned a non-real point" % solver, {"clause": "bracket"}))
        else:
            (l_, x_, h_), _ = common_den([lo, xv[0], hi])
            body = band(["(%s <=? %s)" % (zt(l_), zt(x_)), "(%s <=? %s)" % (zt(x_), zt(h_))])
            insts.append(bool_instance(cid + "_brk", body, hint="pass" if lo <= xv[0] <= hi else "fail", meta=m))
    # ---- clause 3
    if is_mn:
        r = dec_q(call["planted"]["root"]); mm = call["planted"]["m"]
        (A, B), D = common_den([xv[0], xv[1]])
        n_, d_ = r.numerator, r.denominator
        body = "(((%s * %s - %s * %s) ^ 2 + (%s * %s) ^ 2) ^ %d * 2 ^ %d <? 2 ^ %d * ((%s * %s) ^ 2) ^ %d)" % (
            zt(A), zt(d_), zt(n_), zt(D), zt(B), zt(d_), mm, 2 * prec, 8 * mm, zt(D), zt(d_), mm)
        dist2 = (xv[0] - r) ** 2 + xv[1] ** 2
        ok = dist2 ** mm * 2 ** (2 * prec) < 2 ** (8 * mm)
        m = dict(base, fn="mnewton/m=%d/%s" % (mm, call["regime"]), clause="mnewton error bound", part="|x-r|<2^(4-p/m)")
        insts.append(bool_instance(cid + "_mnerr", body, hint="pass" if ok else "fail", meta=m, trivial=(dist2 == 0)))
    return insts, direct, notes


# ------------------------------------------------------------------------------------------------ polyroots calls

def run_polyroots(call):
    from mpmath import mp
    cs = norm_coeffs(call["coeffs"])
    prec = call["prec"]
    p0 = mp.prec
    res = {"outcome": None, "first": None}
    try:
        mp.prec = prec
        cc = mp_coeffs(mp, cs)
        attempts = [dict(call.get("kwargs") or {})]
        if not attempts[0]:
            attempts.append({"maxsteps": 200, "extraprec": 2 * prec + 20})
        for kw in attempts:
            try:
                roots, err = sweep.call_with_timeout(lambda: mp.polyroots(cc, error=True, **kw), CALL_TIMEOUT)
                res.update(outcome="returned", roots=roots, err=err, kwargs=kw)
                break
            except sweep.CallTimeout:
                res["outcome"] = "timeout"; break
            except mp.NoConvergence as ex:
                res["outcome"] = "NoConvergence"
                if res["first"] is None: res["first"] = "NoConvergence"
            except Exception as ex:
                res["outcome"] = "exc:" + type(ex).__name__; res["exc"] = repr(ex)[:160]; break
        res["prec_after"] = mp.prec
    finally:
        mp.prec = p0
    return res


def abscond(cs, r):
    """float: sum|a_k||r|^k / |p'(r)| (absolute root perturbation per unit relative coefficient perturbation)"""
    n = len(cs) - 1
    ra = math.sqrt(float(abs2(r)))
    S = sum(math.hypot(c[0], c[1]) * ra ** (n - i) for i, c in enumerate(cs))
    dp = peval(pderiv(cs), r)
    d = math.hypot(float(dp[0]), float(dp[1]))
    return float("inf") if d == 0 else S / d


def polyroots_instances(cid, call, res):
    insts, direct, notes = [], [], {}
    cs = norm_coeffs(call["coeffs"])
    deg = len(cs) - 1
    prec = call["prec"]
    planted = [(dec_q(p[0]), dec_q(p[1])) for p in call["planted"]]
    base = {"regime": call["regime"], "p": prec, "call": cid, "deg": deg}
    if res.get("prec_after") not in (None, prec):
        direct.append(("polyroots left mp.prec = %s (was %d)" % (res.get("prec_after"), prec), {"clause": "precision restored"}))
    if res["outcome"] != "returned":
        if res["outcome"].startswith("exc:"):
            direct.append(("polyroots raised %s on a polynomial of degree %d with non-zero leading coefficient" % (res.get("exc"), deg),
                           {"clause": "polyroots must not fail", "failure": res["outcome"][4:]}))
        return insts, direct, notes
    roots = res["roots"]
    call["kwargs"] = res["kwargs"]
    xs = [xval(z) for z in roots]
    ev = xval(res["err"])
    if any(v is None for v in xs) or ev is None or ev[0] <= 0:
        direct.append(("polyroots returned a non-finite root or a non-positive error estimate", {"clause": "residual"}))
        return insts, direct, notes
    err = ev[0]
    call["result"] = {"roots": [[enc_dy(v[0]), enc_dy(v[1])] for v in xs], "err": enc_dy(err)}
    # ---- count
    m = dict(base, fn="polyroots/count", clause="count", part="len=deg")
    insts.append(bool_instance(cid + "_count", "(%d =? %d)" % (len(roots), deg), hint="pass" if len(roots) == deg else "fail",
                               meta=m, trivial=True))
    if len(roots) != deg:
        return insts, direct, notes
    en, ed = err.numerator, err.denominator
    # ---- residual consistent with err
    absc = [abs(c[0]) + abs(c[1]) for c in cs]
    parts = []
    ok_res = True
    for i, x in enumerate(xs):
        pref = "q%d" % i
        (A, B), D = common_den([x[0], x[1]])
        lets, hr, hi = horner_lets(pref, cs, A, B, D)
        tl = ["let %sR := Z.abs %sA + Z.abs %sB + %sD in" % (pref, pref, pref, pref),
              "let %st0 := %d in" % (pref, deg * absc[0])]
        for k in range(1, deg):
            tl.append("let %st%d := %st%d * %sR + %d * %sD ^ %d in" % (pref, k, pref, k - 1, pref, (deg - k) * absc[k], pref, k))
        T = "%st%d" % (pref, deg - 1)
        parts.append("(%s %s ((%s * %s + %s * %s) * %s ^ 2 <=? %d * %s ^ 2 * %sR ^ 2 * %s ^ 2))" % (
            lets, " ".join(tl), hr, hr, hi, hi, zt(ed), K_RESID ** 2, zt(en), pref, T))
        # untrusted prediction of the same predicate (scheduling only)
        rho = abs(x[0]) + abs(x[1]) + 1
        S1 = sum((deg - k) * absc[k] * rho ** (deg - 1 - k) for k in range(deg))
        ok_res = ok_res and abs2(peval(cs, x)) <= (K_RESID * err * rho * S1) ** 2
    m = dict(base, fn="polyroots/residual", clause="residual consistent with err", part="all roots")
    insts.append(bool_instance(cid + "_resid", band(parts), hint="pass" if ok_res else "fail", meta=m))
    # ---- forward error / each planted root found (simple roots only)
    distinct = sorted(set(planted))
    simple = len(distinct) == len(planted)
    sep2 = min([abs2((a[0] - b[0], a[1] - b[1])) for i, a in enumerate(distinct) for b in distinct[i + 1:]] or [Fraction(1)])
    if simple:
        wellcond = all(deg * abscond(cs, r) <= COND_LIMIT * max(1.0, math.sqrt(float(abs2(r)))) for r in planted)
        if wellcond:
            flat = [v for x in xs for v in x] + [v for r in planted for v in r]
            ints, L = common_den(flat)
            lets = ["let L := %s in let E := %s in let F := %s in" % (zt(L), zt(ed), zt(en))]
            for i in range(deg):
                lets.append("let x%da := %s in let x%db := %s in" % (i, zt(ints[2 * i]), i, zt(ints[2 * i + 1])))
            for j in range(deg):
                lets.append("let r%da := %s in let r%db := %s in let m%d := Z.max (L ^ 2) (r%da ^ 2 + r%db ^ 2) in" % (
                    j, zt(ints[2 * deg + 2 * j]), j, zt(ints[2 * deg + 2 * j + 1]), j, j, j))
            # |x-r|^2 <= K^2 err^2 max(1,|r|^2)  <=>  ((xa-ra)^2+(xb-rb)^2) * E^2 <= K^2 F^2 * max(L^2, ra^2+rb^2)   (all scaled by L)
            def near(i, j):
                return "(((x%da - r%da) ^ 2 + (x%db - r%db) ^ 2) * E ^ 2 <=? %d * F ^ 2 * m%d)" % (i, j, i, j, K_ROOT ** 2, j)
            body = "(%s %s)" % (" ".join(lets), band([bor([near(i, j) for j in range(deg)]) for i in range(deg)] +
                                                     [bor([near(i, j) for i in range(deg)]) for j in range(deg)]))
            def near_py(x, r):
                return abs2((x[0] - r[0], x[1] - r[1])) <= (K_ROOT * err) ** 2 * max(1, abs2(r))
            ok_a = all(any(near_py(x, r) for r in planted) for x in xs) and all(any(near_py(x, r) for x in xs) for r in planted)
            m = dict(base, fn="polyroots/root error", clause="root error consistent with err", part="all roots")
            insts.append(bool_instance(cid + "_rooterr", body, hint="pass" if ok_a else "fail", meta=m))
        else:
            notes["illcond_skipped"] = 1
    # ---- ordering
    if is_real_poly(cs):
        k = sum(1 for r in planted if r[1] == 0)
        parts = []
        ok_o = (deg - k) % 2 == 0
        for i, x in enumerate(xs):
            (B,), _ = common_den([x[1]])
            parts.append("(%s =? 0)" % zt(B) if i < k else "(negb (%s =? 0))" % zt(B))
            ok_o = ok_o and ((x[1] == 0) == (i < k))
        tau2 = sep2 / 16
        for j in range(k, deg - 1, 2):
            xa, xb = xs[j], xs[j + 1]
            ok_o = ok_o and abs2((xa[0] - xb[0], xa[1] + xb[1])) <= tau2
            (A1, B1, A2, B2), L = common_den([xa[0], xa[1], xb[0], xb[1]])
            parts.append("(((%s - %s) ^ 2 + (%s + %s) ^ 2) * %s <=? %s * %s ^ 2)" % (
                zt(A1), zt(A2), zt(B1), zt(B2), zt(tau2.denominator), zt(tau2.numerator), zt(L)))
        if (deg - k) % 2:
            parts.append("false")
        m = dict(base, fn="polyroots/ordering", clause="ordering", part="reals first, adjacent conjugate pairs")
        insts.append(bool_instance(cid + "_order", band(parts), hint="pass" if ok_o else "fail", meta=m, trivial=(deg == 1)))
    return insts, direct, notes


# ------------------------------------------------------------------------------------------------ multiplicity calls

def run_multiplicity(call):
    from mpmath import mp
    prec = call["prec"]
    p0 = mp.prec
    res = {"outcome": None}
    try:
        mp.prec = prec
        r = mk_mpf(mp, dec_dy(call["root"]))
        if call["form"] == "horner":
            c0 = mp_coeffs(mp, norm_coeffs(call["coeffs"]))
            f = lambda x: mp.polyval(c0, x)
        else:
            q0 = mp_coeffs(mp, norm_coeffs(call["qcoeffs"])); mm = call["m"]
            f = lambda x: (x - r) ** mm * mp.polyval(q0, x)
        if f(r) != 0:
            res["outcome"] = "skipped:f(root)!=0 in floating point"
            return res
        try:
            got = sweep.call_with_timeout(lambda: mp.multiplicity(f, r), CALL_TIMEOUT)
            res["outcome"] = "returned"; res["got"] = got
        except sweep.CallTimeout:
            res["outcome"] = "timeout"
        except Exception as ex:
            res["outcome"] = "exc:" + type(ex).__name__; res["exc"] = repr(ex)[:160]
        res["prec_after"] = mp.prec
    finally:
        mp.prec = p0
    return res


def multiplicity_instances(cid, call, res):
    insts, direct, notes = [], [], {}
    prec = call["prec"]; mm = call["m"]
    if res["outcome"].startswith("skipped"):
        notes["skipped"] = 1
        return insts, direct, notes
    if res.get("prec_after") not in (None, prec):
        direct.append(("multiplicity left mp.prec = %s (was %d)" % (res.get("prec_after"), prec), {"clause": "precision restored"}))
    if res["outcome"] != "returned":
        direct.append(("multiplicity failed (%s %s) at an exact root of multiplicity %d" % (res["outcome"], res.get("exc", ""), mm),
                       {"clause": "multiplicity", "failure": res["outcome"].replace("exc:", "")}))
        return insts, direct, notes
    got = res["got"]
    call["result"] = got
    cs = norm_coeffs(call["coeffs"])          # expanded integer polynomial (also for the factored form)
    r = dec_dy(call["root"])
    (A,), D = common_den([r])
    parts = ["(%d =? %d)" % (int(got), mm)]
    lets = []
    d = cs
    for j in range(mm + 1):
        l_, hr, _ = horner_lets("d%d" % j, d, A, 0, D)
        lets.append(l_)
        parts.append("(%s =? 0)" % hr if j < mm else "(negb (%s =? 0))" % hr)
        d = pderiv(d)
    body = "(%s %s)" % (" ".join(lets), band(parts))
    m = {"regime": call["regime"], "p": prec, "call": cid, "fn": "multiplicity/m=%d" % mm, "clause": "multiplicity",
         "part": "returned = true multiplicity"}
    insts.append(bool_instance(cid + "_mult", body, hint="pass" if got == mm else "fail", meta=m))
    return insts, direct, notes


RUNNERS = {"findroot": (run_findroot, findroot_instances), "findroot_mnewton": (run_findroot, findroot_instances),
           "polyroots": (run_polyroots, polyroots_instances), "multiplicity": (run_multiplicity, multiplicity_instances)}


def exec_call(cid, call):
    run_, inst_ = RUNNERS[call["fn"]]
    res = run_(call)
    if "d2f_calls" in res and call.get("deriv") == "df_d2f":
        call["d2f_calls"] = res["d2f_calls"]
    call["outcome"] = res["outcome"]
    if call["fn"] == "findroot_mnewton":
        call["reached_root"] = res.get("reached_root"); call["multiple"] = call["planted"]["m"] >= 2
    insts, direct, notes = inst_(cid, call, res)
    return res, insts, direct, notes


# ------------------------------------------------------------------------------------------------ generators

def q_small(rng, maxnum=9, dens=(1, 1, 2, 3, 4, 5, 7, 8)):
    return Fraction(rng.randint(-maxnum, maxnum), rng.choice(dens))


def grid(v, bits=24):
    """nearest multiple of 2^-bits (generator side)"""
    return Fraction(round(Fraction(v) * 2 ** bits), 2 ** bits)


def rand_offset(rng, kmin, kmax, scale=1):
    """random dyadic of magnitude in [2^-k-1, 2^-k) * scale, k in [kmin, kmax], 24 random bits, random sign"""
    k = rng.randint(kmin, kmax)
    man = rng.getrandbits(23) | (1 << 23)
    v = Fraction(man, 2 ** 24) * Fraction(2) ** (-k) * scale
    return -v if rng.random() < 0.5 else v


def cofactor_roots(rng, r, kind=None):
    """roots of a cofactor q with no root within distance 2 of the real number r"""
    kind = kind or rng.choice(["none", "lin", "lin2", "quad"])
    if kind == "none":
        return []
    if kind == "lin":
        return [(r + rng.choice([1, -1]) * Fraction(rng.randint(4, 12), 2), Fraction(0))]
    if kind == "lin2":
        return [(r + Fraction(rng.randint(4, 12), 2), Fraction(0)), (r - Fraction(rng.randint(4, 12), 2), Fraction(0))]
    c = Fraction(int(r) + rng.randint(-2, 2)); b = Fraction(rng.randint(2, 5))
    return [(c, b), (c, -b)]


def gen_poly_problem(rng, m=1, complex_root=False):
    """-> (problem spec, planted root (re, im), all roots)"""
    if complex_root:
        r = (q_small(rng, 6, (1, 2, 4)), Fraction(rng.randint(1, 6), rng.choice([1, 2, 4])))
        roots = [r] * m
        if rng.random() < 0.6:
            roots += [(r[0], -r[1])] * m
        if rng.random() < 0.5:
            roots.append((r[0] + rng.choice([-1, 1]) * rng.randint(3, 6), Fraction(0)))
    else:
        rr = q_small(rng)
        r = (rr, Fraction(0))
        roots = [r] * m + cofactor_roots(rng, rr)
    return {"kind": "poly", "coeffs": enc_coeffs(from_roots(roots))}, r, roots


def pick_tol(rng, prec, regime):
    if regime == "user_tol_loose":
        return enc_dy(Fraction(1, 2 ** rng.choice([12, 16, 20, prec // 2])))
    if regime == "user_tol_tight":
        return enc_dy(Fraction(1, 2 ** rng.choice([prec + 15, prec + 25, 2 * prec])))
    return None


def gen_open_case(rng, prec, solver):
    regime = rng.choice(["near_simple", "near_simple", "multiple_root", "far_start", "few_steps", "few_steps", "user_tol_loose",
                         "user_tol_tight", "complex_root", "elementary", "start_is_root"])
    if regime == "elementary":
        return gen_elem_case(rng, prec, solver, bracket=False)
    m = rng.choice([2, 3, 4]) if regime == "multiple_root" else 1
    cplx = regime == "complex_root"
    spec, r, roots = gen_poly_problem(rng, m=m, complex_root=cplx)
    scale = max(1, abs(int(r[0])))
    if regime == "start_is_root":
        rd = grid(r[0], 6)          # a dyadic root: re-plant
        spec, r, roots = {"kind": "poly", "coeffs": enc_coeffs(from_roots([(rd, Fraction(0))] + cofactor_roots(rng, rd)))}, (rd, Fraction(0)), None
        x0 = [(rd, Fraction(0))]
    else:
        off = rand_offset(rng, 0, 3, 8) if regime == "far_start" else rand_offset(rng, 2, 7, scale)
        s = grid(r[0] + off)
        if cplx:
            x0 = [(s, grid(r[1] + rand_offset(rng, 2, 6)))]
        else:
            x0 = [(s, Fraction(0))]
        npts = {"secant": rng.choice([1, 2]), "muller": rng.choice([1, 2, 3])}.get(solver, 1)
        for j in range(1, npts):
            x0.append((x0[0][0] + j * rand_offset(rng, 2, 5), x0[0][1]))
    call = {"fn": "findroot", "regime": regime, "prec": prec, "solver": solver, "problem": spec,
            "x0": [enc_arg(v if v[1] != 0 else v[0]) for v in x0], "tol": pick_tol(rng, prec, regime),
            "maxsteps": rng.choice([1, 2, 3, 4, 6]) if regime == "few_steps" else None, "verify": True,
            "deriv": rng.choice(["num", "df", "df_d2f"]) if solver in ("newton", "mnewton", "halley", "anewton") else "num"}
    return call


def gen_elem_case(rng, prec, solver, bracket):
    name = rng.choice(sorted(ELEM))
    if bracket and name == "inv_c": name = "exp_c"
    if name == "inv_c": c = Fraction(2) ** rng.randint(-4, 12)
    elif name == "exp_c": c = Fraction(rng.randint(1, 40), 4)
    elif name == "ln_c": c = Fraction(rng.randint(-8, 8), 4)
    elif name == "sin_c": c = Fraction(rng.randint(-7, 7), 8)
    elif name == "xexp_c": c = Fraction(rng.randint(1, 40), 4)
    elif name == "atan_c": c = Fraction(rng.randint(-11, 11), 8)
    else: c = Fraction(0)
    loc = ELEM[name][2]
    root = _lambertw_float(float(c)) if loc is None else loc(float(c))
    spec = {"kind": "elem", "name": name, "c": enc_dy(c)}
    scale = max(1.0, abs(root))
    if bracket:
        d1 = abs(rand_offset(rng, 1, 6)) * Fraction(scale); d2 = abs(rand_offset(rng, 1, 6)) * Fraction(scale)
        a, b = grid(Fraction(root) - d1), grid(Fraction(root) + d2)
        if name == "ln_c" and a <= 0:
            a = grid(Fraction(root) / 2)
        x0 = [a, b]
        regime = "bracket_elementary"
    else:
        x0 = [grid(Fraction(root) + rand_offset(rng, 2, 7) * Fraction(scale))]
        if name == "ln_c" and x0[0] <= 0:
            x0 = [grid(Fraction(root) * Fraction(3, 2))]
        if solver == "secant" and rng.random() < 0.5:
            x0.append(x0[0] + abs(rand_offset(rng, 3, 6)))
        regime = "elementary"
    if solver == "muller":
        solver = "secant"          # muller leaves the real line; the elementary oracles are real terms
    return {"fn": "findroot", "regime": regime, "prec": prec, "solver": solver, "problem": spec, "x0": [enc_arg(v) for v in x0],
            "tol": pick_tol(rng, prec, rng.choice(["", "", "user_tol_loose"])), "maxsteps": rng.choice([None, None, 3]),
            "verify": True, "deriv": "num"}


def gen_bracket_case(rng, prec, solver):
    regime = rng.choice(["bracket_simple", "bracket_simple", "bracket_root_near_end", "bracket_odd_multiple", "bracket_outside_roots",
                         "bracket_outside_roots", "bracket_outside_roots", "bracket_wide", "bracket_wide", "bracket_few_steps",
                         "bracket_user_tol", "bracket_elementary", "bracket_end_is_root", "bracket_hump", "bracket_hump"])
    if solver in ("anderson", "pegasus", "illinois") and rng.random() < 0.4:
        regime = "bracket_hump"            # the interpolating solvers are the ones that can lose the bracket on a hump
    if regime == "bracket_elementary":
        return gen_elem_case(rng, prec, solver, bracket=True)
    if regime == "bracket_hump":
        # (x - r2)(x - r)((x - c)^2 + d): the root r inside [a, b], a second real root just outside a, and a pronounced hump next
        # to b (a conjugate pair c +- i sqrt(d) close to the real axis): interpolation steps overshoot, the bracket must survive
        r = Fraction(rng.choice([1, 1, 2, 3]))
        r2 = r - Fraction(rng.choice([3, 5, 6, 8, 12]), 4)
        cc = r + Fraction(rng.randint(3, 5)); q = Fraction(rng.choice([1, 1, 2, 3]), 2)
        a = r2 + Fraction(rng.choice([1, 2, 2]), 4)
        if a >= r: a = (r2 + r) / 2
        b = cc
        cs = from_roots([(r, Fraction(0)), (r2, Fraction(0)), (cc, q), (cc, -q)])
        fa, fb = peval(cs, (a, Fraction(0)))[0], peval(cs, (b, Fraction(0)))[0]
        if not (a < r < b and fa * fb < 0):
            return None
        return {"fn": "findroot", "regime": regime, "prec": prec, "solver": solver, "problem": {"kind": "poly", "coeffs": enc_coeffs(cs)},
                "x0": [enc_arg(a), enc_arg(b)], "tol": None, "maxsteps": None, "verify": True, "deriv": "num"}
    rr = q_small(rng)
    m = 3 if regime == "bracket_odd_multiple" else 1
    if regime == "bracket_end_is_root":
        rr = grid(rr, 5)
    if regime == "bracket_outside_roots":
        d1 = Fraction(rng.randint(2, 6), 4); d2 = Fraction(rng.randint(2, 6), 4)
        others = [(rr - d1 - Fraction(rng.randint(1, 4), 8), Fraction(0)), (rr + d2 + Fraction(rng.randint(1, 4), 8), Fraction(0))]
        if rng.random() < 0.5:
            others = others[:1] if rng.random() < 0.5 else others[1:]
        a, b = grid(rr - d1 * Fraction(rng.randint(3, 9), 10)), grid(rr + d2 * Fraction(rng.randint(3, 9), 10))
    else:
        others = cofactor_roots(rng, rr)
        if regime == "bracket_wide":
            a, b = grid(rr - abs(rand_offset(rng, 0, 1, 2))), grid(rr + abs(rand_offset(rng, 0, 1, 2)))
        elif regime == "bracket_root_near_end":
            a, b = grid(rr - abs(rand_offset(rng, 12, 20))), grid(rr + abs(rand_offset(rng, 0, 3)))
            if rng.random() < 0.5:
                a, b = grid(rr - abs(rand_offset(rng, 0, 3))), grid(rr + abs(rand_offset(rng, 12, 20)))
        elif regime == "bracket_end_is_root":
            a, b = rr, grid(rr + abs(rand_offset(rng, 0, 3)))
            if rng.random() < 0.5:
                a, b = grid(rr - abs(rand_offset(rng, 0, 3))), rr
        else:
            a, b = grid(rr - abs(rand_offset(rng, 0, 5))), grid(rr + abs(rand_offset(rng, 0, 5)))
    roots = [(rr, Fraction(0))] * m + others
    cs = from_roots(roots)
    if regime != "bracket_end_is_root":
        fa, fb = peval(cs, (a, Fraction(0)))[0], peval(cs, (b, Fraction(0)))[0]
        if not (a < rr < b and fa * fb < 0):
            return None
    if rng.random() < 0.3:
        a, b = b, a
    return {"fn": "findroot", "regime": regime, "prec": prec, "solver": solver, "problem": {"kind": "poly", "coeffs": enc_coeffs(cs)},
            "x0": [enc_arg(a), enc_arg(b)], "tol": pick_tol(rng, prec, "user_tol_loose" if regime == "bracket_user_tol" else ""),
            "maxsteps": rng.choice([2, 3, 5]) if regime == "bracket_few_steps" else None, "verify": True, "deriv": "num"}


def gen_sys_case(rng, prec):
    name = rng.choice(["sys2", "sys3"])
    n = 2 if name == "sys2" else 3
    root = [Fraction(rng.randint(-12, 12), 4) for _ in range(n)]
    regime = rng.choice(["sys_near", "sys_near", "sys_far", "sys_few_steps", "sys_start_is_root"])
    if regime == "sys_start_is_root":
        x0 = list(root)
    else:
        x0 = [grid(v + (rand_offset(rng, -1, 2) if regime == "sys_far" else rand_offset(rng, 3, 7))) for v in root]
    return {"fn": "findroot", "regime": regime, "prec": prec, "solver": "mdnewton", "problem": {"kind": "sys", "name": name,
            "root": [enc_dy(v) for v in root]}, "x0": [enc_arg(v) for v in x0], "tol": None,
            "maxsteps": rng.choice([1, 2, 3]) if regime == "sys_few_steps" else None, "verify": True, "deriv": "num"}


def gen_mnewton_case(rng, prec, m, deriv, verify):
    rr = q_small(rng)
    roots = [(rr, Fraction(0))] * m + cofactor_roots(rng, rr)
    cs = from_roots(roots)
    scale = max(1, abs(rr))
    x0 = grid(rr + rand_offset(rng, 3, 7) * scale, 30)
    return {"fn": "findroot_mnewton", "regime": {"num": "numerical", "df": "user_df", "df_d2f": "user_df_d2f"}[deriv], "prec": prec,
            "solver": "mnewton", "problem": {"kind": "poly", "coeffs": enc_coeffs(cs)}, "x0": [enc_arg(x0)], "tol": None,
            "maxsteps": None, "verify": verify, "deriv": deriv, "planted": {"root": enc_q(rr), "m": m}}


def gen_polyroots_case(rng, prec, deg, regime):
    """planted roots: small rationals / Gaussian rationals, pairwise distinct unless regime == repeated"""
    def rq(maxnum=12, dens=(1, 1, 2, 3, 4, 5)):
        return Fraction(rng.randint(-maxnum, maxnum), rng.choice(dens))
    roots = []
    def add(z):
        if z in roots: return False
        roots.append(z); return True
    if regime == "complex_coeff":
        while len(roots) < deg:
            add((rq(), Fraction(rng.randint(-12, 12), rng.choice([1, 2, 3]))))
    elif regime == "real_only":
        while len(roots) < deg:
            add((rq(), Fraction(0)))
    elif regime == "repeated":
        rr = (rq(6, (1, 2)), Fraction(0))
        mult = rng.choice([2, 2, 3]) if deg >= 3 else 2
        if deg < 2: return None
        roots = [rr] * min(mult, deg)
        while len(roots) < deg:
            z = (rq(), Fraction(0))
            if abs(z[0] - rr[0]) >= 1 and z not in roots: roots.append(z)
    else:
        npairs_max = deg // 2
        if npairs_max == 0:
            roots.append((rq(), Fraction(0)))
        else:
            if regime == "distinct_im":
                npairs = rng.randint(1, npairs_max)
                ims = rng.sample([Fraction(k, 2) for k in range(1, 25)], npairs)
                for b in ims:
                    while not add((rq(), b)): pass
                    roots.append((roots[-1][0], -b))
            elif regime == "equal_abs_im_cluster":
                if npairs_max < 2: return None
                npairs = rng.randint(2, npairs_max)
                b = Fraction(rng.randint(1, 12), rng.choice([1, 2, 3, 5]))
                for _ in range(npairs):
                    bb = b if rng.random() < 0.85 else Fraction(rng.randint(1, 12), rng.choice([1, 2, 3]))
                    while True:
                        z = (rq(), bb)
                        if z not in roots: break
                    roots += [z, (z[0], -bb)]
            elif regime == "equal_re":
                if npairs_max < 2: return None
                npairs = rng.randint(2, npairs_max)
                a = rq()
                ims = rng.sample([Fraction(k, 2) for k in range(1, 25)], npairs)
                for b in ims:
                    aa = a if rng.random() < 0.85 else rq()
                    roots += [(aa, b), (aa, -b)]
                if len(set(roots)) != len(roots): return None
            while len(roots) < deg:
                add((rq(), Fraction(0)))
    if len(roots) != deg:
        return None
    cs = from_roots(roots)
    return {"fn": "polyroots", "regime": regime, "prec": prec, "coeffs": enc_coeffs(cs),
            "planted": [[enc_q(z[0]), enc_q(z[1])] for z in roots], "kwargs": {}}


def gen_multiplicity_case(rng, prec, m, form):
    r = Fraction(rng.randint(-24, 24), 2 ** rng.randint(0, 3))
    q_roots = cofactor_roots(rng, r, rng.choice(["none", "lin", "quad"]))
    cs = from_roots([(r, Fraction(0))] * m + q_roots)
    qcs = from_roots(q_roots)
    # scale so that the expanded polynomial equals (x-r)^m * q(x) * const: only zeros/non-zeros matter for the certificate
    return {"fn": "multiplicity", "regime": form, "prec": prec, "form": form, "coeffs": enc_coeffs(cs), "qcoeffs": enc_coeffs(qcs),
            "root": enc_dy(r), "m": m}


def generate_calls(rng, tier_):
    precs = [30, 53, 100] if tier_ == "quick" else [30, 53, 100, 200, 300]
    rep_open = 6 if tier_ == "quick" else 12
    rep_brk = 7 if tier_ == "quick" else 12
    rep_sys = 6 if tier_ == "quick" else 10
    rep_mn = 1 if tier_ == "quick" else 3
    rep_pr = 1 if tier_ == "quick" else 2
    rep_mu = 1 if tier_ == "quick" else 2
    maxdeg = 12 if tier_ == "quick" else 20
    calls = []
    for prec in precs:
        for solver in OPEN_SOLVERS:
            for _ in range(rep_open):
                calls.append(gen_open_case(rng, prec, solver))
        for solver in BRACKETING:
            n = 0
            while n < rep_brk:
                c = gen_bracket_case(rng, prec, solver)
                if c is not None:
                    calls.append(c); n += 1
                    c2 = json.loads(json.dumps(c)); c2["verify"] = False     # clause 2 does not depend on the verification step
                    calls.append(c2)
        if prec <= 64:
            # a function without a root (c/x): a diverging iteration must not be returned as a root; explicit tolerance 2^-prec
            for _ in range(4 if tier_ == "quick" else 12):
                calls.append({"fn": "findroot", "regime": "no_root", "prec": prec, "solver": rng.choice(["secant", "newton"]),
                              "problem": {"kind": "elem", "name": "inv_c", "c": enc_dy(Fraction(2) ** rng.randint(0, 11))},
                              "x0": [enc_arg(Fraction(rng.choice([9, 12, 18, 20, 26, 28, 36, 46]), 4))], "tol": enc_dy(Fraction(1, 2 ** prec)),
                              "maxsteps": None, "verify": True, "deriv": "num"})
        for _ in range(rep_sys):
            calls.append(gen_sys_case(rng, prec))
        for m in (1, 2, 3, 4):
            for deriv in ("num", "df", "df_d2f"):
                for verify in (True, False):
                    for _ in range(rep_mn):
                        calls.append(gen_mnewton_case(rng, prec, m, deriv, verify))
        regs = ["distinct_im", "equal_abs_im_cluster", "equal_re", "real_only", "complex_coeff", "distinct_im", "equal_re",
                "repeated"]
        for deg in range(1, maxdeg + 1):
            if prec >= 200 and deg > 12 and rng.random() < 0.5:
                continue
            for _ in range(rep_pr * 2):
                for attempt in range(20):
                    c = gen_polyroots_case(rng, prec, deg, rng.choice(regs))
                    if c is not None:
                        calls.append(c); break
        for m in (1, 2, 3, 4):
            for form in ("horner", "factored"):
                for _ in range(rep_mu * 2):
                    calls.append(gen_multiplicity_case(rng, prec, m, form))
    return calls


# ------------------------------------------------------------------------------------------------ run / replay

def _bump(d, *keys):
    for k in keys[:-1]:
        d = d.setdefault(k, {})
    d[keys[-1]] = d.get(keys[-1], 0) + 1


class _Shim(object):
    """stand-in for the Report while the real-valued lemmas are certified in a second thread (merged afterwards)"""

    def __init__(self, rep):
        self.pid = rep.pid; self.viol = []; self.coverage = {}; self.assumptions = []; self.res = None; self.error = None

    def violation(self, what, replay, no_input=False):
        self.viol.append((what, replay))

    def run(self, insts, calls, tag, params, budget, rule):
        try:
            self.res = run_and_report(self, insts, calls, tag=tag, params=params, jobs=4, budget=budget, rule=rule)
        except Exception as ex:      # re-raised in the main thread
            self.error = ex


def process(rep, todo, tag, budget, rule, tier_):
    """todo: list of call dicts -> run, certify, report"""
    t0 = time.time()
    insts, calls = [], {}
    stats = {"findroot": {}, "mnewton": {}, "polyroots": {}, "multiplicity": {}}
    directs = []
    rounding = 0; unbuildable = 0; illcond = 0
    for i, call in enumerate(todo):
        cid = "c%04d" % i
        res, new, direct, notes = exec_call(cid, call)
        calls[cid] = call
        insts += new
        out = res["outcome"]
        outk = out if not out.startswith("skipped") else "skipped_f_root_nonzero"
        if call["fn"] == "findroot":
            _bump(stats["findroot"], call["solver"], "calls"); _bump(stats["findroot"], call["solver"], outk)
        elif call["fn"] == "findroot_mnewton":
            key = "%s/m=%d" % (call["regime"], call["planted"]["m"])
            _bump(stats["mnewton"], key, "calls"); _bump(stats["mnewton"], key, outk)
        elif call["fn"] == "polyroots":
            key = "deg%02d" % (len(call["coeffs"]) - 1)
            _bump(stats["polyroots"], key, "calls"); _bump(stats["polyroots"], key, outk)
            _bump(stats["polyroots"], "regime:" + call["regime"], outk)
            if res.get("first") == "NoConvergence":
                _bump(stats["polyroots"], key, "NoConvergence_with_defaults")
                _bump(stats["polyroots"], "regime:" + call["regime"], "NoConvergence_with_defaults")
        else:
            key = "m=%d" % call["m"]
            _bump(stats["multiplicity"], key, "calls"); _bump(stats["multiplicity"], key, outk)
        rounding += notes.get("rounding_of_f", 0); unbuildable += notes.get("elem_unbuildable", 0)
        illcond += notes.get("illcond_skipped", 0)
        for text, extra in direct:
            directs.append((text, call, extra))
    tgen = time.time() - t0
    for text, call, extra in directs:
        c = dict(call); c.update(extra)
        rep.violation("C29 %s: %s (regime %s, prec %d)" % (call["fn"], text, call["regime"], call["prec"]), c)
    # few, long batch files: on a busy machine loading ZArith costs more than the lemmas of a batch
    params = {"sentence_timeout": 60 if tier_ == "quick" else 150, "single_timeout": 100 if tier_ == "quick" else 300, "batch": 150}
    # The few real-valued (Interval) lemmas are certified separately from the integer ones, so that the integer batch files
    # do not have to load Reals/Interval (that load dominates the cost of a batch on a busy machine).
    zi = [i for i in insts if i.kind == "Z"]
    ri = [i for i in insts if i.kind != "Z"]
    left = max(30, budget - tgen)
    shim = _Shim(rep)
    th = None
    if ri:
        import threading
        calls_r = {cid: calls[cid] for cid in {i.meta["call"] for i in ri}}
        th = threading.Thread(target=lambda: shim.run(ri, calls_r, tag + "_R", params, left, rule))
        th.start()
    res = run_and_report(rep, zi, calls, tag=tag, params=params, jobs=min(NPROC, 10), budget=left, rule=rule, assumptions=ASSUMPTIONS)
    if th is not None:
        th.join()
        if shim.error:
            raise shim.error
        for what, replay in shim.viol:
            rep.violation(what, replay)
        res["verdicts"].update(shim.res["verdicts"])
        c1, c2 = rep.coverage, shim.coverage
        for k in ("coq_lemmas", "distinct_nontrivial", "certified_pass", "certified_fail", "inconclusive", "trivial_instances"):
            c1[k] += c2[k]
        c1["samples"] = [x for x in c2["samples"] if isinstance(x, dict)][:2] + [x for x in c1["samples"] if isinstance(x, dict)]
        c1["samples"] = c1["samples"] or ["no non-trivial certified instance"]
        c1["inconclusive_list"] = (c1["inconclusive_list"] + c2["inconclusive_list"])[:40]
        c1["by_kind"].update(c2["by_kind"]); c1["by_function"].update({k + " [R]": v for k, v in c2["by_function"].items()})
        c1["i_prec_range"] = c2["i_prec_range"]
        c1["checker_cmd"] = c1["checker_cmd"] + " ; real-valued lemmas: " + c2["checker_cmd"]
        c1["checker_cmd_detail"] = {"Z": c1["checker_cmd_detail"], "R": c2["checker_cmd_detail"]}
        c1["trusted_base"] = c1["trusted_base"] + c2["trusted_base"]
        c1["cert_dir"] = [c1["cert_dir"], c2["cert_dir"]]
        c1["cert_wall_s_R"] = c2["cert_wall_s"]
        c1["slowest"] = sorted(c1["slowest"] + c2["slowest"], key=lambda d: -d["secs"])[:5]
    V = res["verdicts"]
    clause = {}
    for ins in insts:
        v = V[ins.id]["verdict"]
        cl = ins.meta.get("clause")
        _bump(clause, cl, v)
        call = calls[ins.meta["call"]]
        if cl == "residual":
            _bump(stats["findroot" if call["fn"] == "findroot" else "mnewton"],
                  call["solver"] if call["fn"] == "findroot" else "%s/m=%d" % (call["regime"], call["planted"]["m"]), "residual_" + v)
        elif cl == "bracket":
            _bump(stats["findroot"], call["solver"], "bracket_" + v)
        elif cl == "mnewton error bound":
            _bump(stats["mnewton"], "%s/m=%d" % (call["regime"], call["planted"]["m"]), "errbound_" + v)
        elif call["fn"] == "polyroots":
            _bump(stats["polyroots"], "deg%02d" % (len(call["coeffs"]) - 1), cl.split()[0] + "_" + v)
            _bump(stats["polyroots"], "regime:" + call["regime"], cl.split()[0] + "_" + v)
        elif call["fn"] == "multiplicity":
            _bump(stats["multiplicity"], "m=%d" % call["m"], v)
    other_exc = {}
    for c in calls.values():
        if c["fn"] == "findroot" and str(c.get("outcome", "")).startswith("exc:"):
            _bump(other_exc, c["solver"] + ":" + c["outcome"][4:])
    precs = {}
    for c in calls.values():
        precs[str(c["prec"])] = precs.get(str(c["prec"]), 0) + 1
    rep.coverage.update({
        "per_clause_verdicts": clause,
        "findroot_per_solver": stats["findroot"],
        "findroot_other_exceptions(not ValueError; reported, not violations)": other_exc,
        "mnewton_per_mode_and_multiplicity": stats["mnewton"],
        "polyroots_per_degree_and_regime": stats["polyroots"],
        "multiplicity_per_m": stats["multiplicity"],
        "rounding_of_f_cases": rounding,
        "elementary_results_without_real_term(skipped)": unbuildable,
        "polyroots_root_error_clause_skipped_ill_conditioned": illcond,
        "direct_violations(exceptions/non-finite, before known-finding matching)": len(directs),
        "precisions": precs,
        "default_tol_reading_matches_live_eps": not tol_sanity(),
        "generation_wall_s": round(tgen, 1),
        "tolerances": {"findroot": "default eps(prec+20)*2^10 = 2^(-prec-9), or the user-supplied dyadic tol",
                       "mnewton": "|x-r| < 2^(4-p/m)", "polyroots": "K_resid=%d, K_root=%d, cond limit %d" % (K_RESID, K_ROOT, COND_LIMIT)},
    })
    return res


RULE = ("each evaluation = one call of findroot (12 solver names x regimes: near simple root / multiple root / far start / few "
        "steps / loose and tight user tol / complex root / elementary f / start is a root; bracketing solvers: simple / root next "
        "to an end / odd multiple / other roots just outside / wide / few steps / user tol / elementary / end is a root; mdnewton "
        "2- and 3-dimensional polynomial systems), of findroot(solver='mnewton') on (x-r)^m q(x) (m=1..4 x numerical|df|df+d2f x "
        "verify True|False), of polyroots(error=True) (degree 1..12, thorough 1..20; regimes distinct |Im| / equal |Im| clusters / equal "
        "real parts / real only / complex coefficients / repeated root) or of multiplicity (m=1..4, Horner and factored form) at "
        "precision 30/53/100 (thorough +200/300); all inputs exact rationals drawn from the seeded rng.  non-trivial = the lemma is "
        "not an exact-zero residual / a bare length comparison; distinct = distinct lemma statements")


def run(rep, tier_, rng):
    load_known_b(rep); load_known_b4(rep)
    bad = tol_sanity()
    if bad:
        rep.violation("C29 harness reading broken: eps(prec+20)*2^10 != 2^(-prec-9) at prec %s (the default tolerance of findroot is "
                      "derived from ctx.eps)" % bad, {"fn": "findroot", "regime": "default_tol", "precs": bad}, no_input=True)
    todo = generate_calls(rng, tier_)
    budget = 110 if tier_ == "quick" else 1000
    process(rep, todo, "C29_%s" % tier_, budget, RULE, tier_)


def replay(rep, path):
    load_known_b4(rep)
    with open(path) as f:
        d = json.load(f)
    r = d["replay"]
    keep = ("fn", "regime", "prec", "solver", "problem", "x0", "tol", "maxsteps", "verify", "deriv", "planted", "coeffs", "kwargs",
            "form", "qcoeffs", "root", "m")
    call = {k: r[k] for k in keep if k in r}
    # a polyroots replay uses the keyword arguments that produced the recorded result (call["kwargs"])
    load_known_b(rep)
    process(rep, [call], rep.pid + "_replay", 300, "replay of one recorded call", "quick")
    rep.coverage["stored_certificate_still_checks"] = None
    if r.get("coq_replay"):
        ok, out, cmd = cert.check_text(r["coq_replay"], tag=rep.pid + "_replay")
        rep.coverage["stored_certificate_still_checks"] = ok
