"""C10 — rounded operations never return more bits than the working precision."""
from common import *
import corr, mpfcases, api, sweep
from props.enginea import run_engine_a
from props import c02
from props.c01 import parts

LEVEL = "proof"
FNS = ["normalize", "normalize1", "from_man_exp", "from_int", "mpf_add", "mpf_sub", "mpf_mul", "mpf_div", "mpf_mod",
       "mpf_sqrt", "mpf_pos", "mpf_neg", "mpf_abs", "mpf_mul_int", "mpf_rdiv_int", "from_rational", "mpf_pow_int",
       "mpf_floor", "mpf_ceil", "mpf_nint", "mpf_frac", "mpf_hypot", "mpf_perturb", "mpf_sum"]
TAGS = {"C10"}


def monitor(rep, tier_, rng):
    """public entry points fed arguments carrying MORE bits than the working precision"""
    import mpmath
    from mpmath import mp
    n_each = 3 if tier_ == "quick" else 25
    calls = 0; values = 0; errors = 0
    p0 = mp.prec
    exact_ok = {"ldexp", "frexp", "re", "im", "conj", "fadd", "fsub", "fmul", "fdiv"}   # fadd etc. are rounded; kept for clarity
    try:
        for prec in ([53, 100] if tier_ == "quick" else [10, 24, 53, 100, 333]):
            mp.prec = prec
            for name, args, thunk in sweep.iter_calls(rng, mp, n_each, longbits=True):
                if name in ("ldexp", "re", "im", "conj"):
                    continue        # documented as exact
                calls += 1
                try:
                    v = sweep.call_with_timeout(thunk, 5)
                except (Exception, sweep.CallTimeout):
                    errors += 1; continue
                for t in parts(v):
                    values += 1
                    if not is_special(t) and t[3] > prec:
                        rep.violation("public function %s returned %d bits at prec %d" % (name, t[3], prec),
                                      {"fn": name, "args": [repr(a) for a in args], "prec": prec, "value": list(t)})
            # operators / unary / construction with long operands
            for _ in range(40 * n_each):
                a = sweep.any_arg(rng, mp, longbits=True); b = sweep.any_arg(rng, mp, longbits=True)
                for nm, f in (("+", lambda: a + b), ("-", lambda: a - b), ("*", lambda: a * b), ("/", lambda: a / b),
                              ("pos", lambda: +a), ("neg", lambda: -a), ("abs", lambda: abs(a)), ("pow", lambda: a ** 3),
                              ("mpf()", lambda: mp.mpf(a.real)), ("mpc()", lambda: mp.mpc(a, b.real)), ("%", lambda: a.real % b.real)):
                    calls += 1
                    try:
                        v = f()
                    except Exception:
                        errors += 1; continue
                    for t in parts(v):
                        values += 1
                        if not is_special(t) and t[3] > prec:
                            rep.violation("operator %s returned %d bits at prec %d" % (nm, t[3], prec),
                                          {"fn": "operator " + nm, "args": [repr(a), repr(b)], "prec": prec, "value": list(t)})
            # construction from values of another context / higher precision (documented as rounding)
            other = mp.clone(); other.prec = prec + 150
            for _ in range(10 * n_each):
                big = other.mpf(rng.getrandbits(prec + 120) | 1) / 3 + other.mpf(rng.randint(1, 9))
                bigc = other.mpc(big, big / 7)
                for nm, f in (("mpf(foreign mpf)", lambda: mp.mpf(big)), ("mpf(foreign, prec=)", lambda: mp.mpf(big, prec=max(1, prec - 7))),
                              ("mpc(foreign, foreign)", lambda: mp.mpc(big, big)), ("mpc(foreign mpc)", lambda: mp.mpc(bigc)),
                              ("mpf + foreign", lambda: mp.mpf(1) + big), ("+foreign-as-mp", lambda: +mp.mpf(big))):
                    calls += 1
                    try:
                        v = f()
                    except Exception:
                        errors += 1; continue
                    lim = max(1, prec - 7) if "prec=" in nm else prec
                    for t in parts(v):
                        values += 1
                        if not is_special(t) and t[3] > lim:
                            rep.violation("%s returned %d bits at prec %d" % (nm, t[3], lim),
                                          {"fn": nm, "args": [repr(big)], "prec": lim, "value": list(t)})
    finally:
        mp.prec = p0
    return {"monitor_calls": calls, "monitor_values_checked": values, "monitor_documented_errors": errors,
            "monitor_note": "exploration: entry points not in the Coq model are observed with long-mantissa arguments, not proved"}


def make(rng, fn, n):
    return c02.make(rng, fn, n)


def run(rep, tier_, rng):
    run_engine_a(rep, "C10", tier_, rng, FNS + ["API_OPS", "API_F"], TAGS, n_quick=300, n_thorough=5000, extra=monitor, make=make)


replay = c02.replay
