"""Shared plumbing of the Engine-B (per-instance Coq certificate) property modules C12, C13, C43."""
import os, json, time
from fractions import Fraction
from common import *
import cert
from cert import Cx, Const, lift, mpf_fraction

KNOWN_B = os.path.join(VERIF, "known_findings_B.json")


def load_known_b(rep):
    """known_findings_B.json (same entry format as known_findings.json) is owned by the Engine-B checks."""
    if os.path.exists(KNOWN_B):
        with open(KNOWN_B) as f:
            d = json.load(f)
        rep.known.extend(k for k in d.get("findings", []) if k.get("property") == rep.pid)


def dyadic(fr):
    """Fraction with power-of-two denominator -> (m, e) with value m*2^e."""
    fr = Fraction(fr)
    d = fr.denominator
    assert d & (d - 1) == 0, "not dyadic"
    n = fr.numerator
    if d == 1 and n:
        tz = (n & -n).bit_length() - 1          # keep the mantissa odd: huge powers of two stay in the exponent
        return n >> tz, tz
    return n, -(d.bit_length() - 1)


def mk_mpf(ctx, fr):
    """Exact mpf of a dyadic Fraction (no rounding: from_man_exp without precision)."""
    from mpmath.libmp import from_man_exp
    m, e = dyadic(fr)
    return ctx.make_mpf(from_man_exp(m, e))


def mk_arg(ctx, a):
    """a: Fraction (real argument) or (Fraction, Fraction) (complex argument)."""
    if isinstance(a, tuple):
        from mpmath.libmp import from_man_exp
        return ctx.make_mpc((from_man_exp(*dyadic(a[0])), from_man_exp(*dyadic(a[1]))))
    return mk_mpf(ctx, a)


def arg_cx(a):
    return Cx(Const(a[0]), Const(a[1])) if isinstance(a, tuple) else Cx(Const(a), cert.ZERO)


def enc_arg(a):
    if isinstance(a, tuple):
        return {"re": list(dyadic(a[0])), "im": list(dyadic(a[1]))}
    if isinstance(a, int):
        return {"int": a}
    return {"re": list(dyadic(a))}


def dec_arg(d):
    if "int" in d:
        return d["int"]
    re_ = Fraction(d["re"][0]) * Fraction(2) ** d["re"][1]
    if "im" in d:
        return (re_, Fraction(d["im"][0]) * Fraction(2) ** d["im"][1])
    return re_


def finite_tuple(t):
    return not (t[1] == 0 and t[2] != 0)


def value_of(y):
    """mpmath/Python result -> ("real", Fraction) | ("complex", Fraction, Fraction) | ("nonfinite", repr) | ("other", repr)."""
    if hasattr(y, "_mpf_"):
        t = y._mpf_
        return ("real", mpf_fraction(t)) if finite_tuple(t) else ("nonfinite", repr(y))
    if hasattr(y, "_mpc_"):
        a, b = y._mpc_
        if finite_tuple(a) and finite_tuple(b):
            return ("complex", mpf_fraction(a), mpf_fraction(b))
        return ("nonfinite", repr(y))
    if isinstance(y, float):
        import math
        return ("real", Fraction(y)) if math.isfinite(y) else ("nonfinite", repr(y))
    if isinstance(y, complex):
        import math
        if math.isfinite(y.real) and math.isfinite(y.imag):
            return ("complex", Fraction(y.real), Fraction(y.imag))
        return ("nonfinite", repr(y))
    if isinstance(y, int):
        return ("real", Fraction(y))
    return ("other", repr(y))


def short(s, n=700):
    s = str(s)
    return s if len(s) <= n else s[:n // 2] + " ...[%d chars]... " % (len(s) - n) + s[-n // 2:]


def _cmd_string(x):
    """evidence schema wants a string"""
    if isinstance(x, str):
        return x
    if isinstance(x, dict):
        ex = x.get("examples") or []
        return "%s coqc invocations, e.g. %s" % (x.get("count", len(ex)), "; ".join(ex[:2]))
    return str(x)


def run_and_report(rep, insts, calls, tag, params, jobs=NPROC, budget=None, describe=None, extra_cov=None,
                   rule="", assumptions=None, tb_kinds=("R", "Z")):
    """certify `insts`, turn certified failures into violations (with the .v text as replay), fill rep.coverage.

    calls: dict call_id -> replay dict (fn, regime, prec, args ...); every instance's meta["call"] names its call."""
    t0 = time.time()
    from concurrent.futures import ThreadPoolExecutor
    kinds_needed = [k for k in tb_kinds if any(i.kind == k or (k == "R" and i.kind == "RI") for i in insts)]
    tb_pool = ThreadPoolExecutor(2)
    tb_fut = {k: tb_pool.submit(cert.trusted_base, k) for k in kinds_needed}     # Print Assumptions runs alongside
    res = cert.certify(insts, tactic_params=params, jobs=jobs, timeout=budget, tag=tag)
    V = res["verdicts"]
    by_id = {i.id: i for i in insts}
    nontrivial = set()
    fails = []
    for iid, v in V.items():
        ins = by_id[iid]
        if v["verdict"] in ("pass", "fail") and not ins.trivial:
            nontrivial.add(hashlib.sha1(ins.goal.encode()).hexdigest())
        if v["verdict"] == "fail":
            fails.append(iid)
    for iid in fails:
        ins = by_id[iid]; v = V[iid]
        call = dict(calls.get(ins.meta.get("call"), {}))
        call.update({"instance": iid, "part": ins.meta.get("part"), "clause": ins.meta.get("clause", "accuracy"),
                     "coq_replay": cert.replay_text(res, iid), "coq_file": os.path.join(res["dir"], v["file"]),
                     "step": v["step"]})
        what = "%s: certified violation: %s (%s) part=%s regime=%s prec=%s" % (
            rep.pid, call.get("fn"), ins.meta.get("clause", "accuracy bound"), ins.meta.get("part"), call.get("regime"),
            call.get("prec"))
        rep.violation(what, call)
    samples = []
    seen_fn = set()
    for ins in insts:
        fn = ins.meta.get("fn")
        if V[ins.id]["verdict"] == "pass" and not ins.trivial and fn not in seen_fn and len(samples) < 6:
            seen_fn.add(fn)
            samples.append({"id": ins.id, "fn": fn, "kind": ins.kind, "i_prec": V[ins.id]["prec"],
                            "lemma": short("Lemma inst : %s. Proof. %s. Qed." % (ins.goal, ins.tactic_text(V[ins.id]["prec"])))})
    inconc = [{"id": i, "fn": V[i].get("fn"), "regime": V[i].get("regime"), "note": V[i]["note"], "prec": V[i]["prec"]}
              for i in V if V[i]["verdict"] == "inconclusive"]
    hist = {}
    for ins in insts:
        k = ins.meta.get("fn", "?")
        h = hist.setdefault(k, {"pass": 0, "fail": 0, "inconclusive": 0})
        h[V[ins.id]["verdict"]] += 1
    tb = []
    for k in kinds_needed:
        tb += ["[%s] %s" % (k, s) for s in tb_fut[k].result()]
    tb_pool.shutdown()
    cov = {
        "evaluations": len(calls),
        "coq_lemmas": len(insts),
        "distinct_nontrivial": len(nontrivial),
        "rule": rule,
        "samples": samples or ["no non-trivial certified instance"],
        "certified_pass": res["counts"]["pass"], "certified_fail": res["counts"]["fail"],
        "inconclusive": res["counts"]["inconclusive"],
        "inconclusive_list": inconc[:40],
        "trivial_instances": sum(1 for i in insts if i.trivial),
        "by_kind": {k: sum(1 for i in insts if i.kind == k) for k in sorted({i.kind for i in insts})},
        "by_function": hist,
        "tactic_params": {k: res["params"][k] for k in ("margin", "ladder", "sentence_timeout", "single_timeout",
                                                        "file_timeout", "batch", "max_prec")},
        "tactics": "interval with (i_prec P) [P = -log2(eps) + estimated conditioning loss + margin, then the ladder]; "
                   "vm_compute; reflexivity for Z goals",
        "i_prec_range": [min([V[i]["prec"] for i in V if by_id[i].kind != "Z"] or [0]),
                         max([V[i]["prec"] for i in V if by_id[i].kind != "Z"] or [0])],
        "checker_cmd": _cmd_string(cert.summarize_cmds(res["cmds"])),
        "checker_cmd_detail": cert.summarize_cmds(res["cmds"]),
        "trusted_base": tb,
        "cert_dir": res["dir"], "cert_wall_s": res["wall_s"],
        "slowest": [{"id": i, "secs": V[i]["secs"], "i_prec": V[i]["prec"], "step": V[i]["step"]}
                    for i in sorted(V, key=lambda k: -V[k]["secs"])[:5]],
    }
    if extra_cov:
        cov.update(extra_cov)
    rep.coverage = cov
    rep.assumptions = list(assumptions or [])
    return res


def replay_generic(rep, path, rebuild):
    """Replay of a certified violation: (1) the stored .v text must still compile (it is self-contained);
    (2) `rebuild(replay_dict)` re-runs the call on the current tree and returns fresh instances for it."""
    with open(path) as f:
        d = json.load(f)
    r = d["replay"]
    load_known_b(rep)
    insts, calls = rebuild(r)
    res = run_and_report(rep, insts, calls, tag=rep.pid + "_replay", params=r.get("params"), rule="replay of one recorded call")
    rep.coverage["stored_certificate_still_checks"] = None
    if r.get("coq_replay"):
        ok, out, cmd = cert.check_text(r["coq_replay"], tag=rep.pid + "_replay")
        rep.coverage["stored_certificate_still_checks"] = ok
    return res
