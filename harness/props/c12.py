"""C12 -- elementary functions are accurate to 2^(4-p) (Engine B: per-instance Coq certificates).

Every sampled call y = f(x) of the current /repo code (x, y exact dyadics read from the raw `_mpf_`/`_mpc_` tuples)
becomes one Coq lemma per output part, `Rabs (y - ref) <= 2^(4-p) * Rabs scale`, proved by `interval` (or, for
real roots and for references that fold to a rational, by `vm_compute` over Z).  ref is the real/imaginary part of
the documented definition of f (principal branches) written with sqrt/exp/ln/sin/cos/atan/PI only."""
import math
from fractions import Fraction
from common import *
import cert, sweep
from cert import (Cx, Const, ZERO, ONE, HALF, PI, lift, sqrt, exp, ln, sin, cos, atan, cexp, clog, csqrt, croot,
                  cmul, cdiv, cpow, csin, ccos, csinh, ccosh, catan2, sinh, cosh, rel_instance, root_instance,
                  sign_instance, Instance)
from props.engineb import *

LEVEL = "exploration"

PER_PART = {"exp", "log", "sin", "cos", "sinh", "cosh"}     # bound on each of re/im separately (property text)

ASSUMPTIONS = [
    "Oracle formulas (real and imaginary parts written with sqrt/exp/ln/sin/cos/atan/PI; each is the documented "
    "definition or the named identity): exp(a+ib)=e^a(cos b+i sin b); log z = ln|z| + i*atan2(im,re) (principal, "
    "atan2 in (-pi,pi] built from atan with the quadrant decided exactly on the dyadic inputs); log(x,b)=log x/log b; "
    "sqrt principal (re>=0; +i*sqrt|x| on the negative axis); root/cbrt principal = exp(log z/n), positive real radicand "
    "certified through the monotone inverse y^n vs x*(1+-eps)^n over Z; x**y = exp(y log x), integer y with |y|p<=12000 "
    "as the exact rational power; sin/cos/sinh/cosh(a+ib) by the addition formulas; tan(a+ib)=(sin 2a+i sinh 2b)/"
    "(cos 2a+cosh 2b), cot(a+ib)=(sin 2a-i sinh 2b)/(cosh 2b-cos 2a), tanh(a+ib)=(sinh 2a+i sin 2b)/(cosh 2a+cos 2b) "
    "(identities); real tan=sin/cos, sec=1/cos, csc=1/sin, cot=cos/sin; sinh=(e^x-e^-x)/2, cosh likewise, real "
    "tanh=(1-e^-2|x|)/(1+e^-2|x|) with sign (identity); asin z=-i log(iz+sqrt(1-z^2)), acos z=pi/2-asin z, "
    "atan z=(i/2)(log(1-iz)-log(1+iz)) (real argument: atan), asinh z=log(z+sqrt(1+z^2)), "
    "acosh z=log(z+sqrt(z+1)sqrt(z-1)), atanh z=(log(1+z)-log(1-z))/2 (mpmath docs; on a cut the value of the formula), "
    "asec/acsc/acot/asech/acsch/acoth = the function of 1/z; atan2, arg by quadrants; hypot via (x^2+y^2) exact; "
    "sinpi/cospi(a+ib) after exact reduction a=n+r, |r|<=1/2 (periodicity identity), exact values at r in {0,+-1/2}; "
    "expj z=exp(iz), expjpi z=exp(i pi z); log1p=log(1+z); expm1=exp z-1; powm1=x**y-1; sinc=sin z/z.",
    "'to the larger part' is read as |err_part| <= 2^(4-p)*max(|re f|,|im f|); the per-part bound is used for "
    "exp, log, sin, cos, sinh, cosh only, exactly as the property lists them.",
    "Signs/quadrants of non-constant subterms chosen from an untrusted numeric hint are re-emitted as side conditions "
    "inside the certified lemma (e.g. 0 < x + sqrt(x^2-1)), so a wrong hint gives 'inconclusive', never a verdict.",
    "Universal accuracy is NOT proved: only the sampled instances are certified (level exploration, certified oracle).",
]


# ----------------------------------------------------------------------------------------- reference registry

def _fl(x):
    return x.numerator // x.denominator


def pi_reduce(a):
    n = _fl(a + Fraction(1, 2))
    return n, a - n


def sinpi_real(a):
    n, r = pi_reduce(a)
    s = -1 if n & 1 else 1
    if r == 0: return ZERO
    if abs(r) == Fraction(1, 2): return Const(s if r > 0 else -s)
    return s * sin(PI * Const(r))


def cospi_real(a):
    n, r = pi_reduce(a)
    s = -1 if n & 1 else 1
    if r == 0: return Const(s)
    if abs(r) == Fraction(1, 2): return ZERO
    return s * cos(PI * Const(r))


def _is0(e):
    return isinstance(e, Const) and e.v == 0


def r_tan(z):
    if _is0(z.im): return Cx(sin(z.re) / cos(z.re), 0)
    a2, b2 = 2 * z.re, 2 * z.im
    d = cos(a2) + cosh(b2)
    return Cx(sin(a2) / d, sinh(b2) / d)


def r_cot(z):
    if _is0(z.im): return Cx(cos(z.re) / sin(z.re), 0)
    a2, b2 = 2 * z.re, 2 * z.im
    d = cosh(b2) - cos(a2)
    return Cx(sin(a2) / d, -(sinh(b2) / d))


def r_tanh(z):
    if _is0(z.im): return Cx(cert.tanh(z.re), 0)
    a2, b2 = 2 * z.re, 2 * z.im
    d = cosh(a2) + cos(b2)
    return Cx(sinh(a2) / d, sin(b2) / d)


def r_asin(z):
    w = Cx(1, 0) - z * z
    l = clog(z.times_i() + csqrt(w))
    return l.times_neg_i()


def r_acos(z):
    a = r_asin(z)
    return Cx(PI * HALF - a.re, -a.im, a.conds)


def r_atan(z):
    if _is0(z.im): return Cx(atan(z.re), 0)
    a, b = z.re.v, z.im.v
    conds = []
    t1 = catan2(Const(-a), Const(1 + b), conds)
    t2 = catan2(Const(a), Const(1 - b), conds)
    N, D = (1 + b) ** 2 + a * a, (1 - b) ** 2 + a * a
    return Cx((t2 - t1) * HALF, ln(Const(N / D)) * Fraction(1, 4), conds)


def r_atanh(z):
    a, b = z.re.v, z.im.v
    conds = []
    t1 = catan2(Const(b), Const(1 + a), conds)
    t2 = catan2(Const(-b), Const(1 - a), conds)
    N, D = (1 + a) ** 2 + b * b, (1 - a) ** 2 + b * b
    return Cx(ln(Const(N / D)) * Fraction(1, 4), (t1 - t2) * HALF, conds)


def r_asinh(z):
    return clog(z + csqrt(z * z + Cx(1, 0)))


def r_acosh(z):
    return clog(z + csqrt(z + Cx(1, 0)) * csqrt(z - Cx(1, 0)))


def _inv(z):
    return cdiv(Cx(1, 0), z)


def r_power(z, w):
    if _is0(w.im) and w.re.v.denominator == 1:
        n = int(w.re.v)
        bits = max(z.re.v.numerator.bit_length() + z.re.v.denominator.bit_length(),
                   z.im.v.numerator.bit_length() + z.im.v.denominator.bit_length())
        if abs(n) * bits <= 12000:
            return cpow(z, n)
        if _is0(z.im):                       # real base, big integer exponent: sign * exp(n ln|x|)
            r = exp(n * ln(abs(z.re)))
            return Cx(-r if (z.re.v < 0 and n & 1) else r, 0)
    return cexp(cmul(w, clog(z)))


def r_sinpi(z):
    a, b = z.re.v, z.im.v
    if b == 0: return Cx(sinpi_real(a), 0)
    pb = PI * Const(b)
    return Cx(sinpi_real(a) * cosh(pb), cospi_real(a) * sinh(pb))


def r_cospi(z):
    a, b = z.re.v, z.im.v
    if b == 0: return Cx(cospi_real(a), 0)
    pb = PI * Const(b)
    return Cx(cospi_real(a) * cosh(pb), -(sinpi_real(a) * sinh(pb)))


def r_expjpi(z):
    a, b = z.re.v, z.im.v
    m = exp(-(PI * Const(b))) if b != 0 else ONE
    return Cx(m * cospi_real(a), m * sinpi_real(a))


REFS = {
    "exp": lambda z: cexp(z),
    "log": lambda z: clog(z),
    "logb": lambda z, b: cdiv(clog(z), clog(b)),
    "sqrt": lambda z: csqrt(z),
    "cbrt": lambda z: croot(z, 3),
    "root": lambda z, n: croot(z, n),
    "power": r_power,
    "sin": csin, "cos": ccos, "tan": r_tan,
    "sec": lambda z: cdiv(Cx(1, 0), ccos(z)), "csc": lambda z: cdiv(Cx(1, 0), csin(z)), "cot": r_cot,
    "sinh": csinh, "cosh": ccosh, "tanh": r_tanh,
    "asin": r_asin, "acos": r_acos, "atan": r_atan, "asinh": r_asinh, "acosh": r_acosh, "atanh": r_atanh,
    "asec": lambda z: r_acos(_inv(z)), "acsc": lambda z: r_asin(_inv(z)), "acot": lambda z: r_atan(_inv(z)),
    "asech": lambda z: r_acosh(_inv(z)), "acsch": lambda z: r_asinh(_inv(z)), "acoth": lambda z: r_atanh(_inv(z)),
    "atan2": lambda y, x: Cx(catan2(y.re, x.re), 0),
    "arg": lambda z: Cx(catan2(z.im, z.re), 0),
    "sinpi": r_sinpi, "cospi": r_cospi,
    "expj": lambda z: cexp(z.times_i()), "expjpi": r_expjpi,
    "log1p": lambda z: clog(Cx(1, 0) + z),
    "expm1": lambda z: cexp(z) - Cx(1, 0),
    "powm1": lambda x, y: r_power(x, y) - Cx(1, 0),
    "sinc": lambda z: cdiv(csin(z), z),
    "hypot": lambda x, y: Cx(sqrt(x.re * x.re + y.re * y.re), 0),
}


def real_domain(fn, a):
    """Is the tuple of *real* arguments inside the real domain of fn (=> a real result is required)?"""
    x = a[0]
    if fn in ("sqrt", "cbrt", "root"): return x >= 0
    if fn == "log": return x > 0
    if fn == "logb": return x > 0 and a[1] > 0
    if fn in ("asin", "acos"): return abs(x) <= 1
    if fn == "acosh": return x >= 1
    if fn == "atanh": return abs(x) < 1
    if fn in ("asec", "acsc"): return abs(x) >= 1
    if fn == "asech": return 0 < x <= 1
    if fn == "acoth": return abs(x) > 1
    if fn == "log1p": return x > -1
    if fn in ("power", "powm1"): return x > 0 or a[1].denominator == 1
    if fn in ("expj", "expjpi"): return False          # always complex
    return True


# ----------------------------------------------------------------------------------------- input generators

def rand_man(rng, bits):
    return rng.getrandbits(bits) | (1 << (bits - 1))


def g_val(rng, p, e0, bits=None, signed=True):
    """random dyadic in [2^(e0-1), 2^e0) with a p-bit (mostly), short, or longer-than-p mantissa"""
    if bits is None:
        u = rng.random()
        bits = p if u < 0.6 else rng.randint(1, 8) if u < 0.8 else p + rng.randint(1, 30) if u < 0.9 else rng.randint(1, p)
    m = rand_man(rng, bits)
    v = Fraction(m) * Fraction(2) ** (e0 - bits)
    return -v if signed and rng.random() < 0.5 else v


def g_gen(rng, p, lo=-6, hi=6, signed=True):
    return g_val(rng, p, rng.randint(lo, hi), signed=signed)


TIER = ["quick"]


def _deep(p):
    """the most expensive exponents (2^-2p, 2^-1000 at p >= 600) are left to the thorough tier (there up to p = 1000)"""
    return (TIER[0] == "thorough" and p <= 1000) or p <= 420


def g_tiny(rng, p, signed=True):
    e0 = rng.choice([-1000 + rng.randint(-10, 10) if _deep(p) else -p - 5, -p + rng.randint(-3, 3),
                     -2 * p + rng.randint(-2, 2) if _deep(p) else -p - 9,
                     -(p // 2) + rng.randint(-2, 2), -rng.randint(20, 300)])
    return g_val(rng, p, e0, signed=signed)


def g_huge(rng, p, signed=True):
    if rng.random() < 0.3:
        v = Fraction(10 ** 6) + g_val(rng, min(p, 40), rng.randint(-20, 3))
        return -v if signed and rng.random() < 0.5 else v
    return g_val(rng, p, rng.randint(190, 210), signed=signed)


def g_modlarge(rng, p, signed=True, hi=14):
    return g_val(rng, p, rng.randint(3, hi), signed=signed)


def round_to_bits(fr, bits):
    """nearest dyadic with `bits` significant bits (generator side only)"""
    r = round_fraction(Fraction(fr), bits, 'n')
    s, q, e = r
    v = Fraction(q) * Fraction(2) ** e
    return -v if s else v


def near_multiple_of_half_pi(rng, p, kmax_bits=64, pp=None, k=None):
    """p'-bit neighbour of k*pi/2 (k log-uniform up to 2^kmax_bits): the worst cases of argument reduction"""
    import mpmath
    if k is None:
        k = rng.getrandbits(rng.randint(1, kmax_bits)) | 1 if rng.random() < 0.5 else rng.getrandbits(rng.randint(1, kmax_bits)) + 1
    if pp is None:
        pp = rng.choice([p, p, p, 53, 24, p + 17])
    with mpmath.workprec(pp + kmax_bits + 100):
        t = k * mpmath.pi / 2
        fr = cert.mpf_fraction(t._mpf_)
    v = round_to_bits(fr, pp)
    ulp = Fraction(2) ** (v.numerator.bit_length() - v.denominator.bit_length() + 1 - pp)
    v += rng.choice([0, 0, 0, 1, -1, 2, -3]) * ulp
    return (-v if rng.random() < 0.3 else v), k


def g_kpi2(rng, p):
    return near_multiple_of_half_pi(rng, p)[0]


def g_near1(rng, p, side=None, signed=False):
    k = rng.choice([rng.randint(1, 8), int(2 ** rng.uniform(0, math.log2(p + 5))), p - 1, p, p + 1, p // 2, 2 * p if _deep(p) else p + 2])
    s = side if side is not None else rng.choice([1, -1])
    v = 1 + s * Fraction(1, 2 ** k)
    return -v if signed and rng.random() < 0.5 else v


def g_near1_long(rng, p, side=-1, signed=True):
    """1 -/+ 2^-k -/+ 2^-j with j near the precision: next to 1 with a mantissa that fills the precision, so that x*x does not fit
    any fixed number of guard bits (cancellation in 1 - x^2)"""
    k = rng.choice([rng.randint(2, 12), rng.randint(10, max(11, p - 8)), max(2, p // 2)])
    j = rng.choice([p, p - 1, p - rng.randint(2, 6), k + rng.randint(1, 12)])
    j = max(k + 1, min(j, p))
    v = 1 + side * (Fraction(1, 2 ** k) + Fraction(1, 2 ** j))
    return -v if signed and rng.random() < 0.5 else v


def g_bigint(rng, p):
    """large integers with few trailing zero bits (the integer-argument branch of exp at high precision)"""
    j = rng.randint(20, 40)          # e^(2^40) has a 3-million-bit exponent: larger arguments make the exact-side arithmetic too slow
    return Fraction(rng.choice([1, -1]) * ((1 << j) + rng.choice([1, 3, rng.getrandbits(j - 1) | 1])))


def g_pm_eps(rng, p):
    k = rng.choice([1, 5, 30, p // 2, p, p + 3, 2 * p if _deep(p) else p + 7, 1000 if _deep(p) else p // 3])
    return rng.choice([1, -1]) * g_val(rng, p, -k, signed=False)


def g_int(rng, lo=-12, hi=12):
    return Fraction(rng.randint(lo, hi))


def g_halfint(rng, p):
    n = rng.choice([rng.randint(-20, 20), rng.randint(-10 ** 6, 10 ** 6), rng.getrandbits(rng.randint(10, 200))])
    k = rng.choice([3, 10, p // 2, p - 2, p + 5])
    return Fraction(n, 2) + rng.choice([1, -1]) * Fraction(1, 2 ** k)


def cgen(rng, p, lo=-4, hi=3):
    return (g_gen(rng, p, lo, hi), g_gen(rng, p, lo, hi))


def pos(f):
    return lambda rng, p: abs(f(rng, p))


def unit_circle(rng, p):
    """p-bit point next to the unit circle: |z| = 1 +- O(2^-p), the hard case for Re log z"""
    import mpmath
    with mpmath.workprec(p + 30):
        t = mpmath.mpf(rng.uniform(0.05, 3.1)) * rng.choice([1, -1])
        c, s = mpmath.cos(t), mpmath.sin(t)
        a = round_to_bits(cert.mpf_fraction(c._mpf_), p); b = round_to_bits(cert.mpf_fraction(s._mpf_), p)
    return (a, b)


def _c1(f):
    return lambda rng, p: [f(rng, p)]


def _cut_real(fx):
    """complex points next to a cut on the real axis: (x, +-tiny)"""
    return lambda rng, p: [(fx(rng, p), g_pm_eps(rng, p))]


def _cut_imag(fy):
    return lambda rng, p: [(g_pm_eps(rng, p), fy(rng, p))]


def _out(fn_abs_gt1=True):
    return lambda rng, p: [rng.choice([1, -1]) * (1 + abs(g_gen(rng, p, -8, 5)))]


R = {}


def reg(fn, tag, gen, w=1.0):
    R.setdefault(fn, []).append((tag, w, gen))


def _setup():
    gen = _c1(g_gen); tiny = _c1(g_tiny); huge = _c1(g_huge); kpi2 = _c1(g_kpi2)
    cg = lambda rng, p: [cgen(rng, p)]
    for fn in ("sin", "cos", "tan", "sec", "csc", "cot"):
        reg(fn, "gen", gen); reg(fn, "tiny", tiny, .6); reg(fn, "huge", huge, .8); reg(fn, "kpi2", kpi2, 2.0)
        reg(fn, "cgen", cg)
        reg(fn, "c_kpi2_re", lambda rng, p: [(g_kpi2(rng, p), g_gen(rng, p, -6, 2))], .6)
        reg(fn, "c_large_im", lambda rng, p: [(g_gen(rng, p), g_modlarge(rng, p, hi=9))], .4)
        reg(fn, "c_tiny_im", lambda rng, p: [(g_gen(rng, p), g_pm_eps(rng, p))], .4)
    for fn in ("sinh", "cosh", "tanh"):
        reg(fn, "gen", gen); reg(fn, "tiny", tiny, .6); reg(fn, "large", _c1(g_modlarge), .8)
        reg(fn, "cgen", cg); reg(fn, "c_kpi2_im", lambda rng, p: [(g_gen(rng, p, -6, 2), g_kpi2(rng, p))], .6)
    reg("exp", "gen", gen); reg("exp", "tiny", tiny, .6); reg("exp", "large", _c1(g_modlarge))
    reg("exp", "bigint", _c1(g_bigint), 0.35)
    reg("exp", "cgen", cg); reg("exp", "c_kpi2_im", lambda rng, p: [(g_gen(rng, p), g_kpi2(rng, p))])
    reg("exp", "c_large_re", lambda rng, p: [(g_modlarge(rng, p), g_gen(rng, p))], .5)
    reg("log", "gen", _c1(pos(g_gen))); reg("log", "near1", _c1(g_near1), 2.0); reg("log", "tiny", _c1(pos(g_tiny)), .5)
    reg("log", "huge", _c1(pos(g_huge)), .5); reg("log", "neg", _c1(lambda rng, p: -abs(g_gen(rng, p))), .7)
    reg("log", "cgen", cg); reg("log", "c_cut", _cut_real(lambda rng, p: -abs(g_gen(rng, p))))
    reg("log", "c_unit_circle", lambda rng, p: [unit_circle(rng, p)], 1.0)
    reg("log", "c_near1", lambda rng, p: [(g_near1(rng, p), g_pm_eps(rng, p))], .6)
    reg("logb", "gen", lambda rng, p: [abs(g_gen(rng, p)), abs(g_gen(rng, p)) + rng.choice([0, 1])])
    reg("logb", "base2_10", lambda rng, p: [abs(g_gen(rng, p, -30, 30)), Fraction(rng.choice([2, 10, 3]))])
    reg("logb", "near1", lambda rng, p: [g_near1(rng, p), g_near1(rng, p)], .6)
    reg("logb", "neg", lambda rng, p: [-abs(g_gen(rng, p)), abs(g_gen(rng, p)) + 2], .4)
    reg("sqrt", "gen", _c1(pos(g_gen))); reg("sqrt", "tiny", _c1(pos(g_tiny)), .4); reg("sqrt", "huge", _c1(pos(g_huge)), .4)
    reg("sqrt", "neg", _c1(lambda rng, p: -abs(g_gen(rng, p))), .7); reg("sqrt", "cgen", cg)
    reg("sqrt", "c_cut", _cut_real(lambda rng, p: -abs(g_gen(rng, p))))
    def rootn(rng, p):
        return rng.choice([n for n in (2, 3, 4, 5, 7, 10, 17, 50) if n * p <= 24000])
    reg("cbrt", "gen", _c1(pos(g_gen))); reg("cbrt", "huge", _c1(pos(g_huge)), .4); reg("cbrt", "tiny", _c1(pos(g_tiny)), .4)
    reg("cbrt", "neg", _c1(lambda rng, p: -abs(g_gen(rng, p))), .5); reg("cbrt", "cgen", cg, .7)
    reg("root", "gen", lambda rng, p: [abs(g_gen(rng, p)), rootn(rng, p)], 1.5)
    reg("root", "huge", lambda rng, p: [abs(g_huge(rng, p)), rootn(rng, p)], .5)
    reg("root", "neg", lambda rng, p: [-abs(g_gen(rng, p)), rootn(rng, p)], .5)
    reg("root", "cgen", lambda rng, p: [cgen(rng, p), rootn(rng, p)], .8)
    reg("root", "c_cut", lambda rng, p: [(-abs(g_gen(rng, p)), g_pm_eps(rng, p)), rootn(rng, p)], .5)
    reg("power", "gen", lambda rng, p: [abs(g_gen(rng, p, -3, 3)), g_gen(rng, p, -3, 4)], 1.5)
    reg("power", "int_exp", lambda rng, p: [g_gen(rng, p, -3, 3), g_int(rng, -40, 40)])
    reg("power", "half_exp", lambda rng, p: [abs(g_gen(rng, p)), Fraction(rng.randint(-9, 9) * 2 + 1, 2)], .5)
    reg("power", "big_result", lambda rng, p: [abs(g_gen(rng, p, -2, 3)), g_modlarge(rng, p, hi=13)], .6)
    reg("power", "near1_base", lambda rng, p: [g_near1(rng, p), g_modlarge(rng, p, hi=12)], .6)
    reg("power", "neg_base", lambda rng, p: [-abs(g_gen(rng, p, -3, 3)), g_gen(rng, p, -3, 3)], .7)
    reg("power", "cgen", lambda rng, p: [cgen(rng, p, -3, 2), cgen(rng, p, -3, 2)], .8)
    reg("power", "c_int", lambda rng, p: [cgen(rng, p, -3, 2), g_int(rng, -12, 12)], .5)
    for fn in ("asin", "acos"):
        reg(fn, "gen", _c1(lambda rng, p: g_gen(rng, p, -8, 0))); reg(fn, "tiny", tiny, .5)
        reg(fn, "near1_in", _c1(lambda rng, p: g_near1(rng, p, side=-1, signed=True)), 1.2)
        reg(fn, "near1_in_long", _c1(lambda rng, p: g_near1_long(rng, p, side=-1, signed=True)), 1.6)
        reg(fn, "near1_out", _c1(lambda rng, p: g_near1(rng, p, side=1, signed=True)), .8)
        reg(fn, "out", _out(), .8); reg(fn, "huge_out", huge, .3)
        reg(fn, "cgen", cg); reg(fn, "c_cut", _cut_real(lambda rng, p: _out()(rng, p)[0]), .8)
        reg(fn, "c_small", lambda rng, p: [(g_gen(rng, p, -40, -10), g_gen(rng, p, -40, -10))], .4)
    reg("atan", "gen", gen); reg("atan", "tiny", tiny, .5); reg("atan", "huge", huge, .5)
    reg("atan", "cgen", cg); reg("atan", "c_cut", _cut_imag(lambda rng, p: _out()(rng, p)[0]), .8)
    reg("atan", "c_near_i", lambda rng, p: [(g_pm_eps(rng, p), g_near1(rng, p, signed=True))], .5)
    reg("asinh", "gen", gen); reg("asinh", "tiny", tiny, .5); reg("asinh", "huge", huge, .5)
    reg("asinh", "cgen", cg); reg("asinh", "c_cut", _cut_imag(lambda rng, p: _out()(rng, p)[0]), .8)
    reg("acosh", "gen", _c1(lambda rng, p: 1 + abs(g_gen(rng, p, -6, 6)))); reg("acosh", "near1_in", _c1(lambda rng, p: g_near1(rng, p, side=1)))
    reg("acosh", "huge", _c1(pos(g_huge)), .4); reg("acosh", "out", _c1(lambda rng, p: g_gen(rng, p, -6, 0)), .6)
    reg("acosh", "out_neg", _c1(lambda rng, p: -1 - abs(g_gen(rng, p, -6, 4))), .5)
    reg("acosh", "cgen", cg); reg("acosh", "c_cut", _cut_real(lambda rng, p: rng.choice([g_gen(rng, p, -6, 0), -1 - abs(g_gen(rng, p, -4, 3))])), .8)
    reg("atanh", "gen", _c1(lambda rng, p: g_gen(rng, p, -8, 0))); reg("atanh", "tiny", tiny, .5)
    reg("atanh", "near1_in", _c1(lambda rng, p: g_near1(rng, p, side=-1, signed=True)))
    reg("atanh", "out", _out(), .7); reg("atanh", "cgen", cg); reg("atanh", "c_cut", _cut_real(lambda rng, p: _out()(rng, p)[0]), .8)
    reg("asec", "gen", _out(), .5); reg("asec", "out", _c1(lambda rng, p: g_gen(rng, p, -5, 0)), .3); reg("asec", "cgen", cg, .3)
    reg("acsc", "gen", _out(), .5); reg("acsc", "out", _c1(lambda rng, p: g_gen(rng, p, -5, 0)), .3); reg("acsc", "cgen", cg, .3)
    reg("acot", "gen", gen, .5); reg("acot", "huge", huge, .2); reg("acot", "cgen", cg, .3)
    reg("asech", "gen", _c1(lambda rng, p: abs(g_gen(rng, p, -6, 0))), .5); reg("asech", "out", _out(), .3); reg("asech", "cgen", cg, .3)
    reg("acsch", "gen", gen, .5); reg("acsch", "cgen", cg, .3)
    reg("acoth", "gen", _out(), .5); reg("acoth", "out", _c1(lambda rng, p: g_gen(rng, p, -5, 0)), .3); reg("acoth", "cgen", cg, .3)
    reg("atan2", "gen", lambda rng, p: [g_gen(rng, p), g_gen(rng, p)], 1.5)
    reg("atan2", "mixed_scale", lambda rng, p: rng.choice([[g_tiny(rng, p), g_huge(rng, p)], [g_huge(rng, p), g_tiny(rng, p)],
                                                           [g_tiny(rng, p), g_gen(rng, p)], [g_gen(rng, p), g_tiny(rng, p)]]))
    reg("atan2", "axes", lambda rng, p: rng.choice([[Fraction(0), g_gen(rng, p)], [g_gen(rng, p), Fraction(0)]]), .4)
    reg("hypot", "gen", lambda rng, p: [g_gen(rng, p), g_gen(rng, p)], 1.2)
    reg("hypot", "mixed_scale", lambda rng, p: [g_tiny(rng, p), rng.choice([g_huge, g_gen, g_tiny])(rng, p)], .7)
    reg("arg", "cgen", cg); reg("arg", "c_axis", lambda rng, p: [(g_gen(rng, p), g_pm_eps(rng, p))], .6)
    reg("arg", "real", gen, .4)
    for fn in ("sinpi", "cospi", "expjpi"):
        reg(fn, "gen", gen); reg(fn, "near_halfint", _c1(g_halfint), 1.5); reg(fn, "tiny", tiny, .4)
        reg(fn, "huge", huge, .3); reg(fn, "cgen", lambda rng, p: [cgen(rng, p, -4, 2)], .8)
    reg("expj", "gen", gen); reg("expj", "kpi2", kpi2, 1.5); reg("expj", "cgen", cg, .8)
    reg("log1p", "gen", _c1(lambda rng, p: abs(g_gen(rng, p)))); reg("log1p", "tiny", tiny, 1.5)
    reg("log1p", "near_m1", _c1(lambda rng, p: -g_near1(rng, p, side=-1)), .8)
    reg("log1p", "neg_in", _c1(lambda rng, p: -abs(g_gen(rng, p, -8, 0))), .6)
    reg("log1p", "out", _c1(lambda rng, p: -1 - abs(g_gen(rng, p, -5, 4))), .5)
    reg("log1p", "cgen", lambda rng, p: [cgen(rng, p, -30, 1)], .8)
    reg("expm1", "gen", gen); reg("expm1", "tiny", tiny, 1.5); reg("expm1", "large", _c1(g_modlarge), .5)
    reg("expm1", "cgen", lambda rng, p: [cgen(rng, p, -30, 1)], .8)
    reg("powm1", "gen", lambda rng, p: [abs(g_gen(rng, p, -3, 3)), g_gen(rng, p, -3, 3)])
    reg("powm1", "near1_base", lambda rng, p: [g_near1(rng, p), g_gen(rng, p, -6, 6)], 1.2)
    reg("powm1", "tiny_exp", lambda rng, p: [abs(g_gen(rng, p, -3, 3)), g_tiny(rng, p)], 1.0)
    reg("powm1", "int_exp", lambda rng, p: [g_gen(rng, p, -3, 3), g_int(rng, -9, 9)], .6)
    reg("sinc", "gen", gen); reg("sinc", "tiny", tiny, .6); reg("sinc", "kpi2", kpi2); reg("sinc", "huge", huge, .4)
    reg("sinc", "cgen", cg, .7)


_setup()


def _small(rng, p):
    """moderately small arguments 2^-40..2^-3: where small-argument shortcuts and cancellation thresholds switch"""
    return [g_val(rng, p, rng.randint(-40, -3))]


for _fn in ("sin", "cos", "tan", "sec", "csc", "cot", "sinh", "cosh", "tanh", "exp", "asin", "acos", "atan", "asinh", "atanh",
            "sinpi", "cospi", "expj", "expjpi", "log1p", "expm1", "sinc", "acot", "acsch"):
    reg(_fn, "small", _small, .8)
reg("log", "small_offset", lambda rng, p: [1 + g_val(rng, p, rng.randint(-40, -3))], .8)
# a power of two times 1 + 2^-k with k beyond the precision (an exact argument longer than the precision): the x = 1 + eps
# shortcut of mpf_log must fire for 0.5 < x < 2 only (it fired for 0.25 <= x < 0.5 too before fix 690b69f)
reg("log", "pow2_offset_long", lambda rng, p: [Fraction(2) ** rng.choice([-3, -2, -2, -2, -1, 1, 2, 3]) * (1 + Fraction(1, 2 ** (p + rng.randint(24, 70))))], 1.5)
reg("acosh", "small_offset", lambda rng, p: [1 + abs(g_val(rng, p, rng.randint(-12, -3)))], .5)
FUNCS = sorted(R)
PRECS_QUICK = [10, 24, 53, 113, "400", "600", 1000]
PRECS_THOROUGH = PRECS_QUICK + [2500, 3000]


def pick_prec(rng, tier_):
    c = rng.choice(PRECS_THOROUGH if tier_ == "thorough" and rng.random() < 0.25 else PRECS_QUICK)
    if c == "400": return rng.randint(392, 408)
    if c == "600": return rng.randint(592, 608)
    return c


def get_callable(ctx, fn):
    if fn == "logb": return lambda x, b: ctx.log(x, b)
    return getattr(ctx, fn)


# ----------------------------------------------------------------------------------------- one call -> instances

def build_instances(cid, fn, args, prec, yv, regime, params=None):
    """-> (instances, direct_violation_text or None).  args: Fractions / (Fraction,Fraction) / int (root order)."""
    eps = Fraction(1, 2 ** (prec - 4)) if prec >= 4 else Fraction(2 ** (4 - prec))
    meta = {"fn": fn, "regime": regime, "p": prec, "call": cid}
    all_real_in = all(not isinstance(a, tuple) for a in args)
    insts = []
    if yv[0] == "nonfinite" or yv[0] == "other":
        return [], "non-finite/unknown result %s for a finite argument where the function is finite" % (yv[1],)
    # real positive radicands: monotone inverse over Z
    if fn in ("sqrt", "cbrt", "root", "hypot") and all_real_in:
        if fn == "hypot":
            x = args[0] ** 2 + args[1] ** 2; n = 2
        else:
            x = args[0]; n = {"sqrt": 2, "cbrt": 3}.get(fn) or int(args[1])
        if x > 0:
            if yv[0] != "real":
                return [], "type clause: real argument inside the real domain gave a complex result"
            m = dict(meta); m["part"] = "re"
            return [root_instance(cid + "_root", yv[1], x, n, eps, meta=m)], None
    zargs = [arg_cx(a) if not isinstance(a, int) else a for a in args]
    ref = REFS[fn](*zargs)
    want_real = all_real_in and real_domain(fn, [a for a in args])
    if want_real and not _is0(ref.im):
        raise AssertionError("oracle bug: real-domain reference for %s%r has a non-zero imaginary part" % (fn, args))
    if all_real_in:
        if want_real and yv[0] != "real":
            return [], "type clause: real argument inside the real domain gave a complex result"
        if not want_real and yv[0] != "complex":
            return [], "type clause: real argument outside the real domain gave a real result instead of the principal complex value"
    if yv[0] == "real":
        if not _is0(ref.im):
            return [], "type clause: complex-valued case returned a real number"
        m = dict(meta); m["part"] = "re"
        return [rel_instance(cid + "_re", yv[1], ref.re, eps, conds=ref.conds, params=params, meta=m)], None
    yre, yim = yv[1], yv[2]
    if fn in PER_PART:
        for part, yy, rr in (("re", yre, ref.re), ("im", yim, ref.im)):
            m = dict(meta); m["part"] = part
            insts.append(rel_instance("%s_%s" % (cid, part), yy, rr, eps, conds=ref.conds, params=params, meta=m))
    else:
        if _is0(ref.im): big, small_ = ref.re, ref.im
        elif _is0(ref.re): big, small_ = ref.im, ref.re
        else:
            big, small_ = (ref.re, ref.im) if abs(cert.approx(ref.re, 80)) >= abs(cert.approx(ref.im, 80)) else (ref.im, ref.re)
        for part, yy, rr in (("re", yre, ref.re), ("im", yim, ref.im)):
            m = dict(meta); m["part"] = part
            insts.append(rel_instance("%s_%s" % (cid, part), yy, rr, eps, scale=big, other_scales=[small_] if not _is0(small_) else [],
                                      conds=ref.conds, params=params, meta=m))
    if all_real_in and not want_real and yim != 0 and not _is0(ref.im):
        m = dict(meta); m["part"] = "im-sign"; m["clause"] = "principal branch: sign of the imaginary part"
        insts.append(sign_instance(cid + "_sgn", ref.im, ">0" if yim > 0 else "<0", params=params, meta=m))
    return insts, None


def do_call(ctx, fn, args, prec):
    f = get_callable(ctx, fn)
    margs = [a if isinstance(a, int) else mk_arg(ctx, a) for a in args]
    p0 = ctx.prec
    try:
        ctx.prec = prec
        return sweep.call_with_timeout(lambda: f(*margs), 60)
    finally:
        ctx.prec = p0


def generate(rng, tier_, n_calls, fns=None, only=None):
    from mpmath import mp
    insts, calls = [], {}
    stats = {"raised": [], "skipped_estimate": 0, "direct": []}
    direct = []
    fns = fns or FUNCS
    # stratified: every (function, regime) cell once, the cells that need a particular shape of argument to go wrong three times,
    # the rest of the budget at random by weight
    HARD = {"near1_in_long", "near1_in", "bigint", "kpi2", "c_int", "near1_base", "c_near_i", "c_cut", "pow2_offset_long"}
    plan = []
    for fn_ in fns:
        for tag_, w_, g_ in R[fn_]:
            plan += [(fn_, tag_, g_)] * (3 if tag_ in HARD else 1)
    rng.shuffle(plan)
    plan = plan[:n_calls]
    for i in range(n_calls):
        if i < len(plan):
            fn, tag, g = plan[i]
        else:
            fn = rng.choice(fns)
            regs = R[fn]
            tag, _, g = rng.choices(regs, weights=[w for _, w, _ in regs])[0]
        prec = pick_prec(rng, tier_)
        if tag == "bigint": prec = rng.choice([rng.randint(610, 720), 1000])     # the integer-argument branch of exp starts above 600 bits
        try:
            args = g(rng, prec)
        except Exception as ex:      # generator trouble is not the implementation's fault
            stats["skipped_estimate"] += 1; continue
        cid = "c%05d_%s" % (i, fn)
        call = {"fn": fn, "regime": tag, "prec": prec, "args": [enc_arg(a) for a in args]}
        try:
            y = do_call(mp, fn, args, prec)
        except sweep.CallTimeout as ex:
            stats["raised"].append({"fn": fn, "regime": tag, "prec": prec, "exc": "timeout 60 s"}); continue
        except Exception as ex:
            # the sampled arguments are finite, away from poles, and the reference value exists: raising is a failure
            stats["raised"].append({"fn": fn, "regime": tag, "prec": prec, "exc": repr(ex)[:100]})
            calls[cid] = call
            direct.append(("raised %s for a finite argument where the function is defined" % (repr(ex)[:80],), call)); continue
        if tag == "bigint":
            # exp of a large integer: an Interval certificate at these sizes does not finish inside the budget, so this regime is
            # decided on the search side only: two evaluations at +200 bits through branches that do not share the integer-argument
            # code (exp(n - 1/2) * exp(1/2) and exp(n/2 + 1/4)^2 / exp(1/2)) must agree with each other to p+100 bits and with the result
            # to 2^(4-p); a disagreement with the result is reported with the argument as the failing input
            c2 = mp.clone(); c2.prec = prec + 200
            xx = c2.mpf(args[0].numerator)
            r1 = c2.exp(xx - c2.mpf(0.5)) * c2.exp(c2.mpf(0.5))
            r2 = c2.exp(xx / 2 + c2.mpf(0.25)) ** 2 / c2.exp(c2.mpf(0.5))
            yy = c2.mpf(y)
            calls[cid] = call; call["result"] = [str(list(y._mpf_))[:200]]
            if abs(r1 - r2) <= abs(r1) * c2.ldexp(1, -(prec + 100)):
                stats.setdefault("bigint_oracle_checked", 0); stats["bigint_oracle_checked"] += 1
                if abs(yy - r1) > abs(r1) * c2.ldexp(1, 4 - prec):
                    direct.append(("exp(%d) at prec %d differs from two independent (prec+200)-bit evaluations by %.1f * 2^-p (relative)"
                                   % (args[0].numerator, prec, float(abs(yy - r1) / abs(r1) * c2.ldexp(1, prec))), call))
            continue
        yv = value_of(y)
        call["result"] = [str(v) if not isinstance(v, Fraction) else list(dyadic(v)) for v in yv[1:]]
        try:
            new, viol = build_instances(cid, fn, args, prec, yv, tag)
        except (cert.EstimateError, ZeroDivisionError, ValueError) as ex:
            stats["skipped_estimate"] += 1; continue
        calls[cid] = call
        if viol:
            direct.append((viol, call))
        insts += new
    return insts, calls, direct, stats


def run(rep, tier_, rng):
    load_known_b(rep)
    TIER[0] = tier_
    n_calls = 330 if tier_ == "quick" else 2200
    t0 = time.time()
    focus = [f for f in os.environ.get("VERIF_C12_FUNCS", "").split(",") if f in R] or None   # debugging aid: sample only these
    insts, calls, direct, stats = generate(rng, tier_, n_calls, fns=focus)
    tgen = time.time() - t0
    for viol, call in direct:
        c = dict(call); c["clause"] = "type/finite"
        rep.violation("C12 %s: %s (regime %s, prec %d)" % (call["fn"], viol, call["regime"], call["prec"]), c)
    params = {"sentence_timeout": 60 if tier_ == "quick" else 150, "single_timeout": 100 if tier_ == "quick" else 300}
    budget = 125 - tgen if tier_ == "quick" else 1150 - tgen
    regimes = {}
    for c in calls.values():
        k = "%s/%s" % (c["fn"], c["regime"]); regimes[k] = regimes.get(k, 0) + 1
    precs = {}
    for c in calls.values():
        precs[c["prec"]] = precs.get(c["prec"], 0) + 1
    run_and_report(rep, insts, calls, tag="C12_%s" % tier_, params=params, budget=max(30, budget),
                   rule="each evaluation = one call f(args) of the current /repo code at a sampled precision p; functions uniformly "
                        "from the %d-entry registry (%d function/regime cells), regime by weight (gen/tiny/huge/kpi2 = p'-bit neighbours of k*pi/2 with k<2^64/"
                        "near1 = 1+-2^-k/branch-cut sides/outside the real domain/complex), inputs exact dyadics incl. mantissas "
                        "longer than p; non-trivial = the lemma needed a real interval/vm_compute proof (not err=0 against a folded "
                        "constant); distinct = distinct lemma statements" % (len(FUNCS), sum(len(v) for v in R.values())),
                   assumptions=ASSUMPTIONS,
                   extra_cov={"functions_in_registry": len(FUNCS), "functions_hit": len({c["fn"] for c in calls.values()}),
                              "fn_regime_cells_hit": len(regimes), "precisions": {str(k): v for k, v in sorted(precs.items())},
                              "calls_raised": stats["raised"][:20], "calls_raised_count": len(stats["raised"]),
                              "skipped_unestimable": stats["skipped_estimate"], "type_or_finiteness_violations": len(direct),
                              "generation_wall_s": round(tgen, 1), "eps": "2^(4-p)",
                              "focus": focus or "all functions"})


def replay(rep, path):
    def rebuild(r):
        from mpmath import mp
        args = [dec_arg(a) for a in r["args"]]
        y = do_call(mp, r["fn"], args, r["prec"])
        cid = "replay_%s" % r["fn"]
        new, viol = build_instances(cid, r["fn"], args, r["prec"], value_of(y), r["regime"])
        call = {k: r[k] for k in ("fn", "regime", "prec", "args")}
        if viol:
            rep.violation("C12 %s: %s" % (r["fn"], viol), dict(call, clause="type/finite"))
        return new, {cid: call}
    replay_generic(rep, path, rebuild)
