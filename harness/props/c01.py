"""C01 — every real value has one canonical representation."""
from common import *
import corr, mpfcases, api, sweep
from props.enginea import run_engine_a
from props import c02

LEVEL = "proof"
FNS = [f for f in mpfcases.GENS if f not in ("bitcount", "trailing", "round_int")]
TAGS = {"C01"}


def parts(v):
    """all raw mpf tuples inside a public return value"""
    out = []
    if hasattr(v, "_mpf_"): out.append(tuple(v._mpf_))
    elif hasattr(v, "_mpc_"): out += [tuple(v._mpc_[0]), tuple(v._mpc_[1])]
    elif hasattr(v, "_mpi_"): out += [tuple(v._mpi_[0]), tuple(v._mpi_[1])]
    elif hasattr(v, "_mpci_"):
        for iv_ in v._mpci_: out += [tuple(iv_[0]), tuple(iv_[1])]
    elif isinstance(v, (list, tuple)):
        for x in v: out += parts(x)
    return out


def api_sweep(rep, tier_, rng):
    import mpmath
    from mpmath import mp, iv
    n_each = 3 if tier_ == "quick" else 25
    calls = 0; values = 0; errors = 0; bad = 0
    p0 = mp.prec
    try:
        for prec in ([53, 113] if tier_ == "quick" else [10, 53, 113, 400]):
            mp.prec = prec
            for name, args, thunk in sweep.iter_calls(rng, mp, n_each):
                calls += 1
                try:
                    v = sweep.call_with_timeout(thunk, 5)
                except (Exception, sweep.CallTimeout):
                    errors += 1; continue
                for t in parts(v):
                    values += 1
                    if not canonical(t):
                        bad += 1
                        rep.violation("public function %s returned a non-canonical value" % name,
                                      {"fn": name, "args": [repr(a) for a in args], "prec": prec, "value": list(t)})
            # interval endpoints
            iv.prec = prec
            for _ in range(20 * n_each):
                a = rng.uniform(-5, 5); b = a + rng.choice([0, 1e-9, 0.5, 3])
                x = iv.mpf([a, b]); y = iv.mpf([rng.uniform(0.5, 2), rng.uniform(2, 3)])
                for f in (lambda: x + y, lambda: x * y, lambda: x / y, lambda: iv.exp(x), lambda: iv.sin(x), lambda: iv.sqrt(y),
                          lambda: x ** 3, lambda: iv.mpc(x, y) * iv.mpc(y, x), lambda: iv.log(y), lambda: iv.cos(x)):
                    calls += 1
                    try:
                        v = f()
                    except Exception:
                        errors += 1; continue
                    for t in parts(v):
                        values += 1
                        if not canonical(t):
                            rep.violation("interval operation returned a non-canonical endpoint",
                                          {"fn": "iv", "x": repr(x), "y": repr(y), "prec": prec, "value": list(t)})
    finally:
        mp.prec = p0
    return {"api_sweep_calls": calls, "api_sweep_values_checked": values, "api_sweep_documented_errors": errors,
            "api_sweep_note": "exploration: canonicity of values returned by un-modelled routines is observed, not proved"}


def make(rng, fn, n):
    return c02.make(rng, fn, n)


def run(rep, tier_, rng):
    run_engine_a(rep, "C01", tier_, rng, FNS + ["API_OPS", "API_F"], TAGS, n_quick=250, n_thorough=4000, extra=api_sweep, make=make)


replay = c02.replay
