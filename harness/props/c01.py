"""C01 — every real value has one canonical representation."""
from common import *
import corr, mpfcases, api, sweep
from props.enginea import run_engine_a
from props import c02

LEVEL = "proof"
import cxcases
FNS = [f for f in mpfcases.GENS if f not in ("bitcount", "trailing", "round_int", "isqrt", "sqrtrem")] + \
      [f for f in cxcases.GENS if f.startswith("mpc_") and f != "mpc_hash"] + ["mpi_add", "mpi_sub", "mpi_mul", "mpi_div", "mpi_abs", "mpi_square", "mpi_pow_int", "mpi_sqrt"]
TAGS = {"C01"}


def parts(v):
    """all raw mpf tuples inside a public return value"""
    out = []
    if hasattr(v, "_mpf_"): out.append(tuple(v._mpf_))
    elif hasattr(v, "_mpc_"): out += [tuple(v._mpc_[0]), tuple(v._mpc_[1])]
    elif hasattr(v, "_mpi_"): out += [tuple(v._mpi_[0]), tuple(v._mpi_[1])]
    elif hasattr(v, "_mpci_"):
        for iv_ in v._mpci_: out += [tuple(iv_[0]), tuple(iv_[1])]
    elif isinstance(v, (list, tuple)):
        for x in v: out += parts(x)
    return out


def api_sweep(rep, tier_, rng):
    import mpmath
    from mpmath import mp, iv
    n_each = 3 if tier_ == "quick" else 25
    calls = 0; values = 0; errors = 0; bad = 0
    p0 = mp.prec
    try:
        for prec in ([53, 113] if tier_ == "quick" else [10, 53, 113, 400]):
            mp.prec = prec
            for name, args, thunk in sweep.iter_calls(rng, mp, n_each):
                calls += 1
                try:
                    v = sweep.call_with_timeout(thunk, 5)
                except (Exception, sweep.CallTimeout):
                    errors += 1; continue
                for t in parts(v):
                    values += 1
                    if not canonical(t):
                        bad += 1
                        rep.violation("public function %s returned a non-canonical value" % name,
                                      {"fn": name, "args": [repr(a) for a in args], "prec": prec, "value": list(t)})
            # interval endpoints
            iv.prec = prec
            for _ in range(20 * n_each):
                a = rng.uniform(-5, 5); b = a + rng.choice([0, 1e-9, 0.5, 3])
                x = iv.mpf([a, b]); y = iv.mpf([rng.uniform(0.5, 2), rng.uniform(2, 3)])
                for f in (lambda: x + y, lambda: x * y, lambda: x / y, lambda: iv.exp(x), lambda: iv.sin(x), lambda: iv.sqrt(y),
                          lambda: x ** 3, lambda: iv.mpc(x, y) * iv.mpc(y, x), lambda: iv.log(y), lambda: iv.cos(x)):
                    calls += 1
                    try:
                        v = f()
                    except Exception:
                        errors += 1; continue
                    for t in parts(v):
                        values += 1
                        if not canonical(t):
                            rep.violation("interval operation returned a non-canonical endpoint",
                                          {"fn": "iv", "x": repr(x), "y": repr(y), "prec": prec, "value": list(t)})
        # constructors from raw tuples / (man, exp) pairs with even mantissas, and pickle/copy of every kind of value
        import pickle, copy, gen
        for _ in range(150 * n_each):
            prec = rng.choice([5, 24, 53, 100]); mp.prec = prec
            man = gen.mant(rng, rng.randint(1, 130)) << rng.choice([0, 0, 1, 2, 5, 8, 16])
            e = rng.randint(-50, 50); sg = rng.randrange(2)
            forms = [("mpf((man,exp))", lambda: mp.mpf(((-man if sg else man), e))),
                     ("mpf((sign,man,exp,bc))", lambda: mp.mpf((sg, man, e, man.bit_length()))),
                     ("mpc(tuple parts)", lambda: mp.mpc(mp.mpf((sg, man, e, man.bit_length())), mp.mpf((man, e)))),
                     ("ldexp", lambda: mp.ldexp(mp.mpf(man), e)), ("mpf(int)", lambda: mp.mpf(-man if sg else man))]
            for nm, f in forms:
                calls += 1
                v = f()
                for t in parts(v):
                    values += 1
                    if not canonical(t):
                        rep.violation("%s produced a non-canonical value" % nm, {"fn": nm, "man": hexz(man), "exp": e, "prec": prec, "value": list(t)})
                w = mp.mpf(-man if sg else man) * mp.mpf(2) ** e if prec >= man.bit_length() else None
                if nm.startswith("mpf((") and w is not None and not (v == w and hash(v) == hash(w)):
                    rep.violation("%s not equal/hash-equal to the same value built arithmetically" % nm, {"fn": nm, "man": hexz(man), "exp": e, "prec": prec})
        for v in (mp.inf, mp.ninf, mp.nan, mp.mpf(0), mp.mpf(3) / 7, mp.mpc(mp.inf, 1), mp.mpc(0, mp.ninf), mp.mpc(mp.nan, mp.nan)):
            for mk in (lambda o: pickle.loads(pickle.dumps(o)), lambda o: pickle.loads(pickle.dumps(o, 0)), copy.copy, copy.deepcopy):
                calls += 1
                w = mk(v)
                for t in parts(w):
                    values += 1
                    if not canonical(t):
                        rep.violation("pickle/copy produced a non-canonical value", {"fn": "pickle/copy", "value": list(t), "orig": repr(v)})
    finally:
        mp.prec = p0
    return {"api_sweep_calls": calls, "api_sweep_values_checked": values, "api_sweep_documented_errors": errors,
            "api_sweep_note": "exploration: canonicity of values returned by un-modelled routines is observed, not proved"}


def make(rng, fn, n):
    import allcases
    return allcases.make(rng, fn, n)


def run(rep, tier_, rng):
    import allcases
    run_engine_a(rep, "C01", tier_, rng, FNS + ["API_OPS", "API_F"], TAGS, n_quick=200, n_thorough=3000, extra=api_sweep, make=make, spec=allcases.spec)


replay = c02.replay
