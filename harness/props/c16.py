"""C16 — interval comparisons are sound three-valued predicates."""
from fractions import Fraction
from common import *
import allcases, cxcases
from props.enginea import run_engine_a

LEVEL = "proof"
FNS = ["mpi_lt", "mpi_le", "mpi_gt", "mpi_ge", "mpi_eq"]
TAGS = {"IVCMP"}


def api_level(rep, tier_, rng):
    import mpmath
    from mpmath import iv
    n = 400 if tier_ == "quick" else 8000
    checked = 0
    inf = float("inf")
    for _ in range(n):
        grid = [-inf, -3, -1.5, -1, 0, 0.5, 1, 2, 2.5, inf]
        a, b = sorted(rng.sample(grid, 2)) if rng.random() < 0.8 else (lambda v: (v, v))(rng.choice(grid[1:-1]))
        c, d = sorted(rng.sample(grid, 2)) if rng.random() < 0.8 else (lambda v: (v, v))(rng.choice(grid[1:-1]))
        x = iv.mpf([a, b]); y = iv.mpf([c, d])
        k = rng.randrange(3)
        yy = y if k == 0 else (c if (k == 1 and c == d and abs(c) != inf) else y)
        if not hasattr(yy, "_mpi_"):
            c = d = yy
        for nm, got, all_true, all_false in (
                ("<", x < yy, b < c, a >= d), ("<=", x <= yy, b <= c, a > d),
                (">", x > yy, a > d, b <= c), (">=", x >= yy, a >= d, b < c)):
            checked += 1
            want = True if all_true else (False if all_false else None)
            if got is not want and not (a == b == c == d):
                rep.violation("iv comparison %s returned %r, expected %r" % (nm, got, want),
                              {"fn": "iv " + nm, "x": [a, b], "y": [c, d]})
        checked += 2
        if (x == y) != ((a, b) == (c, d)) or (x != y) != ((a, b) != (c, d)):
            rep.violation("iv ==/!= does not compare endpoints exactly", {"fn": "iv ==", "x": [a, b], "y": [c, d]})
        # `in`: left operand lies inside the right interval
        want = (c <= a and b <= d)
        got = x in y
        checked += 1
        if bool(got) != want:
            rep.violation("iv `in` returned %r, expected %r" % (got, want), {"fn": "iv in", "x": [a, b], "y": [c, d]})
        v = rng.choice(grid[1:-1])
        checked += 1
        if (v in y) != (c <= v <= d):
            rep.violation("number `in` interval wrong", {"fn": "iv in", "x": v, "y": [c, d]})
    # float / int operands at low interval precision: the operand must be converted to an enclosing interval,
    # so the answer must be sound for the exact value of the float
    p0 = iv.prec
    try:
        for _ in range(n // 2):
            iv.prec = rng.choice([5, 10, 20, 30])
            base = rng.randint(-8, 8)
            f = base + rng.choice([1, -1]) * 2.0 ** -rng.randint(iv.prec - 2, 50)
            y = iv.mpf([min(base, base + rng.randint(0, 3)), base + rng.randint(0, 3)])
            c, d = Fraction(mpf_value(y._mpi_[0]) if y._mpi_[0][1] else 0), Fraction(mpf_value(y._mpi_[1]) if y._mpi_[1][1] else 0)
            fx = Fraction(f)
            for nm, got, truth in (("<", f < y, fx < c), ("<=", f <= y, fx <= c), (">", f > y, fx > d), (">=", f >= y, fx >= d)):
                checked += 1
                if got is True and not truth:
                    rep.violation("float %s interval returned True although it fails for the exact value" % nm,
                                  {"fn": "iv float " + nm, "x": repr(f), "y": [str(c), str(d)], "prec": iv.prec})
            for nm, got, false_truth in (("<", f < y, fx >= d), ("<=", f <= y, fx > d), (">", f > y, fx <= c), (">=", f >= y, fx < c)):
                if got is False and not false_truth:
                    rep.violation("float %s interval returned False although it holds for some member" % nm,
                                  {"fn": "iv float " + nm, "x": repr(f), "y": [str(c), str(d)], "prec": iv.prec})
            checked += 1
            if (f in y) and not (c <= fx <= d):
                rep.violation("float `in` interval returned True for a value outside", {"fn": "iv float in", "x": repr(f), "y": [str(c), str(d)], "prec": iv.prec})
    finally:
        iv.prec = p0
    return {"api_level_checks": checked, "api_level": "iv.mpf < <= > >= == != and `in` on touching/nested/infinite/point intervals and numbers"}


def run(rep, tier_, rng):
    run_engine_a(rep, "C16", tier_, rng, FNS, TAGS, n_quick=1500, n_thorough=20000, extra=api_level,
                 make=allcases.make, spec=allcases.spec)


def replay(rep, path):
    from props import c02
    c02.replay(rep, path)
