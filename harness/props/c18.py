"""C18 -- gamma family accurate to 2^(8-p) relative (in modulus); rgamma exactly 0 at the poles, gamma raises there.
Engine B, sub-domain certificates (the installed Coq libraries define no Gamma function, so the universal statement
cannot be stated; see DESIGN.md "C18-C23").

CERTIFIED per instance (one Coq lemma `Rabs (y - ref) <= 2^(8-p) * Rabs ref` per call; `interval` for references with
sqrt PI / PI / ln, `vm_compute` over Z for rational references, factorials of long arguments evaluated inside Coq by
META.Meta.zfact which is proved equal to the factorial):
  gamma, rgamma, loggamma, factorial at positive integers (up to ~1500 quick / 4000 thorough: beyond the factorial cache
  and the exact-ifac switch, so Taylor/Stirling branches are exercised) and at half-integers n+1/2, n in [-40, 600]
  (Gamma(n+1/2) = (2n-1)!!/2^n sqrt PI; negative: (-2)^m/(2m-1)!! sqrt PI); loggamma at negative half-integers with the
  imaginary part -PI*ceil(-x) (value of the recurrence loggamma(x) = loggamma(x+1) - log(x) with the principal log);
  fac2 at integers >= -1 and negative odd integers; beta, binomial, rf, ff, gammaprod at integer / half-integer arguments
  (rational * sqrt(PI)^k), rf/ff with integer n >= 0 and ARBITRARY dyadic x (exact product); superfac, hyperfac, barnesg
  at small integers (exact integers); harmonic(n) (exact rational), harmonic(n-1/2) (= 2*sum 1/(2k-1) - 2 ln 2);
  polygamma(m, n) and polygamma(m, n+1/2) for ODD m (closed form through zeta(m+1) = |B|(2 PI)^(m+1)/(2 (m+1)!));
  poles: rgamma(-n) == 0 exactly, gamma/factorial/loggamma at a pole raise (decision table).
METAMORPHIC only (Coq-proved soundness lemmas in /verif/coq_meta/Meta.v; a certified residual above the bound proves that
one of the named calls violates the tolerance, a residual within the bound proves nothing and is counted `consistent`):
  gamma(x+1) = x gamma(x), rgamma(x) = x rgamma(x+1), factorial(x+1) = (x+1) factorial(x), gamma(x) gamma(1-x) = PI/sin(PI x),
  gamma(x) gamma(x+1/2) = 2^(1-2x) sqrt(PI) gamma(2x), loggamma(x+1) - loggamma(x) = ln x (x > 0),
  digamma(x+k) - digamma(x) = sum 1/(x+j), digamma(n+1/2) - digamma(m) = rational - 2 ln 2,
  polygamma(m, x+1) - polygamma(m, x) = (-1)^m m!/x^(m+1), beta(x+1, y) (x+y) = x beta(x, y), at random dyadic x.
KNOWN FINDING (known_findings_B3.json): superfac/hyperfac/barnesg lose relative accuracy above ~650 bits (2^-965 at p = 1000, 2^-2827 at
p = 3000 for superfac(3) = 12): sampled there only in the thorough tier, in kinds with their own regime.
NOT DECIDED: any single value at a non-(half-)integer argument, complex arguments, digamma/polygamma(even m) values
themselves (no formal Euler constant / zeta(odd)), barnesg/superfac/hyperfac off the integers, fac2 off the integers,
behaviour of beta/binomial/gammaprod at cancelling poles."""
import math
from fractions import Fraction
from common import *
import cert
from cert import Const, Cx, ZERO, ONE, HALF, PI, lift, sqrt, ln, exp, sin, powz, Instance
from specb import *

LEVEL = "exploration"

PRECS_QUICK = [15, 53, 113, 400]
PRECS_THOROUGH = [15, 53, 113, 400, 1000, 3000]
TIER = ["quick"]

NOT_DECIDED = [
    "gamma/rgamma/loggamma/factorial/fac2/beta/binomial/gammaprod/digamma/polygamma/harmonic/barnesg/superfac/hyperfac values at "
    "arguments that are not integers or half-integers (only metamorphic residuals there), and all complex arguments",
    "digamma(x) and polygamma(even m, x) values themselves (Euler's constant and zeta(odd) have no formal definition in the "
    "installed libraries): only differences are checked (metamorphic)",
    "beta/binomial/gammaprod at arguments where poles cancel (limits)",
]

ASSUMPTIONS = [
    "Closed forms used as references (textbook identities, not proved in Coq): Gamma(n) = (n-1)!; Gamma(n+1/2) = (2n-1)!!/2^n sqrt(PI); "
    "Gamma(1/2-m) = (-2)^m/(2m-1)!! sqrt(PI); x! = Gamma(x+1); (2k)!! = 2^k k!, (2k+1)!! product of odd numbers, "
    "(-2k-1)!! = (-1)^k/(2k-1)!!; beta(a,b) = Gamma(a)Gamma(b)/Gamma(a+b); binomial(n,k) = Gamma(n+1)/(Gamma(k+1)Gamma(n-k+1)); "
    "rf(x,n) = x(x+1)...(x+n-1), ff(x,n) = x(x-1)...(x-n+1) for integer n >= 0 (any x), = Gamma quotients otherwise; gammaprod = "
    "product/quotient of Gammas; superfac(n) = prod k!, hyperfac(n) = prod k^k, barnesg(n) = superfac(n-2); harmonic(n) = sum 1/k; "
    "harmonic(n-1/2) = 2 sum_{k<=n} 1/(2k-1) - 2 ln 2; polygamma(m,1) = (-1)^(m+1) m! zeta(m+1), polygamma(m,1/2) = "
    "(-1)^(m+1) m! (2^(m+1)-1) zeta(m+1), zeta(2j) = |B_2j| (2 PI)^(2j) / (2 (2j)!), polygamma(m,x+1) = polygamma(m,x) + (-1)^m m!/x^(m+1).",
    "loggamma on the negative real axis (branch cut): the reference is ln|Gamma(x)| - i*PI*ceil(-x), i.e. the recurrence "
    "loggamma(x) = loggamma(x+1) - log(x) with the principal log (continuity from above), which is what mpmath documents.",
    "Relative error is measured in modulus: |y - ref| <= 2^(8-p) |ref| (complex values: on the squares).",
    "Metamorphic certificates: the functional equations (recurrence, reflection, duplication, digamma/polygamma recurrences, "
    "beta recurrence) are assumed to hold for the true functions AT THE SAMPLED POINT; the implication 'residual > bound => one of the "
    "calls is outside the tolerance' is proved in Coq (Meta.v: gamma_rec_violation, lin2_violation, lin3_violation, prod2_violation, "
    "prod3_violation).",
    "Inputs are exact (ints or dyadic rationals converted without rounding); only the sampled instances are certified "
    "(level exploration, certified oracle).",
]


# ------------------------------------------------------------------------------------------------ closed forms

def gcoef(t):
    """Gamma(t) = c * sqrt(PI)^h for t in (1/2)Z, not a pole: -> (c: Fraction, h in {0,1})"""
    t = Fraction(t)
    if t.denominator == 1:
        n = int(t)
        if n <= 0: raise Skip("pole")
        return Fraction(math.factorial(n - 1)), 0
    if t.denominator != 2: raise Skip("not a half-integer")
    n = int(t - Fraction(1, 2))
    if n >= 0:
        return Fraction(fac2(2 * n - 1), 2 ** n), 1
    m = -n
    return Fraction((-2) ** m, fac2(2 * m - 1)), 1


def pi_half_power(c, k):
    """c * sqrt(PI)^k as a real term (k any integer)"""
    c = Fraction(c)
    if k == 0: return HC(c)
    t = powz(PI, k // 2) if k // 2 else ONE
    if k % 2: t = t * sqrt(PI)
    return HC(c) * t


def gquot(num, den):
    """prod Gamma(a in num) / prod Gamma(b in den) for (half-)integers without poles"""
    c, k = Fraction(1), 0
    for a in num:
        ca, h = gcoef(a); c *= ca; k += h
    for b in den:
        cb, h = gcoef(b); c /= cb; k -= h
    return pi_half_power(c, k)


def zeta_even(j2):
    """zeta(j2) for even j2 >= 2: |B_j2| (2 PI)^j2 / (2 j2!)  -> (rational coefficient, power of PI)"""
    return abs(bernoulli(j2)) * Fraction(2) ** j2 / (2 * math.factorial(j2)), j2


def polygamma_odd(m, t):
    """psi^(m)(t), m odd, t positive integer or half-integer: c*PI^(m+1) - m! * sum"""
    t = Fraction(t)
    zc, zp = zeta_even(m + 1)
    mf = math.factorial(m)
    if t.denominator == 1:
        n = int(t)
        base = mf * zc                                  # (-1)^(m+1) = +1 for odd m
        s = sum(Fraction(1, k ** (m + 1)) for k in range(1, n))
    else:
        n = int(t - Fraction(1, 2))
        base = mf * (2 ** (m + 1) - 1) * zc
        s = sum(Fraction(1, (Fraction(2 * k + 1, 2)) ** (m + 1)) for k in range(0, n))
    return HC(base) * powz(PI, zp) - HC(mf * s)


# ------------------------------------------------------------------------------------------------ generators

def g_posint(rng, p):
    u = rng.random()
    if u < 0.3: return rng.randint(1, 25)
    if u < 0.6: return rng.randint(26, 300)
    big = 1500 if TIER[0] == "quick" else 4000
    if u < 0.9: return rng.randint(301, 1000)
    return rng.randint(1001, big)


def g_logint(rng, p):
    n = g_posint(rng, p)
    return max(3, n)          # loggamma(1) = loggamma(2) = 0: relative error undefined


def g_halfn(rng, p):
    u = rng.random()
    if u < 0.25: return rng.randint(-40, -1)
    if u < 0.6: return rng.randint(0, 40)
    if u < 0.9: return rng.randint(41, 200)
    return rng.randint(201, 600)


def half(n):
    return Fraction(2 * n + 1, 2)


def g_halfint_or_int(rng, lo, hi):
    """positive integer or half-integer in [lo, hi]"""
    return Fraction(rng.randint(2 * lo, 2 * hi), 2)


def g_x(rng, p, lo=-6, hi=6, bits=None, avoid_int=True):
    """random dyadic, not an integer or half-integer"""
    while True:
        b = bits or rng.choice([3, 8, 20, min(p, 60)])
        x = rand_dyadic(rng, lo, hi, b)
        if x.denominator > 2 and abs(x - round(x)) > Fraction(1, 2 ** 12):
            return x


# ------------------------------------------------------------------------------------------------ metamorphic builders

def _reals(yvs):
    out = []
    for yv in yvs:
        if yv[0] == "complex" and yv[2] == 0: yv = ("real", yv[1])
        if yv[0] != "real": raise Skip("non-real value in a real metamorphic check")
        out.append(yv[1])
    return out


def b_gamma_rec(cid, k, args, p, yvs, eps, meta, params):
    x, = args; y1, y2 = _reals(yvs)
    return [meta_gamma_rec(cid + "_rec", x, y1, y2, eps, p, meta=meta)]


def b_rgamma_rec(cid, k, args, p, yvs, eps, meta, params):
    x, = args; y1, y2 = _reals(yvs)              # rgamma(x) - x*rgamma(x+1) = 0
    return [meta_lin(cid + "_rec", [1, -x], [y1, y2], eps, p, meta=meta)]


def b_fact_rec(cid, k, args, p, yvs, eps, meta, params):
    x, = args; y1, y2 = _reals(yvs)              # (x+1)! - (x+1) x! = 0
    return [meta_lin(cid + "_rec", [1, -(x + 1)], [y2, y1], eps, p, meta=meta)]


def b_reflection(cid, k, args, p, yvs, eps, meta, params):
    x, = args; y1, y2 = _reals(yvs)
    X = Const(x)
    c = PI / sin(PI * X)
    xs = X.coq()
    return [meta_prod2(cid + "_refl", c, [y1, y2], eps, p, gtext=("forall G : R -> R", "G %s" % xs, "G (1 - %s)" % xs), meta=meta)]


def b_reflection_pole(cid, k, args, p, yvs, eps, meta, params):
    """reflection next to a pole: sin(pi x) must be resolved far below the working precision, so the certificate is computed with as
    many bits as the offset from the pole needs (the tolerance stays that of the working precision)"""
    x, = args; y1, y2 = _reals(yvs)
    X = Const(x)
    c = PI / sin(PI * X)
    xs = X.coq()
    pe = max(p, Fraction(x).denominator.bit_length()) + 40
    return [meta_prod2(cid + "_refl", c, [y1, y2], eps, pe, gtext=("forall G : R -> R", "G %s" % xs, "G (1 - %s)" % xs), meta=meta)]


def b_duplication(cid, k, args, p, yvs, eps, meta, params):
    x, = args; y1, y2, y3 = _reals(yvs)
    X = Const(x)
    c = exp((1 - 2 * X) * ln(Const(2))) * sqrt(PI)
    xs = X.coq()
    return [meta_prod3(cid + "_dup", c, [y1, y2, y3], eps, p,
                       gtext=("forall G : R -> R", "G %s" % xs, "G (%s + / 2)" % xs, "G (2 * %s)" % xs), meta=meta)]


def b_loggamma_rec(cid, k, args, p, yvs, eps, meta, params):
    x, = args; y1, y2 = _reals(yvs)              # loggamma(x+1) - loggamma(x) = ln x
    return [meta_lin(cid + "_rec", [1, -1], [y2, y1], eps, p, c_term=ln(Const(x)), meta=meta)]


def b_digamma_diff(cid, k, args, p, yvs, eps, meta, params):
    x, kk = args; y1, y2 = _reals(yvs)
    c = sum(Fraction(1) / (x + j) for j in range(kk))
    return [meta_lin(cid + "_diff", [1, -1], [y2, y1], eps, p, c_term=Const(c), meta=meta)]


def b_mod_inverse(cid, k, args, p, yvs, eps, meta, params):
    """|gamma(z)|^2 * |rgamma(z)|^2 = 1 for a complex z (squared moduli formed exactly from the returned parts; each is within about
    2*eps of the true squared modulus, so the product lemma is used with 3*eps)"""
    sq = []
    for yv in yvs:
        re_, im_ = (yv[1], yv[2]) if yv[0] == "complex" else (yv[1], Fraction(0))
        sq.append(Fraction(re_) ** 2 + Fraction(im_) ** 2)
    return [meta_prod2(cid + "_inv", Const(1), sq, 3 * Fraction(eps), p, meta=meta)]


def g_near_negaxis(rng, p):
    """complex -n + x + i*b hugging the negative real axis: |b| far below the working precision"""
    re_ = -Fraction(rng.randint(1, 30)) + Fraction(rng.randint(1, 63), 64)
    b = Fraction(rng.choice([1, -1]) * (2 * rng.getrandbits(8) + 1), 2 ** (p + rng.choice([20, 60, 200])))
    return (re_, b)


def b_digamma_reflection(cid, k, args, p, yvs, eps, meta, params):
    x, = args; y1, y2 = _reals(yvs)             # psi(1-x) - psi(x) = pi cos(pi x) / sin(pi x)
    X = Const(x)
    return [meta_lin(cid + "_refl", [1, -1], [y2, y1], eps, p, c_term=PI * cert.cos(PI * X) / sin(PI * X), meta=meta)]


def g_near_negint(rng, p):
    """-n + d with an offset d whose mantissa does not fit the working precision next to the pole (a number built at a higher
    precision than the one the function is evaluated at)"""
    n = rng.randint(0, 40)
    if rng.random() < 0.6:
        # offset far below the working precision: -n +- 2^-(p+j)
        return -Fraction(n) + rng.choice([1, -1]) * Fraction(2 * rng.getrandbits(6) + 1, 2 ** (p + rng.choice([20, 40, 90, 200])))
    k = rng.randint(3, 30)
    d = Fraction(rng.getrandbits(p + rng.randint(8, 40)) | 1, 2 ** (p + 60 + k))
    return -Fraction(n) + rng.choice([1, -1]) * (Fraction(1, 2 ** k) + d)


def b_digamma_half(cid, k, args, p, yvs, eps, meta, params):
    n, m = args; y1, y2 = _reals(yvs)           # psi(n+1/2) - psi(m) = 2 sum_{k<=n} 1/(2k-1) - 2 ln 2 - H_{m-1}
    c = 2 * sum(Fraction(1, 2 * j - 1) for j in range(1, n + 1)) - sum(Fraction(1, j) for j in range(1, m))
    return [meta_lin(cid + "_diff", [1, -1], [y1, y2], eps, p, c_term=Const(c) - 2 * ln(Const(2)), meta=meta)]


def b_polygamma_diff(cid, k, args, p, yvs, eps, meta, params):
    m, x = args; y1, y2 = _reals(yvs)           # psi_m(x+1) - psi_m(x) = (-1)^m m! / x^(m+1)
    c = Fraction((-1) ** m * math.factorial(m)) / x ** (m + 1)
    return [meta_lin(cid + "_diff", [1, -1], [y2, y1], eps, p, c_term=Const(c), meta=meta)]


def b_beta_rec(cid, k, args, p, yvs, eps, meta, params):
    x, y = args; b0, b1 = _reals(yvs)           # (x+y) beta(x+1,y) - x beta(x,y) = 0
    return [meta_lin(cid + "_rec", [x + y, -x], [b1, b0], eps, p, meta=meta)]


# ------------------------------------------------------------------------------------------------ registry

def qfact(n):
    return QRef(ZT.fact(n), 1)


def r_loggamma_half(n):
    c, h = gcoef(half(n))
    re_ = ln(HC(abs(c))) + ln(PI) * HALF
    if n >= 0:
        return re_
    return Cx(re_, -(PI * (-n)))        # x = 1/2 - m, ceil(-x) = m


def r_fac2(n):
    if n >= 0:
        if n % 2 == 0:
            k = n // 2
            return QRef(ZT.fact(k) * ZT.of(2) ** k if k else 1, 1)
        return QRef(fac2(n), 1)
    if n == -1: return Fraction(1)
    k = (-n - 1) // 2                     # n = -(2k+1)
    return Fraction((-1) ** k, fac2(2 * k - 1))


def g_fac2(rng, p):
    u = rng.random()
    if u < 0.15: return -(2 * rng.randint(0, 15) + 1)
    if u < 0.6: return rng.randint(0, 60)
    return rng.randint(61, 1200)


def r_beta(a, b):
    return gquot([a, b], [a + b])


def g_beta(rng, p):
    return [g_halfint_or_int(rng, 1, 40) if rng.random() < .8 else g_halfint_or_int(rng, 40, 300) for _ in range(2)]


def r_binomial(n, k):
    n, k = Fraction(n), Fraction(k)
    if n.denominator == 1 and k.denominator == 1:
        return QRef(math.comb(int(n), int(k)), 1)
    return gquot([n + 1], [k + 1, n - k + 1])


def g_binomial(rng, p):
    u = rng.random()
    if u < 0.4:
        n = rng.randint(1, 60); return [Fraction(n), Fraction(rng.randint(0, n))]
    if u < 0.6:
        n = rng.randint(100, 3000); return [Fraction(n), Fraction(rng.randint(0, n))]
    while True:
        n = g_halfint_or_int(rng, 1, 60); k = g_halfint_or_int(rng, 0, 60)
        if n.denominator == 1 and k.denominator == 1: continue
        d = n - k + 1
        if k <= n + 1 and not (d.denominator == 1 and d <= 0):
            return [n, k]


def r_rf(x, n):
    n = Fraction(n)
    if n.denominator == 1:
        r = Fraction(1)
        for j in range(int(n)): r *= (x + j)
        return r
    return gquot([x + n], [x])


def r_ff(x, n):
    n = Fraction(n)
    if n.denominator == 1:
        r = Fraction(1)
        for j in range(int(n)): r *= (x - j)
        return r
    return gquot([x + 1], [x - n + 1])


def g_rf(rng, p):
    if rng.random() < 0.7:
        return [g_x(rng, p, -20, 20), Fraction(rng.randint(1, 30))]
    return [g_halfint_or_int(rng, 1, 30), Fraction(2 * rng.randint(0, 20) + 1, 2)]


def g_ff(rng, p):
    if rng.random() < 0.7:
        return [g_x(rng, p, -20, 20), Fraction(rng.randint(1, 30))]
    x = g_halfint_or_int(rng, 12, 40)
    return [x, Fraction(2 * rng.randint(0, 10) + 1, 2)]


def g_gammaprod(rng, p):
    na, nb = rng.randint(1, 3), rng.randint(1, 3)
    return [tuple(g_halfint_or_int(rng, 1, 25) for _ in range(na)), tuple(g_halfint_or_int(rng, 1, 25) for _ in range(nb))]


def superfac(n):
    r = 1
    for k in range(1, n + 1): r *= math.factorial(k)
    return r


def hyperfac(n):
    r = 1
    for k in range(1, n + 1): r *= k ** k
    return r


def r_harmonic_half(n):
    """H_{n-1/2}, n >= 0"""
    return HC(2 * sum(Fraction(1, 2 * k - 1) for k in range(1, n + 1))) - 2 * ln(Const(2))


def harmonic_q(n):
    return sum(Fraction(1, k) for k in range(1, n + 1))


def Mq(ctx, fr):
    fr = Fraction(fr)
    return int(fr) if fr.denominator == 1 else M(ctx, fr)


K = []


def reg(*a, **kw):
    K.append(Kind(*a, **kw))


reg("gamma_int", "gamma", lambda c, n: c.gamma(n), lambda n: qfact(n - 1), g_posint, w=2.0, regime="integer")
reg("rgamma_int", "rgamma", lambda c, n: c.rgamma(n), lambda n: QRef(1, ZT.fact(n - 1)), g_posint, w=1.2, regime="integer")
reg("loggamma_int", "loggamma", lambda c, n: c.loggamma(n), lambda n: ln(HC(math.factorial(n - 1))), g_logint, w=1.5, regime="integer")
reg("factorial_int", "factorial", lambda c, n: c.factorial(n), lambda n: qfact(n), lambda rng, p: g_posint(rng, p) - 1, w=1.2, regime="integer")
reg("gamma_half", "gamma", lambda c, n: c.gamma(M(c, half(n))), lambda n: gquot([half(n)], []), lambda rng, p: [g_halfn(rng, p)], w=2.0, regime="half-integer")
reg("rgamma_half", "rgamma", lambda c, n: c.rgamma(M(c, half(n))), lambda n: gquot([], [half(n)]), lambda rng, p: [g_halfn(rng, p)], w=1.2, regime="half-integer")
reg("loggamma_half", "loggamma", lambda c, n: c.loggamma(M(c, half(n))), r_loggamma_half, lambda rng, p: [g_halfn(rng, p)], w=1.5, regime="half-integer")
reg("factorial_half", "factorial", lambda c, n: c.factorial(M(c, half(n))), lambda n: gquot([half(n) + 1], []), lambda rng, p: [g_halfn(rng, p)], w=1.0, regime="half-integer")
reg("fac2_int", "fac2", lambda c, n: c.fac2(n), r_fac2, lambda rng, p: [g_fac2(rng, p)], w=1.2, regime="integer")
reg("beta", "beta", lambda c, a, b: c.beta(Mq(c, a), Mq(c, b)), r_beta, g_beta, w=1.5, regime="half-integer")
reg("binomial", "binomial", lambda c, n, k: c.binomial(Mq(c, n), Mq(c, k)), r_binomial, g_binomial, w=1.5, regime="half-integer")
reg("rf", "rf", lambda c, x, n: c.rf(Mq(c, x), Mq(c, n)), r_rf, g_rf, w=1.2, regime="pochhammer")
reg("ff", "ff", lambda c, x, n: c.ff(Mq(c, x), Mq(c, n)), r_ff, g_ff, w=1.2, regime="pochhammer")
reg("gammaprod", "gammaprod", lambda c, a, b: c.gammaprod([Mq(c, t) for t in a], [Mq(c, t) for t in b]),
    lambda a, b: gquot(list(a), list(b)), g_gammaprod, w=1.2, regime="half-integer")
reg("superfac", "superfac", lambda c, n: c.superfac(n), lambda n: QRef(superfac(n), 1), lambda rng, p: [rng.randint(0, 40)], w=0.7, regime="integer", maxprec=400)
reg("superfac_hp", "superfac", lambda c, n: c.superfac(n), lambda n: QRef(superfac(n), 1), lambda rng, p: [rng.randint(0, 40)], w=0.5, regime="integer, prec >= 1000", precs=[1000, 3000], tiers=("thorough",))
reg("hyperfac", "hyperfac", lambda c, n: c.hyperfac(n), lambda n: QRef(hyperfac(n), 1), lambda rng, p: [rng.randint(0, 40)], w=0.7, regime="integer", maxprec=400)
reg("hyperfac_hp", "hyperfac", lambda c, n: c.hyperfac(n), lambda n: QRef(hyperfac(n), 1), lambda rng, p: [rng.randint(0, 40)], w=0.5, regime="integer, prec >= 1000", precs=[1000, 3000], tiers=("thorough",))
reg("barnesg", "barnesg", lambda c, n: c.barnesg(n), lambda n: QRef(superfac(n - 2), 1), lambda rng, p: [rng.randint(1, 40)], w=0.7, regime="integer", maxprec=400)
reg("barnesg_hp", "barnesg", lambda c, n: c.barnesg(n), lambda n: QRef(superfac(n - 2), 1), lambda rng, p: [rng.randint(1, 40)], w=0.5, regime="integer, prec >= 1000", precs=[1000, 3000], tiers=("thorough",))
reg("harmonic_int", "harmonic", lambda c, n: c.harmonic(n), lambda n: harmonic_q(n),
    lambda rng, p: [rng.choice([rng.randint(1, 30), rng.randint(31, 400), rng.randint(401, 1500)])], w=1.0, regime="integer")
reg("harmonic_half", "harmonic", lambda c, n: c.harmonic(M(c, Fraction(2 * n - 1, 2))), r_harmonic_half,
    lambda rng, p: [rng.choice([rng.randint(1, 30), rng.randint(31, 300)])], w=0.8, regime="half-integer")
reg("polygamma_odd_int", "polygamma", lambda c, m, n: c.polygamma(m, n), lambda m, n: polygamma_odd(m, n),
    lambda rng, p: [rng.choice([1, 1, 3, 5, 7]), rng.choice([rng.randint(1, 12), rng.randint(13, 120)])], w=1.2, regime="odd-order")
reg("polygamma_odd_half", "polygamma", lambda c, m, n: c.polygamma(m, M(c, half(n))), lambda m, n: polygamma_odd(m, half(n)),
    lambda rng, p: [rng.choice([1, 1, 3, 5]), rng.choice([rng.randint(0, 12), rng.randint(13, 80)])], w=0.8, regime="odd-order")
# poles (decision table)
reg("rgamma_pole", "rgamma", lambda c, n: c.rgamma(-n), lambda n: EXACT_ZERO, lambda rng, p: [rng.choice([0, 1, 2, rng.randint(3, 50), rng.randint(51, 10 ** 6)])], w=0.6, regime="pole")
reg("gamma_pole", "gamma", lambda c, n: c.gamma(-n), lambda n: RAISES, lambda rng, p: [rng.choice([0, 1, 2, rng.randint(3, 50), rng.randint(51, 10 ** 6)])], w=0.6, regime="pole")
reg("factorial_pole", "factorial", lambda c, n: c.factorial(-n), lambda n: RAISES, lambda rng, p: [rng.randint(1, 60)], w=0.2, regime="pole")
reg("loggamma_pole", "loggamma", lambda c, n: c.loggamma(-n), lambda n: RAISES, lambda rng, p: [rng.randint(0, 60)], w=0.2, regime="pole")
# metamorphic
MM = "metamorphic"
reg("m_gamma_rec", "gamma(x) & gamma(x+1)", lambda c, x: (c.gamma(M(c, x)), c.gamma(M(c, x + 1))), gen=lambda rng, p: [g_x(rng, p, -30, 60)],
    build=b_gamma_rec, w=2.5, regime=MM)
reg("m_gamma_rec_big", "gamma(x) & gamma(x+1)", lambda c, x: (c.gamma(M(c, x)), c.gamma(M(c, x + 1))), gen=lambda rng, p: [g_x(rng, p, 100, 600)],
    build=b_gamma_rec, w=1.0, regime=MM)
reg("m_rgamma_rec", "rgamma(x) & rgamma(x+1)", lambda c, x: (c.rgamma(M(c, x)), c.rgamma(M(c, x + 1))), gen=lambda rng, p: [g_x(rng, p, -30, 60)],
    build=b_rgamma_rec, w=1.2, regime=MM)
reg("m_factorial_rec", "factorial(x) & factorial(x+1)", lambda c, x: (c.factorial(M(c, x)), c.factorial(M(c, x + 1))),
    gen=lambda rng, p: [g_x(rng, p, -20, 60)], build=b_fact_rec, w=0.8, regime=MM)
reg("m_gamma_reflection", "gamma(x) & gamma(1-x)", lambda c, x: (c.gamma(M(c, x)), c.gamma(M(c, 1 - x))), gen=lambda rng, p: [g_x(rng, p, -12, 12)],
    build=b_reflection, w=1.5, regime=MM)
reg("m_gamma_reflection_pole", "gamma(x) & gamma(1-x)", lambda c, x: (c.gamma(M(c, x)), c.gamma(M(c, 1 - x))), gen=lambda rng, p: [g_near_negint(rng, p)],
    build=b_reflection_pole, w=1.5, regime=MM)
reg("m_digamma_reflection", "digamma(x) & digamma(1-x)", lambda c, x: (c.digamma(M(c, x)), c.digamma(M(c, 1 - x))),
    gen=lambda rng, p: [rng.choice([g_x(rng, p, -40, -8), g_x(rng, p, -12, 12)])], build=b_digamma_reflection, w=1.5, regime=MM)
reg("m_gamma_rgamma_cplx", "gamma(z) & rgamma(z)", lambda c, z: (c.gamma(M(c, z)), c.rgamma(M(c, z))),
    gen=lambda rng, p: [g_near_negaxis(rng, p)], build=b_mod_inverse, w=1.2, regime=MM)
reg("m_gamma_duplication", "gamma(x) & gamma(x+1/2) & gamma(2x)",
    lambda c, x: (c.gamma(M(c, x)), c.gamma(M(c, x + Fraction(1, 2))), c.gamma(M(c, 2 * x))),
    gen=lambda rng, p: [abs(g_x(rng, p, -20, 20))], build=b_duplication, w=1.5, regime=MM)
reg("m_loggamma_rec", "loggamma(x) & loggamma(x+1)", lambda c, x: (c.loggamma(M(c, x)), c.loggamma(M(c, x + 1))),
    gen=lambda rng, p: [abs(g_x(rng, p, -200, 200))], build=b_loggamma_rec, w=1.5, regime=MM)
reg("m_digamma_diff", "digamma(x) & digamma(x+k)", lambda c, x, k: (c.digamma(M(c, x)), c.digamma(M(c, x + k))),
    gen=lambda rng, p: [rng.choice([Fraction(rng.randint(1, 40)), g_x(rng, p, -20, 40)]), rng.randint(1, 12)], build=b_digamma_diff, w=1.5, regime=MM)
reg("m_digamma_half", "digamma(n+1/2) & digamma(m)", lambda c, n, m: (c.digamma(M(c, half(n))), c.digamma(m)),
    gen=lambda rng, p: [rng.randint(0, 40), rng.randint(1, 40)], build=b_digamma_half, w=0.8, regime=MM)
reg("m_polygamma_diff", "polygamma(m,x) & polygamma(m,x+1)", lambda c, m, x: (c.polygamma(m, M(c, x)), c.polygamma(m, M(c, x + 1))),
    gen=lambda rng, p: [rng.randint(0, 6), rng.choice([Fraction(rng.randint(1, 30)), abs(g_x(rng, p, -20, 20)), g_x(rng, p, -8, 8)])],
    build=b_polygamma_diff, w=1.5, regime=MM)
reg("m_beta_rec", "beta(x,y) & beta(x+1,y)", lambda c, x, y: (c.beta(M(c, x), M(c, y)), c.beta(M(c, x + 1), M(c, y))),
    gen=lambda rng, p: [abs(g_x(rng, p, -20, 20)), abs(g_x(rng, p, -20, 20))], build=b_beta_rec, w=1.0, regime=MM)

RULE = ("each evaluation = one call (metamorphic kinds: 2-3 calls) of the current /repo code at a precision from the tier's list; the "
        "call form is drawn from the %d-entry registry (every entry once, then by weight); arguments: integers 1..1500 (4000 thorough), "
        "half-integers n+1/2 with n in [-40,600], (half-)integer tuples for beta/binomial/gammaprod, random dyadics for rf/ff and the "
        "metamorphic identities; non-trivial = the lemma needed a real interval/vm_compute proof (not err = 0); distinct = distinct "
        "lemma statements" % len(K))


def run(rep, tier_, rng):
    TIER[0] = tier_
    run_kinds(rep, K, tier_, rng, n_quick=130, n_thorough=1200, precs_quick=PRECS_QUICK, precs_thorough=PRECS_THOROUGH,
              assumptions=ASSUMPTIONS, rule=RULE, not_decided=NOT_DECIDED)


def replay(rep, path):
    replay_kinds(rep, path, K)
