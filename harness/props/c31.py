"""C31 — eigen-decompositions, SVD and Gauss quadrature, decided exactly by Coq.

Certified per sampled instance (Frobenius norms, squared comparisons, exact integers; tol = 2^(10-p)):

 eig (right):  for every column v_i of ER:  ||A v_i - E_i v_i||_2 <= ||A||_F * ||v_i||_2 * tol
 eig (left):   for every row u_i of EL:     ||u_i A - E_i u_i||_2 <= ||A||_F * ||u_i||_2 * tol
     (mpmath does not normalise eigenvectors - ER has a unit diagonal entry per column before the back
      transformation - so the residual is measured relative to the vector's own norm.)
 eig_sort (f = "real" | "imag" | "abs" | a callable): the same residuals after sorting (pairing preserved),
     the keys in exact non-decreasing order ("abs": |E_i|^2 <= |E_{i+1}|^2 (1 + 2^(3-p)), i.e. the order of the
     correctly rounded moduli that eig_sort compares), and E a permutation of the unsorted list (raw tuples, Python).
 schur:       ||Q R Q^H - A||_F <= ||A||_F tol,  ||Q^H Q - I||_F <= tol,  R upper triangular (exact zeros)
 hessenberg:  ||Q H Q^H - A||_F <= ||A||_F tol,  ||Q^H Q - I||_F <= tol,  H upper Hessenberg (exact zeros)
 eigsy / eighe / eigh:  ||A Q - Q diag(E)||_F <= ||A||_F tol, ||Q^H Q - I||_F <= tol, E real (mpf) and ascending
 svd (full_matrices False/True, m x n any shape): S real, >= 0, descending; ||A - U diag(S) V||_F <= ||A||_F tol;
     ||U^H U - I||_F <= tol, ||V V^H - I||_F <= tol
 gauss_quadrature(n, qtype, alpha, beta), k = 0..2n-1:
     | sum_i w_i x_i^k - m_k |  <=  tol * sum_i |w_i| |x_i|^k
   with m_k the exact rational moment (legendre, legendre01, laguerre, glaguerre/jacobi with integer
   parameters); for hermite, chebyshev1, chebyshev2 (moments = rational * sqrt(pi) or pi) the NORMALISED
   statement | sum w_i x_i^k - r_k sum w_i | <= tol sum |w_i||x_i|^k with r_k = m_k/m_0 rational is certified
   and m_0 itself (pi, pi/2, sqrt(pi)) is not.
"""
import math, json
from fractions import Fraction
from common import *
import qcert as Q
from qcert import *
import qlin, qprops
from props.c30 import Ctx, call, tol2, const_of

LEVEL = "exploration"
TAG = "c31"


def unimodular(rng, n):
    P = [[1 if i == j else 0 for j in range(n)] for i in range(n)]
    Pi = [[1 if i == j else 0 for j in range(n)] for i in range(n)]
    for _ in range(2 * n):
        i, j = rng.randrange(n), rng.randrange(n)
        if i == j: continue
        t = rng.choice([-2, -1, 1, 2])
        # P <- P * (I + t e_i e_j^T) ; Pi <- (I - t e_i e_j^T) * Pi
        for r in range(n):
            P[r][j] += t * P[r][i]
        for ccol in range(n):
            Pi[i][ccol] -= t * Pi[j][ccol]
    return P, Pi


def imul(A, B):
    return [[sum(A[i][k] * B[k][j] for k in range(len(B))) for j in range(len(B[0]))] for i in range(len(A))]


def gen_matrix(rng, mp, n, kind, cplx):
    """returns (A, description)"""
    def cint():
        return mp.mpc(rng.randint(-9, 9), rng.randint(-9, 9)) if cplx else mp.mpf(rng.randint(-9, 9))
    if kind in ("int", "dy", "dec", "full"):
        return qprops.rand_matrix(rng, mp, n, n, kind, cplx)
    if kind == "symmetric":
        A = qprops.rand_matrix(rng, mp, n, n, rng.choice(["int", "dy", "full"]), False)
        return (A + A.T) * mp.mpf(0.5)
    if kind == "hermitian":
        A = qprops.rand_matrix(rng, mp, n, n, rng.choice(["int", "dy"]), True)
        return (A + A.H) * mp.mpf(0.5)
    if kind == "triangular":
        A = qprops.rand_matrix(rng, mp, n, n, "int", cplx)
        for i in range(n):
            for j in range(i):
                A[i, j] = 0
        return A
    if kind == "diagonal":
        return mp.diag([cint() for _ in range(n)])
    if kind in ("jordan", "repeated"):
        # J: Jordan blocks (defective) or repeated semisimple eigenvalues, conjugated by a unimodular integer matrix
        J = [[0] * n for _ in range(n)]
        i = 0
        while i < n:
            sz = min(n - i, rng.randint(1, 3))
            lam = rng.randint(-4, 4)
            for t in range(sz):
                J[i + t][i + t] = lam
                if kind == "jordan" and t + 1 < sz:
                    J[i + t][i + t + 1] = 1
            i += sz
        P, Pi = unimodular(rng, n)
        return mp.matrix(imul(imul(P, J), Pi))
    if kind == "rank1sym":
        u = [rng.randint(-3, 3) for _ in range(n)]
        cc = rng.randint(-5, 5)
        return mp.matrix([[u[i] * u[j] + (cc if i == j else 0) for j in range(n)] for i in range(n)])
    raise ValueError(kind)


def col(M, i):
    return [[M[r, i]] for r in range(M.rows)]


def row(M, i):
    return [[M[i, j] for j in range(M.cols)]]


def eig_checks(prefix, env, A_i, E, ER, EL, p):
    """per-vector residual checks; env is extended in place"""
    checks = []
    n = len(E)
    nA = Frob2(V(A_i))
    for i in range(n):
        env.append(smat([[E[i]]])); ei = len(env) - 1
        if ER is not None:
            env.append(smat(col(ER, i))); vi = len(env) - 1
            checks.append(("%s_right_residual" % prefix,
                           And(Le(Frob2(Sub(Mul(V(A_i), V(vi)), Mul(V(vi), V(ei)))), SMul(tol2(p), nA, Frob2(V(vi)))),
                               Kind("KNonzero", V(vi)))))
        if EL is not None:
            env.append(smat(row(EL, i))); ui = len(env) - 1
            checks.append(("%s_left_residual" % prefix,
                           And(Le(Frob2(Sub(Mul(V(ui), V(A_i)), Mul(V(ei), V(ui)))), SMul(tol2(p), nA, Frob2(V(ui)))),
                               Kind("KNonzero", V(ui)))))
    return checks


def merge(checks):
    """one lemma per label (conjunction) to keep the number of lemmas moderate"""
    by = {}
    order = []
    for l, pr in checks:
        if l not in by:
            by[l] = []; order.append(l)
        by[l].append(pr)
    out = []
    for l in order:
        ps = by[l]
        pr = ps[0]
        for q in ps[1:]:
            pr = ("PAnd", pr, q)
        out.append((l, pr))
    return out


def eig_case(c, idx, A, p, kind, cplx):
    mp, rng = c.mp, c.rng
    n = A.rows
    base = {"prec": p, "n": n, "family": kind, "complex": cplx, "A": qprops.raw(A), "fn": "eig"}
    r_, exc = call(c, "eig", lambda: mp.eig(A, left=True, right=True), A)
    if exc is not None:
        noconv = isinstance(exc, RuntimeError) and "failed to converge" in str(exc)
        r = dict(base); r.update({"kind": "raises_noconvergence" if noconv else "raises", "exception": repr(exc)})
        c.pyviol("eig raised %r on a %dx%d %s matrix at prec %d" % (exc, n, n, kind, p), r); return
    E, EL, ER = r_
    env = [smat(A)]
    checks = eig_checks("eig", env, 0, E, ER, EL, p)
    # eig_sort
    f = rng.choice(["real", "imag", "abs", "neg_real"])
    c.count("eig_sort")
    E0 = [x for x in E]
    try:
        if f == "neg_real":
            Es, ELs, ERs = mp.eig_sort(list(E), EL.copy(), ER.copy(), f=lambda x: -mp.re(x))
        else:
            Es, ELs, ERs = mp.eig_sort(list(E), EL.copy(), ER.copy(), f=f)
    except Exception as e:  # noqa
        r = dict(base); r.update({"fn": "eig_sort", "kind": "raises", "exception": repr(e)})
        c.pyviol("eig_sort raised %r" % (e,), r); Es = None
    if Es is not None:
        key = lambda z: tuple(Q._parts(z))
        if sorted(map(key, Es)) != sorted(map(key, E0)):
            r = dict(base); r.update({"fn": "eig_sort", "kind": "not_a_permutation", "order": f})
            c.pyviol("eig_sort(%s) changed the multiset of eigenvalues" % f, r)
        checks += eig_checks("eig_sort_%s" % f, env, 0, Es, ERs, ELs, p)
        env.append(svec(Es)); si = len(env) - 1
        if f == "real":
            checks.append(("eig_sort_real_order", Kind("KAsc", Re(V(si)))))
        elif f == "imag":
            checks.append(("eig_sort_imag_order", Kind("KAsc", Im(V(si)))))
        elif f == "neg_real":
            checks.append(("eig_sort_neg_real_order", Kind("KAsc", Scal(-1, 0, 0, Re(V(si))))))
        else:
            slack = Const((1 << p) + 8, p)
            for i in range(n - 1):
                env.append(smat([[Es[i]]])); a = len(env) - 1
                env.append(smat([[Es[i + 1]]])); b = len(env) - 1
                checks.append(("eig_sort_abs_order", Le(Frob2(V(a)), SMul(slack, Frob2(V(b))))))
    c.cases.append(Case("eg%d" % idx, env, merge(checks), base))
    c.note(A, "eig/eig_sort(%s): prec %d, %s %s A = %s" % (f, p, kind, "complex" if cplx else "real", qprops.describe(A)))


def unitary_case(c, idx, A, p, kind, cplx, fn):
    mp = c.mp
    n = A.rows
    base = {"prec": p, "n": n, "family": kind, "complex": cplx, "A": qprops.raw(A), "fn": fn}
    r_, exc = call(c, fn, lambda: getattr(mp, fn)(A), A)
    if exc is not None:
        noconv = isinstance(exc, RuntimeError) and "failed to converge" in str(exc)
        r = dict(base); r.update({"kind": "raises_noconvergence" if noconv else "raises", "exception": repr(exc)})
        c.pyviol("%s raised %r on a %dx%d %s matrix at prec %d" % (fn, exc, n, n, kind, p), r); return
    Qm, R = r_
    env = [smat(A), smat(Qm), smat(R)]
    checks = [(fn + "_reconstruction", Le(Frob2(Sub(Mul(V(1), V(2), H(V(1))), V(0))), SMul(tol2(p), Frob2(V(0))))),
              (fn + "_Q_unitary", Le(Frob2(Sub(Mul(H(V(1)), V(1)), Id(n))), tol2(p))),
              (fn + "_structure", Kind("KUpper" if fn == "schur" else "KHess", V(2)))]
    c.cases.append(Case("%s%d" % (fn[:2], idx), env, checks, base))
    c.note(A, "%s: prec %d, %s %s A = %s" % (fn, p, kind, "complex" if cplx else "real", qprops.describe(A)))


def herm_case(c, idx, A, p, kind, cplx):
    mp = c.mp
    n = A.rows
    fn = c.rng.choice(["eighe", "eigh"] if cplx else ["eigsy", "eigh"])
    base = {"prec": p, "n": n, "family": kind, "complex": cplx, "A": qprops.raw(A), "fn": fn}
    r_, exc = call(c, fn, lambda: getattr(mp, fn)(A), A)
    if exc is not None:
        r = dict(base); r.update({"kind": "raises", "exception": repr(exc)})
        c.pyviol("%s raised %r on a %dx%d %s matrix at prec %d" % (fn, exc, n, n, kind, p), r); return
    E, Qm = r_
    if not all(isinstance(E[i], mp.mpf) for i in range(n)):
        r = dict(base); r.update({"kind": "complex_eigenvalue_type"})
        c.pyviol("%s returned a non-real eigenvalue object for a symmetric/Hermitian matrix" % fn, r)
    env = [smat(A), smat(E), smat(Qm)]
    checks = [(fn + "_residual", Le(Frob2(Sub(Mul(V(0), V(2)), Mul(V(2), Diag(V(1))))), SMul(tol2(p), Frob2(V(0))))),
              (fn + "_Q_unitary", Le(Frob2(Sub(Mul(H(V(2)), V(2)), Id(n))), tol2(p))),
              (fn + "_E_real_ascending", Kind("KAsc", V(1)))]
    c.count(fn + "_eigvals_only")
    try:
        E2 = getattr(mp, fn)(A, eigvals_only=True)
        env.append(smat(E2))
        checks.append((fn + "_eigvals_only_real_ascending", Kind("KAsc", V(3))))
        # eigenvalues without vectors agree with those with vectors to the same tolerance
        checks.append((fn + "_eigvals_only_agree", Le(Frob2(Sub(V(3), V(1))), SMul(tol2(p), Frob2(V(0))))))
    except Exception as e:  # noqa
        r = dict(base); r.update({"kind": "raises_eigvals_only", "exception": repr(e)})
        c.pyviol("%s(eigvals_only=True) raised %r" % (fn, e), r)
    c.cases.append(Case("he%d" % idx, env, checks, base))
    c.note(A, "%s: prec %d, %s A = %s" % (fn, p, kind, qprops.describe(A)))


def svd_case(c, idx, A, p, kind, cplx, full):
    mp = c.mp
    m, n = A.rows, A.cols
    k = min(m, n)
    base = {"prec": p, "m": m, "n": n, "family": kind, "complex": cplx, "A": qprops.raw(A), "fn": "svd", "full_matrices": full}
    r_, exc = call(c, "svd", lambda: mp.svd(A, full_matrices=full), A)
    if exc is not None:
        r = dict(base); r.update({"kind": "raises", "exception": repr(exc)})
        c.pyviol("svd raised %r on a %dx%d %s matrix at prec %d" % (exc, m, n, kind, p), r); return
    U, S, Vm = r_
    Uk = U[:, 0:k] if full else U
    Vk = Vm[0:k, :] if full else Vm
    env = [smat(A), smat(U), smat(S), smat(Vm), smat(Uk), smat(Vk)]
    checks = [("svd_S_nonneg_descending", Kind("KNonnegDesc", V(2))),
              ("svd_reconstruction", Le(Frob2(Sub(V(0), Mul(V(4), Diag(V(2)), V(5)))), SMul(tol2(p), Frob2(V(0))))),
              ("svd_U_orthonormal", Le(Frob2(Sub(Mul(H(V(1)), V(1)), Id(U.cols))), tol2(p))),
              ("svd_V_orthonormal", Le(Frob2(Sub(Mul(V(3), H(V(3))), Id(Vm.rows))), tol2(p)))]
    c.count("svd_values_only")
    try:
        S2 = mp.svd(A, compute_uv=False)
        env.append(smat(S2))
        checks.append(("svd_values_only_nonneg_descending", Kind("KNonnegDesc", V(6))))
        checks.append(("svd_values_only_agree", Le(Frob2(Sub(V(6), V(2))), SMul(tol2(p), Frob2(V(0))))))
    except Exception as e:  # noqa
        r = dict(base); r.update({"kind": "raises_values_only", "exception": repr(e)})
        c.pyviol("svd(compute_uv=False) raised %r" % (e,), r)
    c.cases.append(Case("sv%d" % idx, env, checks, base))
    c.note(A, "svd(full=%s): prec %d, %dx%d %s %s" % (full, p, m, n, kind, "complex" if cplx else "real"))


# ----------------------------------------------------------------------------- Gauss quadrature
def poly_mul(a, b):
    out = [Fraction(0)] * (len(a) + len(b) - 1)
    for i, x in enumerate(a):
        for j, y in enumerate(b):
            out[i + j] += x * y
    return out


def moments(qtype, alpha, beta, K):
    """exact moments m_0..m_K (Fractions) and the irrational common factor's name (or None)"""
    f = math.factorial
    if qtype == "legendre":
        return [Fraction(2, k + 1) if k % 2 == 0 else Fraction(0) for k in range(K + 1)], None
    if qtype == "legendre01":
        return [Fraction(1, k + 1) for k in range(K + 1)], None
    if qtype == "laguerre":
        return [Fraction(f(k)) for k in range(K + 1)], None
    if qtype in ("glaguerre", "jacobi") and not (isinstance(alpha, int) and isinstance(beta, int)):
        # non-integer parameters (given as Python floats = exact dyadic rationals): the moments are Gamma/Beta values, their
        # ratios m_k/m_0 are rational functions of the parameters
        al, be = Fraction(alpha), Fraction(beta)
        if qtype == "glaguerre":
            out = [Fraction(1)]
            for k in range(1, K + 1): out.append(out[-1] * (al + k))
            return out, "Gamma(alpha+1)"
        # t = (1+x)/2 has the Beta(be+1, al+1) distribution: E t^j = prod_{i<j} (be+1+i)/(al+be+2+i)
        Et = [Fraction(1)]
        for j in range(1, K + 1): Et.append(Et[-1] * (be + j) / (al + be + 1 + j))
        return [sum(Fraction(math.comb(k, j)) * 2 ** j * (-1) ** (k - j) * Et[j] for j in range(k + 1)) for k in range(K + 1)], "2^(a+b+1) B(a+1,b+1)"
    if qtype == "glaguerre":
        return [Fraction(f(k + alpha)) for k in range(K + 1)], None
    if qtype == "jacobi":
        w = [Fraction(1)]
        for _ in range(alpha): w = poly_mul(w, [Fraction(1), Fraction(-1)])
        for _ in range(beta): w = poly_mul(w, [Fraction(1), Fraction(1)])
        out = []
        for k in range(K + 1):
            s = Fraction(0)
            for j, cj in enumerate(w):
                e = j + k
                if e % 2 == 0:
                    s += cj * Fraction(2, e + 1)
            out.append(s)
        return out, None
    if qtype == "hermite":      # sqrt(pi) * (k-1)!!/2^(k/2)
        out = []
        for k in range(K + 1):
            if k % 2: out.append(Fraction(0)); continue
            df = 1
            for t in range(k - 1, 0, -2): df *= t
            out.append(Fraction(df, 2 ** (k // 2)))
        return out, "sqrt(pi)"
    if qtype == "chebyshev1":   # pi * C(k,k/2)/2^k
        return [Fraction(math.comb(k, k // 2), 2 ** k) if k % 2 == 0 else Fraction(0) for k in range(K + 1)], "pi"
    if qtype == "chebyshev2":   # (pi/2) * C(k,k/2)/(2^k (k/2+1))
        return [Fraction(math.comb(k, k // 2), 2 ** k * (k // 2 + 1)) if k % 2 == 0 else Fraction(0)
                for k in range(K + 1)], "pi/2"
    raise ValueError(qtype)


def gauss_case(c, idx, p, n, qtype, alpha, beta):
    mp = c.mp
    base = {"prec": p, "n": n, "qtype": qtype, "alpha": alpha, "beta": beta, "fn": "gauss_quadrature"}
    r_, exc = call(c, "gauss_quadrature", lambda: mp.gauss_quadrature(n, qtype, alpha, beta), None)
    if exc is not None:
        r = dict(base); r.update({"kind": "raises", "exception": repr(exc)})
        c.pyviol("gauss_quadrature(%d, %r, %r, %r) raised %r at prec %d" % (n, qtype, alpha, beta, exc, p), r); return
    X, W = r_
    ms, irr = moments(qtype, alpha, beta, 2 * n - 1)
    env = [smat(X), smat(W), imat([[1]] * n)]
    checks = []
    S0 = Mul(T(V(1)), V(2))                       # sum w_i   (1 x 1)
    for k in range(2 * n):
        Sk = Mul(T(V(1)), Pow(Diag(V(0)), k), V(2))
        Ak = Mul(T(Abs(V(1))), Pow(Diag(Abs(V(0))), k), V(2))
        a, b = ms[k].numerator, ms[k].denominator
        if irr is None:
            lhs = Frob2(Sub(Scal(b, 0, 0, Sk), Scal(a, 0, 0, Id(1))))
        else:
            lhs = Frob2(Sub(Scal(b, 0, 0, Sk), Scal(a, 0, 0, S0)))
        checks.append(("quadrature_moments" if irr is None else "quadrature_normalised_moments",
                       Le(lhs, SMul(tol2(p), Frob2(Scal(b, 0, 0, Ak))))))
    meta = dict(base); meta["irrational_factor_not_certified"] = irr
    c.cases.append(Case("gq%d" % idx, env, merge(checks), meta))
    c.evals += 2 * n
    c.keys.add("gq-%d-%s-%s-%s-%d" % (n, qtype, alpha, beta, p))
    if len(c.samples) < 6 and c.rng.random() < 0.3:
        c.samples.append("gauss_quadrature(%d, %s, alpha=%s, beta=%s) at prec %d, moments k = 0..%d" % (n, qtype, alpha, beta, p, 2 * n - 1))


FAMILIES = ["int", "dy", "dec", "full", "symmetric", "hermitian", "triangular", "diagonal", "jordan", "repeated", "rank1sym"]


def build(rep, tier_, rng):
    from mpmath import mp
    c = Ctx(rep, rng, mp)
    N = 120 if tier_ == "quick" else 1500
    precs = [30, 40, 53, 64, 100, 150, 200, 300]
    p0 = mp.prec
    try:
        for idx in range(N):
            p = rng.choice(precs); mp.prec = p
            kind = FAMILIES[idx % len(FAMILIES)] if idx < 2 * len(FAMILIES) else rng.choice(FAMILIES)
            cplx = kind == "hermitian" or (kind not in ("symmetric", "rank1sym", "jordan", "repeated") and rng.random() < 0.4)
            n = rng.randint(1, 8)
            A = gen_matrix(rng, mp, n, kind, cplx)
            which = idx % 4
            if kind in ("symmetric", "hermitian", "rank1sym") and which != 3:
                herm_case(c, idx, A, p, kind, cplx)
                if which == 0:
                    eig_case(c, idx, A, p, kind, cplx)
            elif which == 0 or kind in ("jordan", "repeated"):
                eig_case(c, idx, A, p, kind, cplx)
                if which == 1:
                    unitary_case(c, idx, A, p, kind, cplx, "schur")
            elif which == 1:
                unitary_case(c, idx, A, p, kind, cplx, "schur")
            elif which == 2:
                unitary_case(c, idx, A, p, kind, cplx, "hessenberg")
            if which == 3:
                m2, n2 = rng.randint(1, 8), rng.randint(1, 8)
                k2 = rng.choice(["int", "dy", "dec", "full", "sparse"])
                A2 = qprops.rand_matrix(rng, mp, m2, n2, k2, cplx) if rng.random() < 0.8 else A
                if rng.random() < 0.35 and A2 is not A:
                    # rank-deficient shapes whose bidiagonal form has exact zeros on the diagonal: zero columns/rows and
                    # singular upper triangular matrices with an interior zero pivot (several cancellation passes)
                    how = rng.randrange(5); k2 = "zero-pivot"
                    if how >= 3:
                        # upper bidiagonal with an exact zero on the diagonal followed by at least two coupled rows (several passes of
                        # the cancellation sweep), optionally with a leading zero column
                        nb = rng.randint(3, 7); m2 = n2 = nb
                        A2 = mp.matrix(nb, nb)
                        z = rng.randint(0, nb - 3)
                        for i in range(nb):
                            A2[i, i] = 0 if i == z else rng.choice([-5, -3, -2, 1, 2, 3, 4, 6])
                            if i + 1 < nb: A2[i, i + 1] = rng.choice([-4, -1, 1, 2, 3, 5])
                        if how == 4:
                            for i in range(nb): A2[i, 0] = 0
                        cplx = False
                    if how == 0:
                        for i in range(m2): A2[i, rng.randrange(n2)] = 0
                        jz = rng.randrange(n2)
                        for i in range(m2): A2[i, jz] = 0
                    elif how == 1:
                        for i in range(m2):
                            for j in range(min(i, n2)): A2[i, j] = 0
                        for t in rng.sample(range(min(m2, n2)), min(min(m2, n2), rng.randint(1, 2))): A2[t, t] = 0
                    else:
                        iz = rng.randrange(m2)
                        for j in range(n2): A2[iz, j] = 0
                        for i in range(m2):
                            for j in range(min(i, n2)): A2[i, j] = 0
                svd_case(c, idx, A2, p, k2 if A2 is not A else kind, cplx, rng.random() < 0.4)
            if idx % 3 == 0:
                qtype = rng.choice(["legendre", "legendre01", "laguerre", "glaguerre", "jacobi", "hermite",
                                    "chebyshev1", "chebyshev2", "jacobi", "glaguerre", "jacobi"])
                al, be = rng.randint(0, 3), rng.randint(0, 3)
                if qtype in ("glaguerre", "jacobi") and rng.random() < 0.6:
                    if p < 100: p = rng.choice([100, 150, 200]); mp.prec = p
                    # parameters given as Python floats with long mantissas: they must be used at the working precision
                    al = rng.choice([0.1, 0.3, 1 / 3., 2.6, 0.5, 1.25, 0.7])
                    be = rng.choice([0.1, 0.3, 1 / 3., 2.6, 0.5, 1.25, 0.7]) if qtype == "jacobi" else 0
                gauss_case(c, idx, p, rng.randint(1, 8), qtype, al, be)
    finally:
        mp.prec = p0
    return c


def what(case, label):
    m = case.meta
    return "%s: certified violation of '%s' (prec %s, size %s, family %s) — Coq proved the bound false" % (
        m.get("fn"), label, m.get("prec"), m.get("n"), m.get("family", m.get("qtype")))


def run(rep, tier_, rng):
    qprops.load_known(rep)
    c = build(rep, tier_, rng)
    stats = run_cases(TAG, c.cases, timeout=600 if tier_ == "quick" else 1500)
    counts = summarize(rep, TAG, c.cases, what)
    qprops.coverage(rep, TAG, c.cases, stats, counts, c.evals, c.keys,
                    "matrices 1..8: random real/complex (integer, dyadic, decimal, full precision), symmetric, Hermitian, "
                    "triangular, diagonal, defective (Jordan blocks conjugated by a unimodular integer matrix), repeated "
                    "semisimple eigenvalues, c*I + u u^T; all eig_sort orders incl. a callable; rectangular matrices for svd; "
                    "gauss_quadrature n = 1..8, all eight families, integer parameters 0..3; prec in {30..300}; "
                    "non-trivial = at least 2x2 with a nonzero off-diagonal entry (or a distinct quadrature rule), counted by "
                    "distinct raw inputs", c.samples,
                    {"calls_by_function": c.fn_counts, "skipped": c.skipped, "python_level_violations": c.py_violations,
                     "not_certified": "the constants pi, pi/2, sqrt(pi) multiplying the hermite/chebyshev moments "
                                      "(only moment ratios are certified for these families)"})
    rep.assumptions = ["eigenvector residuals are measured relative to ||A||_F * ||v||_2 because mpmath returns unnormalised "
                       "eigenvectors", "orthonormality is certified as ||Q^H Q - I||_F <= 2^(10-p)",
                       "gauss_quadrature tolerance: 2^(10-p) relative to the absolute moment sum |w_i||x_i|^k"]


from props.c30 import replay  # noqa: E402  (same replay mechanics)
