"""C26 -- quad / quadts / quadgl (1-3 dimensions) on analytic integrands: error below 2^(10-p) (relative or absolute),
reversal of the limits negates, splitting at interior points does not change the value beyond that tolerance.

Engine B: every call y = quad(f, ...) of the current /repo code becomes a Coq lemma
    Rabs (y - I) <= 2^(10-p) * max(|I|, 1)
with I the closed form of the integral written with exp/sin/cos/ln/atan/sqrt/PI (proved by `interval`, or by
`vm_compute` over Z when I folds to a rational); for a subset (p <= 100, one-dimensional finite intervals) a second
lemma is proved against `RInt f a b` with the `integral` tactic, so that no closed form is trusted there."""
import time
from fractions import Fraction
from common import *
import cert, sweep, calcb
from cert import Const, ZERO, ONE, HALF, PI, lift
from calcb import fs, fr, fsl, frl, rq, rpoly, X, poly, pderiv, subst, at, tol_instance, INF, NINF
from props.engineb import run_and_report, replay_generic, short

LEVEL = "exploration"
JOBS = 10          # coqc processes run in parallel (frugal: other checks share the machine)

ASSUMPTIONS = [
    "Closed forms trusted for the `interval` certificates (each is a textbook antiderivative; the generator also "
    "differentiates every antiderivative symbolically and compares with the integrand numerically, and the RInt subset "
    "is certified without any closed form): int P(x) e^(ax) {1|cos bx|sin bx} dx = Re/Im of e^((a+ib)x) * sum_k (-1)^k "
    "P^(k)(x)/(a+ib)^(k+1); int c/(x-r) = c ln|x-r|; int c/(x-r)^2 = -c/(x-r); int (alpha x+beta)/((x-u)^2+v^2) = "
    "alpha/2 ln((x-u)^2+v^2) + (beta+alpha u)/v atan((x-u)/v); int_R x^(2m) e^(-a(x-mu)^2) dx for m=0,1 = sqrt(pi/a), "
    "sqrt(pi/a)(1/(2a)+mu^2) (half line from mu: half of the m-th central moment); int_c^inf P(x) e^(-ax){1|cos|sin} dx = "
    "-F(c) because F(x) -> 0; product/sum integrands over rectangles/cuboids by Fubini: prod -> product of the 1-d integrals, "
    "sum -> sum of each 1-d integral times the lengths of the other sides.",
    "'relative or absolute error below 2^(10-p)' is read as |y - I| <= 2^(10-p) * max(|I|, 1).",
    "Domain actually sampled (the property's class is informal): polynomial degree <= 4 with small rational coefficients, "
    "|a| <= 2, |b| <= 8, finite endpoints in [-3, 3] with length <= 4 (quad documents loss of accuracy on long intervals / many "
    "oscillations / sharp peaks: those are not generated), real poles and complex poles at distance >= 1 from the path; "
    "infinite intervals only for exponentially decaying integrands and only with tanh-sinh (GaussLegendre is documented as "
    "handling infinite intervals worse); 3-dimensional integrals only with gauss-legendre at p <= 53 as the docstring advises.",
    "The integrand handed to quad is compiled from the same term as the reference; rational constants are evaluated as mpf(n)/d at "
    "the working precision in force inside quad (as a user lambda would do).",
    "Universal accuracy is NOT proved: sampled instances only (level exploration, certified oracle).",
]

TRIGS = ("none", "sin", "cos")


# ------------------------------------------------------------------------------------------ closed forms

def _cpow_inv(a, b, n):
    """(1/(a+ib))^n as a pair of Fractions"""
    d = a * a + b * b
    ir, ii = a / d, -b / d
    r, i = Fraction(1), Fraction(0)
    for _ in range(n):
        r, i = r * ir - i * ii, r * ii + i * ir
    return r, i


def pet_terms(P, a, b, trig, x):
    """integrand and antiderivative (terms in x) of P(x) e^(ax) {1, sin bx, cos bx}"""
    P = [Fraction(c) for c in P]
    a = Fraction(a); b = Fraction(b)
    if trig == "none":
        b = Fraction(0)
    px = poly(P, x)
    ex = cert.exp(Const(a) * x) if a != 0 else ONE
    if trig == "none":
        f = px * ex
    elif trig == "sin":
        f = px * ex * cert.sin(Const(b) * x)
    else:
        f = px * ex * cert.cos(Const(b) * x)
    if a == 0 and (b == 0 or trig == "none"):
        Q = [Fraction(0)] + [c / (k + 1) for k, c in enumerate(P)]
        if trig == "sin":          # b == 0: sin(0) = 0
            return f, ZERO
        return f, poly(Q, x)
    if trig != "none" and b == 0:
        if trig == "sin":
            return f, ZERO
        trig = "none"
    sx = cert.sin(Const(b) * x) if trig != "none" else ZERO
    cx = cert.cos(Const(b) * x) if trig != "none" else ONE
    F = ZERO
    D = P
    k = 0
    while any(c != 0 for c in D):
        wr, wi = _cpow_inv(a, b, k + 1)
        if k & 1:
            wr, wi = -wr, -wi
        ck = poly(D, x)
        if trig == "sin":
            F = F + ck * (Const(wr) * sx + Const(wi) * cx)
        else:
            F = F + ck * (Const(wr) * cx - Const(wi) * sx)
        D = pderiv(D) if len(D) > 1 else [Fraction(0)]
        k += 1
    return f, ex * F


def rat_terms(P, simple, quad_, x):
    """P(x) + sum c/(x-r)^m + sum (al x + be)/((x-u)^2+v^2)"""
    f = poly(P, x)
    F = poly([Fraction(0)] + [Fraction(c) / (k + 1) for k, c in enumerate(P)], x)
    for c, r, m in simple:
        c = Fraction(c); r = Fraction(r)
        if m == 1:
            f = f + Const(c) / (x - Const(r))
            F = F + Const(c) * cert.ln(abs(x - Const(r)))
        else:
            f = f + Const(c) / ((x - Const(r)) * (x - Const(r)))
            F = F - Const(c) / (x - Const(r))
    for al, be, u, v in quad_:
        al, be, u, v = Fraction(al), Fraction(be), Fraction(u), Fraction(v)
        q = (x - Const(u)) * (x - Const(u)) + Const(v * v)
        f = f + (Const(al) * x + Const(be)) / q
        F = F + Const(al / 2) * cert.ln(q) + Const((be + al * u) / v) * cert.atan((x - Const(u)) / Const(v))
    return f, F


def case_1d(spec, name="x"):
    """spec -> dict(f=term in var `name`, pts=[Fraction|'inf'|'-inf'...], I=closed term for the first-to-last point
    integral, F=antiderivative or None)"""
    x = X(name)
    fam = spec["fam"]
    pts = frl(spec["pts"])
    if fam == "pet":
        f, F = pet_terms(frl(spec["P"]), fr(spec["a"]), fr(spec["b"]), spec["trig"], x)
        lo, hi = pts[0], pts[-1]
        def val(p):
            if isinstance(p, str):
                return ZERO                    # exponentially decaying at that end (checked by the generator)
            return at(F, name, p)
        a = fr(spec["a"])
        for p in (lo, hi):
            if isinstance(p, str):
                assert (p == INF and a < 0) or (p == NINF and a > 0), "not decaying"
        I = val(hi) - val(lo)
        return {"f": f, "pts": pts, "I": I, "F": F}
    if fam == "rat":
        simple = [(fr(c), fr(r), int(m)) for c, r, m in spec["simple"]]
        qd = [tuple(frl(t)) for t in spec["quad"]]
        f, F = rat_terms(frl(spec["P"]), simple, qd, x)
        lo, hi = pts[0], pts[-1]
        a_, b_ = min(lo, hi), max(lo, hi)
        for c, r, m in simple:
            assert r <= a_ - 1 or r >= b_ + 1, "real pole too close"
        for al, be, u, v in qd:
            assert v >= 1 or u <= a_ - 1 or u >= b_ + 1, "complex pole too close"
        return {"f": f, "pts": pts, "I": at(F, name, hi) - at(F, name, lo), "F": F}
    if fam == "gauss":
        a = fr(spec["a"]); mu = fr(spec["mu"]); m = int(spec["m"]); c = fr(spec["c"])
        assert a > 0 and m in (0, 1)
        t = x - Const(mu)
        f = Const(c) * cert.exp(-(Const(a) * t * t))
        if m == 1:
            f = f * x * x
        lo, hi = pts[0], pts[-1]
        root = cert.sqrt(PI / Const(a))
        if m == 0:
            full = Const(c) * root
        else:
            full = Const(c) * root * Const(1 / (2 * a) + mu * mu)
        sign = 1
        if (lo, hi) == (INF, NINF):
            sign = -1; lo, hi = hi, lo
        if (lo, hi) == (NINF, INF):
            I = full
        else:
            # half line starting at mu (only generated with m == 0 or mu == 0 so that the half integral is full/2)
            assert m == 0 or mu == 0
            fin = lo if not isinstance(lo, str) else hi
            assert fin == mu
            I = full * HALF
            if isinstance(lo, str) and lo == INF or isinstance(hi, str) and hi == NINF:
                sign = -sign
        return {"f": f, "pts": pts, "I": I if sign > 0 else -I, "F": None}
    raise KeyError(fam)


def build_case(spec):
    """-> dict(f, argnames, points(list per dim), I, dim, F(1-d only))"""
    if "dims" not in spec:
        c = case_1d(spec)
        return {"f": c["f"], "argnames": ["x"], "points": [c["pts"]], "I": c["I"], "dim": 1, "F": c["F"]}
    names = ["x", "y", "z"][:len(spec["dims"])]
    cs = [case_1d(s, n) for s, n in zip(spec["dims"], names)]
    if spec["combine"] == "prod":
        f = cs[0]["f"]; I = cs[0]["I"]
        for c in cs[1:]:
            f = f * c["f"]; I = I * c["I"]
    else:
        f = ZERO; I = ZERO
        for i, c in enumerate(cs):
            f = f + c["f"]
            t = c["I"]
            for j, d in enumerate(cs):
                if j != i:
                    assert not any(isinstance(p, str) for p in d["pts"])
                    t = t * Const(d["pts"][-1] - d["pts"][0])
            I = I + t
    return {"f": f, "argnames": names, "points": [c["pts"] for c in cs], "I": I, "dim": len(cs), "F": None}


# ------------------------------------------------------------------------------------------ generators (specs)

def g_interval(rng, maxlen=4, lo=-3, hi=3):
    while True:
        a = Fraction(rng.randint(4 * lo, 4 * hi), rng.choice([1, 2, 4, 4, 3]))
        L = Fraction(rng.randint(2, 4 * maxlen), rng.choice([2, 4, 3]))
        if lo <= a and a + L <= hi and Fraction(1, 2) <= L <= maxlen:
            return a, a + L


def g_pet(rng, trig=None, finite=True):
    trig = trig or rng.choice(TRIGS)
    deg = rng.choice([0, 1, 1, 2, 3, 4])
    P = rpoly(rng, deg)
    a = rng.choice([0, 1, -1, 2, -2]) * Fraction(1, rng.choice([1, 1, 2, 3])) if rng.random() < 0.8 else Fraction(0)
    b = Fraction(rng.randint(1, 8), rng.choice([1, 1, 2, 3])) if trig != "none" else Fraction(0)
    if trig == "none" and a == 0 and rng.random() < 0.7:
        a = Fraction(rng.choice([1, -1]), rng.choice([1, 2, 3]))
    lo, hi = g_interval(rng)
    return {"fam": "pet", "P": fsl(P), "a": fs(a), "b": fs(b), "trig": trig, "pts": fsl([lo, hi])}


def g_rat(rng):
    lo, hi = g_interval(rng)
    P = rpoly(rng, rng.choice([0, 0, 1, 2])) if rng.random() < 0.5 else [Fraction(0)]
    simple, qd = [], []
    n = rng.choice([1, 1, 2, 3])
    for _ in range(n):
        if rng.random() < 0.5:
            side = rng.choice([-1, 1])
            dist = 1 + Fraction(rng.randint(0, 8), 4)
            r = lo - dist if side < 0 else hi + dist
            simple.append((rq(rng, 3, nonzero=True), r, rng.choice([1, 1, 2])))
        else:
            u = Fraction(rng.randint(-12, 12), 4)
            v = 1 + Fraction(rng.randint(0, 8), 4)
            qd.append((rq(rng, 2), rq(rng, 3, nonzero=True), u, v))
    return {"fam": "rat", "P": fsl(P), "simple": [[fs(c), fs(r), m] for c, r, m in simple],
            "quad": [fsl(t) for t in qd], "pts": fsl([lo, hi])}


def g_gauss(rng):
    a = Fraction(rng.randint(1, 6), rng.choice([1, 2, 2, 3]))
    kind = rng.choice(["full", "full", "half_r", "half_l"])
    m = rng.choice([0, 0, 1])
    mu = Fraction(rng.randint(-4, 4), 2) if rng.random() < 0.6 else Fraction(0)
    if kind != "full" and m == 1:
        mu = Fraction(0)
    c = rq(rng, 3, nonzero=True)
    pts = {"full": [NINF, INF], "half_r": [fs(mu), INF], "half_l": [NINF, fs(mu)]}[kind]
    return {"fam": "gauss", "a": fs(a), "mu": fs(mu), "m": m, "c": fs(c), "pts": pts}


def g_decay(rng):
    """P(x) e^(-ax) {1,sin,cos} on [c, inf)  or mirrored on (-inf, c]"""
    trig = rng.choice(["none", "none", "sin", "cos"])
    P = rpoly(rng, rng.choice([0, 1, 2, 3]))
    a = Fraction(rng.randint(1, 4), rng.choice([1, 2, 2]))
    b = Fraction(rng.randint(1, 3), rng.choice([1, 2])) if trig != "none" else Fraction(0)
    c = rng.choice([Fraction(0), Fraction(0), Fraction(rng.randint(-4, 6), 2)])
    if rng.random() < 0.3:
        return {"fam": "pet", "P": fsl(P), "a": fs(a), "b": fs(b), "trig": trig, "pts": [NINF, fs(-c)]}
    return {"fam": "pet", "P": fsl(P), "a": fs(-a), "b": fs(b), "trig": trig, "pts": [fs(c), INF]}


def with_reversal(spec):
    s = dict(spec); s["pts"] = list(reversed(spec["pts"])); return s


def with_split(rng, spec, k=None):
    pts = frl(spec["pts"])
    lo, hi = pts[0], pts[-1]
    k = k or rng.choice([1, 1, 2, 3])
    if isinstance(lo, str) or isinstance(hi, str):
        fin = hi if isinstance(lo, str) else lo
        if isinstance(lo, str) and isinstance(hi, str):
            inner = sorted({Fraction(rng.randint(-6, 6), 2) for _ in range(k)})
        elif isinstance(hi, str):
            inner = sorted({fin + Fraction(rng.randint(1, 12), 2) for _ in range(k)})
        else:
            inner = sorted({fin - Fraction(rng.randint(1, 12), 2) for _ in range(k)})
        if (lo, hi) in ((INF, NINF),) or (isinstance(lo, str) and lo == INF) or (isinstance(hi, str) and hi == NINF):
            inner = list(reversed(inner))
    else:
        inner = set()
        while len(inner) < k:
            t = Fraction(rng.randint(1, 15), 16)
            inner.add(lo + (hi - lo) * t)
        inner = sorted(inner, reverse=(hi < lo))
        if rng.random() < 0.35:
            # a repeated break point (a piece of length zero) in the middle or at the start: the pieces after it still count
            inner = list(inner); j = rng.randrange(len(inner) + 1)
            inner.insert(j, inner[j - 1] if j > 0 else lo)
    s = dict(spec); s["pts"] = fsl([lo] + list(inner) + [hi]); return s


def g_multi(rng, dim):
    combine = rng.choice(["prod", "prod", "sum"])
    dims = []
    for _ in range(dim):
        s = g_pet(rng) if rng.random() < 0.7 else g_rat(rng)
        if s["fam"] == "pet":
            s["P"] = fsl(frl(s["P"])[:3])
        lo, hi = frl(s["pts"])
        if hi - lo > 2:
            s["pts"] = fsl([lo, lo + 2])
        dims.append(s)
    if dim == 2 and combine == "prod" and rng.random() < 0.25:
        dims[rng.randrange(2)] = g_decay(rng)
    return {"dims": dims, "combine": combine}


# ------------------------------------------------------------------------------------------ calls

METHODS_1D = ["default", "tanh-sinh", "gauss-legendre", "quadts", "quadgl"]


def is_gl(method):
    return method in ("gauss-legendre", "quadgl")


def has_inf(spec):
    ss = spec["dims"] if "dims" in spec else [spec]
    return any(p in (INF, NINF) for s in ss for p in s["pts"])


def do_quad(ctx, case, method, prec, timeout=120):
    f = calcb.compile_mp(case["f"], case["argnames"], ctx)
    p0 = ctx.prec
    try:
        ctx.prec = prec
        pts = [[calcb.to_mpf(ctx, p) for p in pl] for pl in case["points"]]
        if method == "default":
            call = lambda: ctx.quad(f, *pts)
        elif method == "quadts":
            call = lambda: ctx.quadts(f, *pts)
        elif method == "quadgl":
            call = lambda: ctx.quadgl(f, *pts)
        else:
            call = lambda: ctx.quad(f, *pts, method=method)
        return sweep.call_with_timeout(call, timeout)
    finally:
        ctx.prec = p0


def selfcheck(case):
    """untrusted generator-side sanity check: F' == f numerically at two points (catches a wrong closed form early)"""
    if case.get("F") is None:
        return True
    import mpmath
    dF = calcb.deriv(case["F"], "x")
    pts = [p for p in case["points"][0] if not isinstance(p, str)]
    for t in (pts[0] + Fraction(1, 7), pts[-1] - Fraction(2, 11)):
        u = cert.approx(at(dF, "x", t), 120); v = cert.approx(at(case["f"], "x", t), 120)
        if abs(u - v) > mpmath.mpf(2) ** -90 * max(1, abs(v)):
            return False
    return True


def describe(spec):
    if "dims" in spec:
        return "%s of [%s]" % (spec["combine"], "; ".join(describe(s) for s in spec["dims"]))
    if spec["fam"] == "pet":
        return "P=%s * exp(%s x) * %s(%s x) on %s" % (spec["P"], spec["a"], spec["trig"], spec["b"], spec["pts"])
    if spec["fam"] == "rat":
        return "P=%s + sum c/(x-r)^m %s + sum (al x+be)/((x-u)^2+v^2) %s on %s" % (spec["P"], spec["simple"], spec["quad"], spec["pts"])
    return "%s x^(2*%s) exp(-%s (x-%s)^2) on %s" % (spec["c"], spec["m"], spec["a"], spec["mu"], spec["pts"])


def regime_of(spec, variant):
    if "dims" in spec:
        base = "%dd_%s" % (len(spec["dims"]), spec["combine"])
    elif spec["fam"] == "pet":
        base = "pet_" + spec["trig"] + ("_inf" if has_inf(spec) else "")
    else:
        base = spec["fam"]
    return base + "/" + variant


def kclass_of(spec):
    """coarse class used to match known findings"""
    if "dims" in spec:
        ks = {kclass_of(s) for s in spec["dims"]}
        bad = sorted(k for k in ks if k.startswith("halfline-osc"))
        return bad[-1] if bad else "%dd" % len(spec["dims"])
    if spec["fam"] == "pet" and has_inf(spec) and spec["trig"] != "none":
        return "halfline-osc-fast" if abs(fr(spec["b"])) > abs(fr(spec["a"])) else "halfline-osc-slow"
    if has_inf(spec):
        return "infinite-" + spec["fam"]
    return spec["fam"]


def plan(rng, tier_):
    """-> list of (spec, variant, method, prec, want_rint)"""
    q = tier_ == "quick"
    precs = [30, 53, 100, 200] if q else [30, 53, 100, 200, 500]
    jobs = []
    n_base = 22 if q else 150
    rint_left = [7 if q else 40]
    for i in range(n_base):
        u = rng.random()
        if u < 0.45: spec = g_pet(rng)
        elif u < 0.65: spec = g_rat(rng)
        elif u < 0.8: spec = g_gauss(rng)
        else: spec = g_decay(rng)
        inf = has_inf(spec)
        prec = rng.choice(precs)
        if prec == 500 and rng.random() < 0.5: prec = rng.choice(precs)
        if q and i < 3:
            prec = rng.choice([400, 500])          # the node tables of the highest levels are only exercised above ~340 bits
        method = rng.choice(["default", "tanh-sinh", "quadts"]) if inf else rng.choice(METHODS_1D)
        if q and i < 3 and not inf: method = "tanh-sinh"
        want_rint = (not inf) and prec <= 100 and rint_left[0] > 0 and rng.random() < 0.6
        if want_rint: rint_left[0] -= 1
        jobs.append((spec, "plain", method, prec, want_rint))
        # reversal and splitting of the same integral at the same precision (same certified reference)
        if rng.random() < 0.7:
            jobs.append((with_reversal(spec), "reversed", method, prec, False))
        if rng.random() < 0.7:
            jobs.append((with_split(rng, spec), "split", method, prec, False))
        if rng.random() < 0.25:
            jobs.append((with_reversal(with_split(rng, spec)), "split_reversed", method, prec, False))
        # the other rule at the same precision
        if rng.random() < 0.4 and not inf:
            m2 = rng.choice([m for m in METHODS_1D if is_gl(m) != is_gl(method)])
            jobs.append((spec, "plain", m2, prec, False))
    # multi-dimensional
    n2 = 7 if q else 40
    for i in range(n2):
        spec = g_multi(rng, 2)
        inf = has_inf(spec)
        prec = rng.choice([30, 53] if q else [30, 53, 100])
        method = rng.choice(["default", "quadts"]) if inf else rng.choice(["gauss-legendre", "quadgl", "gauss-legendre", "tanh-sinh", "default"])
        if not is_gl(method) and prec > 53: prec = 53
        if not is_gl(method) and q: prec = 30
        jobs.append((spec, "plain", method, prec, False))
    n3 = 2 if q else 10
    for i in range(n3):
        spec = g_multi(rng, 3)
        for s in spec["dims"]:
            if s["fam"] == "pet": s["P"] = s["P"][:2]
        while has_inf(spec):
            spec = g_multi(rng, 3)
        jobs.append((spec, "plain", rng.choice(["gauss-legendre", "quadgl"]), 30 if q else rng.choice([30, 53]), False))
    rng.shuffle(jobs)
    # node caches: the lowest-precision calls of both rules go first (a cache entry wrongly shared between precisions is
    # then filled with low-precision nodes before the high-precision calls), the rest stays in random order
    lowp = min(p for (_, _, _, p, _) in jobs)
    head = [j for j in jobs if j[3] == lowp and "dims" not in j[0]][:10]
    jobs = head + [j for j in jobs if not any(j is h for h in head)]
    # node caches: re-run a sample of the calls later, i.e. after unrelated intervals / precisions / rules
    k = 12 if q else 80
    reruns = [(s, v + "+rerun", m, p, False) for (s, v, m, p, w) in rng.sample(jobs, min(k, len(jobs))) if "dims" not in s or p <= 30]
    jobs += reruns
    return jobs


def build_instances(cid, spec, case, y, prec, regime, want_rint, method):
    """-> list of instances for one result"""
    eps = calcb.eps_of(prec)
    meta = {"fn": "quad[%s]" % method, "regime": regime, "p": prec, "call": cid, "part": "closed-form"}
    out = [tol_instance(cid + "_cf", y, case["I"], eps, meta=meta)]
    if want_rint and case["dim"] == 1:
        pts = case["points"][0]
        I2 = ZERO
        for u, v in zip(pts[:-1], pts[1:]):
            I2 = I2 + cert.rint("x", case["f"], Const(u), Const(v))
        m2 = dict(meta); m2["part"] = "RInt"
        params = {"i_degree": max(12, prec // 4 + 6), "i_fuel": 400, "sentence_timeout": 100, "single_timeout": 110, "ladder": [1]}
        ins = tol_instance(cid + "_ri", y, I2, eps, meta=m2, params=params)
        ins.meta["rint"] = True
        out.append(ins)
    return out


def run(rep, tier_, rng):
    calcb.load_known_b2(rep)
    from mpmath import mp
    q = tier_ == "quick"
    t0 = time.time()
    jobs = plan(rng, tier_)
    insts, calls = [], {}
    stats = {"raised": [], "selfcheck_failed": 0, "rerun_bitwise_equal": 0, "rerun_differs": 0, "timeouts": 0,
             "nonfinite": 0, "skipped_for_time": 0}
    first = {}
    gen_budget = 70 if q else 600
    for n, (spec, variant, method, prec, want_rint) in enumerate(jobs):
        if time.time() - t0 > gen_budget:
            stats["skipped_for_time"] = len(jobs) - n; break
        case = build_case(spec)
        if not selfcheck(case):
            stats["selfcheck_failed"] += 1; continue
        cid = "q%04d" % n
        regime = regime_of(spec, variant.replace("+rerun", ""))
        call = {"fn": "quad", "method": method, "regime": regime, "kclass": kclass_of(spec), "prec": prec, "spec": spec, "variant": variant,
                "integrand": short(calcb.source(case["f"]), 300), "points": [fsl(p) for p in case["points"]]}
        try:
            y = do_quad(mp, case, method, prec, timeout=40 if q else 300)
        except sweep.CallTimeout:
            stats["timeouts"] += 1; continue
        except Exception as ex:
            calls[cid] = call
            stats["raised"].append({"regime": regime, "exc": repr(ex)[:100]})
            rep.violation("C26 quad raised %s on an analytic integrand: %s" % (repr(ex)[:80], describe(spec)), dict(call, clause="raised"))
            continue
        yq = calcb.frac_of(y)
        calls[cid] = call
        if yq is None:
            stats["nonfinite"] += 1
            rep.violation("C26 quad returned %r for %s" % (y, describe(spec)), dict(call, clause="nonfinite")); continue
        call["result"] = str(y)
        # size class of the error (search side, untrusted): lets a known finding about the optimistic extrapolated error
        # estimate be limited to results that are right to 30 bits, so that a grossly wrong half-line integral is still reported
        try:
            refv = cert.approx(case["I"], 160)
            relv = abs((mp.mpf(y) - refv) / refv) if refv != 0 else None
            call["error_size"] = "unknown" if relv is None else ("rel<2^-30" if relv < mp.mpf(2) ** -30 else "rel>=2^-30")
        except Exception:
            call["error_size"] = "unknown"
        key = json.dumps([spec, method, prec], sort_keys=True)
        if variant.endswith("+rerun"):
            if first.get(key) == yq:
                stats["rerun_bitwise_equal"] += 1
                continue                      # the very same lemma has already been emitted
            stats["rerun_differs"] += 1
        else:
            first.setdefault(key, yq)
        try:
            insts += build_instances(cid, spec, case, yq, prec, regime, want_rint, method)
        except (cert.EstimateError, ZeroDivisionError, ValueError) as ex:
            stats.setdefault("skipped_estimate", 0); stats["skipped_estimate"] += 1
    tgen = time.time() - t0
    regimes = {}
    for c in calls.values():
        regimes[c["regime"]] = regimes.get(c["regime"], 0) + 1
    params = {"sentence_timeout": 60 if q else 150, "single_timeout": 70 if q else 300}
    budget = (118 if q else 1150) - tgen
    insts, not_attempted = calcb.fit_budget(insts, max(30, budget))
    run_and_report(rep, insts, calls, tag="C26_%s" % tier_, params=params, budget=max(30, budget), jobs=JOBS,
                   rule="each evaluation = one call of quad/quadts/quadgl of the current /repo code on a generated integrand "
                        "(P(x)e^(ax){1,sin bx,cos bx}; rational functions with poles at distance >= 1; Gaussians on (half-)infinite "
                        "intervals; P(x)e^(-ax){1,sin,cos} on half-lines; 2-d/3-d products and sums) with rational parameters, at "
                        "p in {30,53,100,200(,500)}, in the variants plain / reversed limits / split at 1-3 interior points / both, "
                        "with both rules, and re-run later in the same process after unrelated calls (node caches); one closed-form "
                        "lemma per distinct result plus an RInt (`integral` tactic) lemma for a subset with p <= 100; distinct = distinct "
                        "lemma statements; non-trivial = the error is not exactly 0 against a folded rational",
                   assumptions=ASSUMPTIONS,
                   extra_cov={"lemmas_not_attempted_for_time": not_attempted, "regimes": regimes, "generation_wall_s": round(tgen, 1), "tolerance": "2^(10-p)*max(|I|,1)",
                              "rint_lemmas": sum(1 for i in insts if i.meta.get("rint")), **stats})


def replay(rep, path):
    calcb.load_known_b2(rep)

    def rebuild(r):
        from mpmath import mp
        spec = r["spec"]
        case = build_case(spec)
        y = do_quad(mp, case, r["method"], r["prec"], timeout=600)
        cid = "replay"
        yq = calcb.frac_of(y)
        call = {k: r[k] for k in ("fn", "method", "regime", "kclass", "prec", "spec", "variant", "error_size") if k in r}
        if yq is None:
            rep.violation("C26 quad returned %r" % (y,), dict(call, clause="nonfinite"))
            return [], {cid: call}
        return build_instances(cid, spec, case, yq, r["prec"], r["regime"], r.get("part") == "RInt", r["method"]), {cid: call}
    replay_generic(rep, path, rebuild)
