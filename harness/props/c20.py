"""C20 -- error / exponential / incomplete-gamma integrals accurate to 2^(8-p) relative (in modulus).
Engine B, sub-domain certificates: each sampled call y = f(args) of the current /repo code becomes one Coq lemma
`Rabs (y - ref) <= 2^(8-p) * Rabs ref` where ref is an ELEMENTARY closed form, an exact rational, or a PROPER Riemann
integral (Coquelicot `RInt`, enclosed by Coq Interval's `integral_intro`).  Real arguments only.

CERTIFIED per instance (direct verdicts):
  npdf(x, mu, sigma) (elementary);  erf(x), erfi(x), erfc(x) = 1 - erf(x) for x <= 1, ncdf(x) for x >= -1 (proper integrals
  of exp(-+t^2)); fresnels, fresnelc (integrals of sin/cos(PI t^2/2));  si(x) = PI/2 - RInt exp(-x sin t) cos(x cos t) 0 (PI/2);
  gammainc(n, 0, x), gammainc(n, x, inf), regularized forms, for INTEGER n >= 1 (elementary: (n-1)! (1 - e^-x sum x^k/k!) and
  (n-1)! e^-x sum x^k/k!);  generalized gammainc(a, x0, x1) with 0 < x0 < x1 finite and dyadic a >= 1 (proper integral of
  t^(a-1) e^-t);  betainc(a, b, x0, x1) for integer a, b >= 1 (exact rational value of the polynomial integral) and for
  dyadic a, b >= 1 on [x0, x1] inside (0,1) (proper integral), also regularized with integer a, b;
  erfinv(x), |x| <= 0.9, through the monotone inverse: erf(y(1-e)) <= x <= erf(y(1+e)) (two integrals).
CERTIFIED with an ASSUMED analytic tail bound (the improper integral is cut at B and the neglected tail is bounded by a
textbook inequality that is NOT proved in Coq; the lemma decides the tolerance for every value in [I, I + tail bound]):
  erfc(x), x > 1 (tail of exp(-t^2) beyond B is below exp(-B^2)/(2B)); ncdf(x), x < -1; e1(x) and expint(n, x), integer n >= 1,
  x > 0 (x^(n-1) RInt exp(-u)/u^n x B; tail below exp(-B)/B^n); gammainc(a, x, inf) for dyadic non-integer a >= 1.
METAMORPHIC only (Coq-proved soundness lemma Meta.lin2_violation; `consistent` proves nothing): increments
  F(b) - F(a) = RInt f a b for F in {erfc (tails), e1, ei, si, ci, shi, chi, li} on 0 < a < b (li: 1 < a < b),
  and ci(x) + e1(x) = RInt exp(-x sin t) sin(x cos t) 0 (PI/2).
NOT DECIDED: all complex arguments; ei, ci, shi, chi, li values themselves (removable singularities / Euler's constant);
gammainc with a < 1 or negative/complex parameters; betainc with a or b < 1 or reaching the end points with non-integer
parameters; expint of non-integer or negative order; precisions above 53 bits for integral references (quick) / 200 (thorough)."""
import math
from fractions import Fraction
from common import *
import cert
from cert import Const, Cx, ZERO, ONE, HALF, PI, lift, sqrt, ln, exp, sin, cos, powz, var, rint, Instance
from specb import *

LEVEL = "exploration"
PRECS_QUICK = [20, 53, 53, 100]
PRECS_THOROUGH = [20, 53, 100, 200]
PRECS_INT_QUICK = [20, 53, 53, 53]       # integral references (100/200 bits: thorough tier)
TIER = ["quick"]

NOT_DECIDED = [
    "every complex argument; ei/ci/shi/chi/li values themselves (only increments, metamorphic); gammainc with a < 1, negative or "
    "complex a; betainc with a or b < 1; expint of non-integer/negative order; erfinv for |x| > 0.9",
    "integral references above 53 bits (quick) / 200 bits (thorough): Interval's integral enclosures get too expensive",
]

ASSUMPTIONS = [
    "Definitions used as references: erf x = 2/sqrt(PI) RInt exp(-t^2) 0 x; erfc = 1 - erf; erfi x = 2/sqrt(PI) RInt exp(t^2) 0 x; "
    "ncdf x = 1/2 + 1/sqrt(2 PI) RInt exp(-t^2/2) 0 x; npdf(x,mu,sigma) = exp(-(x-mu)^2/(2 sigma^2))/(sigma sqrt(2 PI)); "
    "fresnels x = RInt sin(PI t^2/2) 0 x, fresnelc likewise with cos; gammainc(a, x0, x1) = RInt t^(a-1) e^-t x0 x1 (mpmath argument "
    "order gammainc(z, a=0, b=inf)), regularized = divided by Gamma(a) (integer a: (a-1)!); betainc(a, b, x0, x1) = RInt t^(a-1) (1-t)^(b-1) x0 x1, "
    "regularized = divided by beta(a,b) = (a-1)!(b-1)!/(a+b-1)! for integers; E_n(x) = RInt_1^inf exp(-x t)/t^n dt = x^(n-1) RInt_x^inf exp(-u)/u^n du; e1 = E_1; "
    "ei(b)-ei(a) = RInt e^t/t a b; si, ci, shi, chi increments = RInt of sin t/t, cos t/t, sinh t/t, cosh t/t; li(b)-li(a) = RInt 1/ln t a b; "
    "t^(a-1) for non-integer a is exp((a-1) ln t).",
    "Named identities (textbook, not proved in Coq): gamma(n, x) = (n-1)! (1 - e^-x sum_{k<n} x^k/k!), Gamma(n, x) = (n-1)! e^-x sum_{k<n} x^k/k! "
    "for integer n >= 1; si(x) = PI/2 - RInt exp(-x sin t) cos(x cos t) 0 (PI/2) and ci(x) + e1(x) = RInt exp(-x sin t) sin(x cos t) 0 (PI/2) "
    "(quarter-circle contour of e^{iz}/z; both checked numerically at dps 30 when the module was written).",
    "ASSUMED tail inequalities (elementary, not proved in Coq) for the kinds marked 'tail': 0 < RInt_B^inf exp(-t^2) dt < exp(-B^2)/(2B); "
    "0 < RInt_B^inf exp(-t^2/2) dt < exp(-B^2/2)/B; 0 < RInt_B^inf exp(-u)/u^n du < exp(-B)/B^n; "
    "0 < RInt_B^inf t^(a-1) e^-t dt < B^(a-1) e^-B / (1 - (a-1)/B) for B > a-1 >= 0.  The Coq lemma then states the tolerance for every "
    "value of the interval [I, I + bound] (I the proper integral up to B), so the verdict is exact given these inequalities.",
    "erfinv: y = erfinv(x) within relative e of the true inverse  <=>  erf(y(1-e)) <= x <= erf(y(1+e)) for y > 0 (erf is increasing); "
    "both sides are certified with the integral definition of erf.",
    "Relative error in modulus, tolerance exactly 2^(8-p); inputs are exact dyadic rationals; only sampled instances are certified.",
]


def iparams(p):
    d = max(10, min(32, (p + 24) // 5))
    return {"i_degree": d, "i_fuel": 600, "margin": 22}


T = var("t")


def C(x):
    return HC(Fraction(x))


def two_over_sqrtpi():
    return 2 / sqrt(PI)


# ------------------------------------------------------------------------------------------------ references

def r_erf(x):
    x = Fraction(x)
    if x == 0: raise Skip("zero")
    return two_over_sqrtpi() * rint("t", exp(-(T * T)), 0, C(x))


def r_erfc_small(x):
    return 1 - r_erf(x)


def r_erfi(x):
    return two_over_sqrtpi() * rint("t", exp(T * T), 0, C(x))


def r_ncdf(x):
    return HALF + (1 / sqrt(2 * PI)) * rint("t", exp(-(T * T) * HALF), 0, C(x))


def r_npdf(x, mu, sg):
    d = Fraction(x) - Fraction(mu)
    return exp(C(-(d * d) / (2 * sg * sg))) / (C(sg) * sqrt(2 * PI))


def r_fresnels(x):
    return rint("t", sin(PI * (T * T) * HALF), 0, C(x))


def r_fresnelc(x):
    return rint("t", cos(PI * (T * T) * HALF), 0, C(x))


def r_si(x):
    X = C(x)
    return PI * HALF - rint("t", exp(-(X * sin(T))) * cos(X * cos(T)), 0, PI * HALF)


def esum(n, x):
    """e^-x * sum_{k<n} x^k/k!  as a term"""
    x = Fraction(x)
    s = sum(x ** k / math.factorial(k) for k in range(n))
    return exp(C(-x)) * C(s)


def r_gammainc_lower_int(n, x, reg):
    f = 1 if reg else math.factorial(n - 1)
    return C(f) * (1 - esum(n, x))


def r_gammainc_upper_int(n, x, reg):
    f = 1 if reg else math.factorial(n - 1)
    return C(f) * esum(n, x)


def tpow(a):
    """t^(a-1) as a term in T (t > 0 when a is not an integer)"""
    a = Fraction(a)
    if a.denominator == 1:
        return powz(T, int(a) - 1) if a != 1 else ONE
    return exp(C(a - 1) * ln(T))


def r_gammainc_gen(a, x0, x1):
    return rint("t", tpow(a) * exp(-T), C(x0), C(x1))


def r_betainc_int(a, b, x0, x1, reg):
    """exact rational: integral of t^(a-1) (1-t)^(b-1), a, b positive integers"""
    a, b = int(a), int(b)
    def F(x):
        x = Fraction(x)
        return sum(Fraction(math.comb(b - 1, j) * (-1) ** j, a + j) * x ** (a + j) for j in range(b))
    v = F(x1) - F(x0)
    if reg:
        v = v * Fraction(math.factorial(a + b - 1), math.factorial(a - 1) * math.factorial(b - 1))
    return v


def r_betainc_gen(a, b, x0, x1):
    a, b = Fraction(a), Fraction(b)
    def pw(base, e):
        if e.denominator == 1:
            return powz(base, int(e)) if e != 0 else ONE
        return exp(C(e) * ln(base))
    return rint("t", pw(T, a - 1) * pw(1 - T, b - 1), C(x0), C(x1))


# ------------------------------------------------------------------------------------------------ builders with tails

def _real(yvs):
    yv = yvs[0]
    if yv[0] == "complex" and yv[2] == 0: yv = ("real", yv[1])
    if yv[0] != "real": raise Skip("non-real value")
    return yv[1]


def _cut(x2, p, extra=40):
    """B with exp(-(B^2 - x^2)) far below 2^-p:  B^2 = x^2 + (p+extra) ln 2, rounded up to a short dyadic"""
    b = math.sqrt(float(x2) + (p + extra) * 0.6931471805599453)
    return Fraction(int(b * 16) + 1, 16)


def b_erfc_tail(cid, k, args, p, yvs, eps, meta, params):
    x, = args; y = _real(yvs)
    B = _cut(x * x, p)
    c = two_over_sqrtpi()
    lo = c * rint("t", exp(-(T * T)), C(x), C(B))
    tau = c * exp(C(-B * B)) / C(2 * B)
    return [tail_instance(cid + "_tail", y, lo, tau, eps, params=params, meta=meta)]


def b_ncdf_tail(cid, k, args, p, yvs, eps, meta, params):
    x, = args; y = _real(yvs)                 # x < 0: ncdf(x) = 1/sqrt(2 PI) RInt_{|x|}^inf exp(-t^2/2)
    ax = -x
    B = Fraction(int(math.sqrt(float(ax * ax) + 2 * (p + 40) * 0.6931471805599453) * 16) + 1, 16)
    c = 1 / sqrt(2 * PI)
    lo = c * rint("t", exp(-(T * T) * HALF), C(ax), C(B))
    tau = c * exp(C(-B * B / 2)) / C(B)
    return [tail_instance(cid + "_tail", y, lo, tau, eps, params=params, meta=meta)]


def b_expint_tail(cid, k, args, p, yvs, eps, meta, params):
    n, x = args; y = _real(yvs)               # E_n(x) = x^(n-1) (RInt_x^B exp(-u)/u^n du + tail),  tail < exp(-B)/B^n
    B = x + Fraction(int((p + 40) * 0.6931471805599453 * 4) + 1, 4)
    sc = C(Fraction(x) ** (n - 1))
    lo = sc * rint("t", exp(-T) / (powz(T, n) if n > 1 else T), C(x), C(B))
    tau = sc * exp(C(-B)) / C(B ** n)
    return [tail_instance(cid + "_tail", y, lo, tau, eps, params=params, meta=meta)]


def b_gammainc_upper_tail(cid, k, args, p, yvs, eps, meta, params):
    a, x = args; y = _real(yvs)               # Gamma(a, x) = RInt_x^B t^(a-1) e^-t dt + tail, B > a - 1
    B = Fraction(int((float(x) + float(a) + (p + 40) * 0.6931471805599453 + 4 * float(a) * math.log(2 + float(x) + float(a) + p)) * 4) + 1, 4)
    lo = rint("t", tpow(a) * exp(-T), C(x), C(B))
    Bt = C(B)
    ba = exp(C(a - 1) * ln(Bt)) if Fraction(a).denominator != 1 else powz(Bt, int(a) - 1)
    tau = ba * exp(-Bt) / C(1 - (a - 1) / B)
    return [tail_instance(cid + "_tail", y, lo, tau, eps, params=params, meta=meta)]


def b_erfinv(cid, k, args, p, yvs, eps, meta, params):
    x, = args; y = _real(yvs)
    s = 1 if x > 0 else -1
    ya, xa = s * y, s * x
    if ya <= 0:
        return [], "erfinv(%s) has the wrong sign" % (x,)
    c = two_over_sqrtpi()
    lo = c * rint("t", exp(-(T * T)), 0, C(ya * (1 - eps)))
    hi = c * rint("u", exp(-(var("u") * var("u"))), 0, C(ya * (1 + eps)))
    return [bracket_instance(cid + "_inv", lo, C(xa), hi, params=params, meta=meta)]


INCR = {
    "erfc": lambda a, b: -(two_over_sqrtpi() * rint("t", exp(-(T * T)), C(a), C(b))),
    "e1": lambda a, b: -rint("t", exp(-T) / T, C(a), C(b)),
    "ei": lambda a, b: rint("t", exp(T) / T, C(a), C(b)),
    "si": lambda a, b: rint("t", sin(T) / T, C(a), C(b)),
    "ci": lambda a, b: rint("t", cos(T) / T, C(a), C(b)),
    "shi": lambda a, b: rint("t", (exp(T) - exp(-T)) * HALF / T, C(a), C(b)),
    "chi": lambda a, b: rint("t", (exp(T) + exp(-T)) * HALF / T, C(a), C(b)),
    "li": lambda a, b: rint("t", 1 / ln(T), C(a), C(b)),
}


def mk_incr(fn):
    def build(cid, k, args, p, yvs, eps, meta, params):
        a, b = args
        ya = _real(yvs[:1]); yb = _real(yvs[1:])
        pr = iparams(p)
        return [meta_lin(cid + "_incr", [1, -1], [yb, ya], eps, p, c_term=INCR[fn](a, b), meta=meta,
                         integral=(pr["i_fuel"], pr["i_degree"]))]
    return build


def b_ci_e1(cid, k, args, p, yvs, eps, meta, params):
    x, = args
    y1 = _real(yvs[:1]); y2 = _real(yvs[1:])
    X = C(x)
    c = rint("t", exp(-(X * sin(T))) * sin(X * cos(T)), 0, PI * HALF)
    pr = iparams(p)
    return [meta_lin(cid + "_cie1", [1, 1], [y1, y2], eps, p, c_term=c, meta=meta, integral=(pr["i_fuel"], pr["i_degree"]))]


# ------------------------------------------------------------------------------------------------ generators

def gx(rng, lo, hi, bits=None, neg=False):
    b = bits or rng.choice([3, 6, 12, 30])
    x = rand_dyadic(rng, lo, hi, b)
    if x == 0: x = Fraction(1, 2 ** b)
    return -x if neg and rng.random() < 0.4 else x


def g_pair(rng, lo, hi, maxw):
    a = gx(rng, lo, hi)
    w = gx(rng, Fraction(1, 16), maxw)
    return [a, a + w]


def g_a(rng):
    """parameter a >= 1: integer or dyadic"""
    return Fraction(rng.randint(1, 12)) if rng.random() < 0.4 else rng.randint(1, 8) + Fraction(rng.randint(1, 15), 16)


def g_a_nonint(rng):
    return rng.randint(1, 8) + Fraction(rng.randint(1, 15), 16)


K = []


def reg(*a, **kw):
    K.append(Kind(*a, **kw))


IQ = dict(precs=PRECS_INT_QUICK, params=iparams)

reg("npdf", "npdf", lambda c, x, mu, sg: c.npdf(M(c, x), M(c, mu), M(c, sg)), r_npdf,
    lambda rng, p: [gx(rng, -12, 12), gx(rng, -3, 3), abs(gx(rng, Fraction(1, 8), 4))], w=1.0, regime="elementary")
reg("erf", "erf", lambda c, x: c.erf(M(c, x)), r_erf, lambda rng, p: [gx(rng, Fraction(1, 64), 6, neg=True)], w=2.0, regime="integral", **IQ)
reg("erf_small", "erf", lambda c, x: c.erf(M(c, x)), r_erf, lambda rng, p: [Fraction(rng.randint(1, 255), 2 ** rng.randint(12, 60)) * rng.choice([1, 1, -1])], w=2.0, regime="integral", **IQ)
reg("erfc_small", "erfc", lambda c, x: c.erfc(M(c, x)), r_erfc_small, lambda rng, p: [gx(rng, -4, 1)], w=1.0, regime="integral", **IQ)
reg("erfc_tail", "erfc", lambda c, x: c.erfc(M(c, x)), gen=lambda rng, p: [gx(rng, 1, rng.choice([3, 8, 20]))], build=b_erfc_tail, w=1.5, regime="tail", **IQ)
reg("erfc_tail_frac", "erfc", lambda c, x: c.erfc(M(c, x)),
    gen=lambda rng, p: [Fraction(rng.randint(4, 12)) + 1 - Fraction(rng.randint(1, 100), 1024)], build=b_erfc_tail, w=1.5, regime="tail", **IQ)
reg("erfi", "erfi", lambda c, x: c.erfi(M(c, x)), r_erfi, lambda rng, p: [gx(rng, Fraction(1, 64), 5, neg=True)], w=1.0, regime="integral", **IQ)
reg("ncdf", "ncdf", lambda c, x: c.ncdf(M(c, x)), r_ncdf, lambda rng, p: [gx(rng, -1, 7)], w=1.0, regime="integral", **IQ)
reg("ncdf_tail", "ncdf", lambda c, x: c.ncdf(M(c, x)), gen=lambda rng, p: [-gx(rng, 1, rng.choice([4, 12]))], build=b_ncdf_tail, w=0.8, regime="tail", **IQ)
reg("fresnels", "fresnels", lambda c, x: c.fresnels(M(c, x)), r_fresnels, lambda rng, p: [gx(rng, Fraction(1, 8), 4)], w=1.0, regime="integral", **IQ)
reg("fresnelc", "fresnelc", lambda c, x: c.fresnelc(M(c, x)), r_fresnelc, lambda rng, p: [gx(rng, Fraction(1, 8), 4)], w=1.0, regime="integral", **IQ)
reg("si", "si", lambda c, x: c.si(M(c, x)), r_si, lambda rng, p: [gx(rng, Fraction(1, 4), rng.choice([4, 20]))], w=1.0, regime="integral", **IQ)
reg("gammainc_lower_int", "gammainc", lambda c, n, x, r: c.gammainc(n, 0, M(c, x), regularized=r), r_gammainc_lower_int,
    lambda rng, p: [rng.randint(1, 12), gx(rng, Fraction(1, 4), 30), rng.random() < 0.3], w=1.2, regime="elementary")
reg("gammainc_upper_int", "gammainc", lambda c, n, x, r: c.gammainc(n, M(c, x), regularized=r), r_gammainc_upper_int,
    lambda rng, p: [rng.randint(1, 12), gx(rng, Fraction(1, 4), rng.choice([10, 60])), rng.random() < 0.3], w=1.5, regime="elementary")
reg("gammainc_gen", "gammainc", lambda c, a, x0, x1: c.gammainc(M(c, a), M(c, x0), M(c, x1)), r_gammainc_gen,
    lambda rng, p: [g_a(rng)] + g_pair(rng, Fraction(1, 8), 12, 8), w=1.2, regime="integral", **IQ)
reg("gammainc_upper_tail", "gammainc", lambda c, a, x: c.gammainc(M(c, a), M(c, x)), gen=lambda rng, p: [g_a_nonint(rng), gx(rng, Fraction(1, 4), 20)],
    build=b_gammainc_upper_tail, w=1.0, regime="tail", **IQ)
reg("betainc_int", "betainc", lambda c, a, b, x0, x1, r: c.betainc(a, b, M(c, x0), M(c, x1), regularized=r), r_betainc_int,
    lambda rng, p: [rng.randint(1, 9), rng.randint(1, 9)] + sorted([gx(rng, 0, 1, 8), gx(rng, 0, 1, 8) + Fraction(1, 512)])[:2] + [rng.random() < 0.3],
    w=1.2, regime="polynomial")
reg("betainc_gen", "betainc", lambda c, a, b, x0, x1: c.betainc(M(c, a), M(c, b), M(c, x0), M(c, x1)), r_betainc_gen,
    lambda rng, p: [g_a(rng), g_a(rng)] + g_pair(rng, Fraction(1, 16), Fraction(1, 2), Fraction(7, 16)), w=1.0, regime="integral", **IQ)
reg("e1_tail", "e1", lambda c, x: c.e1(M(c, x)), gen=lambda rng, p: [1, gx(rng, Fraction(1, 4), rng.choice([4, 30]))], build=b_expint_tail, w=1.5,
    regime="tail", **IQ)
K[-1].call = lambda c, n, x: c.e1(M(c, x))
reg("expint_tail", "expint", lambda c, n, x: c.expint(n, M(c, x)), gen=lambda rng, p: [rng.randint(1, 8), gx(rng, Fraction(1, 4), rng.choice([4, 30]))],
    build=b_expint_tail, w=1.2, regime="tail", **IQ)
reg("expint_tail_bign", "expint", lambda c, n, x: c.expint(n, M(c, x)),
    gen=lambda rng, p: (lambda n: [n, Fraction(rng.randint(3 * n, 5 * n), 2)])(rng.randint(14, 28)),
    build=b_expint_tail, w=0.8, regime="tail-large-order", **IQ)
reg("erfinv", "erfinv", lambda c, x: c.erfinv(M(c, x)), gen=lambda rng, p: [gx(rng, Fraction(1, 64), Fraction(9, 10), neg=True)], build=b_erfinv,
    w=1.0, regime="inverse", precs=[20, 53], params=iparams)
MM = "metamorphic"
for _fn, _lo, _hi, _w in (("erfc", 1, 12, 1.0), ("e1", Fraction(1, 4), 20, 1.0), ("ei", Fraction(1, 4), 20, 1.0), ("si", Fraction(1, 4), 20, .7),
                          ("ci", Fraction(1, 4), 20, 1.0), ("shi", Fraction(1, 4), 12, .7), ("chi", Fraction(1, 4), 12, .7),
                          ("li", Fraction(5, 4), 40, 1.0)):
    reg("m_incr_" + _fn, "%s(a) & %s(b)" % (_fn, _fn), (lambda f: lambda c, a, b: (getattr(c, f)(M(c, a)), getattr(c, f)(M(c, b))))(_fn),
        gen=(lambda lo, hi: lambda rng, p: g_pair(rng, lo, hi, 2))(_lo, _hi), build=mk_incr(_fn), w=_w, regime=MM, precs=PRECS_INT_QUICK)
reg("m_ci_e1", "ci(x) & e1(x)", lambda c, x: (c.ci(M(c, x)), c.e1(M(c, x))), gen=lambda rng, p: [gx(rng, Fraction(1, 4), 12)], build=b_ci_e1,
    w=0.8, regime=MM, precs=PRECS_INT_QUICK)

RULE = ("each evaluation = one call (metamorphic kinds: two calls) of the current /repo code; call form drawn from the %d-entry registry "
        "(every entry once, then by weight); arguments random short dyadic rationals in the ranges listed in the registry (erf up to 6, "
        "tails up to 20-30, parameters a, b in [1, 12]); precisions 20/53 quick, 100/200 thorough; non-trivial = a real Interval/integral or "
        "vm_compute proof; distinct = distinct lemma statements" % len(K))


def run(rep, tier_, rng):
    TIER[0] = tier_
    for k in K:
        if k.precs is PRECS_INT_QUICK and tier_ == "thorough":
            k.precs = [20, 53, 53, 100, 100, 200]
    run_kinds(rep, K, tier_, rng, n_quick=int(os.environ.get('VERIF_B3_N', 36)), n_thorough=170, precs_quick=PRECS_QUICK, precs_thorough=PRECS_THOROUGH,
              assumptions=ASSUMPTIONS, rule=RULE, not_decided=NOT_DECIDED,
              params={"sentence_timeout": 100 if tier_ == "quick" else 400, "single_timeout": 100 if tier_ == "quick" else 400,
                      "batch": 6, "ladder": [1]},
              budget_quick=95)


def replay(rep, path):
    replay_kinds(rep, path, K)
