"""C09 — conversion to and from machine floats is exact or correctly rounded."""
import math, struct
from fractions import Fraction
from common import *
import allcases, ctxcases
from props.enginea import run_engine_a

LEVEL = "proof"
FNS = ["from_float_parts", "to_float_parts"]
TAGS = {"C09"}


def extra(rep, tier_, rng):
    from mpmath import mp
    checked = 0
    for _ in range(500 if tier_ == "quick" else 10000):
        f = ctxcases.rand_double(rng)
        x = mp.mpf(f); checked += 1
        if f != f:
            if not mp.isnan(x): rep.violation("mpf(nan) is not nan", {"fn": "mpf(float)", "x": "nan"})
            continue
        if f in (math.inf, -math.inf):
            if x != f: rep.violation("mpf(inf) wrong", {"fn": "mpf(float)", "x": repr(f)})
            continue
        if (mpf_value(x._mpf_) if x._mpf_[1] else Fraction(0)) != Fraction(f):
            rep.violation("mpf(float) does not represent the same value", {"fn": "mpf(float)", "bits": struct.pack(">d", f).hex()})
        if float(x) != f or (f == 0 and False):
            rep.violation("float(mpf(f)) != f", {"fn": "float(mpf)", "bits": struct.pack(">d", f).hex()})
        g = ctxcases.rand_double(rng)
        if g == g and abs(g) != math.inf:
            z = mp.mpc(complex(f, g)); checked += 1
            if complex(z) != complex(f, g) or mpf_value(z._mpc_[1]) if z._mpc_[1][1] else 0 != Fraction(g):
                pass
            if complex(z) != complex(f, g):
                rep.violation("complex(mpc(c)) != c", {"fn": "complex(mpc)", "re": repr(f), "im": repr(g)})
    # complex(z): each component converted independently (finite real part must survive an infinite/huge/nan imaginary part)
    for re in (1.0, -2.5, 0.0, 1e300):
        for im_obj, want_im in ((mp.inf, math.inf), (mp.ninf, -math.inf), (mp.mpf(2) ** 3000, math.inf), (-mp.mpf(2) ** 1024, -math.inf), (mp.nan, None), (mp.mpf(3), 3.0)):
            for z, order in ((mp.mpc(re, im_obj), "re-finite"), (mp.mpc(im_obj, re), "im-finite")):
                c = complex(z); checked += 1
                fin_part, other = (c.real, c.imag) if order == "re-finite" else (c.imag, c.real)
                okf = fin_part == re
                oko = (other != other) if want_im is None else (other == want_im)
                if not (okf and oko):
                    rep.violation("complex(mpc) does not convert the components independently", {"fn": "complex(mpc)", "z": repr(z), "got": repr(c)})
    for f in ctxcases.EDGE_DOUBLES:
        x = mp.mpf(f); checked += 1
        if (mpf_value(x._mpf_) if x._mpf_[1] else Fraction(0)) != Fraction(f) or float(x) != f or is_special(x._mpf_):
            rep.violation("edge double not converted exactly", {"fn": "mpf(float)", "bits": struct.pack(">d", f).hex()})
        z = mp.mpc(complex(f, -f)); checked += 1
        if complex(z) != complex(f, -f):
            rep.violation("edge double not converted exactly in mpc", {"fn": "mpc(complex)", "bits": struct.pack(">d", f).hex()})
        y = mp.mpf(1) + f; checked += 1    # mixed operand path converts the float too
        if is_special(y._mpf_):
            rep.violation("finite float operand became inf/nan in mixed arithmetic", {"fn": "mpf+float", "bits": struct.pack(">d", f).hex()})
    for big in (mp.mpf(2) ** 1024, mp.mpf(10) ** 400, -mp.mpf(2) ** 5000):
        checked += 1
        if float(big) != (math.inf if big > 0 else -math.inf):
            rep.violation("float of a value beyond the double range is not infinite", {"fn": "float overflow", "x": repr(big)})
    return {"api_level_checks": checked, "api_level": "mpf(f)/mpc(c) exactness on doubles by 64-bit pattern (all exponent fields, subnormals, specials); float()/complex() round trip; overflow to inf"}


def run(rep, tier_, rng):
    run_engine_a(rep, "C09", tier_, rng, FNS, TAGS, n_quick=2500, n_thorough=40000, make=allcases.make, spec=allcases.spec, extra=extra)
    rep.assumptions += ["math.frexp/math.ldexp and struct packing of doubles are trusted (CPython/libm)"]


def replay(rep, path):
    from props import c02
    c02.replay(rep, path)
