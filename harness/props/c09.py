"""C09 — conversion to and from machine floats is exact or correctly rounded."""
import math, struct
from fractions import Fraction
from common import *
import allcases, ctxcases
from props.enginea import run_engine_a

LEVEL = "proof"
FNS = ["from_float_parts", "to_float_parts"]
TAGS = {"C09"}


def extra(rep, tier_, rng):
    from mpmath import mp
    checked = 0
    for _ in range(500 if tier_ == "quick" else 10000):
        f = ctxcases.rand_double(rng)
        x = mp.mpf(f); checked += 1
        if f != f:
            if not mp.isnan(x): rep.violation("mpf(nan) is not nan", {"fn": "mpf(float)", "x": "nan"})
            continue
        if f in (math.inf, -math.inf):
            if x != f: rep.violation("mpf(inf) wrong", {"fn": "mpf(float)", "x": repr(f)})
            continue
        if (mpf_value(x._mpf_) if x._mpf_[1] else Fraction(0)) != Fraction(f):
            rep.violation("mpf(float) does not represent the same value", {"fn": "mpf(float)", "bits": struct.pack(">d", f).hex()})
        if float(x) != f or (f == 0 and False):
            rep.violation("float(mpf(f)) != f", {"fn": "float(mpf)", "bits": struct.pack(">d", f).hex()})
        g = ctxcases.rand_double(rng)
        if g == g and abs(g) != math.inf:
            z = mp.mpc(complex(f, g)); checked += 1
            if complex(z) != complex(f, g) or mpf_value(z._mpc_[1]) if z._mpc_[1][1] else 0 != Fraction(g):
                pass
            if complex(z) != complex(f, g):
                rep.violation("complex(mpc(c)) != c", {"fn": "complex(mpc)", "re": repr(f), "im": repr(g)})
    for big in (mp.mpf(2) ** 1024, mp.mpf(10) ** 400, -mp.mpf(2) ** 5000):
        checked += 1
        if float(big) != (math.inf if big > 0 else -math.inf):
            rep.violation("float of a value beyond the double range is not infinite", {"fn": "float overflow", "x": repr(big)})
    return {"api_level_checks": checked, "api_level": "mpf(f)/mpc(c) exactness on doubles by 64-bit pattern (all exponent fields, subnormals, specials); float()/complex() round trip; overflow to inf"}


def run(rep, tier_, rng):
    run_engine_a(rep, "C09", tier_, rng, FNS, TAGS, n_quick=2500, n_thorough=40000, make=allcases.make, spec=allcases.spec, extra=extra)
    rep.assumptions += ["math.frexp/math.ldexp and struct packing of doubles are trusted (CPython/libm)"]


def replay(rep, path):
    from props import c02
    c02.replay(rep, path)
