"""C11 -- every public entry point leaves the working precision (prec and dps) as it found it, on normal return
and on exceptions (internal faults, raising callbacks); the precision managers restore on every exit; the dps/prec
setters follow the documented conversion.

Engine C: (a) verified abstract interpreter over a command language of precision effects (coq_effects/, theorems
restated in coq_effects/C11.v); (b) the sources are re-translated on every run (effects_translate.py), Coq computes
the greatest fixpoint of the summaries and checks it; (c) the result is validated / confirmed dynamically with the
fault-injection hook in a child process (c11_dyn.py)."""
import os, sys, json, re, subprocess, time, glob
from common import *
import effects_translate as ET

LEVEL = "proof"
EFF = os.path.join(VERIF, "coq_effects")
OUT = os.path.join(VERIF, "build", "effects")
KNOWN_FILE = os.path.join(VERIF, "known_findings_c11.json")
DYN = os.path.join(VERIF, "harness", "c11_dyn.py")

# public entry points whose documented purpose is to change the precision of the context
BY_DESIGN = {"default": "mp.default() resets the context to prec=53/dps=15 (checked dynamically: it does exactly that)"}
# exercised by dedicated tests (managers, wrappers) rather than by the generic sweep, or needing a display
SWEEP_SKIP = {"plot", "cplot", "splot", "default", "clone", "workprec", "workdps", "extraprec", "extradps", "autoprec",
              "memoize", "maxcalls", "monitor"}
FORBIDDEN = re.compile(r"\b(Admitted|admit|Axiom|Axioms|Parameter|Parameters|Conjecture|Admit Obligations|Variable|Variables|Hypothesis|Hypotheses)\b|Unset Guard|bypass_check|type-in-type|impredicative-set")


def load_own_known(rep):
    if not os.path.exists(KNOWN_FILE):
        return
    d = json.load(open(KNOWN_FILE))
    have = set(k["key"] for k in rep.known)
    for k in d.get("findings", []) + d.get("unconfirmed_static_flags", []):
        if k.get("property") == "C11" and k["key"] not in have:
            rep.known.append(k)


def sh(cmd, cwd, timeout):
    t0 = time.time()
    try:
        p = subprocess.run(cmd, cwd=cwd, capture_output=True, text=True, timeout=timeout)
        return p.returncode, p.stdout + p.stderr, time.time() - t0
    except subprocess.TimeoutExpired as e:
        return 124, "timeout after %ds: %s" % (timeout, cmd), time.time() - t0


def grep_gate(paths):
    bad = []
    for p in paths:
        txt = open(p).read()
        txt = re.sub(r"\(\*.*?\*\)", "", txt, flags=re.S)
        # Section-local Variable/Hypothesis are allowed (README): strip sections
        nosec = re.sub(r"\bSection\s+(\w+)\..*?\bEnd\s+\1\.", "", txt, flags=re.S)
        for m in FORBIDDEN.finditer(nosec):
            bad.append("%s: %s" % (p, m.group(0)))
        for m in re.finditer(r"\b(Admitted|admit|Axiom|Parameter|Conjecture)\b", txt):
            bad.append("%s: %s" % (p, m.group(0)))
    return sorted(set(bad))


def build_coq(rep, cov):
    """(a) the development (make is a no-op when current) and the Props-style file"""
    cmds = []
    mk = "{ [ Makefile.coq -nt _CoqProject ] || coq_makefile -f _CoqProject -o Makefile.coq; } && make -f Makefile.coq -j8"
    rc, log, secs = sh(["timeout", "170", "sh", "-c", mk], EFF, 180)
    cmds.append("cd coq_effects && " + mk)
    if rc != 0:
        rep.violation("coq_effects does not build", {"theorem": "coq_effects build", "log": log[-2500:]}, no_input=True)
        return False, cmds, 0, 0, []
    cmd = ["timeout", "120", "coqc", "-Q", ".", "EFF", "C11.v"]
    rc, log, secs2 = sh(cmd, EFF, 130)
    cmds.append("cd coq_effects && " + " ".join(cmd))
    src = open(os.path.join(EFF, "C11.v")).read()
    nth = len(re.findall(r"^\s*(Theorem|Lemma|Corollary)\s", src, re.M))
    nprint = len(re.findall(r"^\s*Print Assumptions", src, re.M))
    closed = log.count("Closed under the global context")
    axioms = sorted(set(re.findall(r"^([A-Za-z_][\w.]*)\s*:", log, re.M)))
    proofs = re.findall(r"Proof\.(.*?)Qed\.", src, re.S)
    only_exact = all(re.fullmatch(r"\s*exact\s.*?\.\s*", p, re.S) for p in proofs) and len(proofs) == nth
    if rc != 0:
        rep.violation("coq_effects/C11.v does not compile", {"theorem": "C11.v", "log": log[-2500:]}, no_input=True)
    if closed != nprint or axioms:
        rep.violation("a C11 theorem depends on assumptions", {"theorem": "Print Assumptions in C11.v", "axioms": axioms,
                                                               "closed": closed, "expected": nprint}, no_input=True)
    if not only_exact:
        rep.violation("C11.v must contain statements closed by `exact` only", {"theorem": "C11.v shape"}, no_input=True)
    gate = grep_gate(sorted(glob.glob(os.path.join(EFF, "*.v"))))
    if gate:
        rep.violation("forbidden construct in coq_effects", {"theorem": "grep gate", "hits": gate}, no_input=True)
    cov["coq_effects_build_s"] = round(secs, 1)
    ok = rc == 0 and closed == nprint and not axioms and only_exact and not gate
    return ok, cmds, nth, (nth if ok else 0), ["C11.v: %d theorems, Print Assumptions: %d x 'Closed under the global context'" % (nth, closed)]


def child_env():
    env = dict(os.environ)
    env["MPMATH_VERIF"] = "1"
    env["MPMATH_NOGMPY"] = "1"
    env["PYTHONHASHSEED"] = "0"
    env["PYTHONPATH"] = REPO
    env["VERIF_REPO"] = REPO
    env.pop("MPMATH_VERIF_FAULT_AT", None)
    return env


def list_public():
    p = subprocess.run([sys.executable, DYN, "--list-public"], capture_output=True, text=True, timeout=120, env=child_env())
    if p.returncode != 0:
        raise RuntimeError("cannot list public entry points: " + p.stderr[-800:])
    return json.loads(p.stdout)


def map_public(pub, side, verdicts):
    """public name -> static status.  returns dict ctx -> name -> {entry, verdict, status}"""
    byloc = {}
    for e in side["entries"]:
        if e["kind"] == "raw":
            byloc[(e["file"], e["firstlineno"])] = e
            byloc.setdefault((e["file"], e["lineno"]), e)
    byhint = {tuple(e["public_hint"]): e for e in side["entries"] if e["public_hint"]}
    bykey = {e["key"]: e for e in side["entries"]}
    out = {}
    for cname in ("mp", "iv", "fp"):
        res = {}
        for name, info in sorted(pub[cname].items()):
            if info.get("file") is None:
                res[name] = {"status": "callable-object", "entry": None}
                continue
            if info["file"].startswith("libmp") or info["file"] == "math2.py":
                res[name] = {"status": "unscanned-pure", "entry": None}     # no access to a context object
                continue
            ent = None
            if info["codename"] == "f_wrapped" and "f" in info.get("wraps", {}) and cname != "fp":
                ent = byhint.get(("wrapped", cname, info["wraps"]["f"]["name"]))
                if ent is None:
                    res[name] = {"status": "unmapped", "entry": None}
                    continue
            else:
                ent = byloc.get((info["file"], info["lineno"]))
            if ent is None:
                # not in the table: touches no precision attribute and calls nothing (by name) that does
                res[name] = {"status": "not-in-table", "entry": None}
                continue
            keys = [ent["key"]] + list(ent.get("returned_closures", []))
            # wrappers around another function of the package (memoize ...): the wrapped function must be neutral too
            for nm, w in (info.get("wraps") or {}).items():
                if info["codename"] == "f_wrapped" and nm == "f":
                    continue
                e2 = byloc.get((w["file"], w["lineno"]))
                if e2 is not None:
                    keys.append(e2["key"])
            vs = [verdicts.get(k) for k in keys]
            okall = all(v is not None and v[0] and v[1] for v in vs)
            res[name] = {"status": "safe" if okall else "unsafe", "entry": ent["key"], "verdicts": vs, "keys": keys,
                         "flags": ent["flags"], "is_gen": ent["is_gen"]}
        # the precision managers: what they return is judged by the translated PrecisionManager
        if cname != "fp":
            mk = ["synthetic:with-manager"] + ([side["pm_call_g"]] if side.get("pm_call_g") else [])
            for nm in ("workprec", "workdps", "extraprec", "extradps"):
                if nm in res:
                    keys = list(res[nm].get("keys") or []) + mk
                    vs = [verdicts.get(k) for k in keys]
                    okall = all(v is not None and v[0] and v[1] for v in vs) and side["pm_factories_ok"] and side.get("pm_call_g")
                    res[nm].update({"status": "safe" if okall else "unsafe", "keys": keys, "verdicts": vs,
                                    "entry": res[nm].get("entry") or "synthetic:with-manager"})
        if cname == "fp" and side["fp_const"]["ok"]:
            # fp.prec / fp.dps are constant read-only properties: nothing can change them
            for nm in res:
                if res[nm]["status"] in ("safe", "unsafe"):
                    res[nm]["status"] = "safe"
                    res[nm]["note"] = "fp precision is constant"
        out[cname] = res
    return out


def run_dynamic(rep, tier_, names, unsafe, cov):
    os.makedirs(OUT, exist_ok=True)
    W = max(1, min(8, NPROC))
    budget = 95 if tier_ == "quick" else 900
    # heavy functions first, round-robin
    heavy = ["zetazero", "nzeros", "invertlaplace", "nsum", "secondzeta", "quadosc", "rs_zeta", "rs_z", "odefun", "findroot",
             "invlaptalbot", "invlapstehfest", "invlapdehoog", "siegelz", "zeta", "quad", "sumem", "sumap", "eig", "svd"]
    names = sorted(names, key=lambda x: (0 if x[1] in heavy else 1, x[1], x[0]))
    procs = []
    for w in range(W):
        job = {"tier": tier_, "seed": seed(), "budget": budget, "names": names[w::W], "unsafe": sorted(unsafe),
               "special": w == 0, "model_bound": 200000 if tier_ == "quick" else 1000000}
        jf = os.path.join(OUT, "job%d.json" % w); of = os.path.join(OUT, "out%d.json" % w)
        json.dump(job, open(jf, "w"))
        if os.path.exists(of):
            os.remove(of)
        p = subprocess.Popen(["timeout", str(budget + (120 if tier_ == "quick" else 600)), sys.executable, DYN, "--run", jf, of], env=child_env(),
                             stdout=subprocess.DEVNULL, stderr=subprocess.PIPE, text=True)
        procs.append((p, of))
    results = []
    for p, of in procs:
        _, err = p.communicate()
        if p.returncode != 0 or not os.path.exists(of):
            rep.violation("dynamic worker failed", {"theorem": "c11_dyn worker", "log": (err or "")[-1500:]}, no_input=True)
            continue
        r = json.load(open(of))
        if "error" in r:
            rep.violation("dynamic worker: " + r["error"], {"theorem": "c11_dyn worker"}, no_input=True)
            continue
        results.append(r)
    return results


def coq_ctx_cases(rep, cases, cov, cmds):
    """the setter observations of this run, re-evaluated by the Gallina model"""
    uniq = sorted(set(tuple(c) for c in cases))
    lines = ["(* GENERATED: observations (setter, argument, prec, dps) of the running implementation *)",
             "From Coq Require Import ZArith List Bool.", "Import ListNotations.", "Require Import EFF.Ctx.", "Open Scope Z_scope.",
             "Definition cases : list (bool * Z * Z * Z) := ["]
    lines.append(";\n".join("  (%s, (%d), %d, %d)" % ("true" if k == "set_prec" else "false", n, p, d) for k, n, p, d in uniq))
    lines.append("].")
    lines.append("Definition ok (c : bool * Z * Z * Z) : bool := let '(k, n, p, d) := c in "
                 "let s := if k then set_prec n else set_dps n in (Ctx.prec s =? p) && (dps s =? d).")
    lines.append("Definition bad := Eval vm_compute in filter (fun c => negb (ok c)) cases.\nPrint bad.")
    lines.append("Lemma cases_ok : forallb ok cases = true.\nProof. vm_compute. reflexivity. Qed.")
    path = os.path.join(OUT, "CtxCases.v")
    open(path, "w").write("\n".join(lines) + "\n")
    cmd = ["timeout", "120", "coqc", "-Q", EFF, "EFF", "CtxCases.v"]
    rc, log, secs = sh(cmd, OUT, 130)
    cmds.append("cd build/effects && " + " ".join(cmd))
    if rc != 0:
        m = re.search(r"bad\s*=\s*(\[.*?\])\s*:", log, re.S)
        rep.violation("the Ctx.v model of the precision setters disagrees with the implementation",
                      {"fn": "mp.prec/mp.dps setter", "args": (m.group(1)[:400] if m else "?"), "log": log[-800:]})
        return 0, len(uniq)
    return len(uniq), len(uniq)


def run(rep, tier_, rng):
    load_own_known(rep)
    cov = {}
    cmds = []
    trusted = ["Coq 8.16.1 kernel + vm_compute", "harness/effects_translate.py (Python ast -> cmd; name-based call resolution, "
               "CallExt for operators/primitives/user callbacks/values of unknown origin, closure specialisation, generator approximation)",
               "Ctx.v models int/float arithmetic of prec_to_dps/dps_to_prec by exact rationals (compared with the interpreter on every run)",
               "AddPrec/SubPrec ignore the max(1, int(.)) clamp of the prec setter (Ctx.add_no_clamp / add_sub_exact state when that is exact)",
               "fault-injection hook of libmpf (normalize/normalize1) as the only internal raising points exercised dynamically"]
    ok_coq, c1, nth, nth_ok, notes = build_coq(rep, cov)
    cmds += c1
    obligations = nth; discharged = nth_ok
    # ---------------------------------------------------------------- (b) static analysis of the current sources
    t0 = time.time()
    st = ET.run_static(OUT, REPO)
    cmds.append("cd build/effects && " + st["cmd"])
    side = st["info"]["side"]
    nent = len(side["entries"])
    obligations += nent + 1
    verd = st["verdicts"]
    static_ok = st["ok"] and all(v is not None for v in verd.values()) and st["closed"] >= 2
    gate = grep_gate([os.path.join(OUT, "Terms.v")])
    if gate:
        static_ok = False
        rep.violation("forbidden construct in generated Terms.v", {"theorem": "grep gate", "hits": gate}, no_input=True)
    if not static_ok:
        rep.violation("the regenerated table of precision effects does not check (Terms.v)",
                      {"theorem": "Terms.v: T_ok / verdicts", "log": st["log"][-2500:]}, no_input=True)
    else:
        discharged += nent + 1
    cov["static_s"] = round(time.time() - t0, 1)
    cov["terms_compile_s"] = round(st["secs"], 1)
    pub = list_public()
    mp_ = map_public(pub, side, verd)
    # functions the analysis cannot verify
    unsafe = {}
    for cname in ("mp", "iv"):
        for name, r in mp_[cname].items():
            if r["status"] in ("unsafe", "unmapped"):
                unsafe.setdefault(name, []).append((cname, r))
    design_hits = sorted(n for n in unsafe if n in BY_DESIGN)
    for n in design_hits:
        del unsafe[n]
    if not side["fp_const"]["ok"] or side["fp_const"]["values"] != {"prec": 53, "dps": 15}:
        rep.violation("fp context: prec/dps are no longer constant read-only properties (53/15)",
                      {"fn": "fp.prec", "kind": "static-only", "theorem": "FPContext.prec/dps property shape", "found": side["fp_const"]}, no_input=True)
    # operator / property methods are reached through CallExt: they must be neutral themselves
    ops_bad = []
    for e in side["entries"]:
        nm = e["name"]
        if e["kind"] == "raw" and nm.startswith("__") and nm.endswith("__") and \
           nm not in ("__init__", "__new__", "__enter__", "__exit__", "__call__"):
            v = verd.get(e["key"])
            if v is None or not (v[0] and v[1]):
                ops_bad.append(e["key"])
    for k in ops_bad:
        rep.violation("operator method %s is not precision-neutral (operators are modelled as CallExt)" % k,
                      {"fn": k, "kind": "static-only", "theorem": "Terms.v check for " + k}, no_input=True)
    # ---------------------------------------------------------------- (c) dynamic validation / confirmation
    names = []
    for cname in ("mp", "iv", "fp"):
        for name, r in mp_[cname].items():
            if name in SWEEP_SKIP:
                continue
            names.append([cname, name])
    t1 = time.time()
    results = run_dynamic(rep, tier_, names, set(unsafe), cov)
    cov["dynamic_s"] = round(time.time() - t1, 1)
    leaks = []; trials = faults = cbt = distinct = inconcl = 0
    samples = []; nocase = []; fstats = {}
    special = model = None
    for r in results:
        leaks += r["leaks"]; trials += r["trials"]; faults += r["fault_trials"]; cbt += r["cb_trials"]
        distinct += r["distinct"]; inconcl += r["inconclusive"]; samples += r["samples"]; nocase += r["nocase"]
        fstats.update(r["functions"])
        if "special_result" in r:
            special = r["special_result"]; model = r["model_result"]
    # classify leaks (failures of the manager / wrapper tests are leaks of the corresponding entry point)
    if special is not None:
        for f in special["failures"]:
            leaks.append({"fn": f["fn"], "ctx": f.get("ctx", "mp"), "args": f.get("args"), "fault_at": f.get("fault_at", 0),
                          "cb_fault_at": 0, "outcome": "special-test", "prec_before": f.get("prec_before"), "prec_after": f.get("prec_after")})
    leak_by_fn = {}
    for l in leaks:
        leak_by_fn.setdefault(l["fn"], []).append(l)
    confirmed = []; unconfirmed = []
    for name in sorted(unsafe):
        infos = unsafe[name]
        vtxt = "; ".join("%s: %s" % (c, r.get("verdicts")) for c, r in infos)
        ls = sorted(leak_by_fn.get(name, []), key=lambda l: (l["ctx"] != "mp", l["fault_at"] == 0 and l["cb_fault_at"] == 0, l["fault_at"]))
        if ls:
            l = ls[0]
            how = ("when an internal primitive raises at call %d" % l["fault_at"]) if l["fault_at"] else \
                  (("when the callback raises at its call %d" % l["cb_fault_at"]) if l["cb_fault_at"] else "on a plain call (outcome %s)" % l["outcome"])
            rep.violation("%s leaves the working precision changed %s: (prec, dps) %s -> %s" %
                          (name, how, l["prec_before"], l["prec_after"]),
                          {"fn": name, "ctx": l["ctx"], "args": l["args"], "fault_at": l["fault_at"], "cb_fault_at": l["cb_fault_at"],
                           "prec_before": l["prec_before"], "prec_after": l["prec_after"], "outcome": l["outcome"], "static": vtxt})
            confirmed.append(name)
        else:
            rep.violation("the effect analysis cannot verify that %s restores the precision and no concrete leak was found "
                          "(Terms.v check for %s)" % (name, name),
                          {"fn": name, "kind": "static-only", "theorem": "Terms.v check for " + name, "static": vtxt,
                           "entry": infos[0][1].get("entry")}, no_input=True)
            unconfirmed.append(name)
    unsound = []
    for name, ls in sorted(leak_by_fn.items()):
        if name in unsafe or name in BY_DESIGN:
            continue
        seen_args = []
        for l in ls:
            if l["args"] in seen_args or len(seen_args) >= 3:
                continue
            seen_args.append(l["args"])
            if rep.violation("ABSTRACTION UNSOUND or unmodelled entry point: %s.%s is called safe by the analysis but leaks: %s -> %s" %
                             (l["ctx"], name, l["prec_before"], l["prec_after"]),
                             {"fn": name, "ctx": l["ctx"], "args": l["args"], "fault_at": l["fault_at"], "cb_fault_at": l["cb_fault_at"],
                              "prec_before": l["prec_before"], "prec_after": l["prec_after"], "outcome": l["outcome"], "static": "safe"}):
                if name not in unsound:
                    unsound.append(name)
    nspecial = nmodel = 0
    if special is None or model is None:
        rep.violation("manager / setter tests did not run", {"theorem": "c11_dyn special tests"}, no_input=True)
    else:
        nspecial = special["checks"]; nmodel = model["checks"]
        for f in model["failures"][:10]:
            rep.violation("precision conversion disagrees with the Ctx.v model: %s(%s) = %s, model %s" %
                          (f["fn"], f["args"], f["impl"], f["model"]), f)
        good, total = coq_ctx_cases(rep, model["cases"], cov, cmds)
        obligations += total + 1
        discharged += (good + 1) if good == total else 0
    # ---------------------------------------------------------------- (d) coverage
    nsafe = {c: sum(1 for r in mp_[c].values() if r["status"] == "safe") for c in mp_}
    nnot = {c: sum(1 for r in mp_[c].values() if r["status"] == "not-in-table") for c in mp_}
    gens = sorted(e["key"] for e in side["entries"] if "generator-writes-prec" in e["flags"])
    rep.assumptions = trusted
    rep.coverage = {
        "obligations": obligations, "discharged": discharged,
        "checker_cmd": " ; ".join(cmds), "trusted_base": trusted + notes,
        "evaluations": trials, "distinct_nontrivial": distinct,
        "rule": "every public function/method of mp, iv, fp (dir(ctx), no underscore) is called with registry or probed arguments "
                "from prec 53, 101 and one seeded precision; non-trivial = a function for which at least one injected primitive "
                "fault or callback fault was actually raised inside the call; fault positions: first/last/middle + seeded; "
                "statically unsafe functions: exhaustive k <= 300 on fixed registry arguments",
        "samples": (samples[:8] + [{"leak": l} for l in leaks[:4]]) or ["none"],
        "functions_scanned": side["nfuncs_scanned"], "functions_translated": nent, "table_functions": side["ntable"],
        "translator_stats": side["stats"],
        "public_entry_points": {c: len(mp_[c]) for c in mp_},
        "public_safe_static": nsafe, "public_not_in_table": nnot,
        "public_unscanned_pure": sorted(n for n, r in mp_["mp"].items() if r["status"] == "unscanned-pure"),
        "public_callable_objects": sorted(n for n, r in mp_["mp"].items() if r["status"] == "callable-object"),
        "public_unsafe_static": sorted(unsafe), "by_design": design_hits,
        "unsafe_confirmed_dynamically": confirmed, "unsafe_static_only": unconfirmed,
        "generators_writing_precision_checked_dynamically_only": gens,
        "dynamic_trials": trials, "primitive_fault_trials": faults, "callback_fault_trials": cbt,
        "inconclusive_timeouts": inconcl, "functions_without_working_arguments": sorted(nocase),
        "manager_and_wrapper_checks": nspecial, "setter_model_checks": nmodel,
        "fp_constant_precision": side["fp_const"], "precision_manager_recognised": side["pm_factories_ok"],
        "abstraction_unsound_hits": unsound, "sources_sha1": side["sha"],
    }
    rep.coverage.update(cov)


def replay(rep, path):
    load_own_known(rep)
    d = json.load(open(path))["replay"]
    name = d.get("fn")
    st = ET.run_static(OUT, REPO)
    side = st["info"]["side"]
    pub = list_public()
    mp_ = map_public(pub, side, st["verdicts"])
    print("static:", {c: mp_[c].get(name, {}).get("status") for c in mp_}, mp_["mp"].get(name, {}).get("verdicts"))
    results = run_dynamic(rep, "quick", [[d.get("ctx", "mp"), name]], {name}, {})
    leaks = [l for r in results for l in r["leaks"] if l["fn"] == name]
    print("dynamic leaks now:", leaks[:3])
    if leaks:
        l = leaks[0]
        rep.violation("%s leaves the working precision changed (replay)" % name,
                      {"fn": name, "args": l["args"], "fault_at": l["fault_at"], "prec_before": l["prec_before"], "prec_after": l["prec_after"]})
    elif mp_["mp"].get(name, {}).get("status") == "unsafe":
        rep.violation("the effect analysis cannot verify %s (Terms.v check for %s)" % (name, name),
                      {"fn": name, "kind": "static-only", "theorem": "Terms.v check for " + str(name)}, no_input=True)
    rep.coverage = {"obligations": 1, "discharged": 1, "checker_cmd": st["cmd"], "trusted_base": [],
                    "evaluations": sum(r["trials"] for r in results) or 1, "distinct_nontrivial": 2, "rule": "replay", "samples": [d]}
