"""C22 -- hypergeometric functions and orthogonal polynomials accurate to 2^(8-p) relative (in modulus); terminating
series with rational parameters evaluated exactly up to rounding.  Engine B, sub-domain certificates (the installed Coq
libraries define no hypergeometric function, so the universal statement cannot be stated; see DESIGN.md "C18-C23").

CERTIFIED per instance (one Coq lemma `|y - ref| <= 2^(8-p) |ref|` per call; `vm_compute` over Z when the reference is an
exact rational, `interval` when it is an elementary closed form; in addition `y = ref` when the exact rational value is a
p-bit binary number -- the "evaluated exactly" clause):
  * legendre(n,x), chebyt(n,x), chebyu(n,x), hermite(n,x) [physicists' H_n], laguerre(n,a,x) [generalized L_n^a],
    gegenbauer(n,a,x) [C_n^(a)], jacobi(n,a,b,x) [P_n^(a,b)] at INTEGER degree n in 0..150, dyadic x (inside and outside
    [-1,1], the points 0, +-1, 1/2, points next to a zero of T_n/U_n/P_n, tiny |x| down to 2^-(2p+270) for legendre with odd n),
    dyadic parameters a, b (also negative ones, negative integers for laguerre/jacobi, a = -m/2 +- 2^-k next to a pole for
    gegenbauer): exact value of the three-term recurrence (jacobi: of the binomial sum) computed with Python Fractions; rational
    points where the exact value is 0 (must return exactly 0);
  * terminating series hyp2f1(-n,b,c,x), hyp1f1(-n,b,x), hyp2f0(-n,b,x), hyp1f2, hyp2f2, hyp2f3, hyp3f2 and
    hyper([-n,a2..],[b1..],x) (p <= 4, q <= 3; for p > q+1 other than 2F0 the degree is kept <= the precision, see known findings) with rational parameters given as int / (p,q) and dyadic x (any sign, |x| up to
    ~40): exact value of the finite sum; also two non-positive integer upper parameters and a negative integer lower
    parameter -m with m > n (finite sum as documented by mpmath);
  * legenp(n,m,x) for integers 0 <= m <= n (type 2 on (-1,1), type 3 on x > 1): (-1)^m (1-x^2)^(m/2) d^m P_n/dx^m resp.
    (x^2-1)^(m/2) d^m P_n/dx^m; legenq(n,0,x) for integer n (type 2 on (-1,1), type 3 on x > 1): P_n(x) atanh-term - W_(n-1)(x);
  * spherharm(l,m,theta,phi), 0 <= l <= 4, |m| <= l, dyadic theta in (0,PI), dyadic phi: closed form (complex modulus lemma);
  * elementary special cases of NON-terminating series (named identities, see `assumptions`): hyp1f1(1,2,x), hyp2f1(1,1,2,x)
    (x < 1), hyp0f1(1/2,-x^2/4) = cos x, hyp0f1(3/2,-x^2/4) = sin x/x, hyp0f1(1/2,x^2/4) = cosh x, hyp0f1(3/2,x^2/4) = sinh x/x,
    hyp1f1(a,a,x) = exp x, hyp2f1(a,b,b,x) = (1-x)^(-a), hyp2f1(1/2,1,3/2,-x^2) = atan x/x, hyp2f1(1/2,1,3/2,x^2) = atanh x/x,
    hyp2f1(1/2,1/2,3/2,x^2) = asin x/x, hyp1f1(b+n,b,x) = exp(x) * polynomial (Kummer), hyp2f1(c+n,b,c,x) = (1-x)^(-n-b) *
    polynomial (Euler), hyp2f1(a,b,c,1) at (half-)integer parameters (Gauss), hyp1f2/hyp2f2 with cancelling parameters,
    hyp1f1(1/2,3/2,-x^2) = (1/x) RInt exp(-t^2) 0..x (p <= 113); arguments include |x| next to 1 for 2F1 (the 1-z / 1/z
    transformations with degenerate parameters), |x| > 1 (negative x) and large |x| for 0F1/1F1 (asymptotic expansions).
METAMORPHIC only (soundness lemmas lin3_violation/lin2_violation in /verif/coq_meta/Meta.v; a certified residual above the
bound proves that one of the named calls violates the tolerance, a residual within the bound proves nothing):
  contiguous relations of hyp1f1 (in a), hyp2f1 (in a) and hyp0f1 (in b) at generic rational parameters and dyadic x.
KNOWN FINDINGS on the unchanged tree (known_findings_B3.json, each in a kind with its own `regime`): exact-zero values raise
ValueError instead of returning 0; jacobi(n,a,b,x) = nan for a negative integer a in [-n,-1] and integer b; legendre(odd n >= 3, x)
returns x for |x| < 2^(-2(p+10)-10); gegenbauer returns 0 when a is within ~2^-(p+40) of a pole of Gamma(2a); hyper() with p > q+1 (3F0, 3F1, 4F0, 4F1, 4F2) and a
terminating degree n >= prec+30 raises NoConvergence or is silently inaccurate; terminating hyp2f1 at x = 1 is evaluated through
Gauss's gamma quotient and is accurate but not exact (about a quarter of the representable values are off by some ulps).
NOT DECIDED: hyperu, whitm, whitw, meijerg, appellf1..4, hyper2d, bihyper, pcfd/pcfu/pcfv/pcfw, legenp/legenq off the
polynomial (integer n, m) case, hermite/laguerre/... at non-integer degree, complex parameters/arguments, any single value of
a non-terminating series at generic parameters (only the metamorphic residuals above), hyp2f1 on the cut x > 1, divergent
2F0/Borel-summed series, gegenbauer at 2a a non-positive integer (convention), spherharm for l > 4 or non-integer l, m."""
import math
from fractions import Fraction
from common import *
import cert
from cert import Const, Cx, ZERO, ONE, HALF, PI, lift, sqrt, ln, exp, sin, cos, atan, powz, Instance
from specb import *

LEVEL = "exploration"

PRECS_QUICK = [15, 53, 113, 400]
PRECS_THOROUGH = [15, 53, 113, 400, 1000, 3000]
TIER = ["quick"]

NOT_DECIDED = [
    "hyperu, whitm, whitw, meijerg, appellf1/f2/f3/f4, hyper2d, bihyper, hypercomb called directly, pcfd/pcfu/pcfv/pcfw",
    "legenp/legenq with non-integer degree or order (off the polynomial case), legenq with order m != 0, hermite/laguerre/"
    "gegenbauer/jacobi/legendre/chebyt/chebyu at non-integer degree, spherharm with l > 4 or non-integer l, m",
    "any single value of a NON-terminating series at generic parameters (hyp0f1, hyp1f1, hyp1f2, hyp2f1, hyp2f2, hyp2f3, hyp3f2, "
    "hyper): only the listed elementary special cases are certified, plus metamorphic residuals of three contiguous relations",
    "complex parameters and complex arguments; hyp2f1 on the branch cut x > 1; divergent series hyp2f0 / p > q+1 (Borel summation) "
    "when no upper parameter is a non-positive integer",
    "gegenbauer(n,a,x) with 2a a non-positive integer (mpmath returns 0 for a in -N: a normalisation convention, not checked)",
    "precisions above 3000 bits and degrees above 150",
]

ASSUMPTIONS = [
    "Definitions used as references for the polynomials (textbook three-term recurrences, evaluated exactly in Python): "
    "(k+1)P_{k+1} = (2k+1)xP_k - kP_{k-1}; T_{k+1} = 2xT_k - T_{k-1} (T_1 = x); U_{k+1} = 2xU_k - U_{k-1} (U_1 = 2x); "
    "H_{k+1} = 2xH_k - 2kH_{k-1} (physicists' Hermite, H_1 = 2x); (k+1)L^a_{k+1} = (2k+1+a-x)L^a_k - (k+a)L^a_{k-1} (L^a_1 = 1+a-x); "
    "(k+1)C^a_{k+1} = 2(k+a)xC^a_k - (k+2a-1)C^a_{k-1} (C^a_1 = 2ax); P_n^(a,b)(x) = sum_s binom(n+a,n-s) binom(n+b,s) ((x-1)/2)^s "
    "((x+1)/2)^(n-s) with the generalized binomial coefficient z(z-1)..(z-k+1)/k! (defines the Jacobi polynomial for ALL a, b).",
    "Terminating series: pFq(-n,a2..;b1..;x) = sum_{k=0}^{n} (-n)_k (a2)_k.. / ((b1)_k.. k!) x^k (the defining finite sum; when a lower "
    "parameter is a negative integer -m the sum is used only if m > n, as mpmath documents).",
    "Named identities for the elementary special cases (not proved in Coq): 1F1(1;2;x) = (e^x-1)/x; 2F1(1,1;2;x) = -ln(1-x)/x; "
    "0F1(;1/2;-x^2/4) = cos x; 0F1(;3/2;-x^2/4) = sin x/x; 0F1(;1/2;x^2/4) = cosh x; 0F1(;3/2;x^2/4) = sinh x/x; 1F1(a;a;x) = e^x; "
    "2F1(a,b;b;x) = (1-x)^(-a) = exp(-a ln(1-x)); 2F1(1/2,1;3/2;-x^2) = atan x/x; 2F1(1/2,1;3/2;x^2) = ln((1+x)/(1-x))/(2x); "
    "2F1(1/2,1/2;3/2;x^2) = asin x/x with asin x = atan(x/sqrt(1-x^2)); Kummer's transformation 1F1(a;b;x) = e^x 1F1(b-a;b;-x) (used with "
    "b-a = -n); Euler's transformation 2F1(a,b;c;x) = (1-x)^(c-a-b) 2F1(c-a,c-b;c;x) (used with c-a = -n); Gauss's theorem 2F1(a,b;c;1) = "
    "Gamma(c)Gamma(c-a-b)/(Gamma(c-a)Gamma(c-b)) with Gamma(n) = (n-1)!, Gamma(n+1/2) = (2n-1)!!/2^n sqrt(PI), Gamma(1/2-m) = "
    "(-2)^m/(2m-1)!! sqrt(PI); cancellation of equal upper/lower parameters; 1F1(1/2;3/2;-x^2) = sqrt(PI) erf(x)/(2x) = (1/x) int_0^x "
    "exp(-t^2) dt.",
    "Legendre functions of integer degree/order: Ferrers function P_n^m(x) = (-1)^m (1-x^2)^(m/2) d^m P_n/dx^m on (-1,1) (type 2, "
    "Condon-Shortley phase), P_n^m(x) = (x^2-1)^(m/2) d^m P_n/dx^m for x > 1 (type 3); Q_n(x) = P_n(x) A(x) - W_{n-1}(x) with "
    "A = ln((1+x)/(1-x))/2 on (-1,1) (type 2), A = ln((x+1)/(x-1))/2 for x > 1 (type 3), W_{n-1} = sum_{k=1}^{n} P_{k-1}(x) P_{n-k}(x)/k "
    "(obtained here from the recurrence (k+1)Q_{k+1} = (2k+1)xQ_k - kQ_{k-1}, Q_0 = A, Q_1 = xA - 1).",
    "Spherical harmonics: Y_l^m(theta,phi) = sqrt((2l+1)/(4 PI) (l-m)!/(l+m)!) P_l^m(cos theta) e^(i m phi) for m >= 0 and "
    "Y_l^(-m) = (-1)^m conj(Y_l^m) (the convention documented by mpmath).",
    "Contiguous relations assumed for the true functions at the sampled point (metamorphic): (b-a) M(a-1,b,x) + (2a-b+x) M(a,b,x) - "
    "a M(a+1,b,x) = 0; (c-a) F(a-1,b;c;x) + (2a-c-ax+bx) F(a,b;c;x) + a(x-1) F(a+1,b;c;x) = 0; 0F1(;b-1;x) - 0F1(;b;x) - "
    "x/(b(b-1)) 0F1(;b+1;x) = 0.  The implication 'residual > bound => one of the calls is outside the tolerance' is proved in Coq "
    "(Meta.v: lin3_violation).",
    "Relative error is measured in modulus: |y - ref| <= 2^(8-p) |ref| (complex values: on the squares).  The 'exact' clause is read as: "
    "when the exact rational value is a binary number of at most p bits the call must return it.",
    "Inputs are exact (ints, dyadic rationals converted without rounding, rational parameters as (p,q) tuples); only the sampled "
    "instances are certified (level exploration, certified oracle).",
]


# ------------------------------------------------------------------------------------------------ exact references

def leg_pair(n, x):
    """(P_n(x), P_{n-1}(x)) exactly"""
    x = Fraction(x)
    a, b = Fraction(0), Fraction(1)          # P_{-1} := 0, P_0
    for k in range(0, n):
        a, b = b, ((2 * k + 1) * x * b - k * a) / (k + 1)
    return b, a


def q_legendre(n, x):
    return leg_pair(n, x)[0]


def q_chebyt(n, x):
    x = Fraction(x)
    if n == 0: return Fraction(1)
    a, b = Fraction(1), x
    for k in range(1, n): a, b = b, 2 * x * b - a
    return b


def q_chebyu(n, x):
    x = Fraction(x)
    if n == 0: return Fraction(1)
    a, b = Fraction(1), 2 * x
    for k in range(1, n): a, b = b, 2 * x * b - a
    return b


def q_hermite(n, x):
    x = Fraction(x)
    if n == 0: return Fraction(1)
    a, b = Fraction(1), 2 * x
    for k in range(1, n): a, b = b, 2 * x * b - 2 * k * a
    return b


def q_laguerre(n, al, x):
    x = Fraction(x); al = Fraction(al)
    if n == 0: return Fraction(1)
    a, b = Fraction(1), 1 + al - x
    for k in range(1, n): a, b = b, ((2 * k + 1 + al - x) * b - (k + al) * a) / (k + 1)
    return b


def q_gegenbauer(n, al, x):
    x = Fraction(x); al = Fraction(al)
    if n == 0: return Fraction(1)
    a, b = Fraction(1), 2 * al * x
    for k in range(1, n): a, b = b, (2 * (k + al) * x * b - (k + 2 * al - 1) * a) / (k + 1)
    return b


def gbinom(z, k):
    r = Fraction(1)
    for j in range(k): r *= (z - j)
    return r / math.factorial(k)


def q_jacobi(n, a, b, x):
    a, b, x = Fraction(a), Fraction(b), Fraction(x)
    u, v = (x - 1) / 2, (x + 1) / 2
    # binom(n+a, n-s) and binom(n+b, s) by running products
    A = [gbinom(n + a, j) for j in range(n + 1)]
    B = [gbinom(n + b, j) for j in range(n + 1)]
    up = [Fraction(1)]; vp = [Fraction(1)]
    for j in range(n): up.append(up[-1] * u); vp.append(vp[-1] * v)
    return sum(A[n - s] * B[s] * up[s] * vp[n - s] for s in range(n + 1))


def q_hyper(a_s, b_s, x):
    """exact value of a TERMINATING pFq: some upper parameter is a non-positive integer; lower parameters never hit 0 first"""
    a_s = [Fraction(a) for a in a_s]; b_s = [Fraction(b) for b in b_s]; x = Fraction(x)
    neg = [-a for a in a_s if a.denominator == 1 and a <= 0]
    if not neg: raise Skip("series does not terminate")
    n = int(min(neg))
    for b in b_s:
        if b.denominator == 1 and b <= 0 and -b <= n: raise Skip("lower parameter reaches 0 before termination")
    t = Fraction(1); s = Fraction(1)
    for k in range(n):
        num = Fraction(1)
        for a in a_s: num *= (a + k)
        den = Fraction(k + 1)
        for b in b_s: den *= (b + k)
        t = t * num * x / den
        s += t
    return s


def leg_coeffs(n):
    """coefficients (ascending) of P_n"""
    p0, p1 = [Fraction(1)], [Fraction(0), Fraction(1)]
    if n == 0: return p0
    for k in range(1, n):
        nx = [Fraction(0)] * (k + 2)
        for i, c in enumerate(p1): nx[i + 1] += (2 * k + 1) * c
        for i, c in enumerate(p0): nx[i] -= k * c
        p0, p1 = p1, [c / (k + 1) for c in nx]
    return p1


def poly_diff(c, m):
    for _ in range(m):
        c = [i * c[i] for i in range(1, len(c))] or [Fraction(0)]
    return c


def poly_q(c, x):
    r = Fraction(0)
    for a in reversed(c): r = r * x + a
    return r


def poly_e(c, t):
    """Horner evaluation of a rational-coefficient polynomial at the real term t"""
    r = Const(c[-1])
    for a in reversed(c[:-1]): r = r * t + Const(a)
    return r


def fac2(n):
    r = 1
    while n > 1:
        r *= n; n -= 2
    return r


def gcoef(t):
    """Gamma(t) = c * sqrt(PI)^h for t in (1/2)Z, not a pole"""
    t = Fraction(t)
    if t.denominator == 1:
        n = int(t)
        if n <= 0: raise Skip("pole")
        return Fraction(math.factorial(n - 1)), 0
    if t.denominator != 2: raise Skip("not a half-integer")
    n = int(t - Fraction(1, 2))
    if n >= 0: return Fraction(fac2(2 * n - 1), 2 ** n), 1
    m = -n
    return Fraction((-2) ** m, fac2(2 * m - 1)), 1


def gquot(num, den):
    c, k = Fraction(1), 0
    for a in num:
        ca, h = gcoef(a); c *= ca; k += h
    for b in den:
        cb, h = gcoef(b); c /= cb; k -= h
    if k == 0: return c
    t = powz(PI, k // 2) if k // 2 else ONE
    if k % 2: t = t * sqrt(PI)
    return HC(c) * t


def rpow(base, r):
    """base^r for a positive rational base and rational exponent r, as a term"""
    base = Fraction(base); r = Fraction(r)
    if base <= 0: raise Skip("non-positive base")
    if r.denominator == 1: return Const(base ** int(r))
    if base == 1: return ONE
    if r.denominator == 2:
        return Const(base ** int(r - Fraction(1, 2))) * sqrt(Const(base))
    return exp(Const(r) * ln(Const(base)))


# ------------------------------------------------------------------------------------------------ generators

def g_deg(rng, hi=150):
    u = rng.random()
    if u < 0.55: return rng.randint(0, 12)
    if u < 0.9: return rng.randint(13, min(40, hi))
    return rng.randint(min(41, hi), hi)


def g_bits(rng, p):
    return rng.choice([2, 4, 10, 24, min(p, 50)])


def g_x(rng, p, lo, hi, special=(0, 1, -1, Fraction(1, 2))):
    if special and rng.random() < 0.08: return Fraction(rng.choice(special))
    return rand_dyadic(rng, lo, hi, g_bits(rng, p))


def g_x11(rng, p):
    """argument of a polynomial orthogonal on [-1,1]: mostly inside, sometimes outside"""
    u = rng.random()
    if u < 0.75: return g_x(rng, p, -1, 1)
    if u < 0.9: return g_x(rng, p, -4, 4)
    return g_x(rng, p, -60, 60, special=())


def g_par(rng, lo=-1, hi=8, neg_ok=True):
    """dyadic parameter: small integers, half-integers, quarters, k/2^10; occasionally below -1"""
    u = rng.random()
    if u < 0.25: v = Fraction(rng.randint(0, hi))
    elif u < 0.5: v = Fraction(2 * rng.randint(0, 2 * hi) + 1, 2) + lo
    elif u < 0.75: v = Fraction(rng.randint(4 * lo + 1, 4 * hi), 4)
    elif u < 0.9 or not neg_ok: v = Fraction(rng.randint(1024 * lo + 1, 1024 * hi), 1024)
    else: v = Fraction(rng.randint(-8 * 12, -8), 8)
    return v


def g_q(rng, lower=False):
    """rational hypergeometric parameter (int or p/q); lower=True: never a non-positive integer"""
    while True:
        u = rng.random()
        if u < 0.3: v = Fraction(rng.randint(-6 if not lower else 1, 12))
        elif u < 0.55: v = Fraction(2 * rng.randint(-8, 12) + 1, 2)
        else:
            q = rng.choice([3, 4, 5, 7, 8, 16, 100])
            v = Fraction(rng.randint(-6 * q, 12 * q), q)
        if lower and v.denominator == 1 and v <= 0: continue
        if not lower and v.denominator == 1 and v <= 0: continue      # the terminating parameter is chosen separately
        return v


def g_xh(rng, p):
    """dyadic argument of a terminating series: any sign, inside/outside the unit disk"""
    u = rng.random()
    if u < 0.35: return g_x(rng, p, -1, 1, special=(1, -1, Fraction(1, 2)))
    if u < 0.7: return g_x(rng, p, -4, 4, special=())
    return g_x(rng, p, -40, 40, special=())


def nz(x):
    if x == 0: raise Skip("zero argument")
    return x


def near_zero_cheb(rng, p, n, kind):
    """p-bit dyadic next to a zero of T_n (kind 1) / U_n (kind 2)"""
    k = rng.randint(1, n)
    th = (2 * k - 1) * math.pi / (2 * n) if kind == 1 else k * math.pi / (n + 1)
    b = min(p, 50)
    return Fraction(int(round(math.cos(th) * 2 ** b)), 2 ** b)


def near_zero_leg(rng, p, n):
    """dyadic next to a zero of P_n (Newton on the float recurrence from Tricomi's approximation)"""
    k = rng.randint(1, n)
    x = math.cos(math.pi * (4 * k - 1) / (4 * n + 2))
    for _ in range(6):
        a, b = 0.0, 1.0
        for j in range(n): a, b = b, ((2 * j + 1) * x * b - j * a) / (j + 1)
        d = n * (x * b - a) / (x * x - 1) if abs(x) < 1 else 1.0
        if d == 0: break
        x -= b / d
    bts = min(p, 50)
    return Fraction(int(round(x * 2 ** bts)), 2 ** bts)


def Mq(ctx, fr):
    fr = Fraction(fr)
    return int(fr) if fr.denominator == 1 else M(ctx, fr)


# ------------------------------------------------------------------------------------------------ registry

K = []


def reg(*a, **kw):
    k = Kind(*a, **kw)
    if k.exact and k.regime not in (ZERO_SPECIAL, ZERO_VALUE):
        k.gen = nonzero_gen(k.gen, k.ref)
    K.append(k)


ZERO_SPECIAL = "exact-zero-special-cased"
ZERO_VALUE = "exact-zero-value"


def nonzero_gen(gen, ref):
    """samples whose exact value is 0 are generated by the two dedicated exact-zero kinds only (relative error is undefined
    there and mpmath's behaviour differs: see known finding C22-exact-zero-raises)"""
    def g(rng, p):
        for _ in range(30):
            args = gen(rng, p)
            if ref(*args) != 0: return args
        raise Skip("only zero values")
    return g


POLY = "polynomial"
# ---- 1. orthogonal polynomials (exact rational references)
reg("legendre", "legendre", lambda c, n, x: c.legendre(n, M(c, x)), q_legendre, lambda rng, p: [g_deg(rng), g_x11(rng, p)],
    w=2.0, regime=POLY, exact=True)
reg("chebyt", "chebyt", lambda c, n, x: c.chebyt(n, M(c, x)), q_chebyt, lambda rng, p: [g_deg(rng), g_x11(rng, p)],
    w=1.6, regime=POLY, exact=True)
reg("chebyu", "chebyu", lambda c, n, x: c.chebyu(n, M(c, x)), q_chebyu, lambda rng, p: [g_deg(rng), g_x11(rng, p)],
    w=1.6, regime=POLY, exact=True)
reg("hermite", "hermite", lambda c, n, x: c.hermite(n, M(c, x)), q_hermite,
    lambda rng, p: [g_deg(rng), g_x(rng, p, -8, 8) if rng.random() < .8 else g_x(rng, p, -60, 60)], w=2.0, regime=POLY, exact=True)
reg("laguerre", "laguerre", lambda c, n, a, x: c.laguerre(n, Mq(c, a), M(c, x)), q_laguerre,
    lambda rng, p: [g_deg(rng), g_par(rng), g_x(rng, p, 0, 30) if rng.random() < .75 else g_x(rng, p, -30, 120)], w=2.0, regime=POLY,
    exact=True)
reg("laguerre0", "laguerre", lambda c, n, x: c.laguerre(n, 0, M(c, x)), lambda n, x: q_laguerre(n, 0, x),
    lambda rng, p: [g_deg(rng), g_x(rng, p, 0, 40)], w=0.8, regime=POLY, exact=True)


def g_geg_par(rng):
    while True:
        a = g_par(rng, lo=0, hi=6)
        if (2 * a).denominator == 1 and a <= 0: continue
        return a


reg("gegenbauer", "gegenbauer", lambda c, n, a, x: c.gegenbauer(n, Mq(c, a), M(c, x)), q_gegenbauer,
    lambda rng, p: [g_deg(rng), g_geg_par(rng), g_x11(rng, p)], w=2.0, regime=POLY, exact=True)
def g_jac_par(rng):
    while True:
        a = g_par(rng)
        if not (a.denominator == 1 and a < 0): return a          # negative integer a: separate kinds below


reg("jacobi", "jacobi", lambda c, n, a, b, x: c.jacobi(n, Mq(c, a), Mq(c, b), M(c, x)), q_jacobi,
    lambda rng, p: [g_deg(rng, 80), g_jac_par(rng), g_par(rng), g_x11(rng, p)], w=2.4, regime=POLY, exact=True)
# points next to a zero (large cancellation in the hypergeometric representation)
NZ = "polynomial-near-zero"
reg("chebyt_nz", "chebyt", lambda c, n, x: c.chebyt(n, M(c, x)), q_chebyt,
    lambda rng, p: (lambda n: [n, near_zero_cheb(rng, p, n, 1)])(rng.randint(2, 40)), w=0.7, regime=NZ, exact=True)
reg("chebyu_nz", "chebyu", lambda c, n, x: c.chebyu(n, M(c, x)), q_chebyu,
    lambda rng, p: (lambda n: [n, near_zero_cheb(rng, p, n, 2)])(rng.randint(2, 40)), w=0.5, regime=NZ, exact=True)
reg("legendre_nz", "legendre", lambda c, n, x: c.legendre(n, M(c, x)), q_legendre,
    lambda rng, p: (lambda n: [n, near_zero_leg(rng, p, n)])(rng.randint(2, 40)), w=0.7, regime=NZ, exact=True)
# legendre's own small-argument code for odd n: extra precision for 2^(-2(p+10)-10) <= |x| < 2^-5, `return x` below that
reg("legendre_tiny", "legendre", lambda c, n, x: c.legendre(n, M(c, x)), q_legendre,
    lambda rng, p: [2 * rng.randint(0, 10) + 1, Fraction(rng.choice([-1, 1]) * rng.randint(1, 2 ** 10), 2 ** rng.randint(12, 2 * p + 30))],
    w=0.6, regime="polynomial-tiny-argument", exact=True, maxprec=1000)
reg("legendre_tiny_shortcut", "legendre", lambda c, n, x: c.legendre(n, M(c, x)), q_legendre,
    lambda rng, p: [2 * rng.randint(0, 10) + 1, Fraction(rng.choice([-1, 1]) * rng.randint(1, 2 ** 10), 2 ** rng.randint(2 * p + 41, 2 * p + 240))],
    w=0.4, regime="polynomial-tiny-argument-shortcut", exact=True, maxprec=1000)
# degenerate parameters
reg("laguerre_negint", "laguerre", lambda c, n, a, x: c.laguerre(n, a, M(c, x)), q_laguerre,
    lambda rng, p: [g_deg(rng, 40), -rng.randint(1, 12), g_x(rng, p, -4, 20, special=(1,))], w=0.7, regime="polynomial-negint-parameter",
    exact=True)
def g_geg_nearpole(long_):
    def g(rng, p):
        k = rng.randint(p + 40, p + 120) if long_ else rng.choice([6, max(7, p // 2), p - 4])
        return [g_deg(rng, 30), Fraction(-rng.randint(0, 6), 2) + Fraction(rng.choice([-1, 1]), 2 ** k), g_x11(rng, p)]
    return g


# a = -m/2 +- 2^-k: representable in p bits (k <= p-4) / much longer than the working precision (k >= p+40)
reg("gegenbauer_nearpole", "gegenbauer", lambda c, n, a, x: c.gegenbauer(n, M(c, a), M(c, x)), q_gegenbauer, g_geg_nearpole(False),
    w=0.6, regime="polynomial-near-pole-parameter", exact=True, maxprec=1000)
reg("gegenbauer_nearpole_long", "gegenbauer", lambda c, n, a, x: c.gegenbauer(n, M(c, a), M(c, x)), q_gegenbauer, g_geg_nearpole(True),
    w=0.3, regime="polynomial-near-pole-parameter-long", exact=True, maxprec=1000)
reg("jacobi_negint_a", "jacobi", lambda c, n, a, b, x: c.jacobi(n, a, Mq(c, b), M(c, x)), q_jacobi,
    lambda rng, p: [g_deg(rng, 30), -rng.randint(1, 10), Fraction(2 * rng.randint(-6, 8) + 1, rng.choice([2, 4])), g_x11(rng, p)],
    w=0.6, regime="polynomial-jacobi-negint-a", exact=True)


def g_jacobi_ii(rng, p):
    n = rng.randint(1, 12)
    a = -rng.randint(1, n)
    return [n, a, rng.randint(-6, 8), g_x11(rng, p)]


reg("jacobi_negint_a_int_b", "jacobi", lambda c, n, a, b, x: c.jacobi(n, a, b, M(c, x)), q_jacobi, g_jacobi_ii,
    w=0.3, regime="polynomial-jacobi-negint-a-int-b", exact=True)



# exact zeros of the polynomials / terminating series
def c_zero_special(c, name, n):
    return getattr(c, name)(n, 0)


reg("zero_special", "legendre/chebyt/chebyu/hermite (odd n, x = 0)", c_zero_special, lambda name, n: EXACT_ZERO,
    lambda rng, p: [rng.choice(["legendre", "chebyt", "chebyu", "hermite"]), 2 * rng.randint(0, 60) + 1], w=0.4, regime=ZERO_SPECIAL)


def c_zero_value(c, name, n, a, x):
    if name == "chebyu": return c.chebyu(n, M(c, x))
    if name == "gegenbauer": return c.gegenbauer(n, Mq(c, a), M(c, x))
    if name == "jacobi": return c.jacobi(n, Mq(c, a), Mq(c, a), M(c, x))
    if name == "laguerre": return c.laguerre(n, Mq(c, a), M(c, x))
    if name == "hyp2f1": return c.hyp2f1(-n, PQ(a), PQ(a * x), M(c, x))
    if name == "hyp1f1": return c.hyp1f1(-n, PQ(x), M(c, x))
    raise Skip(name)


def r_zero_value(name, n, a, x):
    v = {"chebyu": lambda: q_chebyu(n, x), "gegenbauer": lambda: q_gegenbauer(n, a, x), "jacobi": lambda: q_jacobi(n, a, a, x),
         "laguerre": lambda: q_laguerre(n, a, x), "hyp2f1": lambda: q_hyper([-n, a], [a * x], x), "hyp1f1": lambda: q_hyper([-n], [x], x)}[name]()
    assert v == 0, "generator of exact zeros is wrong"
    return EXACT_ZERO


def g_zero_value(rng, p):
    name = rng.choice(["chebyu", "gegenbauer", "jacobi", "laguerre", "hyp2f1", "hyp1f1"])
    a = Fraction(rng.randint(1, 40), 8)
    if name == "chebyu": return [name, 3 * rng.randint(0, 12) + 2, Fraction(0), Fraction(rng.choice([-1, 1]), 2)]   # U_n(cos(pi/3)), 3 | n+1
    if name in ("gegenbauer", "jacobi"): return [name, 2 * rng.randint(0, 20) + 1, a, Fraction(0)]               # odd polynomial at 0
    if name == "laguerre": return [name, 1, a, 1 + a]                                                           # L_1^a(x) = 1 + a - x
    if name == "hyp2f1": return [name, 1, a, Fraction(rng.randint(1, 40), 8)]                                   # 1 - (a/(a x)) x
    return [name, 1, Fraction(0), Fraction(rng.randint(1, 40), 8)]                                              # 1 - x/x


reg("zero_value", "chebyu/gegenbauer/jacobi/laguerre/hyp2f1/hyp1f1 (exact value 0)", c_zero_value, r_zero_value, g_zero_value,
    w=0.4, regime=ZERO_VALUE)

# ---- 2. terminating hypergeometric series
TERM = "terminating"


def _pq(c, v):
    return PQ(v)


def not1(gen):
    """hyp2f1 at x = 1 goes through Gauss's gamma quotient even for terminating series: separate kinds"""
    def g(rng, p):
        for _ in range(30):
            args = gen(rng, p)
            if args[-1] != 1: return args
        raise Skip("x = 1 only")
    return g


g_2f1t = not1(lambda rng, p: [g_deg(rng, 120), g_q(rng), g_q(rng, lower=True), g_xh(rng, p)])


reg("hyp2f1_term", "hyp2f1", lambda c, n, b, cc, x: c.hyp2f1(-n, PQ(b), PQ(cc), M(c, x)),
    lambda n, b, cc, x: q_hyper([-n, b], [cc], x), g_2f1t, w=2.4, regime=TERM, exact=True)
reg("hyp2f1_term_b", "hyp2f1", lambda c, n, a, cc, x: c.hyp2f1(PQ(a), -n, PQ(cc), M(c, x)),
    lambda n, a, cc, x: q_hyper([a, -n], [cc], x), g_2f1t, w=0.8, regime=TERM, exact=True)
reg("hyp2f1_term2", "hyp2f1", lambda c, n, m, cc, x: c.hyp2f1(-n, -m, PQ(cc), M(c, x)),
    lambda n, m, cc, x: q_hyper([-n, -m], [cc], x), not1(lambda rng, p: [g_deg(rng, 60), g_deg(rng, 60), g_q(rng, lower=True), g_xh(rng, p)]),
    w=0.6, regime=TERM, exact=True)
reg("hyp2f1_term_negc", "hyp2f1", lambda c, n, b, m, x: c.hyp2f1(-n, PQ(b), -m, M(c, x)),
    lambda n, b, m, x: q_hyper([-n, b], [-m], x),
    not1(lambda rng, p: (lambda n: [n, g_q(rng), n + rng.randint(1, 10), g_xh(rng, p)])(g_deg(rng, 40))),
    w=0.5, regime="terminating-negint-lower", exact=True)
# x = 1: accuracy only (Gauss's theorem is used: the value is accurate but not correctly rounded) ...
reg("hyp2f1_term_at1", "hyp2f1", lambda c, n, b, cc: c.hyp2f1(-n, PQ(b), PQ(cc), 1), lambda n, b, cc: q_hyper([-n, b], [cc], 1),
    lambda rng, p: [g_deg(rng, 60), g_q(rng), g_q(rng, lower=True)], w=0.6, regime="terminating-x=1")


# ... and the exact clause on 2F1(-1, c d; c; 1) = 1 - d with a short dyadic d (known finding C22-hyp2f1-at1-not-exact)
def g_at1_exact(rng, p):
    while True:
        cc = Fraction(rng.randint(-40, 40), rng.choice([2, 3, 4, 5, 7]))
        d = Fraction(rng.randint(-40, 40), rng.choice([1, 2, 4, 8]))
        if d in (0, 1) or cc == 0 or (cc.denominator == 1 and cc < 0): continue
        return [cc * d, cc]


reg("hyp2f1_term_at1_exact", "hyp2f1", lambda c, b, cc: c.hyp2f1(-1, PQ(b), PQ(cc), 1), lambda b, cc: q_hyper([-1, b], [cc], 1),
    g_at1_exact, w=0.3, regime="terminating-x=1-exact-clause", exact=True)
reg("hyp1f1_term", "hyp1f1", lambda c, n, b, x: c.hyp1f1(-n, PQ(b), M(c, x)), lambda n, b, x: q_hyper([-n], [b], x),
    lambda rng, p: [g_deg(rng, 120), g_q(rng, lower=True), g_xh(rng, p)], w=2.0, regime=TERM, exact=True)
reg("hyp2f0_term", "hyp2f0", lambda c, n, b, x: c.hyp2f0(-n, PQ(b), M(c, x)), lambda n, b, x: q_hyper([-n, b], [], x),
    lambda rng, p: [g_deg(rng, 80), g_q(rng), g_xh(rng, p)], w=1.6, regime=TERM, exact=True)
reg("hyp1f2_term", "hyp1f2", lambda c, n, b1, b2, x: c.hyp1f2(-n, PQ(b1), PQ(b2), M(c, x)),
    lambda n, b1, b2, x: q_hyper([-n], [b1, b2], x), lambda rng, p: [g_deg(rng, 60), g_q(rng, True), g_q(rng, True), g_xh(rng, p)],
    w=0.6, regime=TERM, exact=True)
reg("hyp2f2_term", "hyp2f2", lambda c, n, a, b1, b2, x: c.hyp2f2(-n, PQ(a), PQ(b1), PQ(b2), M(c, x)),
    lambda n, a, b1, b2, x: q_hyper([-n, a], [b1, b2], x),
    lambda rng, p: [g_deg(rng, 60), g_q(rng), g_q(rng, True), g_q(rng, True), g_xh(rng, p)], w=0.6, regime=TERM, exact=True)
reg("hyp2f3_term", "hyp2f3", lambda c, n, a, b1, b2, b3, x: c.hyp2f3(-n, PQ(a), PQ(b1), PQ(b2), PQ(b3), M(c, x)),
    lambda n, a, b1, b2, b3, x: q_hyper([-n, a], [b1, b2, b3], x),
    lambda rng, p: [g_deg(rng, 60), g_q(rng), g_q(rng, True), g_q(rng, True), g_q(rng, True), g_xh(rng, p)], w=0.5, regime=TERM, exact=True)
reg("hyp3f2_term", "hyp3f2", lambda c, n, a2, a3, b1, b2, x: c.hyp3f2(-n, PQ(a2), PQ(a3), PQ(b1), PQ(b2), M(c, x)),
    lambda n, a2, a3, b1, b2, x: q_hyper([-n, a2, a3], [b1, b2], x),
    lambda rng, p: [g_deg(rng, 80), g_q(rng), g_q(rng), g_q(rng, True), g_q(rng, True), g_xh(rng, p)], w=1.6, regime=TERM, exact=True)


def borel(pp, qq):
    """hyper() sends p > q+1 (except 2F0) to _hyp_borel, which caps the number of terms at the working precision"""
    return pp > qq + 1 and (pp, qq) != (2, 0)


def g_hyper_pq(rng, p, pp, qq, n):
    a_s = [Fraction(-n)] + [g_q(rng) for _ in range(pp - 1)]
    rng.shuffle(a_s)
    return [tuple(a_s), tuple(g_q(rng, True) for _ in range(qq)), g_xh(rng, p)]


def g_hyper(rng, p):
    while True:
        pp = rng.randint(1, 4); qq = rng.randint(0, 3)
        if not borel(pp, qq): return g_hyper_pq(rng, p, pp, qq, g_deg(rng, 60))


def g_hyper_borel(rng, p):
    pp, qq = rng.choice([(3, 0), (3, 1), (4, 0), (4, 1), (4, 2)])
    return g_hyper_pq(rng, p, pp, qq, g_deg(rng, min(60, p)))


def g_hyper_borel_long(rng, p):
    pp, qq = rng.choice([(3, 0), (3, 1), (4, 0), (4, 1), (4, 2)])
    return g_hyper_pq(rng, p, pp, qq, rng.randint(p + 30, p + 100))


def c_hyper(c, a_s, b_s, x):
    return c.hyper([PQ(a) for a in a_s], [PQ(b) for b in b_s], M(c, x))


def r_hyper(a_s, b_s, x):
    return q_hyper(list(a_s), list(b_s), x)


reg("hyper_term", "hyper", c_hyper, r_hyper, g_hyper, w=2.0, regime=TERM, exact=True)
# p > q+1 (3F0, 3F1, 4F0, 4F1, 4F2): degree up to the precision / well above it (known finding C22-hyper-borel-degree)
reg("hyper_term_borel", "hyper", c_hyper, r_hyper, g_hyper_borel, w=0.8, regime="terminating-p>q+1", exact=True)
reg("hyper_term_borel_long", "hyper", c_hyper, r_hyper, g_hyper_borel_long, w=0.3, regime="terminating-p>q+1-degree>prec", exact=True,
    precs=[15, 53, 113])

# ---- 3. elementary special cases
CF = "closed-form"


def g_small(rng, p, lo, hi):
    """non-zero dyadic with few bits (the reference term stays small)"""
    b = rng.choice([3, 8, 20, min(p, 40)])
    return nz(rand_dyadic(rng, lo, hi, b))


def g_mag(rng, p, hi_exp, neg=True, lo_exp=-12):
    """non-zero dyadic with magnitude spread over 2^lo_exp .. 2^hi_exp"""
    e = rng.randint(lo_exp, hi_exp)
    m = rng.randint(2 ** 9, 2 ** 10 - 1) if rng.random() < .7 else rng.randint(2 ** 29, 2 ** 30 - 1)
    x = Fraction(m, 2 ** (m.bit_length())) * Fraction(2) ** e
    return -x if neg and rng.random() < .5 else x


def g_near1(rng, p, sign=1):
    """dyadic just below 1 (times sign)"""
    k = rng.choice([4, 7, 12, 20, min(p, 45)])
    return sign * (1 - Fraction(rng.randint(1, 3), 2 ** k))


def r_1f1_12(x):
    X = Const(x)
    return (exp(X) - 1) / X


def g_1f1_12(rng, p):
    u = rng.random()
    if u < 0.5: return [g_small(rng, p, -8, 8)]
    if u < 0.8: return [g_mag(rng, p, 9)]           # up to +-512: asymptotic regime
    return [g_mag(rng, p, 12, lo_exp=9)]


reg("hyp1f1_1_2", "hyp1f1", lambda c, x: c.hyp1f1(1, 2, M(c, x)), r_1f1_12, g_1f1_12, w=1.6, regime=CF)


def r_2f1_112(x):
    X = Const(x)
    return -ln(Const(1 - x)) / X


def g_2f1_lt1(rng, p):
    u = rng.random()
    if u < 0.3: return [g_small(rng, p, -1, Fraction(15, 16))]
    if u < 0.5: return [g_near1(rng, p)]
    if u < 0.65: return [g_near1(rng, p, -1)]
    if u < 0.8: return [-1 - Fraction(rng.randint(1, 3), 2 ** rng.choice([4, 10, 20]))]
    return [-abs(g_mag(rng, p, 14, lo_exp=0))]


reg("hyp2f1_1_1_2", "hyp2f1", lambda c, x: c.hyp2f1(1, 1, 2, M(c, x)), r_2f1_112, g_2f1_lt1, w=1.8, regime=CF, maxprec=1000)


def sq4(x, sign):
    return sign * x * x / 4


def g_trig(rng, p):
    u = rng.random()
    if u < 0.5: return [g_small(rng, p, -12, 12)]
    if u < 0.8: return [rand_dyadic(rng, 20, 200, rng.choice([2, 6, 12]))]      # |z| = x^2/4 >= 100: asymptotic expansion of 0F1
    return [rand_dyadic(rng, 200, 3000, rng.choice([1, 4]))]


def g_hypb(rng, p):
    u = rng.random()
    if u < 0.6: return [g_small(rng, p, -12, 12)]
    return [rand_dyadic(rng, 20, 400, rng.choice([2, 6, 12]))]


reg("hyp0f1_cos", "hyp0f1", lambda c, x: c.hyp0f1((1, 2), M(c, sq4(x, -1))), lambda x: cos(Const(x)), g_trig, w=1.6, regime=CF, maxprec=1000)
reg("hyp0f1_sinc", "hyp0f1", lambda c, x: c.hyp0f1((3, 2), M(c, sq4(x, -1))), lambda x: sin(Const(x)) / Const(x), g_trig, w=1.6,
    regime=CF, maxprec=1000)
reg("hyp0f1_cosh", "hyp0f1", lambda c, x: c.hyp0f1((1, 2), M(c, sq4(x, 1))), lambda x: cert.cosh(Const(x)), g_hypb, w=1.0, regime=CF)
reg("hyp0f1_sinhc", "hyp0f1", lambda c, x: c.hyp0f1((3, 2), M(c, sq4(x, 1))), lambda x: cert.sinh(Const(x)) / Const(x), g_hypb, w=1.0, regime=CF)
reg("hyp1f1_aa", "hyp1f1", lambda c, a, x: c.hyp1f1(PQ(a), PQ(a), M(c, x)), lambda a, x: exp(Const(x)),
    lambda rng, p: [g_q(rng, True), g_small(rng, p, -40, 40)], w=0.5, regime=CF)


def r_2f1_abb(a, b, x):
    return rpow(1 - x, -a)


reg("hyp2f1_abb", "hyp2f1", lambda c, a, b, x: c.hyp2f1(PQ(a), PQ(b), PQ(b), M(c, x)), r_2f1_abb,
    lambda rng, p: [g_q(rng), g_q(rng, True)] + g_2f1_lt1(rng, p), w=1.0, regime=CF, maxprec=1000)


def r_atan(x):
    return atan(Const(x)) / Const(x)


def g_atan(rng, p):
    u = rng.random()
    if u < 0.35: return [g_small(rng, p, -1, 1)]
    if u < 0.55: return [g_near1(rng, p, rng.choice([-1, 1]))]
    if u < 0.7: return [1 + Fraction(rng.randint(1, 3), 2 ** rng.choice([4, 10, 20]))]
    return [g_mag(rng, p, 12, lo_exp=0)]


reg("hyp2f1_atan", "hyp2f1", lambda c, x: c.hyp2f1((1, 2), 1, (3, 2), M(c, -x * x)), r_atan, g_atan, w=1.8, regime=CF, maxprec=1000)


def r_atanh(x):
    return ln(Const((1 + x) / (1 - x))) / Const(2 * x)


def g_in1(rng, p):
    u = rng.random()
    if u < 0.55: return [g_small(rng, p, Fraction(-15, 16), Fraction(15, 16))]
    return [g_near1(rng, p, rng.choice([-1, 1]))]


reg("hyp2f1_atanh", "hyp2f1", lambda c, x: c.hyp2f1((1, 2), 1, (3, 2), M(c, x * x)), r_atanh, g_in1, w=1.6, regime=CF, maxprec=1000)


def r_asin(x):
    X = Const(x)
    return atan(X / sqrt(Const(1 - x * x))) / X


reg("hyp2f1_asin", "hyp2f1", lambda c, x: c.hyp2f1((1, 2), (1, 2), (3, 2), M(c, x * x)), r_asin, g_in1, w=1.6, regime=CF, maxprec=1000)


def r_kummer(b, n, x):
    return HC(q_hyper([-n], [b], -x)) * exp(Const(x))


reg("hyp1f1_kummer", "hyp1f1", lambda c, b, n, x: c.hyp1f1(PQ(b + n), PQ(b), M(c, x)), r_kummer,
    lambda rng, p: [g_q(rng, True), rng.randint(1, 12), g_small(rng, p, -30, 30) if rng.random() < .7 else g_mag(rng, p, 10, lo_exp=5)],
    w=1.6, regime="closed-form-kummer")


def r_euler(cc, n, b, x):
    return HC(q_hyper([-n, cc - b], [cc], x)) * rpow(1 - x, -n - b)


reg("hyp2f1_euler", "hyp2f1", lambda c, cc, n, b, x: c.hyp2f1(PQ(cc + n), PQ(b), PQ(cc), M(c, x)), r_euler,
    lambda rng, p: [g_q(rng, True), rng.randint(1, 10), g_q(rng)] + g_2f1_lt1(rng, p), w=1.8, regime="closed-form-euler", maxprec=1000)


def r_gauss(a, b, cc):
    return gquot([cc, cc - a - b], [cc - a, cc - b])


def g_gauss(rng, p):
    for _ in range(100):
        a = Fraction(rng.randint(-9, 12), 2); b = Fraction(rng.randint(-9, 12), 2)
        cc = a + b + Fraction(rng.randint(1, 12), 2)
        bad = False
        for t in (cc, cc - a, cc - b, a, b):
            if t.denominator == 1 and t <= 0: bad = True
        if not bad: return [a, b, cc]
    raise Skip("no parameters")


reg("hyp2f1_gauss", "hyp2f1", lambda c, a, b, cc: c.hyp2f1(PQ(a), PQ(b), PQ(cc), 1), r_gauss, g_gauss, w=0.8, regime="closed-form-gauss")
reg("hyp1f2_cancel", "hyp1f2", lambda c, a, x: c.hyp1f2(PQ(a), PQ(a), (1, 2), M(c, sq4(x, -1))), lambda a, x: cos(Const(x)),
    lambda rng, p: [g_q(rng, True), g_small(rng, p, -12, 12)], w=0.4, regime=CF, maxprec=1000)
reg("hyp2f2_cancel", "hyp2f2", lambda c, a, b, x: c.hyp2f2(PQ(a), PQ(b), PQ(b), PQ(a), M(c, x)), lambda a, b, x: exp(Const(x)),
    lambda rng, p: [g_q(rng, True), g_q(rng, True), g_small(rng, p, -40, 40)], w=0.3, regime=CF)


def r_erf(x):
    t = cert.var("t")
    return cert.rint("t", exp(-(t * t)), ZERO, Const(x)) / Const(x)


reg("hyp1f1_erf", "hyp1f1", lambda c, x: c.hyp1f1((1, 2), (3, 2), M(c, -x * x)), r_erf,
    lambda rng, p: [nz(rand_dyadic(rng, Fraction(1, 8), 3, rng.choice([3, 6])))], w=0.5, regime="closed-form-integral", precs=[15, 53],
    params={"i_fuel": 400, "i_degree": 14})

# ---- 4. Legendre functions of integer degree and order, spherical harmonics
LF = "integer-degree-order"


def r_legenp(n, m, x, typ):
    x = Fraction(x)
    d = poly_q(poly_diff(leg_coeffs(n), m), x)
    if typ == 2:
        if not abs(x) < 1: raise Skip("type 2 outside (-1,1)")
        return HC((-1) ** m * d) * rpow(1 - x * x, Fraction(m, 2))
    if not x > 1: raise Skip("type 3 for x <= 1")
    return HC(d) * rpow(x * x - 1, Fraction(m, 2))


def g_legenp(rng, p):
    n = rng.randint(1, 14); m = rng.randint(1, n)
    if rng.random() < 0.7:
        return [n, m, nz(g_small(rng, p, Fraction(-15, 16), Fraction(15, 16))), 2]
    return [n, m, 1 + abs(g_small(rng, p, -3, 3)), 3]


reg("legenp_int", "legenp", lambda c, n, m, x, typ: c.legenp(n, m, M(c, x), type=typ), r_legenp, g_legenp, w=1.4, regime=LF, maxprec=400)


def r_legenq(n, x, typ):
    x = Fraction(x)
    # Q_k = P_k * A - W_k ; W_0 = 0, W_1 = 1, same recurrence
    w0, w1 = Fraction(0), Fraction(1)
    for k in range(1, n): w0, w1 = w1, ((2 * k + 1) * x * w1 - k * w0) / (k + 1)
    W = w0 if n == 0 else w1
    if n == 0: W = Fraction(0)
    P = q_legendre(n, x)
    if typ == 2:
        if not abs(x) < 1: raise Skip("type 2 outside (-1,1)")
        A = ln(Const((1 + x) / (1 - x))) * HALF
    else:
        if not x > 1: raise Skip("type 3 for x <= 1")
        A = ln(Const((x + 1) / (x - 1))) * HALF
    return HC(P) * A - HC(W)


def g_legenq(rng, p):
    n = rng.randint(0, 12)
    if rng.random() < 0.7:
        return [n, nz(g_small(rng, p, Fraction(-15, 16), Fraction(15, 16))), 2]
    return [rng.randint(0, 8), 1 + abs(g_small(rng, p, -2, 2)), 3]


reg("legenq_int", "legenq", lambda c, n, x, typ: c.legenq(n, 0, M(c, x), type=typ), r_legenq, g_legenq, w=1.4, regime=LF, maxprec=1000)


def r_spherharm(l, m, th, ph):
    am = abs(m)
    T = Const(th); F_ = Const(ph)
    d = poly_diff(leg_coeffs(l), am)
    plm = poly_e(d, cos(T))
    if am:
        plm = plm * powz(sin(T), am)
        if am % 2: plm = -plm
    N2 = Fraction((2 * l + 1) * math.factorial(l - am), 4 * math.factorial(l + am))
    N = sqrt(Const(N2) / PI)
    y = Cx(N * plm * cos(Const(am) * F_), N * plm * sin(Const(am) * F_))
    if m < 0:
        y = y.conj()
        if am % 2: y = -y
    return y


def g_spherharm(rng, p):
    l = rng.randint(0, 4); m = rng.randint(-l, l)
    b = rng.choice([3, 8, 20])
    th = nz(rand_dyadic(rng, Fraction(1, 16), 3, b))
    ph = rand_dyadic(rng, -7, 7, rng.choice([3, 8, 20]))
    return [l, m, th, ph]


reg("spherharm", "spherharm", lambda c, l, m, th, ph: c.spherharm(l, m, M(c, th), M(c, ph)), r_spherharm, g_spherharm, w=1.6,
    regime="closed-form-l<=4", maxprec=400)

# ---- 5. metamorphic: contiguous relations at generic rational parameters
MM = "metamorphic"


def _reals(yvs):
    out = []
    for yv in yvs:
        if yv[0] == "complex" and yv[2] == 0: yv = ("real", yv[1])
        if yv[0] != "real": raise Skip("non-real value in a real metamorphic check")
        out.append(yv[1])
    return out


def b_1f1_contig(cid, k, args, p, yvs, eps, meta, params):
    a, b, x = args; y0, y1, y2 = _reals(yvs)
    return [meta_lin(cid + "_contig", [b - a, 2 * a - b + x, -a], [y0, y1, y2], eps, p, meta=meta)]


def b_2f1_contig(cid, k, args, p, yvs, eps, meta, params):
    a, b, cc, x = args; y0, y1, y2 = _reals(yvs)
    return [meta_lin(cid + "_contig", [cc - a, 2 * a - cc - a * x + b * x, a * (x - 1)], [y0, y1, y2], eps, p, meta=meta)]


def b_0f1_contig(cid, k, args, p, yvs, eps, meta, params):
    b, x = args; y0, y1, y2 = _reals(yvs)
    return [meta_lin(cid + "_contig", [1, -1, -x / (b * (b - 1))], [y0, y1, y2], eps, p, meta=meta)]


def g_generic(rng):
    """rational parameter away from the integers (and with a - 1, a + 1 away from 0)"""
    while True:
        q = rng.choice([3, 5, 7, 8, 16, 100])
        v = Fraction(rng.randint(-4 * q, 8 * q), q)
        if v.denominator > 1: return v


reg("m_hyp1f1_contig", "hyp1f1(a-1,b,x) & hyp1f1(a,b,x) & hyp1f1(a+1,b,x)",
    lambda c, a, b, x: tuple(c.hyp1f1(PQ(a + d), PQ(b), M(c, x)) for d in (-1, 0, 1)),
    gen=lambda rng, p: [g_generic(rng), g_generic(rng), g_small(rng, p, -30, 30) if rng.random() < .7 else g_mag(rng, p, 10, lo_exp=5)],
    build=b_1f1_contig, w=1.2, regime=MM, maxprec=1000)
reg("m_hyp2f1_contig", "hyp2f1(a-1,b,c,x) & hyp2f1(a,b,c,x) & hyp2f1(a+1,b,c,x)",
    lambda c, a, b, cc, x: tuple(c.hyp2f1(PQ(a + d), PQ(b), PQ(cc), M(c, x)) for d in (-1, 0, 1)),
    gen=lambda rng, p: [g_generic(rng), g_generic(rng), g_generic(rng)] + g_2f1_lt1(rng, p), build=b_2f1_contig, w=1.4, regime=MM,
    maxprec=1000)
reg("m_hyp0f1_contig", "hyp0f1(b-1,x) & hyp0f1(b,x) & hyp0f1(b+1,x)",
    lambda c, b, x: tuple(c.hyp0f1(PQ(b + d), M(c, x)) for d in (-1, 0, 1)),
    gen=lambda rng, p: [g_generic(rng), g_small(rng, p, -60, 60) if rng.random() < .6 else g_mag(rng, p, 14, lo_exp=6)],
    build=b_0f1_contig, w=0.8, regime=MM, maxprec=1000)

RULE = ("each evaluation = one call (metamorphic kinds: 3 calls) of the current /repo code at a precision from the tier's list; the call "
        "form is drawn from the %d-entry registry (every entry once, then by weight); degrees 0..150 (55%% <= 12, 35%% <= 40), dyadic "
        "arguments with 2..50 fractional bits inside and outside [-1,1] plus the special points 0, +-1, 1/2, points next to zeros of "
        "T_n/U_n/P_n, next to x = 1 for 2F1 and large |x| for 0F1/1F1; dyadic polynomial parameters and rational (p,q) hypergeometric "
        "parameters; non-trivial = the lemma needed a real interval/vm_compute proof (not err = 0); distinct = distinct lemma "
        "statements" % len(K))


def run(rep, tier_, rng):
    TIER[0] = tier_
    run_kinds(rep, K, tier_, rng, n_quick=140, n_thorough=1000, precs_quick=PRECS_QUICK, precs_thorough=PRECS_THOROUGH,
              assumptions=ASSUMPTIONS, rule=RULE, not_decided=NOT_DECIDED, budget_quick=100)


def replay(rep, path):
    replay_kinds(rep, path, K)
