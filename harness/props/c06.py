"""C06 — integer-part functions and modulo follow their exact definitions."""
from fractions import Fraction
import math
from common import *
import allcases, gen
from props.enginea import run_engine_a

LEVEL = "proof"
FNS = ["mpf_floor", "mpf_ceil", "mpf_nint", "mpf_frac", "mpf_round_int", "to_int", "round_int", "mpf_mod",
       "mpc_floor", "mpc_ceil", "mpc_nint", "mpc_frac"]
TAGS = {"ROUND", "VALUE", "C10"}


def api_level(rep, tier_, rng):
    import mpmath, mpfcases
    from mpmath import mp
    n = 500 if tier_ == "quick" else 10000
    checked = 0
    p0 = mp.prec
    try:
        for _ in range(n):
            prec = rng.choice([3, 10, 24, 53, 100]); mp.prec = prec
            t = mpfcases.int_like(rng, prec)
            if is_special(t): continue
            t = (t[0], t[1], t[2] % 400 - 200, t[3]) if t[1] else t
            x = mp.make_mpf(t); v = mpf_value(t) if t[1] else Fraction(0)
            fl = math.floor(v); d = v - fl
            ni = fl + (1 if d > Fraction(1, 2) or (d == Fraction(1, 2) and fl % 2 == 1) else 0)
            for nm, got, ex in (("floor", mp.floor(x), Fraction(fl)), ("ceil", mp.ceil(x), Fraction(math.ceil(v))),
                                ("nint", mp.nint(x), Fraction(ni)), ("frac", mp.frac(x), v - fl)):
                checked += 1
                if not value_eq_round(got._mpf_, ex, prec, 'n'):
                    rep.violation("%s(x) is not the (correctly rounded) exact value" % nm, {"fn": nm, "x": list(t), "prec": prec})
            checked += 1
            if int(x) != (fl if v >= 0 else math.ceil(v)):
                rep.violation("int(x) does not truncate toward zero", {"fn": "int", "x": list(t)})
            fr = mp.frac(x); fv_ = mpf_value(fr._mpf_) if fr._mpf_[1] else Fraction(0)
            if not (0 <= fv_ <= 1) :
                rep.violation("frac(x) outside [0,1]", {"fn": "frac", "x": list(t), "prec": prec})
            # modulo
            u = mpfcases.int_like(rng, prec)
            if is_special(u) or not u[1]: continue
            u = (u[0], u[1], u[2] % 400 - 200, u[3])
            if abs(t[2] - u[2]) > 2000: continue
            y = mp.make_mpf(u); w = mpf_value(u)
            ex = v - w * math.floor(v / w)
            for nm, got in (("%", x % y), ("fmod", mp.fmod(x, y))):
                checked += 1
                if not value_eq_round(got._mpf_, ex, prec, 'n'):
                    rep.violation("x %s y is not the correctly rounded value of x - y*floor(x/y)" % nm,
                                  {"fn": nm, "x": list(t), "y": list(u), "prec": prec})
            if ex != 0 and ((ex > 0) != (w > 0) or abs(ex) >= abs(w)):
                rep.violation("oracle error", {"fn": "oracle"})
            # complex componentwise
            z = mp.make_mpc((tuple(t), tuple(u)))
            for nm, f, g in (("floor", mp.floor, math.floor), ("ceil", mp.ceil, math.ceil)):
                got = f(z); checked += 1
                if not (value_eq_round(got._mpc_[0], Fraction(g(v)), prec, 'n') and value_eq_round(got._mpc_[1], Fraction(g(w)), prec, 'n')):
                    rep.violation("complex %s not componentwise" % nm, {"fn": "c" + nm, "x": list(t), "y": list(u), "prec": prec})
    finally:
        mp.prec = p0
    return {"api_level_checks": checked, "api_level": "floor/ceil/nint/frac/int()/%/fmod on values near integers, half-integers, tiny and huge; complex floor/ceil"}


def run(rep, tier_, rng):
    run_engine_a(rep, "C06", tier_, rng, FNS, TAGS, n_quick=800, n_thorough=15000, extra=api_level,
                 make=allcases.make, spec=allcases.spec)


def replay(rep, path):
    from props import c02
    c02.replay(rep, path)
