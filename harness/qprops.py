"""shared plumbing of the exact-certificate property modules C30, C31, C32, C35"""
import os, json, hashlib
from common import VERIF, small
import qcert

KNOWN_Q = os.path.join(VERIF, "known_findings_Q.json")


def load_known(rep):
    if os.path.exists(KNOWN_Q):
        with open(KNOWN_Q) as f:
            d = json.load(f)
        rep.known.extend(k for k in d.get("findings", []) if k["property"] == rep.pid)


def rand_entry(rng, mp, kind):
    if kind == "int": return mp.mpf(rng.randint(-9, 9))
    if kind == "bigint": return mp.mpf(rng.randint(-10**6, 10**6))
    if kind == "dy": return mp.mpf(rng.randint(-2**20, 2**20)) / 2**rng.randint(0, 24)
    if kind == "dec": return mp.mpf("%d.%03d" % (rng.randint(-9, 9), rng.randint(0, 999)))
    if kind == "full":
        p = mp.prec
        return mp.mpf(rng.randint(-2**p, 2**p)) / 2**p
    if kind == "sparse":
        return mp.mpf(rng.choice([0, 0, 0, 1, -1, 2, -3, 5])) if rng.random() < 0.6 else mp.mpf(rng.randint(-9, 9))
    raise ValueError(kind)


def rand_matrix(rng, mp, m, n, kind, cplx):
    def e():
        if cplx:
            return mp.mpc(rand_entry(rng, mp, kind), rand_entry(rng, mp, kind))
        return rand_entry(rng, mp, kind)
    return mp.matrix([[e() for _ in range(n)] for _ in range(m)])


def raw(M):
    """raw tuples of an mpmath matrix (replay material)"""
    out = []
    for i in range(M.rows):
        row = []
        for j in range(M.cols):
            x = M[i, j]
            row.append([list(t) for t in qcert._parts(x)])
        out.append(row)
    return out


def describe(M, lim=4):
    """short human-readable description"""
    import mpmath
    n, c = M.rows, M.cols
    ents = [[mpmath.nstr(M[i, j], 6) for j in range(min(c, lim))] for i in range(min(n, lim))]
    return "%dx%d %s%s" % (n, c, ents, "…" if max(n, c) > lim else "")


def mkey(*Ms):
    h = hashlib.sha1()
    for M in Ms:
        h.update(repr(raw(M)).encode())
    return h.hexdigest()[:16]


def nontrivial(M):
    """n >= 2 and not a diagonal matrix"""
    if M.rows < 2 or M.cols < 2:
        return False
    return any(M[i, j] != 0 for i in range(M.rows) for j in range(M.cols) if i != j)


def coverage(rep, tag, cases, stats, counts, evaluations, keys_nontrivial, rule, samples, extra=None):
    if not samples and cases:
        m = cases[0].meta
        samples = ["%s at prec %s (%s)" % (m.get("fn"), m.get("prec"), cases[0].name)]
    cov = {"evaluations": evaluations, "distinct_nontrivial": len(keys_nontrivial), "rule": rule,
           "samples": samples[:6],
           "certified_pass": counts["certified_pass"], "certified_fail": counts["certified_fail"],
           "inconclusive": counts["inconclusive"], "search_certificates_checked": counts["search_certificates"],
           "coq_lemmas": stats["lemmas"], "coq_files": stats["files"], "coq_wall_s": stats["coq_wall_s"],
           "mispredicted_by_python_mirror": stats["mispredicted"],
           "checker_cmd": "make -C /verif/coq_qcheck -f Makefile.coq && " + stats["cmd"],
           "trusted_base": ["Coq 8.16.1 kernel + vm_compute (BigZ/Uint63 primitive integers)",
                            "QC.QBig.bcheck_sound: BigZ verdict = verdict of the Z reference checker (uses the Bignums "
                            "library's spec lemmas, i.e. the Uint63 axioms of Coq's standard library)",
                            "Python only generates: reads raw _mpf_/_mpc_ tuples into integer matrices with a power-of-two "
                            "scale and prints the statement; its mirror evaluator only predicts which statement to try",
                            "exact Fraction Gaussian elimination (qlin.py) is untrusted search: Coq re-checks A*Y = d*I, "
                            "Y*A = d*I, A*X = d*b as integer matrix identities before the bound is used"]}
    if extra:
        cov.update(extra)
    rep.coverage = cov
