#!/bin/sh
# usage: seedconfirm.sh <worktree>   — confirms every _out/m*/ change in the scratch worktree (clean demo passes,
# patched demo fails, patched test suite passes); writes _out/m*/confirm.txt
WT=$1
cd $WT || exit 2
for D in $WT/_out/m*; do
  git checkout -q -- .
  PYTHONPATH=$WT MPMATH_NOGMPY=1 /venv/bin/python $D/demo.py > $D/clean.out 2>&1; rc_clean=$?
  if ! git apply $D/patch.diff; then echo "patch does not apply" > $D/confirm.txt; continue; fi
  PYTHONPATH=$WT MPMATH_NOGMPY=1 /venv/bin/python $D/demo.py > $D/mut.out 2>&1; rc_mut=$?
  PYTHONPATH=$WT /venv/bin/python -m pytest -q -p no:cacheprovider --timeout=900 -x --ignore=_out > $D/tests.out 2>&1; rc_tests=$?
  git checkout -q -- .
  echo "clean=$rc_clean mutated=$rc_mut tests=$rc_tests $(tail -1 $D/tests.out)" > $D/confirm.txt
done
