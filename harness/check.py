#!/venv/bin/python
"""./check <ID> [--tier quick|thorough] [--replay file]
Decides one property on /repo's current working tree.  Exit 0 = held on everything explored,
exit 1 + 'VIOLATION property=<id> replay=<path>' lines otherwise."""
import sys, os, importlib, argparse, random, subprocess, time, json, re, traceback
sys.path.insert(0, os.path.dirname(os.path.abspath(__file__)))
from common import *

ALLOWED_AXIOMS = {
    "ClassicalDedekindReals.sig_not_dec", "ClassicalDedekindReals.sig_forall_dec",
    "FunctionalExtensionality.functional_extensionality_dep", "Classical_Prop.classic",
}


def ensure_build():
    """(Re)build the Coq development and the extracted model if anything is stale."""
    os.makedirs(os.path.join(VERIF, "build"), exist_ok=True)
    p = subprocess.run(["flock", os.path.join(VERIF, "build", ".buildlock"), "make", "-C", VERIF, "all"],
                       capture_output=True, text=True, timeout=3000)
    if p.returncode != 0:
        return False, (p.stdout + p.stderr)[-3000:]
    return True, ""


def check_props_file(pid):
    """Compile Props/<pid>.v (statements closed by `exact`) and collect Print Assumptions output."""
    path = os.path.join(VERIF, "coq", "Props", pid + ".v")
    if not os.path.exists(path):
        return None
    src = open(path).read()
    ntheorems = len(re.findall(r"^\s*(Theorem|Example)\s", src, re.M))
    cmd = ["coqc", "-Q", os.path.join(VERIF, "coq"), "MP", path]
    t0 = time.time()
    p = subprocess.run(cmd, capture_output=True, text=True, timeout=1200, cwd=os.path.join(VERIF, "coq"))
    out = p.stdout + p.stderr
    axioms = set(re.findall(r"^([A-Za-z_][\w.]*)\s*:", out, re.M)) | set(re.findall(r"^([A-Z]\w*\.[\w.]+)\s*$", out, re.M))
    axioms = {a for a in axioms if "." in a}
    closed = out.count("Closed under the global context")
    bad = ""
    if re.search(r"Admitted|admit\b|Axiom\s|Parameter\s|Conjecture\s", src):
        bad = "forbidden declaration in Props file"
    return {"ok": p.returncode == 0 and not bad, "theorems": ntheorems, "axioms": sorted(axioms),
            "closed_statements": closed, "cmd": " ".join(cmd), "secs": round(time.time() - t0, 1),
            "log": out[-2000:] if p.returncode != 0 else bad,
            "unexpected_axioms": sorted(a for a in axioms if a not in ALLOWED_AXIOMS)}


def grep_gate():
    """No Admitted/admit/Axiom/Parameter/... anywhere in the development."""
    bad = []
    pat = re.compile(r"\b(Admitted|admit|Axiom|Axioms|Parameter|Parameters|Conjecture|Admit Obligations)\b|Unset Guard|bypass_check|type-in-type|impredicative-set")
    roots = [os.path.join(VERIF, d) for d in ("coq", "coq_effects", "coq_qcheck", "coq_const", "coq_meta") if os.path.isdir(os.path.join(VERIF, d))]
    for root, _, files in (x for r in roots for x in os.walk(r)):
        for f in files:
            if f.endswith(".v"):
                txt = open(os.path.join(root, f)).read()
                txt = re.sub(r"\(\*.*?\*\)", "", txt, flags=re.S)
                for m in pat.finditer(txt):
                    bad.append("%s: %s" % (os.path.join(root, f), m.group(0)))
    return bad


def main():
    ap = argparse.ArgumentParser()
    ap.add_argument("pid")
    ap.add_argument("--tier", default=None)
    ap.add_argument("--replay", default=None)
    a = ap.parse_args()
    t = tier(a.tier)
    pid = a.pid
    mod = importlib.import_module("props." + pid.lower())
    rep = Report(pid, getattr(mod, "LEVEL", "exploration"), t)
    rng = random.Random("%s-%d" % (pid, seed()))
    try:
        ok, log = ensure_build()
        if not ok:
            rep.violation("framework build failed (Coq development or extraction)", {"theorem": "make all", "log": log}, no_input=True)
            rep.coverage = {"evaluations": 0, "distinct_nontrivial": 0, "rule": "build failed", "samples": ["build failed"]}
            sys.exit(rep.finish())
        gate = grep_gate()
        if gate:
            rep.violation("forbidden construct in Coq sources", {"theorem": "grep gate", "hits": gate}, no_input=True)
        if a.replay:
            mod.replay(rep, a.replay)
        else:
            mod.run(rep, t, rng)
    except SystemExit:
        raise
    except Exception as e:  # infrastructure failure must not look like a pass
        traceback.print_exc()
        rep.violation("check crashed: %r" % (e,), {"theorem": "harness", "trace": traceback.format_exc()[-2000:]}, no_input=True)
        if not rep.coverage:
            rep.coverage = {"evaluations": 0, "distinct_nontrivial": 0, "rule": "crashed", "samples": ["crashed before any case ran"]}
    sys.exit(rep.finish())


if __name__ == "__main__":
    main()
