"""qcert — exact-rational certificates decided by Coq (development /verif/coq_qcheck, logical root QC).

A *case* is an environment of dyadic complex matrices (read from raw mpmath tuples) plus a list of
labelled predicates in the small expression language of QC.Qexpr.  Python only *generates*: it
transliterates the raw `_mpf_` tuples into integer matrices with a common power-of-two scale,
predicts the verdict with an untrusted mirror evaluator, and writes `Lemma … : bcheck E p = Some
true.` (or `= Some false` for a predicted violation).  The Coq kernel decides each lemma by
`vm_compute` on BigZ; `QBig.bcheck_sound` says this is the verdict of the reference checker over Z.
"""
import os, re, sys, time, json, subprocess, hashlib, math
from concurrent.futures import ThreadPoolExecutor
from fractions import Fraction
from common import VERIF, NPROC

sys.set_int_max_str_digits(0)
QC_DIR = os.path.join(VERIF, "coq_qcheck")
BUILD = os.path.join(VERIF, "build", "qcheck")
COQC = ["coqc", "-Q", QC_DIR, "QC"]
FORBIDDEN = re.compile(r"\b(Admitted|admit|Axiom|Axioms|Parameter|Parameters|Conjecture|Admit Obligations)\b|"
                       r"Unset Guard|bypass_check|type-in-type|impredicative-set")

# ----------------------------------------------------------------------------- expression constructors
def V(i): return ("MVar", i)
def Id(n): return ("MId", n)
def Add(a, b): return ("MAdd", a, b)
def Sub(a, b): return ("MSub", a, b)
def Mul(a, b, *more):
    r = ("MMul", a, b)
    for m in more:
        r = ("MMul", r, m)
    return r
def T(a): return ("MT", a)
def H(a): return ("MH", a)
def Conj(a): return ("MConj", a)
def Diag(a): return ("MDiag", a)
def Pow(a, k): return ("MPow", a, k)
def Scal(re_, im_, k, a): return ("MScal", re_, im_, k, a)
def Abs(a): return ("MAbs", a)
def Re(a): return ("MRe", a)
def Im(a): return ("MIm", a)
def Det(a): return ("MDet", a)

def Frob2(m): return ("SFrob2", m)
def Norm1(m): return ("SNorm1", m)
def NormInf(m): return ("SNormInf", m)
def Const(t, k=0): return ("SConst", t, k)
def SMul(a, b, *more):
    r = ("SMul", a, b)
    for m in more:
        r = ("SMul", r, m)
    return r
def SAdd(a, b): return ("SAdd", a, b)
def Sqr(a): return ("SMul", a, a)
def Pow2(e):
    """the scalar 2^e (e any integer)"""
    return ("SConst", 1, -e) if e <= 0 else ("SConst", 1 << e, 0)

def Le(a, b): return ("PLe", a, b)
def Lt(a, b): return ("PLt", a, b)
def MatEq(a, b): return ("PMatEq", a, b)
def Kind(kd, m): return ("PKind", kd, m)
def And(p, q, *more):
    r = ("PAnd", p, q)
    for m in more:
        r = ("PAnd", r, m)
    return r

KINDS = ["KUpper", "KLower", "KUnitLower", "KPerm", "KPosDiag", "KHess", "KReal", "KDiagonal",
         "KNonnegDesc", "KAsc", "KNonzero"]


# ----------------------------------------------------------------------------- reading mpmath values
class NotFinite(Exception):
    pass


def _parts(x):
    """raw (re, im) mpf tuples of an mpmath/python number"""
    import mpmath
    from mpmath.libmp import from_int, from_float, fzero
    if hasattr(x, "_mpf_"):
        return x._mpf_, fzero
    if hasattr(x, "_mpc_"):
        return x._mpc_
    if isinstance(x, int):
        return from_int(x), fzero
    if isinstance(x, float):
        return from_float(x), fzero
    if isinstance(x, complex):
        return from_float(x.real), from_float(x.imag)
    raise TypeError("cannot read %r" % (x,))


def smat(rows):
    """rows: list of lists of mpmath numbers (or an mpmath matrix) -> (k, [[(re,im)]]) with integer
    re/im and value = int * 2^-k, k >= 0 minimal.  Exact transliteration of the raw tuples."""
    if hasattr(rows, "rows") and hasattr(rows, "cols"):
        M = rows
        rows = [[M[i, j] for j in range(M.cols)] for i in range(M.rows)]
    raw = []
    k = 0
    for r in rows:
        rr = []
        for x in r:
            a, b = _parts(x)
            for t in (a, b):
                if t[1] == 0 and t[2] != 0:
                    raise NotFinite(repr(x))
                if t[1] and t[2] < 0:
                    k = max(k, -t[2])
            rr.append((a, b))
        raw.append(rr)
    def val(t):
        s, m, e, _ = t
        v = m << (e + k)
        return -v if s else v
    return (k, [[(val(a), val(b)) for a, b in r] for r in raw])


def svec(xs):
    """column vector"""
    return smat([[x] for x in xs])


def imat(rows):
    """matrix of python ints / (re,im) int pairs, scale 0"""
    return (0, [[(x if isinstance(x, tuple) else (int(x), 0)) for x in r] for r in rows])


def sm_to_fractions(sm):
    k, M = sm
    d = 1 << k
    return [[(Fraction(a, d), Fraction(b, d)) for a, b in r] for r in M]


def frac_to_int_matrix(rows):
    """rows of (re, im) Fractions -> (integer (re,im) rows, common denominator d)"""
    d = 1
    for r in rows:
        for a, b in r:
            d = d * a.denominator // math.gcd(d, a.denominator)
            d = d * b.denominator // math.gcd(d, b.denominator)
    return [[(int(a * d), int(b * d)) for a, b in r] for r in rows], d


# ----------------------------------------------------------------------------- untrusted mirror evaluator
def _ncols(M): return len(M[0]) if M else 0
def _rect(M): return all(len(r) == _ncols(M) for r in M)
def _cmul(x, y): return (x[0] * y[0] - x[1] * y[1], x[0] * y[1] + x[1] * y[0])
def _shift(M, d):
    assert d >= 0
    return [[(a << d, b << d) for a, b in r] for r in M]
def _transp(M): return [[M[i][j] for i in range(len(M))] for j in range(_ncols(M))]
def _mmul(A, B):
    n = _ncols(B); K = len(B)
    out = []
    for r in A:
        row = []
        for j in range(n):
            sr = si = 0
            for k in range(min(len(r), K)):
                a, b = r[k]; c, d = B[k][j]
                sr += a * c - b * d; si += a * d + b * c
            row.append((sr, si))
        out.append(row)
    return out
def _mid(n): return [[(1 if i == j else 0, 0) for j in range(n)] for i in range(n)]

def _det(M):
    n = len(M)
    if n == 0:
        return (1, 0)
    from functools import lru_cache
    @lru_cache(None)
    def d(i, cols):
        if i == n:
            return (1, 0)
        tr = ti = 0
        sgn = 1
        for idx, c in enumerate(cols):
            x = M[i][c]
            if x != (0, 0):
                sub = d(i + 1, cols[:idx] + cols[idx + 1:])
                pr = _cmul(x, sub)
                tr += sgn * pr[0]; ti += sgn * pr[1]
            sgn = -sgn
        return (tr, ti)
    return d(0, tuple(range(n)))


def meval(E, e):
    op = e[0]
    if op == "MVar":
        if e[1] >= len(E): return None
        k, M = E[e[1]]
        return (k, M) if _rect(M) else None
    if op == "MId":
        return (0, _mid(e[1]))
    if op in ("MAdd", "MSub"):
        a = meval(E, e[1]); b = meval(E, e[2])
        if a is None or b is None: return None
        (ka, A), (kb, B) = a, b
        if len(A) != len(B) or _ncols(A) != _ncols(B): return None
        k = max(ka, kb)
        A = _shift(A, k - ka); B = _shift(B, k - kb)
        sg = 1 if op == "MAdd" else -1
        return (k, [[(x[0] + sg * y[0], x[1] + sg * y[1]) for x, y in zip(r, s)] for r, s in zip(A, B)])
    if op == "MMul":
        a = meval(E, e[1]); b = meval(E, e[2])
        if a is None or b is None: return None
        (ka, A), (kb, B) = a, b
        if _ncols(A) != len(B): return None
        return (ka + kb, _mmul(A, B))
    a = meval(E, e[-1] if op == "MScal" else e[1])
    if a is None: return None
    k, A = a
    if op == "MT": return (k, _transp(A))
    if op == "MH": return (k, [[(x, -y) for x, y in r] for r in _transp(A)])
    if op == "MConj": return (k, [[(x, -y) for x, y in r] for r in A])
    if op == "MDiag":
        if _ncols(A) != 1: return None
        n = len(A)
        return (k, [[(A[i][0] if i == j else (0, 0)) for j in range(n)] for i in range(n)])
    if op == "MPow":
        if len(A) != _ncols(A): return None
        P = _mid(len(A))
        for _ in range(e[2]):
            P = _mmul(A, P)
        return (e[2] * k, P)
    if op == "MScal":
        z = (e[1], e[2])
        return (k + e[3], [[_cmul(z, x) for x in r] for r in A])
    if op == "MAbs": return (k, [[(abs(x), abs(y)) for x, y in r] for r in A])
    if op == "MRe": return (k, [[(x, 0) for x, y in r] for r in A])
    if op == "MIm": return (k, [[(y, 0) for x, y in r] for r in A])
    if op == "MDet":
        if len(A) != _ncols(A): return None
        return (len(A) * k, [[_det(A)]])
    raise ValueError(op)


def _isreal(A): return all(y == 0 for r in A for x, y in r)

def seval(E, s):
    op = s[0]
    if op == "SFrob2":
        a = meval(E, s[1])
        if a is None: return None
        return (sum(x * x + y * y for r in a[1] for x, y in r), 2 * a[0])
    if op in ("SNorm1", "SNormInf"):
        a = meval(E, s[1])
        if a is None or not _isreal(a[1]): return None
        A = a[1] if op == "SNormInf" else _transp(a[1])
        return (max([0] + [sum(abs(x) for x, _ in r) for r in A]), a[0])
    if op == "SConst":
        return (s[1], s[2])
    a = seval(E, s[1]); b = seval(E, s[2])
    if a is None or b is None: return None
    if op == "SMul":
        return (a[0] * b[0], a[1] + b[1])
    if op == "SAdd":
        k = max(a[1], b[1])
        return ((a[0] << (k - a[1])) + (b[0] << (k - b[1])), k)
    raise ValueError(op)


def _sle(x, y):
    k = max(x[1], y[1])
    return (x[0] << (k - x[1])) <= (y[0] << (k - y[1]))


def _kind(kd, k, M):
    n, c = len(M), _ncols(M)
    uno = ((1 << k) if k >= 0 else 0, 0)
    Z = (0, 0)
    ent = [(i, j, M[i][j]) for i in range(n) for j in range(c)]
    if kd == "KUpper": return all(i <= j or x == Z for i, j, x in ent)
    if kd == "KLower": return all(j <= i or x == Z for i, j, x in ent)
    if kd == "KUnitLower":
        return n == c and all(True if j < i else (x == uno if i == j else x == Z) for i, j, x in ent)
    if kd == "KPerm":
        def rs(r): return (sum(x for x, _ in r), sum(y for _, y in r))
        return (n == c and all(x == Z or x == uno for _, _, x in ent)
                and all(rs(r) == uno for r in M) and all(rs(r) == uno for r in _transp(M)))
    if kd == "KPosDiag": return all(i != j or (x[1] == 0 and x[0] > 0) for i, j, x in ent)
    if kd == "KHess": return all(i <= j + 1 or x == Z for i, j, x in ent)
    if kd == "KReal": return _isreal(M)
    if kd == "KDiagonal": return all(i == j or x == Z for i, j, x in ent)
    if kd == "KNonnegDesc":
        v = [r[0][0] for r in M] if c == 1 else []
        return c == 1 and _isreal(M) and all(x >= 0 for x in v) and all(v[i + 1] <= v[i] for i in range(len(v) - 1))
    if kd == "KAsc":
        v = [r[0][0] for r in M] if c == 1 else []
        return c == 1 and _isreal(M) and all(v[i] <= v[i + 1] for i in range(len(v) - 1))
    if kd == "KNonzero": return not all(x == Z for _, _, x in ent)
    raise ValueError(kd)


def pcheck(E, p):
    """untrusted prediction: True / False / None (ill-formed)"""
    op = p[0]
    if op in ("PLe", "PLt"):
        a = seval(E, p[1]); b = seval(E, p[2])
        if a is None or b is None: return None
        return _sle(a, b) if op == "PLe" else not _sle(b, a)
    if op == "PMatEq":
        a = meval(E, p[1]); b = meval(E, p[2])
        if a is None or b is None: return None
        k = max(a[0], b[0])
        return _shift(a[1], k - a[0]) == _shift(b[1], k - b[0])
    if op == "PKind":
        a = meval(E, p[2])
        if a is None: return None
        return _kind(p[1], a[0], a[1])
    if op == "PAnd":
        a = pcheck(E, p[1]); b = pcheck(E, p[2])
        if a is None or b is None: return None
        return a and b
    raise ValueError(op)


def log2_ratio(E, a, b):
    """diagnostic only: log2(value(a)/value(b)) for scalar expressions (None if undefined)"""
    x = seval(E, a); y = seval(E, b)
    if x is None or y is None or x[0] <= 0 or y[0] <= 0:
        return None
    def lg(t):
        n = t[0]
        sh = max(0, n.bit_length() - 60)
        return math.log2(n >> sh) + sh - t[1]
    return lg(x) - lg(y)


# ----------------------------------------------------------------------------- Coq text
def zarg(n):
    """Z literal; hexadecimal above 64 bits (Coq parses long decimal numerals in quadratic time)"""
    if -2**64 < n < 2**64:
        return str(n) if n >= 0 else "(%d)" % n
    return hex(n) if n >= 0 else "(-%s)" % hex(-n)

def zlit(n):
    return "(zb %s)" % zarg(n)

def Zlit(n):
    return "%d%%Z" % n if n >= 0 else "(%d)%%Z" % n

def coq_m(e):
    op = e[0]
    if op == "MVar": return "(MVar %d%%nat)" % e[1]
    if op == "MId": return "(MId %d%%nat)" % e[1]
    if op in ("MAdd", "MSub", "MMul"): return "(%s %s %s)" % (op, coq_m(e[1]), coq_m(e[2]))
    if op == "MPow": return "(MPow %s %d%%nat)" % (coq_m(e[1]), e[2])
    if op == "MScal": return "(MScal %s %s %s %s)" % (zlit(e[1]), zlit(e[2]), Zlit(e[3]), coq_m(e[4]))
    return "(%s %s)" % (op, coq_m(e[1]))

def coq_s(s):
    op = s[0]
    if op in ("SFrob2", "SNorm1", "SNormInf"): return "(%s %s)" % (op, coq_m(s[1]))
    if op == "SConst": return "(SConst %s %s)" % (zlit(s[1]), Zlit(s[2]))
    return "(%s %s %s)" % (op, coq_s(s[1]), coq_s(s[2]))

def coq_p(p):
    op = p[0]
    if op in ("PLe", "PLt"): return "(%s %s %s)" % (op, coq_s(p[1]), coq_s(p[2]))
    if op == "PMatEq": return "(PMatEq %s %s)" % (coq_m(p[1]), coq_m(p[2]))
    if op == "PKind": return "(PKind %s %s)" % (p[1], coq_m(p[2]))
    return "(PAnd %s %s)" % (coq_p(p[1]), coq_p(p[2]))

def coq_env(E):
    out = []
    for k, M in E:
        rows = ["[" + "; ".join(("zr %s" % zarg(a)) if b == 0 else ("zc %s %s" % (zarg(a), zarg(b)))
                                for a, b in r) + "]" for r in M]
        out.append("(%s, [%s])" % (Zlit(k), ";\n    ".join(rows)))
    return "[" + ";\n  ".join(out) + "]"

HEADER = ("Require Import ZArith List.\nFrom Bignums Require Import BigZ.\n"
          "Require Import QC.Qmat QC.Qexpr QC.QBig.\nImport ListNotations.\nLocal Open Scope Z_scope.\n")

VERDICT = {True: "Some true", False: "Some false", None: "None"}


class Case:
    """one environment + labelled predicates.  meta is free-form (goes to evidence / replay)."""
    def __init__(self, name, env, checks, meta=None):
        self.name = name
        self.env = env
        self.checks = checks          # list of (label, pred)
        self.meta = meta or {}
        self.pred = [pcheck(env, p) for _, p in checks]      # untrusted predictions
        self.verdict = [None] * len(checks)                  # 'pass' | 'fail' | 'inconclusive'

    def text(self, only=None, force=None):
        """Coq text (without header): environment definition + the selected lemmas"""
        js = range(len(self.checks)) if only is None else [only]
        txt, _ = _emit([(self, j) for j in js], force=force)
        return txt[len(HEADER):]


# ----------------------------------------------------------------------------- build + run
_built = {}

def ensure_built(timeout=600):
    """build /verif/coq_qcheck (coq_makefile) and grep for forbidden constructs"""
    if "ok" in _built:
        return _built["ok"], _built["log"]
    bad = []
    for f in sorted(os.listdir(QC_DIR)):
        if f.endswith(".v"):
            txt = re.sub(r"\(\*.*?\*\)", "", open(os.path.join(QC_DIR, f)).read(), flags=re.S)
            bad += ["%s: %s" % (f, m.group(0)) for m in FORBIDDEN.finditer(txt)]
    if bad:
        _built.update(ok=False, log="forbidden construct: " + "; ".join(bad))
        return False, _built["log"]
    try:
        if not os.path.exists(os.path.join(QC_DIR, "Makefile.coq")):
            subprocess.run(["coq_makefile", "-f", "_CoqProject", "-o", "Makefile.coq"], cwd=QC_DIR,
                           capture_output=True, text=True, timeout=60, check=True)
        p = subprocess.run(["make", "-f", "Makefile.coq", "-j8"], cwd=QC_DIR, capture_output=True, text=True,
                           timeout=timeout)
        ok, log = p.returncode == 0, (p.stdout + p.stderr)[-2000:]
    except (subprocess.TimeoutExpired, subprocess.CalledProcessError) as e:
        ok, log = False, repr(e)
    _built.update(ok=ok, log=log)
    return ok, log


def _coqc(path, timeout):
    t0 = time.time()
    try:
        p = subprocess.run(COQC + [path], capture_output=True, text=True, timeout=timeout,
                           cwd=os.path.dirname(path))
        return p.returncode, p.stdout + p.stderr, time.time() - t0
    except subprocess.TimeoutExpired:
        return -9, "timeout after %ss" % timeout, time.time() - t0


class InfrastructureError(RuntimeError):
    pass


def _emit(items, force=None):
    """Coq text for a list of (case, j) in order; returns (text, spans) with spans[k] = (first_line, last_line)
    of the k-th lemma (1-based line numbers, HEADER included)."""
    lines = HEADER.rstrip("\n").split("\n")
    spans = []
    defined = set()
    for c, j in items:
        if c.name not in defined:
            defined.add(c.name)
            lines += ("Definition E_%s : env bigZ :=\n  %s." % (c.name, coq_env(c.env))).split("\n")
        label, p = c.checks[j]
        claim = c.pred[j] if force is None else force
        a = len(lines) + 1
        lines += ("(* %s *)\nLemma %s_%d : bcheck E_%s\n  %s = %s.\nProof. vm_cast_no_check (eq_refl (%s)). Qed." % (
            label.replace("*)", "* )"), c.name, j, c.name, coq_p(p), VERDICT[claim],
            "@None bool" if claim is None else VERDICT[claim])).split("\n")
        spans.append((a, len(lines)))
    return "\n".join(lines) + "\n", spans


_ERRLINE = re.compile(r'File "[^"]*", line (\d+), characters')


def run_cases(tag, cases, batch=50, timeout=300, single_timeout=120, nproc=NPROC):
    """Write, compile and classify.  Returns stats dict; fills case.verdict[j] with
    'pass' (Coq proved `= Some true`), 'fail' (Coq proved `= Some false`: certified violation),
    'inconclusive' (time-out, ill-formed, or neither statement provable).
    A lemma counts as proved iff coqc accepted its Qed: the whole file compiled, or coqc's first error is
    located strictly after it."""
    ok, log = ensure_built()
    if not ok:
        raise InfrastructureError("coq_qcheck build failed: " + log)
    d = os.path.join(BUILD, tag)
    os.makedirs(d, exist_ok=True)
    for f in os.listdir(d):
        if f.endswith((".v", ".vo", ".vok", ".vos", ".glob", ".aux")) or f.startswith("."):
            try: os.remove(os.path.join(d, f))
            except OSError: pass
    nlem = sum(len(c.checks) for c in cases)
    per = max(1, min(batch, -(-nlem // (3 * nproc))))
    batches, cur = [], []
    for c in cases:
        cur += [(c, j) for j in range(len(c.checks))]
        if len(cur) >= per:
            batches.append(cur); cur = []
    if cur:
        batches.append(cur)
    t0 = time.time()
    nfiles = [0]
    cmd_paths = []

    def single(cj, skip_claim=None):
        c, j = cj
        order = [c.pred[j]] + [v for v in (True, False) if v != c.pred[j]]
        for claim in order:
            if claim is None or claim == skip_claim:
                continue
            path = os.path.join(d, "%s_%s_%d_%s.v" % (tag, c.name, j, {True: "T", False: "F"}[claim]))
            txt, _ = _emit([cj], force=claim)
            with open(path, "w") as f:
                f.write(txt)
            rc, out, secs = _coqc(path, single_timeout)
            if rc == 0:
                return ("pass" if claim else "fail")
            if rc == -9:
                return "inconclusive"
            if "inconsistent assumptions" in out or "Cannot find a physical path" in out:
                raise InfrastructureError(out[-400:])
        return "inconclusive"

    def do_batch(arg):
        bi, items = arg
        res = {}
        redo = 0
        gen = 0
        todo = list(items)
        while todo:
            path = os.path.join(d, "%s_b%03d%s.v" % (tag, bi, "" if gen == 0 else "_r%d" % gen))
            txt, spans = _emit(todo)
            with open(path, "w") as f:
                f.write(txt)
            nfiles[0] += 1
            if gen == 0:
                cmd_paths.append(path)
            rc, out, secs = _coqc(path, timeout)
            if rc == 0:
                for c, j in todo:
                    res[(c.name, j)] = {True: "pass", False: "fail", None: "inconclusive"}[c.pred[j]]
                break
            if "inconsistent assumptions" in out or "Cannot find a physical path" in out:
                raise InfrastructureError(out[-400:])
            m = _ERRLINE.search(out)
            k = None
            if m:
                line = int(m.group(1))
                k = next((t for t, (a, b) in enumerate(spans) if a <= line <= b), None)
            if k is None:
                # time-out or an error outside any lemma: decide every remaining lemma on its own
                for cj in todo:
                    res[(cj[0].name, cj[1])] = single(cj); redo += 1
                break
            for c, j in todo[:k]:
                res[(c.name, j)] = {True: "pass", False: "fail", None: "inconclusive"}[c.pred[j]]
            c, j = todo[k]
            res[(c.name, j)] = single(todo[k], skip_claim=c.pred[j]); redo += 1
            todo = todo[k + 1:]
            gen += 1
        return res, redo

    with ThreadPoolExecutor(nproc) as ex:
        outs = list(ex.map(do_batch, list(enumerate(batches))))
    byname = {c.name: c for c in cases}
    redo = 0
    mis = 0
    for res, r in outs:
        redo += r
        for (name, j), v in res.items():
            c = byname[name]
            c.verdict[j] = v
            if v in ("pass", "fail") and v != {True: "pass", False: "fail", None: "x"}[c.pred[j]]:
                mis += 1
    stats = {"files": nfiles[0], "lemmas": nlem, "failed_batches": sum(1 for _, r in outs if r),
             "reclassified": redo, "coq_wall_s": round(time.time() - t0, 1), "mispredicted": mis,
             "cmd": " ".join(COQC) + " " + os.path.join(d, tag + "_b*.v")}
    return stats


def case_file(tag, c, j):
    """path of a stand-alone .v file that replays check j of case c (written on demand)"""
    d = os.path.join(BUILD, tag)
    os.makedirs(d, exist_ok=True)
    claim = {"pass": True, "fail": False}.get(c.verdict[j], c.pred[j])
    path = os.path.join(d, "%s_replay_%s_%d.v" % (tag, c.name, j))
    with open(path, "w") as f:
        f.write(HEADER + c.text(only=j, force=claim))
    return path


def summarize(rep, tag, cases, what_fn):
    """Common tail of the property modules: turn Coq verdicts into violations + counters.
    Labels starting with 'cert:' are checks of the UNTRUSTED search (exact inverse / exact solution /
    exact singularity); if one of them is not proved the whole case is inconclusive (never an alarm)."""
    npass = nfail = ninc = ncert = 0
    for c in cases:
        cert_ok = all(c.verdict[j] == "pass" for j, (l, _) in enumerate(c.checks) if l.startswith("cert:"))
        for j, (label, p) in enumerate(c.checks):
            v = c.verdict[j]
            if label.startswith("cert:"):
                ncert += 1
                if v != "pass":
                    ninc += 1
                continue
            if not cert_ok:
                ninc += 1
                continue
            if v == "pass":
                npass += 1
            elif v == "fail":
                nfail += 1
                path = case_file(tag, c, j)
                r = dict(c.meta)
                r.update({"kind": label, "coq_file": path, "cmd": " ".join(COQC) + " " + path,
                          "coq_text": open(path).read() if os.path.getsize(path) < 200000 else "(see coq_file)"})
                rep.violation(what_fn(c, label), r)
            else:
                ninc += 1
    return {"certified_pass": npass, "certified_fail": nfail, "inconclusive": ninc, "search_certificates": ncert}


def replay_file(rep, d):
    """re-decide a recorded certified violation from its .v text"""
    os.makedirs(os.path.join(BUILD, "replay"), exist_ok=True)
    path = os.path.join(BUILD, "replay", "replay_%s.v" % hashlib.sha1(d.get("coq_text", "").encode()).hexdigest()[:10])
    txt = d.get("coq_text", "")
    if txt.startswith("(see") and os.path.exists(d.get("coq_file", "")):
        txt = open(d["coq_file"]).read()
    with open(path, "w") as f:
        f.write(txt)
    ok, log = ensure_built()
    rc, out, secs = _coqc(path, 600)
    return rc == 0, " ".join(COQC) + " " + path, out[-500:]
