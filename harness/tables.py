"""Regenerate build/Tables.v from the live mpmath modules and have Coq re-check that the tables the
code actually uses are the functions the model assumes (bctable = bitcount, trailtable = trailing,
h_mask, shifts_down, reciprocal_rnd, negative_rnd, special encodings, hash constants, int_cache)."""
import os, sys, subprocess, time
from common import *


def zlist(xs):
    return "[" + "; ".join("(%d)" % x for x in xs) + "]"


def generate():
    import mpmath.libmp.libmpf as L
    import mpmath.libmp.libintmath as LI
    R = {'n': 'RN', 'f': 'RF', 'c': 'RC', 'd': 'RD', 'u': 'RU'}
    lines = ["(* generated from the live mpmath modules by harness/tables.py — do not edit *)",
             "From Coq Require Import ZArith List Bool.",
             "From MP Require Import Algo.Base Algo.Libmpf.",
             "Import ListNotations. Open Scope Z_scope.", ""]
    bct = list(LI.bctable)
    lines.append("Definition bctable : list Z := %s." % zlist(bct))
    lines.append("Definition trailtable : list Z := %s." % zlist(list(LI.trailtable) if hasattr(LI, 'trailtable') else list(LI.small_trailing)))
    lines.append("Definition small_trailing : list Z := %s." % zlist(list(LI.small_trailing)))
    lines.append("Definition powers : list Z := %s." % zlist(list(LI.powers)))
    lines.append("Definition h_mask_small : list Z := %s." % zlist(list(L.h_mask_small)))
    lines.append("Definition ztab (n : nat) : list Z := map Z.of_nat (seq 0 n).")
    lines.append("Definition zeqb_list (a b : list Z) : bool := (length a =? length b)%nat && forallb (fun p => fst p =? snd p) (combine a b).")
    checks = []
    checks.append("zeqb_list bctable (map bitcount (ztab %d))" % len(bct))
    checks.append("zeqb_list trailtable (0 :: map trailing (tl (ztab 256)))")
    checks.append("zeqb_list small_trailing (0 :: map trailing (tl (ztab 256)))")
    checks.append("zeqb_list powers (map (fun k => 2 ^ k) (ztab 300))")
    checks.append("zeqb_list h_mask_small (0 :: map (fun n => Z.shiftl 1 (n - 1) - 1) (tl (ztab 300)))")
    # big-n h_mask
    for n in (300, 301, 1000):
        checks.append("(%d =? Z.shiftl 1 (%d - 1) - 1)" % (L.h_mask[n < 300][n], n))
    for r, tup in L.shifts_down.items():
        for sign in (0, 1):
            checks.append("Bool.eqb (shifts_down %s %d) %s" % (R[r], sign, "true" if tup[sign] else "false"))
    checks.append("(%d =? 4)%%nat" % len(L.shifts_down))
    for r, q in L.reciprocal_rnd.items():
        checks.append("rnd_eqb (reciprocal_rnd %s) %s" % (R[r], R[q]))
    for r, q in L.negative_rnd.items():
        checks.append("rnd_eqb (negative_rnd %s) %s" % (R[r], R[q]))
    def m(t):
        return "(Mpf (%d) (%d) (%d) (%d))" % tuple(t)
    for name in ("fzero", "fnzero", "fone", "fnone", "ftwo", "ften", "fhalf", "fnan", "finf", "fninf"):
        checks.append("mpf_eqb %s %s" % (name, m(getattr(L, name))))
    checks.append("(HASH_MODULUS =? %d)" % L.HASH_MODULUS)
    checks.append("(HASH_BITS =? %d)" % L.HASH_BITS)
    checks.append("(HASH_INF =? %d)" % sys.hash_info.inf)
    checks.append("(HASH_NAN =? %d)" % sys.hash_info.nan)
    checks.append("rnd_eqb %s RD" % R[L.round_fast])
    for n, v in sorted(L.int_cache.items()):
        checks.append("mpf_eqb (from_man_exp (%d) 0 0 RD) %s" % (n, m(v)))
    lines.append("Definition table_checks : list bool := [\n  " + ";\n  ".join(checks) + "\n].")
    lines.append("Lemma tables_ok : forallb (fun b => b) table_checks = true.")
    lines.append("Proof. vm_compute. reflexivity. Qed.")
    return "\n".join(lines) + "\n", len(checks)


def run():
    """returns dict(ok, obligations, cmd, log)"""
    os.makedirs(os.path.join(VERIF, "build"), exist_ok=True)
    src, n = generate()
    path = os.path.join(VERIF, "build", "Tables.v")
    with open(path, "w") as f:
        f.write(src)
    cmd = ["coqc", "-Q", os.path.join(VERIF, "coq"), "MP", "-Q", os.path.join(VERIF, "build"), "MPB", path]
    t0 = time.time()
    p = subprocess.run(cmd, capture_output=True, text=True, timeout=600)
    return {"ok": p.returncode == 0, "obligations": n, "cmd": " ".join(cmd), "log": (p.stdout + p.stderr)[-1500:],
            "secs": round(time.time() - t0, 1)}


if __name__ == "__main__":
    print(run())
