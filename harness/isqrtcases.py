"""Correspondence cases for the pure-Python integer square roots (Algo/Isqrt.v).

The Python routines leave integer arithmetic only to seed their iterations with a double-precision square root.
Those seeds are inputs of the Coq model; here they are obtained from the *live* source: the function's AST is cut just
before its integer loop and the prefix is compiled in the module's own namespace, so the seed is whatever the current
code computes (a rewrite that removes the recognised shape fails closed)."""
import ast, inspect, math, textwrap
from common import *
from mpfcases import Case, call_impl
import gen
import mpmath.libmp.libintmath as LI

_prefix_cache = {}


def _prefix(fname, loop_type, retname):
    """function = live source of LI.<fname> truncated at its first top-level loop of type loop_type, returning retname"""
    key = (fname, id(getattr(LI, fname)))
    if key in _prefix_cache:
        return _prefix_cache[key]
    src = textwrap.dedent(inspect.getsource(getattr(LI, fname)))
    tree = ast.parse(src)
    fdef = tree.body[0]
    if not isinstance(fdef, ast.FunctionDef):
        raise RuntimeError("isqrt prefix: %s is not a plain function" % fname)
    idx = [i for i, st in enumerate(fdef.body) if isinstance(st, loop_type)]
    if not idx:
        raise RuntimeError("isqrt prefix: no %s loop in %s" % (loop_type.__name__, fname))
    fdef.body = fdef.body[:idx[0]] + [ast.Return(value=ast.Name(id=retname, ctx=ast.Load()))]
    fdef.name = fname + "__prefix"
    ast.fix_missing_locations(tree)
    ns = dict(LI.__dict__)
    exec(compile(tree, "<prefix of %s>" % fname, "exec"), ns)
    f = ns[fdef.name]
    _prefix_cache[key] = f
    return f


def small_start(x):
    """(kind, value): the value isqrt_small_python holds when it enters its Newton loop, or its direct return"""
    return _prefix("isqrt_small_python", ast.While, "r")(x)


def fast_big_start(x):
    return _prefix("isqrt_fast_python", ast.For, "r")(x)


def fast_small_start(x):
    """y = int(x**0.5): first statement of the x < 2^800 block of isqrt_fast_python, evaluated from the live AST"""
    key = ("fast_small", id(LI.isqrt_fast_python))
    if key not in _prefix_cache:
        src = textwrap.dedent(inspect.getsource(LI.isqrt_fast_python))
        fdef = ast.parse(src).body[0]
        ifs = [st for st in fdef.body if isinstance(st, ast.If)]
        if not ifs or not isinstance(ifs[0].body[0], ast.Assign) or ifs[0].body[0].targets[0].id != "y":
            raise RuntimeError("isqrt prefix: unrecognised shape of isqrt_fast_python")
        code = compile(ast.Expression(ifs[0].body[0].value), "<y0 of isqrt_fast_python>", "eval")
        _prefix_cache[key] = code
    return eval(_prefix_cache[key], dict(LI.__dict__), {"x": x})


def _near_square(rng, kb):
    K = gen.mant(rng, kb) if rng.random() < 0.7 else (1 << kb) - rng.randint(0, 3)
    K = max(K, 1)
    k = rng.randrange(7)
    if k == 0: n = K * K
    elif k == 1: n = K * K - 1
    elif k == 2: n = K * K + 2 * K
    elif k == 3: n = K * K - rng.randint(1, 5)
    elif k == 4: n = (K * K - 1) << (2 * rng.randint(0, 8))
    elif k == 5: n = K * K + rng.randint(0, 2 * K)
    else: n = rng.getrandbits(2 * kb) | (1 << (2 * kb - 1))
    return max(n, 1)


def c_isqrt_small_newton(rng, fn):
    """isqrt_small_python's Newton loop from the live floating-point start value"""
    kb = rng.choice([rng.randint(26, 60), rng.randint(45, 110), rng.randint(100, 420), rng.randint(390, 460), rng.randint(400, 900)])
    n = _near_square(rng, kb)
    if n < (1 << 50):
        n += 1 << 50
    r0 = small_start(n)
    s = math.isqrt(n)
    return Case(fn, [n, r0], lambda: call_impl(LI.isqrt_small_python, n), ("isqrt_start", s, r0), rounded=False, ret_mpf=False,
                desc="isqrt_small_python, %d bits" % n.bit_length())


def c_isqrt_fast_smallx(rng, fn):
    kb = rng.choice([rng.randint(1, 30), rng.randint(20, 60), rng.randint(45, 110), rng.randint(100, 399)])
    n = _near_square(rng, kb)
    if n >= (1 << 800):
        n >>= 4
    y0 = fast_small_start(n)
    s = math.isqrt(n)
    return Case(fn, [n, y0], lambda: call_impl(LI.isqrt_fast_python, n), ("isqrt_fast", s, n), rounded=False, ret_mpf=False,
                desc="isqrt_fast_python, %d bits" % n.bit_length())


def c_isqrt_fast_bigx(rng, fn):
    kb = rng.choice([rng.randint(401, 460), rng.randint(400, 900), rng.randint(800, 2500), rng.randint(2000, 9000)])
    n = _near_square(rng, kb)
    if n < (1 << 800):
        n <<= 2 * (401 - n.bit_length() // 2)
    r0 = fast_big_start(n)
    s = math.isqrt(n)
    return Case(fn, [n, r0], lambda: call_impl(LI.isqrt_fast_python, n), ("isqrt_fast", s, n), rounded=False, ret_mpf=False,
                desc="isqrt_fast_python, %d bits" % n.bit_length())


def c_sqrtrem_fix(rng, fn):
    """sqrtrem_python's correction loops driven with chosen approximations (isqrt_fast_python replaced for the call)"""
    kb = rng.choice([rng.randint(301, 330), rng.randint(300, 460), rng.randint(400, 900), rng.randint(800, 2500)])
    n = _near_square(rng, kb)
    if n < (1 << 600):
        n <<= 2 * (301 - n.bit_length() // 2)
    s = math.isqrt(n)
    real = rng.random() < 0.4
    approx = LI.isqrt_fast_python(n) if real else s + rng.choice([-6, -3, -2, -2, -1, -1, -1, 0, 0, 1, 1, 2, 5, 9, 40])

    def thunk():
        orig = LI.isqrt_fast_python
        try:
            LI.isqrt_fast_python = lambda x: approx
            return call_impl(LI.sqrtrem_python, n)
        finally:
            LI.isqrt_fast_python = orig
    exact = ("sqrtrem_fix", s, n - s * s) if approx >= s - 1 else None
    return Case(fn, [n, approx], thunk, exact, rounded=False, ret_mpf=False,
                desc="sqrtrem_python with isqrt_fast %s (offset %d)" % ("live" if real else "replaced", approx - s))


GENS = {"isqrt_small_newton": c_isqrt_small_newton, "isqrt_fast_smallx": c_isqrt_fast_smallx,
        "isqrt_fast_bigx": c_isqrt_fast_bigx, "sqrtrem_fix": c_sqrtrem_fix}


def spec(case, out):
    """hypothesis monitors and value checks; returns [(tag, text)]"""
    bad = []
    e = case.exact
    if e is None:
        return bad
    if e[0] == "isqrt_start":
        if e[2] < e[1]:
            bad.append(("VALUE", "start value of the Newton loop is below floor(sqrt x): hypothesis of isqrt_small_newton_spec fails"))
        if out[0] != 0 or out[1] != e[1]:
            bad.append(("VALUE", "isqrt_small_python differs from floor(sqrt x)"))
    elif e[0] == "isqrt_fast":
        if out[0] != 0 or out[1] < e[1] - 1:
            bad.append(("VALUE", "isqrt_fast_python is more than one unit below floor(sqrt x): hypothesis of sqrtrem_fix_spec fails"))
    elif e[0] == "sqrtrem_fix":
        if out[0] != 0 or tuple(out[1:3]) != (e[1], e[2]):
            bad.append(("VALUE", "sqrtrem_python differs from the exact root and remainder"))
    return bad
