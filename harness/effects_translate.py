"""Engine C translator: Python sources of mpmath -> Gallina `cmd` skeletons of precision effects.

Fail-closed: anything that writes a precision attribute in a way that is not recognised becomes
`SetOpaque` ("prec becomes unknown"); functions using nonlocal/global, exec/eval or unknown decorators are
wrapped so that every exit has unknown precision.

Trusted modelling decisions (see DESIGN.md 1.4 and the report of C11):
  * every `.prec` / `.dps` attribute write is a write to THE context precision (one abstract cell), except writes
    to a local that was just created by `<ctx>.__class__()` (a fresh context: `clone`);
  * operators, attribute reads, libmp primitives, builtins, methods that are not analysed functions and
    *callables of unknown origin (parameters = user callbacks, values returned by calls)* are `CallExt`:
    they may raise anywhere but never change the precision;
  * calls are resolved by name: `foo(...)` lexically (nested def, module level, then any analysed module-level
    function of that name), `<expr>.foo(...)` to every analysed function of that name that can be an attribute
    (methods, @defun, module level); several candidates = nondeterministic choice between them (meet);
  * an internal closure (nested def / lambda that is itself in the table) handed to another function is handled
    either by *specialising* the callee (its parameter is bound to the closure, calls through the parameter become
    calls of the closure) or, when that is not possible, by `Guard [closure]` (prec unknown unless the closure is
    prec-neutral in the final table);
  * a generator's body is analysed with `yield` = "may stop here (Return) or go on"; every iteration step over an
    expression that mentions a call of an analysed generator runs `CallFn generator` (segments approximated by
    the whole body; generators that write the precision are listed and checked dynamically);
  * `with ctx.workprec(..)` etc. are expanded with the *translated* bodies of PrecisionManager.__enter__/__exit__;
    `@defun_wrapped` functions are the translated `_wrap_specfun.f_wrapped` of each context specialised to the raw
    function; decorators defined in the sources that return a nested wrapper are treated the same way.
"""
import ast, os, sys, glob, json, hashlib

REPO = os.environ.get("VERIF_REPO", "/repo")
KEY_ATTRS = {"prec", "dps", "_prec_rounding", "_prec", "_dps"}
PM_NAMES = {"workprec", "workdps", "extraprec", "extradps"}
WRITE_ATTRS = {"prec", "dps", "_prec", "_dps", "_prec_rounding"}
HARMLESS_DECOS = {"classmethod", "staticmethod", "property", "defun", "defun_static", "defun_wrapped"}
MAX_SPEC_DEPTH = 4


def source_files(repo=None):
    root = os.path.join(repo or REPO, "mpmath")
    fs = ["ctx_base.py", "ctx_mp.py", "ctx_mp_python.py", "ctx_iv.py", "ctx_fp.py", "identification.py",
          "visualization.py", "usertools.py"]
    out = [os.path.join(root, f) for f in fs]
    for d in ("calculus", "functions", "matrices"):
        out += sorted(glob.glob(os.path.join(root, d, "*.py")))
    return [f for f in out if os.path.exists(f)], root


# ------------------------------------------------------------------------------------------- cmd constructors
SKIP = ("Skip",)
CALLEXT = ("CallExt",)
OPAQUE = ("SetOpaque",)
SETDPS = ("SetDps",)
RAISE = ("Raise",)
RETURN = ("Return",)
BREAK = ("Break",)
CONTINUE = ("Continue",)


def seq(*cs):
    flat = []
    for c in cs:
        if c is None or c == SKIP:
            continue
        if c[0] == "Seq":
            stack = [c]
            # flatten right-nested sequences
            while stack:
                x = stack.pop()
                if x[0] == "Seq":
                    stack.append(x[2]); stack.append(x[1])
                elif x != SKIP:
                    if not (flat and flat[-1] == CALLEXT and x == CALLEXT):
                        flat.append(x)
            continue
        if flat and flat[-1] == CALLEXT and c == CALLEXT:
            continue
        flat.append(c)
    if not flat:
        return SKIP
    r = flat[-1]
    for c in reversed(flat[:-1]):
        r = ("Seq", c, r)
    return r


def choice(a, b):
    if a == b:
        return a
    return ("If", a, b)


def choice_all(cs):
    cs = list(dict.fromkeys(cs))
    r = cs[-1]
    for c in reversed(cs[:-1]):
        r = ("If", c, r)
    return r


def loop(c):
    return ("Loop", c)


def opt(c):
    return SKIP if c == SKIP else choice(c, SKIP)


def cmd_size(c):
    n = 0
    stack = [c]
    while stack:
        x = stack.pop()
        n += 1
        for y in x[1:]:
            if isinstance(y, tuple) and y and isinstance(y[0], str) and y[0][:1].isupper():
                stack.append(y)
    return n


# ------------------------------------------------------------------------------------------- source model
class Func:
    def __init__(self, mod, node, parent, cls):
        self.mod = mod
        self.node = node
        self.parent = parent            # enclosing Func or None
        self.cls = cls                  # enclosing class name (direct) or None
        self.is_lambda = isinstance(node, ast.Lambda)
        self.name = "<lambda>" if self.is_lambda else node.name
        self.lineno = node.lineno
        self.col = node.col_offset
        q = []
        p = parent
        while p is not None:
            q.append(p.name); p = p.parent
        self.qual = ".".join(([cls] if cls and parent is None else []) + list(reversed(q)) + [self.name])
        if parent is not None and parent.cls_chain:
            self.qual = parent.cls_chain + "." + self.qual
        self.cls_chain = cls if (cls and parent is None) else (parent.cls_chain if parent else None)
        self.key = "%s:%s@%d" % (mod.rel, self.qual, self.lineno) + (":%d" % self.col if self.is_lambda else "")
        a = node.args
        self.params = [x.arg for x in a.posonlyargs + a.args]
        self.kwonly = [x.arg for x in a.kwonlyargs]
        self.vararg = a.vararg.arg if a.vararg else None
        self.kwarg = a.kwarg.arg if a.kwarg else None
        self.allparams = set(self.params + self.kwonly + [x for x in (self.vararg, self.kwarg) if x])
        self.body = [ast.Return(value=node.body)] if self.is_lambda else node.body
        self.decorators = [] if self.is_lambda else node.decorator_list
        self.nested = {}                # name -> [Func]
        self.lambdas = {}               # (lineno, col) -> Func
        self.children = []
        self.assigned = set()
        self.is_gen = False
        self.uses_nonlocal = False
        self.touches = False            # own body mentions a precision attribute / manager
        self.writes = False             # own body writes precision
        self.called_names = set()       # names / attrs called in own body
        self.mentioned_names = set()
        self.is_method = bool(cls and parent is None)
        self.deco_names = []
        for d in self.decorators:
            t = d
            if isinstance(t, ast.Call):
                t = t.func
            self.deco_names.append(t.id if isinstance(t, ast.Name) else (t.attr if isinstance(t, ast.Attribute) else "?"))
        self.wrapped = "defun_wrapped" in self.deco_names
        self.attr_reachable = parent is None    # module level, method, @defun...


class Module:
    def __init__(self, path, root):
        self.path = path
        self.rel = os.path.relpath(path, root)
        self.src = open(path).read()
        self.tree = ast.parse(self.src)
        self.funcs = []
        self.toplevel = {}              # name -> [Func] (module-level defs)
        self.classes = {}               # class -> {name: [Func]}


def own_nodes(stmts):
    """walk statements/expressions of a function body without entering nested functions / lambdas / classes"""
    stack = list(reversed(stmts))
    while stack:
        n = stack.pop()
        yield n
        if isinstance(n, (ast.FunctionDef, ast.AsyncFunctionDef)):
            for d in n.decorator_list:
                stack.append(d)
            for d in n.args.defaults + [x for x in n.args.kw_defaults if x is not None]:
                stack.append(d)
            continue
        if isinstance(n, ast.Lambda):
            for d in n.args.defaults + [x for x in n.args.kw_defaults if x is not None]:
                stack.append(d)
            continue
        if isinstance(n, ast.ClassDef):
            continue
        for ch in reversed(list(ast.iter_child_nodes(n))):
            stack.append(ch)


def target_names(t, out):
    if isinstance(t, ast.Name):
        out.add(t.id)
    elif isinstance(t, (ast.Tuple, ast.List)):
        for e in t.elts:
            target_names(e, out)
    elif isinstance(t, ast.Starred):
        target_names(t.value, out)


def is_simple(x):
    """names, constants and plain attribute chains on names (self.ctx, cls.context): evaluation cannot run code
    (properties of the context other than prec/dps are not modelled) and is taken not to raise"""
    while isinstance(x, ast.Attribute):
        x = x.value
    return isinstance(x, (ast.Name, ast.Constant))


def is_prec_attr(n, attrs=("prec",)):
    return isinstance(n, ast.Attribute) and n.attr in attrs


class Program:
    def __init__(self, repo=None):
        files, root = source_files(repo)
        self.root = root
        self.modules = [Module(f, root) for f in files]
        self.funcs = []
        self.by_key = {}
        for m in self.modules:
            self._collect(m, m.tree.body, None, None)
        for f in self.funcs:
            self._analyse_own(f)
        self._find_infrastructure()
        self._compute_table()

    # ---- collection
    def _collect(self, mod, stmts, parent, cls):
        for n in own_nodes_with_defs(stmts):
            if isinstance(n, (ast.FunctionDef, ast.AsyncFunctionDef, ast.Lambda)):
                f = Func(mod, n, parent, cls)
                self.funcs.append(f); mod.funcs.append(f)
                if f.key in self.by_key:
                    f.key += "#%d" % len(self.funcs)
                self.by_key[f.key] = f
                if parent is not None:
                    parent.children.append(f)
                    if f.is_lambda:
                        parent.lambdas[(n.lineno, n.col_offset)] = f
                    else:
                        parent.nested.setdefault(f.name, []).append(f)
                elif cls is not None:
                    mod.classes.setdefault(cls, {}).setdefault(f.name, []).append(f)
                    if f.is_lambda:
                        f.attr_reachable = False
                else:
                    if not f.is_lambda:
                        mod.toplevel.setdefault(f.name, []).append(f)
                    else:
                        f.attr_reachable = False
                self._collect(mod, f.body, f, None)
            elif isinstance(n, ast.ClassDef):
                self._collect(mod, n.body, parent, n.name if parent is None else None)

    def _analyse_own(self, f):
        for n in own_nodes(f.body):
            if isinstance(n, (ast.Yield, ast.YieldFrom)):
                f.is_gen = True
            elif isinstance(n, (ast.Nonlocal, ast.Global)):
                f.uses_nonlocal = True
            elif isinstance(n, ast.Attribute):
                if n.attr in KEY_ATTRS or n.attr in PM_NAMES:
                    f.touches = True
                if n.attr in WRITE_ATTRS and isinstance(n.ctx, (ast.Store, ast.Del)):
                    f.writes = True
            elif isinstance(n, ast.Name):
                if n.id in PM_NAMES:
                    f.touches = True
                if isinstance(n.ctx, ast.Load):
                    f.mentioned_names.add(n.id)
                else:
                    f.assigned.add(n.id)
            elif isinstance(n, ast.Subscript) and isinstance(n.ctx, (ast.Store, ast.Del)):
                for x in ast.walk(n.value):
                    if isinstance(x, ast.Attribute) and x.attr in WRITE_ATTRS:
                        f.writes = True
            elif isinstance(n, ast.With):
                for it in n.items:
                    for x in ast.walk(it.context_expr):
                        if (isinstance(x, ast.Attribute) and x.attr in PM_NAMES) or (isinstance(x, ast.Name) and x.id in PM_NAMES):
                            f.writes = True
            elif isinstance(n, (ast.FunctionDef, ast.AsyncFunctionDef)):
                f.assigned.add(n.name)
            elif isinstance(n, ast.ExceptHandler) and n.name:
                f.assigned.add(n.name)
            elif isinstance(n, (ast.Import, ast.ImportFrom)):
                for a in n.names:
                    f.assigned.add((a.asname or a.name).split(".")[0])
            elif isinstance(n, ast.Constant) and isinstance(n.value, str) and n.value in WRITE_ATTRS:
                # setattr(ctx, 'prec', ..) style
                f.touches = True
            if isinstance(n, ast.Call):
                if isinstance(n.func, ast.Name):
                    f.called_names.add(n.func.id)
                    if n.func.id in ("exec", "eval", "setattr", "delattr"):
                        pass
                elif isinstance(n.func, ast.Attribute):
                    f.called_names.add(n.func.attr)

    def _find_infrastructure(self):
        """PrecisionManager, the _wrap_specfun templates, the context methods returning managers."""
        self.pm_enter = self.pm_exit = self.pm_call_g = None
        self.templates = {}          # ctxname -> (f_wrapped Func, name of the bound parameter)
        self.pm_factories_ok = True
        self.notes = []
        for m in self.modules:
            for cname, meths in m.classes.items():
                if cname == "PrecisionManager":
                    self.pm_enter = (meths.get("__enter__") or [None])[0]
                    self.pm_exit = (meths.get("__exit__") or [None])[0]
                    call = (meths.get("__call__") or [None])[0]
                    if call is not None:
                        self.pm_call_g = self._returned_nested(call)
                if "_wrap_specfun" in meths:
                    w = meths["_wrap_specfun"][0]
                    ctxname = {"ctx_mp_python.py": "mp", "ctx_iv.py": "iv", "ctx_fp.py": "fp"}.get(m.rel)
                    if ctxname:
                        fw = w.nested.get("f_wrapped", [None])[0]
                        self.templates[ctxname] = (fw, w)
                for pmn in PM_NAMES:
                    for fn in meths.get(pmn, []):
                        ok = False
                        for st in fn.body:
                            if isinstance(st, ast.Return) and isinstance(st.value, ast.Call) and \
                               isinstance(st.value.func, ast.Name) and st.value.func.id == "PrecisionManager":
                                ok = True
                        if not ok:
                            self.pm_factories_ok = False
                            self.notes.append("%s does not plainly return PrecisionManager(...)" % fn.key)
        if self.pm_enter is None or self.pm_exit is None:
            self.pm_factories_ok = False
            self.notes.append("PrecisionManager.__enter__/__exit__ not found")
        # fp: precision must be a constant property
        self.fp_const = self._check_fp_const()

    def _returned_nested(self, f):
        """if f ends with `return <name of a nested def>` give that nested Func"""
        for st in reversed(f.body):
            if isinstance(st, ast.Return):
                if isinstance(st.value, ast.Name) and st.value.id in f.nested and len(f.nested[st.value.id]) == 1:
                    return f.nested[st.value.id][0]
                return None
        return None

    def _check_fp_const(self):
        """ctx_fp.FPContext: prec/dps are properties whose getter returns a constant and whose setter does nothing"""
        for m in self.modules:
            if m.rel != "ctx_fp.py":
                continue
            for cname, meths in m.classes.items():
                cls = [n for n in m.tree.body if isinstance(n, ast.ClassDef) and n.name == cname]
                if not cls:
                    continue
                props = {}
                for st in cls[0].body:
                    if isinstance(st, ast.Assign) and len(st.targets) == 1 and isinstance(st.targets[0], ast.Name) \
                       and st.targets[0].id in ("prec", "dps"):
                        v = st.value
                        if isinstance(v, ast.Call) and isinstance(v.func, ast.Name) and v.func.id == "property" and len(v.args) == 2 \
                           and all(isinstance(a, ast.Name) for a in v.args):
                            props[st.targets[0].id] = (v.args[0].id, v.args[1].id)
                if set(props) != {"prec", "dps"}:
                    continue
                ok = True
                vals = {}
                for attr, (g, s) in props.items():
                    gf = (meths.get(g) or [None])[0]; sf = (meths.get(s) or [None])[0]
                    if gf is None or sf is None:
                        ok = False; continue
                    if not (len(gf.body) == 1 and isinstance(gf.body[0], ast.Return) and isinstance(gf.body[0].value, ast.Constant)
                            and isinstance(gf.body[0].value.value, int)):
                        ok = False
                    else:
                        vals[attr] = gf.body[0].value.value
                    if not (len(sf.body) == 1 and ((isinstance(sf.body[0], ast.Return) and sf.body[0].value is None)
                                                   or isinstance(sf.body[0], ast.Pass))):
                        ok = False
                return {"ok": ok, "values": vals, "class": cname}
        return {"ok": False, "values": {}, "class": None}

    # ---- which functions get a term
    def _compute_table(self):
        # @defun_wrapped functions and functions wrapped by a decorator of the sources always get a term: what a
        # caller reaches through their name is a wrapper that does touch the precision
        srcdecos = set()
        for m in self.modules:
            for n, fs in m.toplevel.items():
                if len(fs) == 1 and self._returned_nested(fs[0]) is not None:
                    srcdecos.add(n)
        table = set(f for f in self.funcs if f.touches or f.wrapped or (set(f.deco_names) & srcdecos))
        names = lambda S: set(g.name for g in S if not g.is_lambda)
        changed = True
        while changed:
            changed = False
            tn = names(table)
            for f in self.funcs:
                if f in table:
                    continue
                if f.called_names & tn or any(ch in table for ch in f.children) or \
                   (f.mentioned_names & set(n for n in f.nested if any(g in table for g in f.nested[n]))):
                    table.add(f); changed = True
        self.table = table
        self.attr_cands = {}
        self.global_cands = {}
        for f in self.funcs:
            if f in table and f.attr_reachable and not f.is_lambda:
                self.attr_cands.setdefault(f.name, []).append(f)
                if f.parent is None and f.cls is None:
                    self.global_cands.setdefault(f.name, []).append(f)


def own_nodes_with_defs(stmts):
    """like own_nodes, but yields def/lambda/class nodes (without entering them)"""
    stack = list(reversed(stmts))
    while stack:
        n = stack.pop()
        if isinstance(n, (ast.FunctionDef, ast.AsyncFunctionDef)):
            yield n
            for d in n.decorator_list + n.args.defaults + [x for x in n.args.kw_defaults if x is not None]:
                stack.append(d)
            continue
        if isinstance(n, ast.Lambda):
            yield n
            for d in n.args.defaults + [x for x in n.args.kw_defaults if x is not None]:
                stack.append(d)
            continue
        if isinstance(n, ast.ClassDef):
            yield n
            continue
        for ch in reversed(list(ast.iter_child_nodes(n))):
            stack.append(ch)


# ------------------------------------------------------------------------------------------- translation
class Entry:
    def __init__(self, key, func, bind, kind):
        self.key = key
        self.func = func
        self.bind = bind
        self.kind = kind          # raw | wrapped | spec | deco
        self.cmd = None
        self.id = None
        self.flags = set()        # generator, failclosed, ...
        self.returned_closures = []
        self.public_hint = None


class Translator:
    def __init__(self, prog):
        self.P = prog
        self.entries = {}         # key -> Entry
        self.order = []
        self.pending = []
        self.stats = {"opaque_sites": 0, "guards": 0, "specialisations": 0, "callfn": 0, "callext": 0}
        self.deco_alias = {}      # Func (decorated raw) -> entry key its *name* resolves to
        self.wrapped_alias = {}   # raw Func -> [entry keys of the wrapped instances]

    # ---- entries
    def entry_for(self, func, bind=None, kind="raw", depth=0):
        bind = bind or {}
        bk = ";".join("%s=%s" % (k, "|".join(v)) for k, v in sorted(bind.items()))
        key = func.key + ("<" + bk + ">" if bk else "")
        if key in self.entries:
            return self.entries[key]
        e = Entry(key, func, bind, kind)
        e.depth = depth
        self.entries[key] = e
        self.order.append(e)
        self.pending.append(e)
        return e

    def meet_entry(self, keys):
        """a synthetic function whose body is the nondeterministic choice between the candidates"""
        key = "meet:" + "|".join(keys)
        if key not in self.entries:
            e = Entry(key, self.entries[keys[0]].func, {}, "meet")
            e.depth = 0
            e.cmd = choice_all([("CallFn", k) for k in keys])
            e.candidates = list(keys)
            self.entries[key] = e
            self.order.append(e)
        return key

    def run(self):
        P = self.P
        # resolve decorators that wrap (c_memo style, defun_wrapped)
        for f in P.funcs:
            if f not in P.table or f.is_lambda:
                continue
            self.entry_for(f)
        for f in list(P.funcs):
            if f.is_lambda or f.parent is not None:
                continue
            if f.wrapped and f in P.table:
                keys = []
                for ctxname, (fw, w) in P.templates.items():
                    if ctxname == "fp" or fw is None:
                        continue
                    e = self.entry_for(fw, {"f": (self.entry_for(f).key,)}, kind="wrapped")
                    e.public_hint = ("wrapped", ctxname, f.name)
                    keys.append(e.key)
                self.wrapped_alias[f] = keys
            for dn, d in zip(f.deco_names, f.decorators):
                if dn in HARMLESS_DECOS or dn == "wraps":
                    continue
                dfs = f.mod.toplevel.get(dn, [])
                target = None
                if len(dfs) == 1 and f in P.table:
                    w = P._returned_nested(dfs[0])
                    if w is not None and dfs[0].params:
                        e = self.entry_for(w, {dfs[0].params[0]: (self.entry_for(f).key,)}, kind="deco")
                        e.public_hint = ("deco", dn, f.name)
                        target = e.key
                if f in P.table:
                    self.deco_alias[f] = target      # None = unknown decorator: fail closed at call sites
        while self.pending:
            e = self.pending.pop()
            FT = FuncTranslator(self, e)
            e.cmd = FT.translate()
        # the with-form of the precision managers around an arbitrary block, as its own obligation
        if P.pm_enter is not None and P.pm_exit is not None and P.pm_factories_ok:
            host = Entry("synthetic:with-manager", P.pm_enter, {}, "synthetic")
            host.depth = 0
            ft = FuncTranslator(self, host)
            block = seq(CALLEXT, choice(RETURN, SKIP), CALLEXT)
            host.cmd = seq(ft.inline_method(P.pm_enter, "$w", False), ("TryFinally", block, ft.inline_method(P.pm_exit, "$w", True)))
            self.entries[host.key] = host
            self.order.append(host)
            while self.pending:
                e = self.pending.pop()
                e.cmd = FuncTranslator(self, e).translate()
        for i, e in enumerate(self.order):
            e.id = i + 1
        return self

    # what does the *name* of analysed function g denote when it is called
    def call_targets(self, g, via_attr):
        """list of entry keys (or None for 'unknown decorator')"""
        if g in self.deco_alias:
            return [self.deco_alias[g]]
        if via_attr and g in self.wrapped_alias:
            return list(self.wrapped_alias[g])
        return [self.entry_for(g).key]


class Scope:
    pass


class FuncTranslator:
    def __init__(self, T, entry):
        self.T = T
        self.P = T.P
        self.e = entry
        self.f = entry.func
        self.bind = dict(entry.bind)        # name -> tuple of entry keys (closures)
        self.vars = {}
        self.tmp = 0
        self.with_count = 0
        self._prepass()

    # ---- variables
    def var(self, name):
        if name not in self.vars:
            self.vars[name] = len(self.vars)
        return self.vars[name]

    def fresh(self, base="$t"):
        self.tmp += 1
        return self.var("%s%d" % (base, self.tmp))

    # ---- prepass: aliases of closures, generator taint, fresh contexts
    def _prepass(self):
        f = self.f
        self.alias = {}          # local name -> set of closure Func (assigned only from lambdas / nested def names)
        self.attr_alias = {}     # local name -> attribute name (assigned only from <name>.attr)
        self.fresh_ctx = set()   # locals created by <x>.__class__()
        self.gen_taint = {}      # local name -> set of generator entry keys
        assigns = {}
        for n in own_nodes(f.body):
            if isinstance(n, ast.Assign) and len(n.targets) == 1 and isinstance(n.targets[0], ast.Name):
                assigns.setdefault(n.targets[0].id, []).append(n.value)
            elif isinstance(n, (ast.AugAssign, ast.AnnAssign)) and isinstance(n.target, ast.Name):
                assigns.setdefault(n.target.id, []).append(None)
            elif isinstance(n, (ast.For, ast.comprehension)):
                s = set(); target_names(n.target, s)
                for x in s:
                    assigns.setdefault(x, []).append(None)
            elif isinstance(n, ast.Assign):
                s = set()
                for t in n.targets:
                    target_names(t, s)
                for x in s:
                    assigns.setdefault(x, []).append(None)
            elif isinstance(n, ast.With):
                for it in n.items:
                    if it.optional_vars is not None:
                        s = set(); target_names(it.optional_vars, s)
                        for x in s:
                            assigns.setdefault(x, []).append(None)
            elif isinstance(n, ast.NamedExpr):
                assigns.setdefault(n.target.id, []).append(None)
        self.assigns = assigns
        for name, vals in assigns.items():
            if name in f.allparams or name in f.nested:
                continue
            cl = set()
            ok = True
            for v in vals:
                if isinstance(v, ast.Lambda):
                    lf = f.lambdas.get((v.lineno, v.col_offset))
                    if lf is None:
                        ok = False
                    else:
                        cl.add(lf)
                elif isinstance(v, ast.Name) and v.id in f.nested:
                    cl.update(f.nested[v.id])
                else:
                    ok = False
            if ok and cl:
                self.alias[name] = cl
            # x = ctx.convert  (bound method kept in a local): calls through x are calls of that attribute
            if vals and all(isinstance(v, ast.Attribute) and is_simple(v) for v in vals) and len(set(v.attr for v in vals)) == 1:
                self.attr_alias[name] = vals[0].attr
            if len(vals) == 1 and isinstance(vals[0], ast.Call) and isinstance(vals[0].func, ast.Attribute) \
               and vals[0].func.attr == "__class__" and not vals[0].args:
                self.fresh_ctx.add(name)
        # generator taint to fixpoint
        changed = True
        rounds = 0
        while changed and rounds < 10:
            changed = False; rounds += 1
            for name, vals in assigns.items():
                for v in vals:
                    if v is None:
                        continue
                    g = self.gens_in(v)
                    if g - self.gen_taint.get(name, set()):
                        self.gen_taint.setdefault(name, set()).update(g); changed = True

    def gens_in(self, expr):
        """entry keys of analysed generators whose call (or a tainted local) occurs in expr"""
        out = set()
        for n in ast.walk(expr):
            if isinstance(n, ast.Call):
                kind, targets = self.resolve_call(n)
                if kind == "fn":
                    for k in targets:
                        if k is not None and self.T.entries[k].func.is_gen:
                            out.add(k)
            elif isinstance(n, ast.Name) and n.id in self.gen_taint:
                out.update(self.gen_taint[n.id])
        return out

    # ---- name resolution
    def closure_funcs(self, name):
        """nested defs / aliases named `name` visible from this function (nearest scope first) or None"""
        f = self.f
        first = True
        while f is not None:
            if name in f.nested:
                return list(f.nested[name])
            if first and name in self.alias:
                return list(self.alias[name])
            if name in f.allparams or name in f.assigned:
                return None
            f = f.parent
            first = False
        return None

    def resolve_call(self, node):
        """-> ('fn', [entry keys or None]) | ('ext', None) | ('pm', None)"""
        fn = node.func
        if isinstance(fn, ast.Name):
            n = fn.id
            if n in self.bind:
                return "fn", list(self.bind[n])
            if n in PM_NAMES:
                return "pm", None
            f = self.f
            first = True
            while f is not None:
                if n in f.nested:
                    gs = [g for g in f.nested[n] if g in self.P.table]
                    if not gs:
                        return "ext", None
                    return "fn", [self.T.entry_for(g).key for g in gs]
                if first and n in self.alias:
                    gs = [g for g in self.alias[n] if g in self.P.table]
                    if not gs:
                        return "ext", None
                    return "fn", [self.T.entry_for(g).key for g in gs]
                if first and n in self.attr_alias and n not in f.allparams:
                    a = self.attr_alias[n]
                    if a in PM_NAMES:
                        return "pm", None
                    gs = self.P.attr_cands.get(a, [])
                    if gs:
                        out = []
                        for g in gs:
                            out += self.T.call_targets(g, via_attr=True)
                        return "fn", out
                    return "ext", None
                if n in f.allparams or n in f.assigned:
                    return "ext", None      # callable of unknown origin (user callback)
                f = f.parent
                first = False
            mod = self.f.mod
            if n in mod.toplevel:
                gs = [g for g in mod.toplevel[n] if g in self.P.table]
                if not gs:
                    return "ext", None
                out = []
                for g in gs:
                    out += self.T.call_targets(g, via_attr=False)
                return "fn", out
            gs = self.P.global_cands.get(n, [])
            if gs:
                out = []
                for g in gs:
                    out += self.T.call_targets(g, via_attr=False)
                return "fn", out
            return "ext", None
        if isinstance(fn, ast.Attribute):
            a = fn.attr
            if a in PM_NAMES:
                return "pm", None
            gs = self.P.attr_cands.get(a, [])
            if gs:
                out = []
                for g in gs:
                    out += self.T.call_targets(g, via_attr=True)
                return "fn", out
            return "ext", None
        return "ext", None

    def closures_of_expr(self, x):
        """if expression x *is* an internal closure in the table: its entry keys (tuple) else None"""
        if isinstance(x, ast.Name):
            if x.id in self.bind:
                return tuple(self.bind[x.id])
            cf = self.closure_funcs(x.id)
            if cf:
                ks = tuple(self.T.entry_for(g).key for g in cf if g in self.P.table)
                return ks or None
            return None
        if isinstance(x, ast.Lambda):
            lf = self.f.lambdas.get((x.lineno, x.col_offset))
            if lf is not None and lf in self.P.table:
                return (self.T.entry_for(lf).key,)
        return None

    # ---- expressions
    def ev(self, x, consumed=None):
        """command for evaluating expression x"""
        if x is None:
            return SKIP
        evs = []
        self._ev(x, evs)
        if not evs and is_simple(x):
            return SKIP
        out = [CALLEXT]
        for c in evs:
            out.append(c); out.append(CALLEXT)
        return seq(*out)

    def _ev_opt(self, x, evs):
        sub = []
        self._ev(x, sub)
        if sub:
            evs.append(opt(seq(*sub)))

    def _ev(self, x, evs):
        if x is None or isinstance(x, (ast.Constant,)):
            return
        if isinstance(x, ast.Name):
            if isinstance(x.ctx, ast.Load):
                ks = self.closures_of_expr(x)
                if ks:
                    evs.append(self.guard(ks))      # closure mentioned outside a recognised position
            return
        if isinstance(x, ast.Lambda):
            for d in x.args.defaults + [y for y in x.args.kw_defaults if y is not None]:
                self._ev(d, evs)
            ks = self.closures_of_expr(x)
            if ks:
                evs.append(self.guard(ks))
            return
        if isinstance(x, ast.Call):
            self._ev_call(x, evs)
            return
        if isinstance(x, ast.BoolOp):
            self._ev(x.values[0], evs)
            for v in x.values[1:]:
                self._ev_opt(v, evs)
            return
        if isinstance(x, ast.IfExp):
            self._ev(x.test, evs)
            a = []; b = []
            self._ev(x.body, a); self._ev(x.orelse, b)
            if a or b:
                evs.append(choice(seq(*a), seq(*b)))
            return
        if isinstance(x, (ast.ListComp, ast.SetComp, ast.GeneratorExp, ast.DictComp)):
            gens = x.generators
            self._ev(gens[0].iter, evs)
            inner = [CALLEXT]
            for k in self.gens_in(gens[0].iter):
                inner.append(("CallFn", k))
            for g in gens[1:]:
                self._ev(g.iter, inner)
                for k in self.gens_in(g.iter):
                    inner.append(loop(("CallFn", k)))
            for g in gens:
                for c in g.ifs:
                    self._ev(c, inner)
            if isinstance(x, ast.DictComp):
                self._ev(x.key, inner); self._ev(x.value, inner)
            else:
                self._ev(x.elt, inner)
            evs.append(loop(seq(*[c for i in inner for c in (i, CALLEXT)])))
            return
        if isinstance(x, (ast.Yield,)):
            self._ev(x.value, evs)
            evs.append(choice(RETURN, SKIP))
            return
        if isinstance(x, ast.YieldFrom):
            self._ev(x.value, evs)
            step = [CALLEXT] + [("CallFn", k) for k in self.gens_in(x.value)] + [choice(RETURN, SKIP)]
            evs.append(loop(seq(*step)))
            return
        if isinstance(x, ast.NamedExpr):
            self._ev(x.value, evs)
            evs.append(("Havoc", self.var(x.target.id)))
            return
        if isinstance(x, ast.Attribute):
            self._ev(x.value, evs)
            return
        for ch in ast.iter_child_nodes(x):
            if isinstance(ch, ast.expr):
                self._ev(ch, evs)
            elif isinstance(ch, (ast.keyword,)):
                self._ev(ch.value, evs)
            elif isinstance(ch, ast.comprehension):
                self._ev(ch.iter, evs)

    def guard(self, keys):
        self.T.stats["guards"] += 1
        return ("Guard", tuple(dict.fromkeys(keys)))

    def opaque(self, why=""):
        self.T.stats["opaque_sites"] += 1
        self.e.flags.add("opaque:" + why if why else "opaque")
        return OPAQUE

    def _ev_call(self, x, evs):
        fn = x.func
        # string based attribute writes, dynamic code
        if isinstance(fn, ast.Name) and fn.id in ("setattr", "delattr"):
            for a in x.args:
                self._ev(a, evs)
            nm = x.args[1] if len(x.args) > 1 else None
            if not (isinstance(nm, ast.Constant) and isinstance(nm.value, str) and nm.value not in WRITE_ATTRS):
                evs.append(self.opaque("setattr"))
            return
        if isinstance(fn, ast.Name) and fn.id == "exec":
            for a in x.args:
                self._ev(a, evs)
            evs.append(self.opaque("exec"))
            return
        # eval(<user supplied expression>) is a user callback: CallExt like any other unknown callable
        if isinstance(fn, ast.Attribute) and fn.attr in ("__setattr__", "__delattr__", "__dict__"):
            evs.append(self.opaque("setattr"))
        # callee expression
        if isinstance(fn, ast.Attribute):
            self._ev(fn.value, evs)
        elif not isinstance(fn, ast.Name):
            self._ev(fn, evs)
        kind, targets = self.resolve_call(x)
        # arguments: closures get special treatment
        closure_args = []       # (position or keyword, keys)
        for i, a in enumerate(x.args):
            ks = self.closures_of_expr(a)
            if ks:
                closure_args.append((i, ks))
                if isinstance(a, ast.Lambda):
                    for d in a.args.defaults:
                        self._ev(d, evs)
            else:
                self._ev(a.value if isinstance(a, ast.Starred) else a, evs)
        for kw in x.keywords:
            ks = self.closures_of_expr(kw.value)
            if ks and kw.arg is not None:
                closure_args.append((kw.arg, ks))
            else:
                self._ev(kw.value, evs)
        # generators consumed by the callee
        gk = set()
        for a in list(x.args) + [kw.value for kw in x.keywords]:
            gk |= self.gens_in(a.value if isinstance(a, ast.Starred) else a)
        if kind == "fn":
            gk -= set(k for k in targets if k is not None)     # the creation call itself
        for k in sorted(gk):
            evs.append(loop(("CallFn", k)))
        if kind == "pm" or kind == "ext":
            for _, ks in closure_args:
                evs.append(self.guard(ks))
            self.T.stats["callext"] += 1
            evs.append(CALLEXT)
            return
        # analysed callee(s)
        alts = []
        for t in targets:
            if t is None:
                alts.append(seq(self.opaque("unknown decorator"), CALLEXT))
                continue
            te = self.T.entries[t]
            if te.func.is_gen:
                # creating a generator runs nothing; its body runs at iteration sites
                pre = [self.guard(ks) for _, ks in closure_args]
                alts.append(seq(*(pre + [CALLEXT])))
                continue
            pre = []
            b = dict(te.bind)
            can_spec = True
            for pos, ks in closure_args:
                pname = self.param_name(te, pos, isinstance(fn, ast.Attribute))
                needs = any(self.needs_spec(k) for k in ks)
                if not needs:
                    pre.append(self.guard(ks))
                elif pname is None or self.e.depth >= MAX_SPEC_DEPTH or pname in b:
                    pre.append(self.guard(ks))
                else:
                    b[pname] = tuple(ks)
            if b != te.bind:
                se = self.T.entry_for(te.func, b, kind="spec" if te.kind == "raw" else te.kind, depth=self.e.depth + 1)
                if se.public_hint is None and te.public_hint is not None:
                    pass
                self.T.stats["specialisations"] += 1
                t = se.key
            self.T.stats["callfn"] += 1
            alts.append(seq(*(pre + [("CallFn", t)])))
        alts = list(dict.fromkeys(alts))
        if len(alts) > 1 and all(a[0] == "CallFn" for a in alts):
            evs.append(("CallFn", self.T.meet_entry(tuple(a[1] for a in alts))))
        else:
            evs.append(choice_all(alts))

    def needs_spec(self, key):
        """closures that write the precision themselves are worth specialising the callee for"""
        g = self.T.entries[key].func
        if g.writes:
            return True
        return any(ch.writes for ch in g.children)

    def param_name(self, te, pos, via_attr):
        g = te.func
        if isinstance(pos, str):
            return pos if pos in g.allparams and pos not in (g.vararg, g.kwarg) else None
        params = list(g.params)
        # a method / @defun function reached through an attribute gets the context as first argument
        if via_attr and (g.is_method or (g.parent is None and g.cls is None and g.deco_names)) and "staticmethod" not in g.deco_names:
            params = params[1:]
        elif via_attr and g.parent is None and g.cls is None:
            # plain module-level function reached through an attribute (e.g. Class.f = f): also bound
            params = params[1:]
        if te.kind in ("wrapped",):
            return None
        return params[pos] if pos < len(params) else None

    # ---- statements
    def translate(self):
        f = self.f
        body = self.stmts(f.body)
        if f.uses_nonlocal:
            self.e.flags.add("failclosed:nonlocal/global")
            body = ("TryFinally", body, OPAQUE)
        if f.is_gen:
            self.e.flags.add("generator")
            if f.writes:
                self.e.flags.add("generator-writes-prec")
        return body

    def stmts(self, ss):
        return seq(*[self.stmt(s) for s in ss])

    def chain_name(self, t):
        """`self.origp`-like attribute chain rooted at a Name -> variable name, else None"""
        parts = []
        while isinstance(t, ast.Attribute):
            parts.append(t.attr); t = t.value
        if isinstance(t, ast.Name) and parts:
            return ".".join([t.id] + list(reversed(parts)))
        return None

    def as_var(self, x):
        if isinstance(x, ast.Name):
            return self.var(x.id)
        c = self.chain_name(x)
        if c is not None and not is_prec_attr(x, KEY_ATTRS):
            return self.var(c)
        return None

    def is_fresh_ctx_attr(self, t):
        return isinstance(t, ast.Attribute) and isinstance(t.value, ast.Name) and t.value.id in self.fresh_ctx \
            and t.value.id not in self.f.allparams

    def assign_target(self, t, value_is_prec_read=False, value=None):
        """effect of storing into target t (value already evaluated)"""
        if isinstance(t, ast.Name):
            if value_is_prec_read:
                return ("Save", self.var(t.id))
            return ("Havoc", self.var(t.id))
        if isinstance(t, (ast.Tuple, ast.List)):
            return seq(*[self.assign_target(e) for e in t.elts])
        if isinstance(t, ast.Starred):
            return self.assign_target(t.value)
        if isinstance(t, ast.Attribute):
            if t.attr in WRITE_ATTRS:
                if self.is_fresh_ctx_attr(t):
                    return SKIP
                pre = self.ev(t.value)
                if t.attr == "prec":
                    v = self.as_var(value) if value is not None else None
                    if v is not None:
                        return seq(pre, ("SetVar", v))
                    return seq(pre, self.opaque("prec = expr"))
                if t.attr == "dps":
                    self.e.flags.add("writes-dps")
                    return seq(pre, SETDPS)
                return seq(pre, self.opaque("raw attribute " + t.attr))
            c = self.chain_name(t)
            pre = self.ev(t.value)
            if c is not None:
                return seq(pre, ("Save", self.var(c)) if value_is_prec_read else ("Havoc", self.var(c)))
            return pre
        if isinstance(t, ast.Subscript):
            pre = seq(self.ev(t.value), self.ev(t.slice))
            for n in ast.walk(t.value):
                if isinstance(n, ast.Attribute) and n.attr in WRITE_ATTRS:
                    return seq(pre, self.opaque("subscript of " + n.attr))
            return seq(pre, CALLEXT)
        return self.opaque("target")

    def stmt(self, s):
        if isinstance(s, ast.Expr):
            return self.ev(s.value)
        if isinstance(s, ast.Assign):
            v = s.value
            isread = is_prec_attr(v, ("prec",))
            if len(s.targets) == 1 and isinstance(s.targets[0], ast.Name) and s.targets[0].id in self.alias \
               and self.closures_of_expr(v) is not None:
                return ("Havoc", self.var(s.targets[0].id))      # alias of a closure: calls through it are resolved
            pre = self.ev(v)
            outs = [pre]
            for t in s.targets:
                outs.append(self.assign_target(t, isread, v))
            return seq(*outs)
        if isinstance(s, ast.AnnAssign):
            if s.value is None:
                return SKIP
            return seq(self.ev(s.value), self.assign_target(s.target, is_prec_attr(s.value, ("prec",)), s.value))
        if isinstance(s, ast.AugAssign):
            t = s.target
            pre = self.ev(s.value)
            if isinstance(t, ast.Attribute) and t.attr in WRITE_ATTRS:
                if self.is_fresh_ctx_attr(t):
                    return pre
                pre = seq(self.ev(t.value), pre)
                if t.attr == "prec" and isinstance(s.op, (ast.Add, ast.Sub)):
                    op = "AddPrec" if isinstance(s.op, ast.Add) else "SubPrec"
                    val = s.value
                    if isinstance(val, ast.Constant) and isinstance(val.value, int) and not isinstance(val.value, bool):
                        return seq(pre, (op, ("AConst", val.value)))
                    if isinstance(val, ast.Name):
                        return seq(pre, (op, ("AVar", self.var(val.id))))
                    tv = self.fresh()
                    return seq(pre, ("Havoc", tv), (op, ("AVar", tv)))
                if t.attr == "dps":
                    self.e.flags.add("writes-dps")
                    return seq(pre, SETDPS)
                return seq(pre, self.opaque("augmented " + t.attr))
            if isinstance(t, ast.Name):
                return seq(pre, ("Havoc", self.var(t.id)))
            return seq(pre, self.assign_target(t))
        if isinstance(s, ast.Return):
            if s.value is not None:
                ks = self.closures_of_expr(s.value)
                if ks:
                    self.e.returned_closures += list(ks)
                    return RETURN
            return seq(self.ev(s.value), RETURN)
        if isinstance(s, ast.Raise):
            return seq(self.ev(s.exc), self.ev(s.cause), RAISE)
        if isinstance(s, ast.Assert):
            return seq(self.ev(s.test), self.ev(s.msg), choice(RAISE, SKIP))
        if isinstance(s, ast.If):
            return seq(self.ev(s.test), choice(self.stmts(s.body), self.stmts(s.orelse)))
        if isinstance(s, ast.While):
            t = self.ev(s.test)
            c = seq(loop(seq(t, self.stmts(s.body))), t)
            if s.orelse:
                c = seq(c, opt(self.stmts(s.orelse)))
            return c
        if isinstance(s, (ast.For, ast.AsyncFor)):
            it = self.ev(s.iter)
            step = [CALLEXT] + [("CallFn", k) for k in sorted(self.gens_in(s.iter))]
            body = seq(*(step + [self.assign_target(s.target), self.stmts(s.body)]))
            c = seq(it, loop(body))
            if s.orelse:
                c = seq(c, opt(self.stmts(s.orelse)))
            return c
        if isinstance(s, ast.Try) or s.__class__.__name__ == "TryStar":
            body = self.stmts(s.body)
            if s.orelse:
                body = seq(body, self.stmts(s.orelse))
            if s.handlers:
                hs = []
                for h in s.handlers:
                    hc = seq(self.ev(h.type), ("Havoc", self.var(h.name)) if h.name else SKIP, self.stmts(h.body))
                    hs.append(hc)
                body = ("TryExcept", body, choice_all(hs))
            if s.finalbody:
                body = ("TryFinally", body, self.stmts(s.finalbody))
            return body
        if isinstance(s, (ast.With, ast.AsyncWith)):
            return self.with_stmt(s, 0)
        if isinstance(s, (ast.FunctionDef, ast.AsyncFunctionDef)):
            out = [self.ev(d) for d in s.decorator_list] + [self.ev(d) for d in s.args.defaults]
            for d in s.decorator_list:
                t = d.func if isinstance(d, ast.Call) else d
                nm = t.id if isinstance(t, ast.Name) else (t.attr if isinstance(t, ast.Attribute) else "?")
                if nm not in HARMLESS_DECOS and nm != "wraps":
                    out.append(self.opaque("decorated nested function"))
            return seq(*out)
        if isinstance(s, ast.ClassDef):
            return CALLEXT
        if isinstance(s, ast.Delete):
            out = []
            for t in s.targets:
                if isinstance(t, ast.Attribute) and t.attr in WRITE_ATTRS:
                    out.append(self.opaque("del"))
                else:
                    out.append(self.ev(t) if not isinstance(t, ast.Name) else SKIP)
            return seq(*out)
        if isinstance(s, (ast.Pass, ast.Import, ast.ImportFrom, ast.Global, ast.Nonlocal)):
            return CALLEXT if isinstance(s, (ast.Import, ast.ImportFrom)) else SKIP
        if isinstance(s, ast.Break):
            return BREAK
        if isinstance(s, ast.Continue):
            return CONTINUE
        # anything else (match statements, ...): fail closed
        return seq(self.opaque("statement " + s.__class__.__name__), CALLEXT)

    def with_stmt(self, s, i):
        if i == len(s.items):
            return self.stmts(s.body)
        it = s.items[i]
        cx = it.context_expr
        inner = self.with_stmt(s, i + 1)
        bindv = self.assign_target(it.optional_vars) if it.optional_vars is not None else SKIP
        is_pm = isinstance(cx, ast.Call) and ((isinstance(cx.func, ast.Attribute) and cx.func.attr in PM_NAMES) or
                                              (isinstance(cx.func, ast.Name) and cx.func.id in PM_NAMES))
        if is_pm:
            pre = self.ev(cx)
            if not self.P.pm_factories_ok:
                return seq(pre, self.opaque("precision manager not recognised"), CALLEXT,
                           ("TryFinally", seq(bindv, inner), seq(self.opaque("precision manager not recognised"), CALLEXT)))
            self.with_count += 1
            tag = "$with%d" % self.with_count
            enter = self.inline_method(self.P.pm_enter, tag, is_exit=False)
            exit_ = self.inline_method(self.P.pm_exit, tag, is_exit=True)
            return seq(pre, enter, ("TryFinally", seq(bindv, inner), exit_))
        mentions = any(isinstance(n, ast.Attribute) and n.attr in KEY_ATTRS for n in ast.walk(cx))
        pre = self.ev(cx)
        if mentions:
            pre = seq(pre, self.opaque("with on a precision expression"))
        return seq(pre, CALLEXT, ("TryFinally", seq(bindv, inner), CALLEXT))

    def inline_method(self, m, tag, is_exit):
        """translate the body of PrecisionManager.__enter__/__exit__ in place; `self.x` -> per-with variables"""
        body = list(m.body)
        if body and isinstance(body[-1], ast.Return):
            v = body[-1].value
            if v is None or (isinstance(v, ast.Constant) and v.value in (False, None)):
                body = body[:-1]
        for n in own_nodes(body):
            if isinstance(n, (ast.Return, ast.Yield, ast.YieldFrom)):
                return seq(self.opaque("PrecisionManager.%s has a non-trivial return" % m.name), CALLEXT)
        sub = InlineTranslator(self, m, tag)
        return sub.stmts(body)


class InlineTranslator(FuncTranslator):
    """translates statements of method m as if they were written inside the host function; names of m are
    prefixed so that they do not clash with the host's variables"""
    def __init__(self, host, m, tag):
        self.T = host.T
        self.P = host.P
        self.host = host
        self.e = host.e
        self.f = m
        self.bind = {}
        self.vars = host.vars
        self.tag = tag
        self.tmp = 0
        self.with_count = 1000
        self.alias = {}; self.fresh_ctx = set(); self.gen_taint = {}; self.assigns = {}; self.attr_alias = {}

    def var(self, name):
        return self.host.var(self.tag + ":" + name)

    def fresh(self, base="$t"):
        return self.host.fresh(base)


# ------------------------------------------------------------------------------------------- Gallina output
def g_atom(a):
    if a[0] == "AVar":
        return "(AVar %d)" % a[1]
    return "(AConst (%d))" % a[1]


def g_cmd(c, ids):
    """iterative pretty printer (terms can be deep)"""
    out = []
    stack = [c]
    while stack:
        x = stack.pop()
        if isinstance(x, str):
            out.append(x); continue
        k = x[0]
        if k in ("Skip", "SetOpaque", "SetDps", "CallExt", "Raise", "Return", "Break", "Continue"):
            out.append(k)
        elif k in ("Save", "SetVar", "Havoc"):
            out.append("(%s %d)" % (k, x[1]))
        elif k in ("AddPrec", "SubPrec"):
            out.append("(%s %s)" % (k, g_atom(x[1])))
        elif k == "CallFn":
            out.append("(CallFn %d)" % ids[x[1]])
        elif k == "Guard":
            out.append("(Guard [%s])" % "; ".join("%d%%positive" % ids[h] for h in x[1]))
        elif k == "Loop":
            out.append("(Loop "); stack.append(")"); stack.append(x[1])
        elif k in ("Seq", "If", "TryFinally", "TryExcept"):
            out.append("(%s " % k); stack.append(")"); stack.append(x[2]); stack.append(" "); stack.append(x[1])
        else:
            raise ValueError("bad cmd %r" % (x,))
    return "".join(out)


HEADER = """(* GENERATED by harness/effects_translate.py from the sources under %(repo)s -- do not edit.
   sources sha1 = %(sha)s *)
From Coq Require Import ZArith List Bool FMapPositive.
Import ListNotations.
Require Import EFF.Cmd EFF.Check EFF.Sound.
Arguments Save v%%nat. Arguments SetVar v%%nat. Arguments Havoc v%%nat. Arguments AVar v%%nat. Arguments AConst z%%Z.
Arguments CallFn f%%positive.
Open Scope positive_scope.
"""


def sources_sha(prog):
    h = hashlib.sha1()
    for m in prog.modules:
        h.update(m.rel.encode()); h.update(m.src.encode())
    return h.hexdigest()


def emit(T, outdir, shard_size=400):
    """write Terms.v (+ sidecar json); returns info dict"""
    os.makedirs(outdir, exist_ok=True)
    ids = {e.key: e.id for e in T.order}
    lines = [HEADER % {"repo": T.P.root, "sha": sources_sha(T.P)}]
    for e in T.order:
        lines.append("Definition b%d : cmd := %s." % (e.id, g_cmd(e.cmd, ids)))
    lines.append("Definition bodies : list (positive * cmd) := [%s]." %
                 "; ".join("(%d, b%d)" % (e.id, e.id) for e in T.order))
    lines.append("Definition T : table := Eval vm_compute in solve %d%%nat (mk_table bodies)." % (2 * len(T.order) + 4))
    lines.append("Definition V := Eval vm_compute in verdicts T.")
    lines.append("Print V.")
    lines.append("Lemma T_ok : check_table T = true.\nProof. vm_compute. reflexivity. Qed.")
    lines.append("Definition T_sound := table_sound T T_ok.")
    lines.append("Definition T_neutral_restores := neutral_restores T T_ok.")
    lines.append("Check T_sound.\nPrint Assumptions T_sound.\nPrint Assumptions T_neutral_restores.")
    path = os.path.join(outdir, "Terms.v")
    with open(path, "w") as f:
        f.write("\n".join(lines) + "\n")
    side = {"entries": [{"id": e.id, "key": e.key, "kind": e.kind, "file": e.func.mod.rel, "lineno": e.func.lineno,
                         "firstlineno": min([e.func.lineno] + [d.lineno for d in e.func.decorators]),
                         "qual": e.func.qual, "name": e.func.name, "flags": sorted(e.flags),
                         "is_gen": e.func.is_gen, "writes": e.func.writes, "size": cmd_size(e.cmd),
                         "public_hint": e.public_hint, "returned_closures": e.returned_closures,
                         "bind": {k: list(v) for k, v in e.bind.items()}}
                        for e in T.order],
            "stats": T.stats, "notes": T.P.notes, "fp_const": T.P.fp_const, "pm_factories_ok": T.P.pm_factories_ok,
            "pm_call_g": (T.P.pm_call_g.key if T.P.pm_call_g is not None else None),
            "sha": sources_sha(T.P), "nfuncs_scanned": len(T.P.funcs), "ntable": len(T.P.table)}
    with open(os.path.join(outdir, "terms.json"), "w") as f:
        json.dump(side, f, indent=0)
    return {"path": path, "n": len(T.order), "side": side}


def translate(repo=None):
    prog = Program(repo)
    return Translator(prog).run()


if __name__ == "__main__":
    sys.setrecursionlimit(100000)
    out = sys.argv[1] if len(sys.argv) > 1 else "/verif/build/effects"
    T = translate()
    info = emit(T, out)
    print("entries", info["n"], "stats", T.stats, "scanned", len(T.P.funcs), "table", len(T.P.table))


# ------------------------------------------------------------------------------------------- driver
def compile_terms(outdir, timeout=300):
    """coqc Terms.v; returns (ok, log, verdicts {id: (bal, exs)}, closed_count, seconds, cmdline)"""
    import subprocess, re, time
    effdir = os.path.join(os.path.dirname(os.path.dirname(os.path.abspath(__file__))), "coq_effects")
    cmd = ["timeout", str(timeout), "coqc", "-Q", effdir, "EFF", "Terms.v"]
    t0 = time.time()
    p = subprocess.run(cmd, cwd=outdir, capture_output=True, text=True)
    secs = time.time() - t0
    out = p.stdout + p.stderr
    with open(os.path.join(outdir, "Terms.log"), "w") as f:
        f.write(out)
    verd = {}
    m = re.search(r"V\s*=\s*\[(.*?)\]\s*:\s*list", out, re.S)
    if m:
        for a, b, c in re.findall(r"\((\d+),\s*\((true|false),\s*(true|false)\)\)", m.group(1)):
            verd[int(a)] = (b == "true", c == "true")
    closed = out.count("Closed under the global context")
    return p.returncode == 0, out, verd, closed, secs, " ".join(cmd)


def run_static(outdir="/verif/build/effects", repo=None):
    sys.setrecursionlimit(100000)
    T = translate(repo)
    info = emit(T, outdir)
    ok, log, verd, closed, secs, cmdline = compile_terms(outdir)
    res = {}
    for e in T.order:
        res[e.key] = verd.get(e.id)
    return {"T": T, "ok": ok, "log": log, "verdicts": res, "closed": closed, "secs": secs, "cmd": cmdline, "info": info}


if __name__ == "__main__" and len(sys.argv) > 2 and sys.argv[2] == "check":
    r = run_static(sys.argv[1])
    bad = [(k, v) for k, v in r["verdicts"].items() if v != (True, True)]
    print("coq ok", r["ok"], "secs %.1f" % r["secs"], "entries", len(r["verdicts"]), "not neutral", len(bad))
    for k, v in bad:
        e = r["T"].entries[k]
        print("  %-6s %s %s" % ("".join("BE"[i] if not v[i] else "-" for i in range(2)) if v else "??", k, sorted(e.flags)))
