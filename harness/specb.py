"""Shared machinery of the Engine-B special-function checks C18-C23 (per-instance Coq certificates on the sub-domains
where the function has an elementary closed form / exact rational value / proper-integral representation, plus
"metamorphic" certificates whose soundness lemmas are proved once in /verif/coq_meta/Meta.v).

Nothing here is trusted for a verdict: a "pass"/"fail" is always a Coq lemma compiled by `cert.certify`.  This file
only (1) builds lemma texts, (2) keeps a registry of `Kind`s (= one mpmath call form + its reference formula + an
input generator), (3) drives generation / certification / evidence, (4) builds coq_meta/Meta.vo when it is stale and
makes it importable by the certificate files (COQPATH + an extra `From META Require Import Meta.` header line; done at
run time on the `cert` module's header strings -- cert.py itself is not modified)."""
import os, sys, json, time, math, subprocess, hashlib, re
from fractions import Fraction
from common import *
import cert, sweep
from cert import E, Const, Op, Cx, ZERO, ONE, HALF, PI, lift, Instance, Structured, mpf_fraction
from props.engineb import dyadic, mk_mpf, value_of, short, run_and_report, finite_tuple, _cmd_string

KNOWN_B3 = os.path.join(VERIF, "known_findings_B3.json")
META_DIR = os.path.join(VERIF, "coq_meta")
COQPATH_DIR = os.path.join(VERIF, "build", "coqpath")
_IMPORT = "From META Require Import Meta.\n"
_META_INFO = {}


class Skip(Exception):
    """generator/reference cannot produce a case here (not the implementation's fault)"""


# ============================================================================================ coq_meta

def ensure_meta():
    """Build coq_meta/Meta.vo if it is stale (under a lock and a timeout), make it visible to `coqc -q file.v` through
    COQPATH, and add the import line to the headers that cert.certify writes.  Returns the Print Assumptions text."""
    if _META_INFO:
        return _META_INFO
    os.makedirs(COQPATH_DIR, exist_ok=True)
    link = os.path.join(COQPATH_DIR, "META")
    if not os.path.islink(link):
        try:
            os.symlink(META_DIR, link)
        except FileExistsError:
            pass
    src = os.path.join(META_DIR, "Meta.v"); vo = os.path.join(META_DIR, "Meta.vo")
    log = os.path.join(VERIF, "build", "meta_assumptions.txt")
    txt = open(src).read()
    stripped = re.sub(r"\(\*.*?\*\)", "", txt, flags=re.S)
    bad = re.findall(r"\b(Admitted|admit|Axiom|Axioms|Parameter|Parameters|Conjecture|Admit Obligations)\b", stripped)
    if bad:
        raise RuntimeError("forbidden construct in coq_meta/Meta.v: %r" % (bad,))
    stale = (not os.path.exists(vo)) or os.path.getmtime(vo) < os.path.getmtime(src) or not os.path.exists(log)
    if stale:
        cmd = ["flock", os.path.join(VERIF, "build", ".metalock"), "timeout", "300", "coqc", "-Q", ".", "META", "Meta.v"]
        p = subprocess.run(cmd, capture_output=True, text=True, cwd=META_DIR, timeout=400)
        if p.returncode != 0:
            raise RuntimeError("coq_meta/Meta.v does not compile: " + (p.stdout + p.stderr)[-800:])
        with open(log, "w") as f:
            f.write(p.stdout + p.stderr)
    out = open(log).read()
    axioms = sorted(set(re.findall(r"^([A-Za-z_][\w.]*\.[\w.]+)\s*(?=:|$)", out, re.M)))
    os.environ["COQPATH"] = COQPATH_DIR + (":" + os.environ["COQPATH"] if os.environ.get("COQPATH") and
                                           COQPATH_DIR not in os.environ["COQPATH"] else "")
    for name in ("HEADER_R", "HEADER_RINT", "HEADER_Z"):
        h = getattr(cert, name)
        if _IMPORT not in h:
            setattr(cert, name, h.replace("Open Scope", _IMPORT + "Open Scope", 1))
    _META_INFO.update({"axioms": axioms, "closed": out.count("Closed under the global context"),
                       "cmd": "cd /verif/coq_meta && coqc -Q . META Meta.v", "rebuilt": stale})
    return _META_INFO


def meta_trusted_base():
    m = ensure_meta()
    return ["[META] /verif/coq_meta/Meta.v (soundness lemmas of the metamorphic certificates and zfact = factorial; "
            "complete proofs; Print Assumptions: %s; %d lemma(s) closed under the global context); checker command: %s"
            % (", ".join(m["axioms"]) or "none", m["closed"], m["cmd"])]


def load_known_b3(rep):
    if os.path.exists(KNOWN_B3):
        with open(KNOWN_B3) as f:
            d = json.load(f)
        rep.known.extend(k for k in d.get("findings", []) if k.get("property") == rep.pid)


# ============================================================================================ argument encoding

def enc_arg(a):
    if isinstance(a, bool): return {"bool": a}
    if isinstance(a, int): return {"int": a}
    if isinstance(a, Fraction): return {"q": [a.numerator, a.denominator]}
    if isinstance(a, str): return {"str": a}
    if isinstance(a, (tuple, list)): return {"t": [enc_arg(x) for x in a]}
    raise TypeError(a)


def dec_arg(d):
    if "bool" in d: return d["bool"]
    if "int" in d: return d["int"]
    if "q" in d: return Fraction(d["q"][0], d["q"][1])
    if "str" in d: return d["str"]
    return tuple(dec_arg(x) for x in d["t"])


def is_dyadic(fr):
    d = Fraction(fr).denominator
    return d & (d - 1) == 0


def M(ctx, a):
    """exact mpmath number of an int / dyadic Fraction / (re, im) pair of those"""
    if isinstance(a, tuple):
        from mpmath.libmp import from_man_exp
        return ctx.make_mpc((from_man_exp(*dyadic(Fraction(a[0]))), from_man_exp(*dyadic(Fraction(a[1])))))
    if isinstance(a, int):
        return mk_mpf(ctx, Fraction(a))
    if not is_dyadic(a):
        raise Skip("argument %s is not a dyadic rational" % (a,))
    return mk_mpf(ctx, a)


def PQ(a):
    """rational parameter in the form mpmath's hypergeometric code accepts exactly: int or (p, q)"""
    a = Fraction(a)
    return int(a) if a.denominator == 1 else (a.numerator, a.denominator)


# ============================================================================================ Z-side texts

def zlit(n):
    """Z literal; hexadecimal above 64 bits (Coq parses long decimal literals in quadratic time)."""
    if abs(n) < (1 << 64):
        return "(%d)" % n if n < 0 else "%d" % n
    return "(-0x%x)" % -n if n < 0 else "0x%x" % n


class ZT(object):
    """An integer term printed for Coq (`text`) together with its Python value (generator side, for hints only)."""
    __slots__ = ("text", "val")

    def __init__(self, text, val):
        self.text = text; self.val = val

    @staticmethod
    def of(n):
        return n if isinstance(n, ZT) else ZT(zlit(int(n)), int(n))

    @staticmethod
    def fact(n):
        """n! -- computed by Coq (META.Meta.zfact, proved equal to the unary factorial) when it is long"""
        v = math.factorial(n)
        if v.bit_length() <= 3000:
            return ZT(zlit(v), v)
        return ZT("(zfact %d)" % n, v)

    def __mul__(a, b):
        b = ZT.of(b)
        if b.text == "1": return a
        if a.text == "1": return b
        return ZT("(%s * %s)" % (a.text, b.text), a.val * b.val)

    __rmul__ = __mul__

    def __pow__(a, n):
        return ZT("(%s ^ %d)" % (a.text, n), a.val ** n)


class QRef(object):
    """exact rational reference num/den with integer terms that Coq evaluates (den > 0)"""
    __slots__ = ("num", "den")

    def __init__(self, num, den=1):
        self.num = ZT.of(num); self.den = ZT.of(den)
        assert self.den.val > 0

    @property
    def value(self):
        return Fraction(self.num.val, self.den.val)


def _two_pow(k):
    return "2 ^ %d" % k


def q_rel_instance(id, y, ref, eps, meta=None, trivial=None):
    """|y - N/D| <= eps*|N/D| over Z (y exact dyadic Fraction, ref a Fraction or QRef):
       |a*D - N*b| * ed <= en * |N| * b   with y = a/b, eps = en/ed."""
    y = Fraction(y); eps = Fraction(eps)
    if not isinstance(ref, QRef):
        r = Fraction(ref); ref = QRef(r.numerator, r.denominator)
    a, b = y.numerator, y.denominator
    en, ed = eps.numerator, eps.denominator
    N, D = ref.num, ref.den
    kb = b.bit_length() - 1
    bt = _two_pow(kb) if kb > 0 else "1"
    def p2(n):
        k = n.bit_length() - 1
        return _two_pow(k) if n > 1 and n == 1 << k else zlit(n)
    lhs = "Z.abs (%s * %s - %s * %s) * %s" % (zlit(a), D.text, N.text, bt, p2(ed))
    rhs = "%s * Z.abs %s * %s" % (p2(en), N.text, bt)
    err = abs(a * D.val - N.val * b) * ed
    bound = en * abs(N.val) * b
    ok = err <= bound
    return Instance(id, "(%s <=? %s) = true" % (lhs, rhs), ["(%s <? %s) = true" % (rhs, lhs)], kind="Z",
                    hint="pass" if ok else "fail", meta=meta, trivial=(err == 0) if trivial is None else trivial)


def q_eq_instance(id, y, ref, meta=None):
    """y = N/D exactly (the 'evaluated exactly' clause when the exact value is representable)."""
    y = Fraction(y)
    if not isinstance(ref, QRef):
        r = Fraction(ref); ref = QRef(r.numerator, r.denominator)
    a, b = y.numerator, y.denominator
    kb = b.bit_length() - 1
    bt = _two_pow(kb) if kb > 0 else "1"
    lhs = "%s * %s" % (zlit(a), ref.den.text); rhs = "%s * %s" % (ref.num.text, bt)
    ok = a * ref.den.val == ref.num.val * b
    return Instance(id, "(%s =? %s) = true" % (lhs, rhs), ["(%s =? %s) = false" % (lhs, rhs)], kind="Z",
                    hint="pass" if ok else "fail", meta=meta, trivial=False)


def representable(fr, p):
    """is the rational fr a binary floating-point number with at most p significant bits?"""
    fr = Fraction(fr)
    if fr == 0: return True
    if not is_dyadic(fr): return False
    n = abs(fr.numerator)
    n >>= (n & -n).bit_length() - 1
    return n.bit_length() <= p


class HConst(Const):
    """rational constant printed with hexadecimal Z literals (long decimal literals cost quadratic parsing time)"""
    __slots__ = ()

    def __new__(cls, v):
        v = Fraction(v)
        key = ("hc", v)
        n = cert._INTERN.get(key)
        if n is None:
            n = object.__new__(cls)
            n.v = v
            cert._INTERN[key] = n
        return n

    def coq(self, names=None):
        n, d = self.v.numerator, self.v.denominator
        if d == 1:
            return "(IZR %s)" % zlit(n)
        if d & (d - 1) == 0:
            return "(IZR %s * / IZR (2^%d))" % (zlit(n), d.bit_length() - 1)
        return "(IZR %s / IZR %s)" % (zlit(n), zlit(d))


def HC(v):
    """constant term; hexadecimal printing when long"""
    v = Fraction(v)
    if v.numerator.bit_length() + v.denominator.bit_length() > 600:
        return HConst(v)
    return Const(v)


# ============================================================================================ integral-aware Structured

class Structured2(Structured):
    """cert.Structured with one change in the proof script: every RInt node is enclosed by `integral_intro` with an ABSOLUTE
    width target `i_width (m - w)` (m = untrusted estimate of log2 |integral|, w = the wanted relative accuracy in bits) instead
    of `i_relwidth w`: measured on Interval 4.6, the i_relwidth target is not relative to the value of the integral when that
    value is small (RInt exp(-t) 27 35 with i_relwidth 62 returns a 2^-29 enclosure), i_width is honoured.  Only tactic
    parameters change: the statement and what `Qed` checks are the same."""

    def script(self, prec, final=None):
        final = final or ("interval with (i_prec %d)" % prec)
        L = []
        if self.shared:
            L.append("intros %s." % " ".join(self.names[id(n)] for n in self.shared))
        for i, n in enumerate(self.shared):
            v = self.names[id(n)]
            if isinstance(n, Const):
                lo, hi = cert._round_dir(n.v, prec, -1), cert._round_dir(n.v, prec, +1)
                L.append("assert (H%d : %s <= %s <= %s) by (unfold %s; split; [apply Ropp_le_cancel|]; interval with (i_prec %d))."
                         % (i + 1, Const(lo).coq(), v, Const(hi).coq(), v, prec + 8))
            elif n.op == "rint":
                rw = max(8, prec - 20)
                target = "i_relwidth %d" % rw
                try:
                    val = cert.approx(n, 64)
                    if val != 0:
                        target = "i_width (%d)" % (int(cert._ctx().mag(val)) - 1 - rw)
                except Exception:
                    pass
                L.append("integral_intro %s with (i_prec %d, i_fuel %d, i_degree %d, %s) as H%d; fold %s in H%d."
                         % (self._body(n), prec, self.rint_opts.get("i_fuel", 200), self.rint_opts.get("i_degree", 12),
                            target, i + 1, v, i + 1))
            else:
                L.append("interval_intro %s with (i_prec %d) as H%d; fold %s in H%d." % (self._body(n), prec, i + 1, v, i + 1))
            L.append("clearbody %s." % v)
        L.append("repeat apply conj; %s." % final)
        return " ".join(L)


def atoms_instance(id, atoms, neg_atom_lists=(), params=None, meta=None, trivial=False, kind=None):
    """cert.atoms_instance with Structured2 (same statements, better integral tactic parameters)"""
    P = dict(cert.DEFAULT_PARAMS); P.update(params or {})
    meta = dict(meta or {})
    g = Structured2(atoms, P["big_const_bits"])
    negs = [Structured2(a, P["big_const_bits"]) for a in neg_atom_lists]
    hint = None
    prec = 128
    try:
        prec, vals = cert.plan_prec([d for d, _ in g.atoms], P["margin"], P["min_prec"], P["max_prec"])
        ok = all((v <= 0 if op == "<=" else v < 0) for v, (_, op) in zip(vals, g.atoms))
        hint = "pass" if ok else "fail"
        if not ok and negs:
            p2, _ = cert.plan_prec([d for d, _ in negs[0].atoms], P["margin"], P["min_prec"], P["max_prec"])
            prec = max(prec, p2)
        meta["est_prec"] = prec
    except cert.EstimateError as ex:
        meta["estimate_error"] = str(ex)
    if kind is None:
        kind = "RI" if g.has_rint else "R"
    for st in [g] + negs:
        st.rint_opts = {k: P[k] for k in ("i_fuel", "i_degree") if k in P}
    return Instance(id, g, negs, kind=kind, prec=prec, hint=hint, meta=meta, trivial=trivial)


def rel_instance(id, y, ref, eps, scale=None, conds=(), params=None, meta=None, other_scales=()):
    """cert.rel_instance on top of the atoms_instance above (constant references still go to cert.rel_instance)"""
    yy = lift(y); rr = lift(ref); ee = lift(eps)
    sc = rr if scale is None else lift(scale)
    scales = [sc] + [lift(t) for t in other_scales]
    if rr.is_const() and all(t.is_const() for t in scales) and not conds:
        return cert.rel_instance(id, y, ref, eps, scale=scale, conds=conds, params=params, meta=meta, other_scales=other_scales)
    err = cert.rabs(yy - rr)
    atoms = [tuple(c) for c in conds] + [(err, "<=", ee * cert.rabs(sc))]
    negs = [[tuple(c) for c in conds] + [(ee * cert.rabs(t), "<", err) for t in scales]]
    return atoms_instance(id, atoms, negs, params=params, meta=dict(meta or {}))


# ============================================================================================ real / complex instances

def modulus_instance(id, yre, yim, ref, eps, params=None, meta=None):
    """|y - ref| <= eps*|ref| for complex y, ref (Cx): decided on the squares."""
    yre = lift(Fraction(yre)); yim = lift(Fraction(yim)); eps = Fraction(eps)
    dr = yre - ref.re; di = yim - ref.im
    lhs = dr * dr + di * di
    rhs = Const(eps * eps) * (ref.re * ref.re + ref.im * ref.im)
    conds = [tuple(c) for c in ref.conds]
    return atoms_instance(id, conds + [(lhs, "<=", rhs)], [conds + [(rhs, "<", lhs)]], params=params, meta=meta)


def real_instance(id, y, ref, eps, params=None, meta=None, conds=()):
    ref = lift(ref)
    if isinstance(ref, Const):
        return q_rel_instance(id, y, ref.v, eps, meta=meta)
    return rel_instance(id, Fraction(y), ref, Fraction(eps), conds=conds, params=params, meta=meta)


def tail_instance(id, y, lo, tau, eps, params=None, meta=None):
    """The true value r is only known to lie in [lo, lo + tau] (lo: a proper integral, tau >= 0: an analytic bound of the
    neglected tail, an ASSUMED textbook inequality).  Bound : |y - lo| + tau <= eps*(|lo| - tau)   (=> |y - r| <= eps|r| for
    every r in the range);  violation: eps*(|lo| + tau) < |y - lo| - tau   (=> |y - r| > eps|r| for every such r)."""
    y = lift(Fraction(y)); lo = lift(lo); tau = lift(tau); eps = Const(Fraction(eps))
    d = cert.rabs(y - lo)
    return atoms_instance(id, [(d + tau, "<=", eps * (cert.rabs(lo) - tau))], [[(eps * (cert.rabs(lo) + tau), "<", d - tau)]],
                          params=params, meta=meta)


def bracket_instance(id, lo_term, target, hi_term, params=None, meta=None):
    """monotone-inverse certificate: lo_term <= target <= hi_term (real terms); negation: either side fails."""
    lo_term = lift(lo_term); hi_term = lift(hi_term); target = lift(target)
    return atoms_instance(id, [(lo_term, "<=", target), (target, "<=", hi_term)],
                          [[(target, "<", lo_term)], [(hi_term, "<", target)]], params=params, meta=meta)


# ============================================================================================ metamorphic instances

def _q(fr):
    """rational constant for the metamorphic lemma texts; a dyadic with a long exponent is printed as m * powerRZ 2 e
    (Interval evaluates `IZR (2^16942)` through a 16942-bit integer -- measured 74 s -- but powerRZ in floating point)"""
    fr = Fraction(fr)
    n, d = fr.numerator, fr.denominator
    if n != 0 and d & (d - 1) == 0:
        tz = (abs(n) & -abs(n)).bit_length() - 1
        e = tz if d == 1 else -(d.bit_length() - 1)
        if abs(e) >= 256:
            m = n >> tz if d == 1 else n
            return "(IZR %s * powerRZ 2 (%d)%%Z)" % (zlit(m), e)
    return Const(fr).coq()


def meta_gamma_rec(id, x, y1, y2, eps, p, meta=None):
    """y1 ~ G(x), y2 ~ G(x+1), G(x+1) = x*G(x).  (x, y1, y2 exact rationals.)"""
    x, y1, y2, e = Fraction(x), Fraction(y1), Fraction(y2), Fraction(eps)
    X, Y1, Y2, EE = _q(x), _q(y1), _q(y2), _q(e)
    goal = "(1 - %s) * Rabs (%s - %s * %s) <= %s * (Rabs %s + Rabs %s * Rabs %s)" % (EE, Y2, X, Y1, EE, Y2, X, Y1)
    neg = ("forall G : R -> R, G (%s + 1) = %s * G %s -> ~ (Rabs (%s - G %s) <= %s * Rabs (G %s) /\\ "
           "Rabs (%s - G (%s + 1)) <= %s * Rabs (G (%s + 1)))" % (X, X, X, Y1, X, EE, X, Y2, X, EE, X))
    ok = (1 - e) * abs(y2 - x * y1) <= e * (abs(y2) + abs(x) * abs(y1))
    tac = ("first [ interval with (i_prec {prec}) | intros G HG; apply (gamma_rec_violation G); "
           "[ split; interval | exact HG | interval with (i_prec {prec}) ] ]")
    m = dict(meta or {}); m["metamorphic"] = True
    return Instance(id, goal, [neg], kind="R", prec=p + 48, hint="pass" if ok else "fail", tactic=tac, meta=m)


def meta_lin(id, coeffs, ys, eps, p, c_term=0, meta=None, integral=None):
    """a0*g0 + a1*g1 (+ a2*g2) = c  (exact rational coefficients a_i, c a closed real term, usually rational), y_i ~ g_i.
    The violation statement quantifies over arbitrary reals g_i satisfying the identity (as the true values do)."""
    a = [Fraction(c) for c in coeffs]; y = [Fraction(v) for v in ys]; e = Fraction(eps)
    n = len(a); assert n in (2, 3) and len(y) == n
    A = [_q(c) for c in a]; Y = [_q(v) for v in y]; EE = _q(e)
    ct = lift(c_term); C = ct.coq()
    gs = ["g%d" % i for i in range(n)]
    comb = " + ".join("%s * %s" % (A[i], Y[i]) for i in range(n))
    bound = "%s * (%s)" % (EE, " + ".join("Rabs %s * Rabs %s" % (A[i], Y[i]) for i in range(n)))
    goal = "(1 - %s) * Rabs (%s - %s) <= %s" % (EE, comb, C, bound)
    ident = " + ".join("%s * %s" % (A[i], gs[i]) for i in range(n))
    within = " /\\ ".join("Rabs (%s - %s) <= %s * Rabs %s" % (Y[i], gs[i], EE, gs[i]) for i in range(n))
    neg = "forall %s : R, %s = %s -> ~ (%s)" % (" ".join(gs), ident, C, within)
    if isinstance(ct, Const):
        ok = (1 - e) * abs(sum(c * v for c, v in zip(a, y)) - ct.v) <= e * sum(abs(c) * abs(v) for c, v in zip(a, y))
    else:
        ctx = cert._ctx(); cv = cert.approx(ct, 2 * p + 100)
        f = lambda q: ctx.mpf(q.numerator) / q.denominator
        ok = (1 - f(e)) * abs(sum(f(c) * f(v) for c, v in zip(a, y)) - cv) <= f(e) * sum(abs(f(c) * f(v)) for c, v in zip(a, y))
    lemma = "lin3_violation" if n == 3 else "lin2_violation"
    itac = "interval with (i_prec {prec})"
    if integral:             # c contains one RInt: Interval's `integral` tactic (fuel, degree)
        itac = "integral with (i_prec {prec}, i_fuel %d, i_degree %d)" % tuple(integral)
    tac = ("first [ %s | intros %s HG; apply (%s %s (%s) %s %s); "
           "[ split; interval | exact HG | %s ] ]" % (itac, " ".join(gs), lemma, EE, C, " ".join(A), " ".join(gs), itac))
    m = dict(meta or {}); m["metamorphic"] = True
    return Instance(id, goal, [neg], kind="RI" if integral else "R", prec=p + 48, hint="pass" if ok else "fail", tactic=tac, meta=m)


def meta_prod2(id, c_term, ys, eps, p, gtext=None, meta=None):
    """g1*g2 = c (c a closed real term, e.g. PI/sin(PI x)), y_i ~ g_i.  gtext: optional (binder, g1 text, g2 text) to
    state the lemma for a function G instead of two reals."""
    y1, y2 = [Fraction(v) for v in ys]; e = Fraction(eps)
    C = lift(c_term).coq(); Y1, Y2, EE = _q(y1), _q(y2), _q(e)
    goal = "Rabs (%s * %s - %s) <= (2 * %s + %s * %s) * Rabs %s" % (Y1, Y2, C, EE, EE, EE, C)
    if gtext:
        binder, g1, g2 = gtext
        intro = "intros G HG"
    else:
        binder, g1, g2 = "forall g1 g2 : R", "g1", "g2"
        intro = "intros g1 g2 HG"
    neg = ("%s, %s * %s = %s -> ~ (Rabs (%s - %s) <= %s * Rabs (%s) /\\ Rabs (%s - %s) <= %s * Rabs (%s))"
           % (binder, g1, g2, C, Y1, g1, EE, g1, Y2, g2, EE, g2))
    cv = cert.approx(lift(c_term), 2 * p + 100)
    ctx = cert._ctx()
    r = abs(ctx.mpf(y1.numerator) / y1.denominator * (ctx.mpf(y2.numerator) / y2.denominator) - cv)
    ok = r <= (2 * e + e * e) * abs(cv)
    tac = ("first [ interval with (i_prec {prec}) | %s; apply (prod2_violation %s (%s) (%s) (%s)); "
           "[ interval | exact HG | interval with (i_prec {prec}) ] ]" % (intro, EE, C, g1, g2))
    m = dict(meta or {}); m["metamorphic"] = True
    return Instance(id, goal, [neg], kind="R", prec=p + 48, hint="pass" if ok else "fail", tactic=tac, meta=m)


def meta_prod3(id, c_term, ys, eps, p, gtext=None, meta=None):
    """g1*g2 = c*g3, y_i ~ g_i (duplication-type identities)."""
    y1, y2, y3 = [Fraction(v) for v in ys]; e = Fraction(eps)
    C = lift(c_term).coq(); Y1, Y2, Y3, EE = _q(y1), _q(y2), _q(y3), _q(e)
    goal = ("(1 - %s) * Rabs (%s * %s - %s * %s) <= (3 * %s + %s * %s) * (Rabs %s * Rabs %s)"
            % (EE, Y1, Y2, C, Y3, EE, EE, EE, C, Y3))
    if gtext:
        binder, g1, g2, g3 = gtext; intro = "intros G HG"
    else:
        binder, g1, g2, g3 = "forall g1 g2 g3 : R", "g1", "g2", "g3"; intro = "intros g1 g2 g3 HG"
    neg = ("%s, %s * %s = %s * %s -> ~ (Rabs (%s - %s) <= %s * Rabs (%s) /\\ Rabs (%s - %s) <= %s * Rabs (%s) /\\ "
           "Rabs (%s - %s) <= %s * Rabs (%s))" % (binder, g1, g2, C, g3, Y1, g1, EE, g1, Y2, g2, EE, g2, Y3, g3, EE, g3))
    cv = cert.approx(lift(c_term), 2 * p + 100); ctx = cert._ctx()
    f = lambda q: ctx.mpf(q.numerator) / q.denominator
    ok = (1 - f(e)) * abs(f(y1) * f(y2) - cv * f(y3)) <= (3 * f(e) + f(e) ** 2) * abs(cv) * abs(f(y3))
    tac = ("first [ interval with (i_prec {prec}) | %s; apply (prod3_violation %s (%s) (%s) (%s) (%s)); "
           "[ split; interval | exact HG | interval with (i_prec {prec}) ] ]" % (intro, EE, C, g1, g2, g3))
    m = dict(meta or {}); m["metamorphic"] = True
    return Instance(id, goal, [neg], kind="R", prec=p + 48, hint="pass" if ok else "fail", tactic=tac, meta=m)


def meta_wronskian(id, c_term, ys, eps, p, meta=None):
    """g1*g4 - g2*g3 = c, y_i ~ g_i (e.g. Ai*Bi' - Ai'*Bi = 1/PI)."""
    y1, y2, y3, y4 = [Fraction(v) for v in ys]; e = Fraction(eps)
    C = lift(c_term).coq(); Y = [_q(v) for v in (y1, y2, y3, y4)]; EE = _q(e)
    goal = ("(1 - %s) * (1 - %s) * Rabs (%s * %s - %s * %s - %s) <= (2 * %s + %s * %s) * (Rabs %s * Rabs %s + Rabs %s * Rabs %s)"
            % (EE, EE, Y[0], Y[3], Y[1], Y[2], C, EE, EE, EE, Y[0], Y[3], Y[1], Y[2]))
    neg = ("forall g1 g2 g3 g4 : R, g1 * g4 - g2 * g3 = %s -> ~ (Rabs (%s - g1) <= %s * Rabs g1 /\\ Rabs (%s - g2) <= %s * Rabs g2 "
           "/\\ Rabs (%s - g3) <= %s * Rabs g3 /\\ Rabs (%s - g4) <= %s * Rabs g4)" % (C, Y[0], EE, Y[1], EE, Y[2], EE, Y[3], EE))
    cv = cert.approx(lift(c_term), 2 * p + 100); ctx = cert._ctx()
    f = lambda q: ctx.mpf(q.numerator) / q.denominator
    ok = ((1 - f(e)) ** 2 * abs(f(y1) * f(y4) - f(y2) * f(y3) - cv)
          <= (2 * f(e) + f(e) ** 2) * (abs(f(y1) * f(y4)) + abs(f(y2) * f(y3))))
    tac = ("first [ interval with (i_prec {prec}) | intros g1 g2 g3 g4 HG; apply (wronskian_violation %s (%s) g1 g2 g3 g4); "
           "[ split; interval | exact HG | interval with (i_prec {prec}) ] ]" % (EE, C))
    m = dict(meta or {}); m["metamorphic"] = True
    return Instance(id, goal, [neg], kind="R", prec=p + 48, hint="pass" if ok else "fail", tactic=tac, meta=m)


# ============================================================================================ kinds

EXACT_ZERO = "exact-zero"       # reference marker: the returned value must be exactly 0
RAISES = "raises"               # reference marker: the call must raise (pole)


class Kind(object):
    """One certified call form.

    name    unique id (goes into the replay dict)
    fn      the mpmath function(s) exercised (reported; known-finding match key together with `regime`)
    call    (ctx, *args) -> mpmath value, or a tuple of values for metamorphic kinds
    ref     (*args) -> E | Cx | Fraction | QRef | EXACT_ZERO | RAISES            (default builder)
    build   optional (cid, kind, args, p, yvals, eps, meta, params) -> [Instance]   (overrides the default builder)
    gen     (rng, p) -> args (ints / Fractions / strings / nested tuples thereof)
    exact   True: additionally certify equality when the exact rational reference is representable in p bits"""

    def __init__(self, name, fn, call, ref=None, gen=None, w=1.0, regime="closed-form", precs=None, maxprec=None,
                 tiers=("quick", "thorough"), build=None, exact=False, params=None, call_timeout=60):
        self.name = name; self.fn = fn; self.call = call; self.ref = ref; self.gen = gen; self.w = w
        self.regime = regime; self.precs = precs; self.maxprec = maxprec; self.tiers = tiers; self.build = build
        self.exact = exact; self.params = params; self.call_timeout = call_timeout


def eps_of(p):
    return Fraction(2) ** (8 - p)


def do_call(ctx, kind, args, prec):
    p0 = ctx.prec
    try:
        ctx.prec = prec
        return sweep.call_with_timeout(lambda: kind.call(ctx, *args), kind.call_timeout)
    finally:
        ctx.prec = p0


def default_build(cid, kind, args, p, yv, eps, meta, params):
    """-> ([Instance], direct_violation_text | None)"""
    ref = kind.ref(*args)
    if ref is EXACT_ZERO:
        if yv[0] == "real" and yv[1] == 0:
            m = dict(meta); m["clause"] = "exact zero"
            return [Instance(cid + "_zero", "(0 =? 0) = true", [], kind="Z", hint="pass", meta=m, trivial=True)], None
        return [], "expected an exact zero, got %r" % (yv[1:],)
    if yv[0] in ("nonfinite", "other"):
        return [], "non-finite/unknown result %s where the reference value is finite" % (yv[1],)
    if isinstance(ref, Cx):
        yre, yim = (yv[1], yv[2]) if yv[0] == "complex" else (yv[1], Fraction(0))
        m = dict(meta); m["part"] = "modulus"
        return [modulus_instance(cid + "_mod", yre, yim, ref, eps, params=params, meta=m)], None
    if yv[0] == "complex":
        if yv[2] != 0:
            if isinstance(ref, QRef): raise Skip("complex value against an integer-term reference")
            m = dict(meta); m["part"] = "modulus"
            return [modulus_instance(cid + "_mod", yv[1], yv[2], Cx(lift(ref), 0), eps, params=params, meta=m)], None
        yv = ("real", yv[1])
    y = yv[1]
    m = dict(meta); m["part"] = "re"
    out = []
    if isinstance(ref, (QRef, Fraction, int)) or (isinstance(ref, E) and isinstance(lift(ref), Const)):
        r = ref if isinstance(ref, QRef) else (lift(ref).v if isinstance(ref, E) else Fraction(ref))
        rv = r.value if isinstance(r, QRef) else r
        if rv == 0:
            if y == 0:
                return [Instance(cid + "_zero", "(0 =? 0) = true", [], kind="Z", hint="pass", meta=m, trivial=True)], None
            return [], "reference value is exactly 0 but the result is %s" % (y,)
        out.append(q_rel_instance(cid + "_q", y, r, eps, meta=m))
        if kind.exact and representable(rv, p):
            m2 = dict(m); m2["clause"] = "exact (representable value)"
            out.append(q_eq_instance(cid + "_eq", y, r, meta=m2))
        return out, None
    return [rel_instance(cid + "_re", Fraction(y), lift(ref), Fraction(eps), params=params, meta=m)], None


def one_case(ctx, cid, kind, args, p, stats, params=None):
    """-> (instances, call dict | None, direct violation text | None)"""
    call = {"kind": kind.name, "fn": kind.fn, "regime": kind.regime, "prec": p, "args": [enc_arg(a) for a in args]}
    expect_raise = kind.ref is not None and kind.build is None and kind.ref(*args) is RAISES
    try:
        y = do_call(ctx, kind, args, p)
    except sweep.CallTimeout:
        stats["raised"].append({"kind": kind.name, "prec": p, "exc": "timeout %d s" % kind.call_timeout})
        return [], None, None
    except Skip:
        stats["skipped"] += 1
        return [], None, None
    except Exception as ex:
        if expect_raise:
            stats["decision_table_ok"] += 1
            call["result"] = "raised " + type(ex).__name__
            return [], call, None
        stats["raised"].append({"kind": kind.name, "prec": p, "exc": repr(ex)[:100]})
        return [], call, "raised %s where the function is defined" % (repr(ex)[:80],)
    if expect_raise:
        return [], call, "pole: the call returned %r instead of raising" % (y,)
    ys = list(y) if isinstance(y, (tuple, list)) else [y]
    yvs = [value_of(v) for v in ys]
    call["result"] = [[str(v) if not isinstance(v, Fraction) else list(dyadic(v)) for v in yv[1:]] for yv in yvs]
    eps = eps_of(p)
    meta = {"fn": kind.fn, "regime": kind.regime, "p": p, "call": cid, "kind_name": kind.name}
    pr = dict(params or {}); pr.update((kind.params(p) if callable(kind.params) else kind.params) or {})
    try:
        if kind.build:
            r = kind.build(cid, kind, args, p, yvs, eps, meta, pr)
            new, viol = r if isinstance(r, tuple) else (r, None)
        else:
            new, viol = default_build(cid, kind, args, p, yvs[0], eps, meta, pr)
    except (Skip, cert.EstimateError, ZeroDivisionError, ValueError, OverflowError) as ex:
        stats["skipped"] += 1
        stats["skip_notes"].append("%s: %s" % (kind.name, str(ex)[:80]))
        return [], None, None
    new = [i for i in new if "estimate_error" not in i.meta] if new else []
    return new, call, viol


def new_stats():
    return {"raised": [], "skipped": 0, "decision_table_ok": 0, "skip_notes": []}


def pick_prec(rng, kind, precs):
    ps = kind.precs or precs
    if kind.maxprec:
        ps = [q for q in ps if q <= kind.maxprec] or [kind.maxprec]
    return rng.choice(ps)


def generate(kinds, rng, tier_, n_calls, precs, params=None):
    from mpmath import mp
    ks = [k for k in kinds if tier_ in k.tiers]
    insts, calls, direct = [], {}, []
    stats = new_stats()
    wts = [k.w for k in ks]
    # every kind once (in random order), then by weight
    order = list(ks); rng.shuffle(order)
    seq = order[:n_calls] + [rng.choices(ks, weights=wts)[0] for _ in range(max(0, n_calls - len(order)))]
    for i, k in enumerate(seq):
        p = pick_prec(rng, k, precs)
        try:
            args = k.gen(rng, p)
        except Skip:
            stats["skipped"] += 1; continue
        if not isinstance(args, list):
            args = [args]
        cid = "c%04d_%s" % (i, k.name)
        new, call, viol = one_case(mp, cid, k, args, p, stats, params)
        if call is not None:
            calls[cid] = call
        if viol:
            direct.append((viol, call))
        insts += new
        cert.reset_cache()
    return insts, calls, direct, stats


def _is_integral(ins):
    return ins.kind == "RI" or getattr(ins._goal, "has_rint", False)


def _two_phase(orig):
    """cert.certify puts at least 4 lemmas into every batch file, which serialises expensive integral lemmas (and a cheap lemma
    queued behind a slow one is lost when the budget expires).  This wrapper makes the groups itself -- integral lemmas one or two
    per file, cheap lemmas about five per file -- and runs cert.certify once per group (jobs=1) in a thread pool, all groups under
    the same deadline.  Verdict semantics are unchanged (each group is certified by the unmodified cert.certify)."""
    from concurrent.futures import ThreadPoolExecutor

    def certify(instances, tactic_params=None, jobs=16, timeout=None, tag="misc", clean=True):
        insts = list(instances)
        heavy = sorted([i for i in insts if _is_integral(i)], key=lambda i: -i.prec)
        cheap = sorted([i for i in insts if not _is_integral(i)], key=lambda i: -i.prec)
        if len(insts) < 8:
            return orig(insts, tactic_params=tactic_params, jobs=jobs, timeout=timeout, tag=tag, clean=clean)
        t0 = time.time()
        nh = max(1, min(len(heavy), jobs))
        hg = [heavy[k::nh] for k in range(nh)] if heavy else []
        nc = max(1, min(jobs, (len(cheap) + 3) // 4)) if cheap else 0
        cg = [cheap[k::nc] for k in range(nc)] if cheap else []
        groups = [g for g in cg + hg if g]              # cheap groups get the first threads

        def one(arg):
            k, g = arg
            rem = None if timeout is None else timeout - (time.time() - t0)
            if rem is not None and rem < 12:             # a group that gets its thread after the deadline is not started
                V = {}
                for ins in g:
                    v = {"verdict": "inconclusive", "step": "budget", "prec": ins.prec, "secs": 0.0, "file": "",
                         "note": "time budget exhausted", "kind": ins.kind, "trivial": ins.trivial}
                    v.update(ins.meta); V[ins.id] = v
                P0 = dict(cert.DEFAULT_PARAMS); P0.update(tactic_params or {})
                return {"verdicts": V, "cmds": [], "counts": {"pass": 0, "fail": 0, "inconclusive": len(g)},
                        "dir": os.path.join(cert.CERT_ROOT, cert._safe(tag)), "params": P0, "wall_s": 0.0}
            return orig(g, tactic_params=tactic_params, jobs=1, timeout=rem, tag="%s_g%02d" % (tag, k), clean=clean)
        with ThreadPoolExecutor(max(1, jobs)) as ex:
            results = list(ex.map(one, list(enumerate(groups))))
        base = os.path.join(cert.CERT_ROOT, cert._safe(tag))
        os.makedirs(base, exist_ok=True)
        out = {"verdicts": {}, "cmds": [], "counts": {"pass": 0, "fail": 0, "inconclusive": 0}, "dir": base,
               "params": results[0]["params"]}
        for r in results:
            for v in r["verdicts"].values():
                if v.get("file") and r["dir"] != base:
                    v["file"] = os.path.join("..", os.path.basename(r["dir"]), v["file"])
            out["verdicts"].update(r["verdicts"])
            out["cmds"] += r["cmds"]
            for kk in out["counts"]:
                out["counts"][kk] += r["counts"][kk]
        out["wall_s"] = round(time.time() - t0, 2)
        return out
    return certify


def run_kinds(rep, kinds, tier_, rng, n_quick, n_thorough, precs_quick, precs_thorough, assumptions, rule, not_decided,
              params=None, budget_quick=100, budget_thorough=1050, jobs=None):
    """the whole run() of a C18-C23 module"""
    load_known_b3(rep)
    ensure_meta()
    t0 = time.time()
    n = n_quick if tier_ == "quick" else n_thorough
    n = int(os.environ.get("VERIF_B3_N", n))                 # debugging aid
    precs = precs_quick if tier_ == "quick" else precs_thorough
    only = [s for s in os.environ.get("VERIF_B3_KINDS", "").split(",") if s]
    if only:
        kinds = [k for k in kinds if any(k.name.startswith(s) for s in only)]
    insts, calls, direct, stats = generate(kinds, rng, tier_, n, precs, params)
    tgen = time.time() - t0
    for viol, call in direct:
        c = dict(call); c["clause"] = "type/finite/pole"
        rep.violation("%s %s: %s (kind %s, prec %d)" % (rep.pid, call["fn"], viol, call["kind"], call["prec"]), c)
    P = {"sentence_timeout": 60 if tier_ == "quick" else 200, "single_timeout": 80 if tier_ == "quick" else 300}
    P.update(params or {})
    budget = (budget_quick if tier_ == "quick" else budget_thorough) - tgen
    hit = {}
    for c in calls.values():
        hit[c["kind"]] = hit.get(c["kind"], 0) + 1
    pr = {}
    for c in calls.values():
        pr[c["prec"]] = pr.get(c["prec"], 0) + 1
    if not insts:
        insts = [Instance("noop", "(0 =? 0) = true", [], kind="Z", hint="pass", trivial=True, meta={"fn": "none"})]
    orig = cert.certify
    cert.certify = _two_phase(orig)
    try:
        res = run_and_report(rep, insts, calls, tag="%s_%s" % (rep.pid, tier_), params=P, budget=max(30, budget),
                             jobs=jobs or NPROC, rule=rule, assumptions=list(assumptions) + ["NOT DECIDED by this check: " + s for s in not_decided],
                             extra_cov={})
    finally:
        cert.certify = orig
    finish_coverage(rep, res, insts, kinds, hit, pr, stats, direct, tgen, tier_)
    return res


def finish_coverage(rep, res, insts, kinds, hit, pr, stats, direct, tgen, tier_):
    V = res["verdicts"]
    consistent = [i.id for i in insts if i.meta.get("metamorphic") and V[i.id]["verdict"] == "pass"]
    meta_fail = [i.id for i in insts if i.meta.get("metamorphic") and V[i.id]["verdict"] == "fail"]
    cov = rep.coverage
    cov["certified_pass"] = cov["certified_pass"] - len(consistent)
    cov["consistent_metamorphic"] = len(consistent)
    cov["metamorphic_instances"] = sum(1 for i in insts if i.meta.get("metamorphic"))
    cov["metamorphic_certified_fail"] = len(meta_fail)
    cov["metamorphic_note"] = ("a metamorphic instance whose residual is within the bound is counted 'consistent' (it proves "
                               "nothing about either value) and is excluded from certified_pass")
    cov["kinds_in_registry"] = len(kinds)
    cov["kinds_hit"] = len(hit)
    cov["calls_by_kind"] = dict(sorted(hit.items()))
    cov["precisions"] = {str(k): v for k, v in sorted(pr.items())}
    cov["decision_table_pole_raises_ok"] = stats["decision_table_ok"]
    cov["calls_raised"] = stats["raised"][:20]
    cov["calls_raised_count"] = len(stats["raised"])
    cov["skipped_cases"] = stats["skipped"]
    cov["skip_notes"] = stats["skip_notes"][:10]
    cov["direct_violations"] = len(direct)
    cov["generation_wall_s"] = round(tgen, 1)
    cov["eps"] = "2^(8-p) relative, in modulus"
    cov["trusted_base"] = list(cov.get("trusted_base", [])) + meta_trusted_base()
    cov["checker_cmd"] = ("COQPATH=/verif/build/coqpath; " + cov.get("checker_cmd", "") +
                          " ; Meta lemmas: cd /verif/coq_meta && coqc -Q . META Meta.v")
    cov["tier"] = tier_


def replay_kinds(rep, path, kinds):
    """replay one recorded case: the stored .v text must still compile, and the call is re-run on the current tree"""
    load_known_b3(rep)
    ensure_meta()
    with open(path) as f:
        d = json.load(f)
    r = d["replay"]
    from mpmath import mp
    K = {k.name: k for k in kinds}
    k = K[r["kind"]]
    args = [dec_arg(a) for a in r["args"]]
    stats = new_stats()
    cid = "replay_%s" % k.name
    new, call, viol = one_case(mp, cid, k, args, r["prec"], stats)
    if viol:
        c = dict(call or {}); c["clause"] = "type/finite/pole"
        rep.violation("%s %s: %s (kind %s, prec %d)" % (rep.pid, k.fn, viol, k.name, r["prec"]), c)
    if not new:
        new = [Instance("noop", "(0 =? 0) = true", [], kind="Z", hint="pass", trivial=True, meta={"fn": "none"})]
    res = run_and_report(rep, new, {cid: call} if call else {}, tag=rep.pid + "_replay", params=None,
                         rule="replay of one recorded call")
    finish_coverage(rep, res, new, kinds, {k.name: 1}, {r["prec"]: 1}, stats, [], 0.0, "replay")
    rep.coverage["stored_certificate_still_checks"] = None
    if r.get("coq_replay"):
        ok, out, cmd = cert.check_text(r["coq_replay"], tag=rep.pid + "_replay")
        rep.coverage["stored_certificate_still_checks"] = ok
    return res


# ============================================================================================ exact number theory helpers

_BERN = {}


def bernoulli(n):
    """Bernoulli number B_n (B_1 = -1/2) as an exact Fraction."""
    if n in _BERN: return _BERN[n]
    B = _BERN.setdefault("list", [])
    while len(B) <= n:
        m = len(B)
        if m == 0: B.append(Fraction(1)); continue
        s = sum(Fraction(math.comb(m + 1, k)) * B[k] for k in range(m))
        B.append(-s / (m + 1))
    for i, v in enumerate(B): _BERN[i] = v
    return B[n]


def bernpoly(n, x):
    x = Fraction(x)
    return sum(Fraction(math.comb(n, k)) * bernoulli(k) * x ** (n - k) for k in range(n + 1))


def eulerpoly(n, x):
    """Euler polynomial E_n(x) = 2/(n+1) * (B_{n+1}(x) - 2^(n+1) B_{n+1}(x/2))"""
    x = Fraction(x)
    return Fraction(2, n + 1) * (bernpoly(n + 1, x) - Fraction(2) ** (n + 1) * bernpoly(n + 1, x / 2))


def fac2(n):
    """double factorial of an integer n >= -1"""
    r = 1
    while n > 1:
        r *= n; n -= 2
    return r


def rand_dyadic(rng, lo, hi, bits):
    """random dyadic k/2^bits in [lo, hi]"""
    a = int(math.ceil(lo * 2 ** bits)); b = int(math.floor(hi * 2 ** bits))
    return Fraction(rng.randint(a, b), 2 ** bits)
