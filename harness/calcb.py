"""Shared helpers of the Engine-B calculus property modules C26, C27, C28, C34, C36, C42.

* a tiny symbolic layer on top of the `cert.E` terms: substitution of variables, symbolic differentiation, and a
  compiler from a term with free variables to an mpmath callable (the function handed to quad/diff/...; every
  rational constant is re-evaluated at the *current* working precision, so the callable is the same mathematical
  function as the reference term, evaluated to working precision as a user lambda would be);
* `tol_instance`: the instance `|y - ref| <= eps * max(|ref|, 1)` ("relative or absolute error below eps");
* JSON encoding of rationals, known_findings_B2.json loader.

Nothing here is trusted for a verdict: the verdicts come from the Coq lemmas emitted by cert.py; the reference terms
built with these helpers are listed under `assumptions` of each module."""
import os, json
from fractions import Fraction
import cert
from cert import E, Const, Op, ZERO, ONE, TWO, HALF, PI, lift

VERIF = cert.VERIF
KNOWN_B2 = os.path.join(VERIF, "known_findings_B2.json")
INF = "inf"
NINF = "-inf"


def load_known_b2(rep):
    if os.path.exists(KNOWN_B2):
        with open(KNOWN_B2) as f:
            d = json.load(f)
        rep.known.extend(k for k in d.get("findings", []) if k.get("property") == rep.pid)


# ------------------------------------------------------------------------------------------ rationals <-> json

def fs(x):
    """Fraction / 'inf' -> string"""
    if isinstance(x, str):
        return x
    x = Fraction(x)
    return "%d/%d" % (x.numerator, x.denominator) if x.denominator != 1 else "%d" % x.numerator


def fr(s):
    if isinstance(s, (int, Fraction)):
        return Fraction(s)
    if s in (INF, NINF, "+inf"):
        return s
    return Fraction(s)


def fsl(xs):
    return [fs(x) for x in xs]


def frl(xs):
    return [fr(x) for x in xs]


def rq(rng, nmax=4, dens=(1, 1, 2, 3, 4), nonzero=False, positive=False):
    """small random rational"""
    while True:
        v = Fraction(rng.randint(-nmax, nmax), rng.choice(dens))
        if positive:
            v = abs(v)
        if (nonzero or positive) and v == 0:
            continue
        return v


def rpoly(rng, deg, nmax=3, dens=(1, 1, 2, 3)):
    """coefficients c0..c_deg (leading one non-zero)"""
    c = [rq(rng, nmax, dens) for _ in range(deg + 1)]
    if c[-1] == 0:
        c[-1] = Fraction(1)
    return c


# ------------------------------------------------------------------------------------------ symbolic layer

def X(name="x"):
    return cert.var(name)


def poly(coeffs, x):
    """Horner form of sum c_k x^k (term)"""
    r = ZERO
    for c in reversed(list(coeffs)):
        r = r * x + Const(Fraction(c))
    return r


def pderiv(coeffs):
    return [k * Fraction(c) for k, c in enumerate(coeffs)][1:] or [Fraction(0)]


def pval(coeffs, x):
    r = Fraction(0)
    for c in reversed(list(coeffs)):
        r = r * x + Fraction(c)
    return r


def pmul(a, b):
    r = [Fraction(0)] * (len(a) + len(b) - 1)
    for i, x in enumerate(a):
        for j, y in enumerate(b):
            r[i + j] += Fraction(x) * Fraction(y)
    return r


def padd(a, b):
    n = max(len(a), len(b))
    return [(Fraction(a[i]) if i < len(a) else 0) + (Fraction(b[i]) if i < len(b) else 0) for i in range(n)]


def subst(e, env, memo=None):
    """replace var(name) by env[name] (terms); rebuilt with the folding constructors of cert"""
    if memo is None:
        memo = {}
    k = id(e)
    if k in memo:
        return memo[k]
    if isinstance(e, Const):
        r = e
    else:
        o, a = e.op, e.args
        if o == "var":
            r = lift(env[a[0]]) if a[0] in env else e
        elif o == "PI":
            r = e
        elif o == "powz":
            r = cert.powz(subst(a[0], env, memo), a[1])
        elif o == "rint":
            raise ValueError("subst under RInt")
        else:
            xs = [subst(x, env, memo) for x in a]
            r = {"+": cert.add, "-": cert.sub, "*": cert.mul, "/": cert.div}[o](*xs) if o in "+-*/" else \
                {"neg": cert.neg, "abs": cert.rabs, "sqrt": cert.sqrt, "exp": cert.exp, "ln": cert.ln, "sin": cert.sin,
                 "cos": cert.cos, "atan": cert.atan}[o](*xs)
    memo[k] = r
    return r


def deriv(e, name, memo=None):
    """d/d(name) of a term (symbolic, textbook rules)"""
    if memo is None:
        memo = {}
    k = id(e)
    if k in memo:
        return memo[k]
    if isinstance(e, Const):
        r = ZERO
    else:
        o, a = e.op, e.args
        D = lambda t: deriv(t, name, memo)
        if o == "var":
            r = ONE if a[0] == name else ZERO
        elif o == "PI":
            r = ZERO
        elif o == "+":
            r = D(a[0]) + D(a[1])
        elif o == "-":
            r = D(a[0]) - D(a[1])
        elif o == "*":
            r = D(a[0]) * a[1] + a[0] * D(a[1])
        elif o == "/":
            if isinstance(a[1], Const):
                r = D(a[0]) / a[1]
            else:
                r = (D(a[0]) * a[1] - a[0] * D(a[1])) / (a[1] * a[1])
        elif o == "neg":
            r = -D(a[0])
        elif o == "powz":
            r = Const(a[1]) * cert.powz(a[0], a[1] - 1) * D(a[0])
        elif o == "abs":
            r = D(a[0]) * a[0] / e
        elif o == "exp":
            r = e * D(a[0])
        elif o == "ln":
            r = D(a[0]) / a[0]
        elif o == "sin":
            r = cert.cos(a[0]) * D(a[0])
        elif o == "cos":
            r = -(cert.sin(a[0]) * D(a[0]))
        elif o == "atan":
            r = D(a[0]) / (ONE + a[0] * a[0])
        elif o == "sqrt":
            r = D(a[0]) / (TWO * e)
        else:
            raise ValueError("deriv: " + o)
    memo[k] = r
    return r


def nderiv(e, name, n):
    for _ in range(n):
        e = deriv(e, name)
    return e


def _src(e, memo):
    k = id(e)
    if k in memo:
        return memo[k]
    if isinstance(e, Const):
        n, d = e.v.numerator, e.v.denominator
        s = ("(%d)" % n) if d == 1 else "_q(%d,%d)" % (n, d)
    else:
        o, a = e.op, e.args
        if o in ("+", "-", "*", "/"):
            s = "(%s %s %s)" % (_src(a[0], memo), o, _src(a[1], memo))
        elif o == "neg":
            s = "(-%s)" % _src(a[0], memo)
        elif o == "abs":
            s = "abs(%s)" % _src(a[0], memo)
        elif o in ("sqrt", "exp", "ln", "sin", "cos", "atan"):
            s = "_%s(%s)" % (o, _src(a[0], memo))
        elif o == "PI":
            s = "(+_pi)"
        elif o == "powz":
            s = "(%s ** (%d))" % (_src(a[0], memo), a[1])
        elif o == "var":
            s = a[0]
        else:
            raise ValueError("compile: " + o)
    memo[k] = s
    return s


def compile_mp(e, argnames, ctx):
    """term with free variables `argnames` -> Python callable on mpmath numbers of ctx.
    A rational constant n/d is computed as mpf(n)/d at the working precision in force when the callable runs."""
    e = lift(e)
    src = "lambda %s: %s" % (", ".join(argnames), _src(e, {}))
    mpf = ctx.mpf
    env = {"_q": lambda n, d: mpf(n) / d, "_pi": ctx.pi, "_sqrt": ctx.sqrt, "_exp": ctx.exp, "_ln": ctx.ln,
           "_sin": ctx.sin, "_cos": ctx.cos, "_atan": ctx.atan, "abs": abs}
    f = eval(src, env)
    if isinstance(e, Const):           # constant function: return an mpf, not a Python int
        c = e
        return eval("lambda %s: _q(%d,%d)" % (", ".join(argnames), c.v.numerator, c.v.denominator), env)
    return f


def source(e):
    return _src(lift(e), {})


def at(e, name, v):
    """value of the term at name := v (v Fraction or term)"""
    return subst(e, {name: lift(v)})


def num(e, prec=120):
    """untrusted numeric value (mpmath) of a closed term"""
    return cert.approx(lift(e), prec)


# ------------------------------------------------------------------------------------------ exact values

def frac_of(y):
    """finite mpf/float/int -> Fraction, else None"""
    if hasattr(y, "_mpf_"):
        t = y._mpf_
        if t[1] == 0 and t[2] != 0:
            return None
        return cert.mpf_fraction(t)
    if isinstance(y, int):
        return Fraction(y)
    if isinstance(y, float):
        import math
        return Fraction(y) if math.isfinite(y) else None
    if hasattr(y, "_mpc_"):
        a, b = y._mpc_
        if (a[1] == 0 and a[2] != 0) or (b[1] == 0 and b[2] != 0):
            return None
        if cert.mpf_fraction(b) != 0:
            return None
        return cert.mpf_fraction(a)
    return None


def to_mpf(ctx, v):
    """Fraction -> mpf correctly rounded at the current precision (exact for dyadics that fit); 'inf' strings -> inf"""
    if isinstance(v, str):
        return ctx.inf if v in (INF, "+inf") else ctx.ninf
    v = Fraction(v)
    if v.denominator == 1:
        return ctx.mpf(v.numerator)
    return ctx.mpf(v.numerator) / v.denominator


# ------------------------------------------------------------------------------------------ instances

def tol_instance(iid, y, ref, eps, meta=None, params=None, abs_floor=ONE, conds=()):
    """|y - ref| <= eps * max(|ref|, abs_floor)   (abs_floor = 1: 'relative or absolute error below eps').
    The bound is attempted against the (numerically) larger of the two scales only, which is sufficient; the negation
    is stated against both."""
    ref = lift(ref)
    eps = Fraction(eps)
    if abs_floor is None:
        return cert.rel_instance(iid, y, ref, eps, params=params, meta=meta, conds=conds)
    fl = lift(abs_floor)
    if ref.is_const():
        return cert.rel_instance(iid, y, ref, eps, scale=ref, other_scales=[fl], params=params, meta=meta, conds=conds)
    try:
        big = abs(num(ref, 80)) >= abs(num(fl, 80))
    except Exception:
        big = False
    if big:
        return cert.rel_instance(iid, y, ref, eps, scale=ref, other_scales=[fl], params=params, meta=meta, conds=conds)
    return cert.rel_instance(iid, y, ref, eps, scale=fl, other_scales=[ref], params=params, meta=meta, conds=conds)


def q_tol_instance(iid, err, bound, meta=None, trivial=None):
    """exact rational goal err <= bound (both Fractions), decided over Z by vm_compute"""
    err = Fraction(err); bound = Fraction(bound)
    return cert.Instance(iid, cert.q_le_text(err, bound), [cert.q_lt_text(bound, err)], kind="Z",
                         hint="pass" if err <= bound else "fail", meta=meta,
                         trivial=(err == 0) if trivial is None else trivial)


def eps_of(p, k=10):
    return Fraction(2) ** (k - p)


def finish_meta(rep, extra):
    rep.coverage.update(extra)


def fit_budget(insts, budget_s, per_s=4.0, floor=40):
    """Keep every instance that is not predicted to pass (they need the ladder stage, which cert.certify runs last) and
    at most `cap` of the predicted-pass ones, cap growing with the remaining time budget -- so that a slow generation
    phase (loaded machine, degraded implementation) cannot starve the certification of the suspicious cases.
    -> (kept, number dropped).  Dropped instances are reported as not attempted; they are never counted as passes."""
    cap = max(floor, int(budget_s * per_s))
    sus = [i for i in insts if i.hint != "pass"]
    ok = [i for i in insts if i.hint == "pass"]
    keep_ok = ok[:max(0, cap - len(sus))]
    return sus + keep_ok, len(ok) - len(keep_ok)
