#!/bin/sh
# usage: seedcheck.sh <PROPERTY> <worktree> [extra-check-properties...]
# For every confirmed change under <worktree>/_out/m*: apply it to /repo, run the property's quick check, undo it straight
# afterwards, and store patch/demo/meta under /verif/seeded/<PROPERTY>-m<k>/.
P=$1; WT=$2; shift 2; EXTRA="$@"
for D in $WT/_out/m*; do
  k=$(basename $D); NAME=$P-$k; OUT=/verif/seeded/$NAME
  c=$(cat $D/confirm.txt 2>/dev/null)
  case "$c" in "clean=0 mutated=1 tests=0"*) ;; *) echo "$NAME: NOT CONFIRMED ($c)"; continue;; esac
  cd /repo && git apply $D/patch.diff || { echo "$NAME: patch does not apply to /repo"; continue; }
  det=""; rc_check=0; nv=0
  for Q in $P $EXTRA; do
    # the evidence file of a run against a changed tree must not replace the one of the unchanged tree
    cp /verif/evidence/$Q.json /tmp/sk_evidence_$Q.json 2>/dev/null
    cd /verif && ./check $Q --tier quick > /tmp/sk_check_$Q.out 2>&1; rc=$?
    cp /tmp/sk_evidence_$Q.json /verif/evidence/$Q.json 2>/dev/null
    n=$(grep -c '^VIOLATION' /tmp/sk_check_$Q.out)
    if [ $rc -eq 1 ] && [ $n -gt 0 ]; then det="$det $Q"; fi
    if [ "$Q" = "$P" ]; then rc_check=$rc; nv=$n; fi
  done
  cd /repo && git checkout -q -- .
  mkdir -p $OUT && cp $D/patch.diff $D/demo.py $OUT/
  tests=$(echo "$c" | cut -d' ' -f4-)
  /venv/bin/python - "$D/meta.json" "$OUT/meta.json" "$P" "$rc_check" "$nv" "$tests" "$det" <<'PY'
import json,sys
src,dst,P,rc,nv,tests,det=sys.argv[1:]
try: m=json.load(open(src))
except Exception: m={}
m.update({"property":P,"confirmed":{"demo_on_clean_tree":"exit 0","demo_with_change":"exit 1","existing_test_suite_with_change":tests},
          "check_run":"git -C /repo apply patch.diff && ./check %s --tier quick; git -C /repo checkout -- ."%P,
          "check_exit":int(rc),"violation_lines":int(nv),"detected":int(rc)==1 and int(nv)>0,"detected_by":det.split()})
json.dump(m,open(dst,"w"),indent=1)
PY
  echo "$NAME: confirmed; check rc=$rc_check violations=$nv detected_by=[$det]"
done
