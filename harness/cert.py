"""Engine B core: per-instance Coq certificates (Coq Interval / vm_compute).

Three parts (see the docstrings):

  (a) a small expression DSL for real terms (`E` and the constructor functions `Q, dy, mpfc, PI, sqrt, exp,
      ln, sin, cos, tan, atan, powz, rint, var`) with a printer to Coq concrete syntax (`E.coq()`), an
      *untrusted* numeric evaluator used only to choose tactic parameters and to schedule the work
      (`estimate`), and complex helpers working on pairs of real expressions (`Cx`, `cexp, clog, csqrt, cmul,
      cdiv, cpow, csin, ccos, ctan, csinh, ccosh, ctanh, catan2 ...`);
  (b) `certify(instances, tactic_params, jobs, timeout, tag)` -> verdicts in {"pass","fail","inconclusive"};
  (c) `trusted_base()` -> list of strings parsed from `Print Assumptions` of a representative lemma.

Soundness never depends on the Python side: a verdict "pass" means coqc executed `Lemma .. : G. Proof. tac. Qed.`
for the *bound* G without error, "fail" means it did so for (one alternative of) the *negation* of G.  Everything
numeric done in Python (precision estimates, pass/fail hints, quadrant hints) only decides which lemma text is
attempted first and with which `i_prec`; quadrant/sign hints used inside a reference formula are re-emitted as side
conditions that are part of the certified statement.
"""
import os, re, sys, time, json, subprocess, hashlib, shutil
from fractions import Fraction
from concurrent.futures import ThreadPoolExecutor

VERIF = os.path.dirname(os.path.dirname(os.path.abspath(__file__)))
CERT_ROOT = os.path.join(VERIF, "build", "cert")

sys.set_int_max_str_digits(0)


# =====================================================================================================
# (a) expression DSL
# =====================================================================================================

def _ispow2(n):
    return n > 0 and (n & (n - 1)) == 0


class E(object):
    """A real-valued term.  Build with the module-level constructors; combine with + - * / ** (integer) abs()."""
    __slots__ = ()

    def __add__(a, b): return add(a, lift(b))
    def __radd__(a, b): return add(lift(b), a)
    def __sub__(a, b): return sub(a, lift(b))
    def __rsub__(a, b): return sub(lift(b), a)
    def __mul__(a, b): return mul(a, lift(b))
    def __rmul__(a, b): return mul(lift(b), a)
    def __truediv__(a, b): return div(a, lift(b))
    def __rtruediv__(a, b): return div(lift(b), a)
    def __neg__(a): return neg(a)
    def __abs__(a): return rabs(a)
    def __pow__(a, n): return powz(a, n)

    def is_const(self): return False
    def coq(self): raise NotImplementedError
    def __repr__(self):
        s = self.coq()
        return s if len(s) < 200 else s[:200] + "..."


class Const(E):
    """Exact rational constant.  Dyadics print as `(IZR m * / IZR (2^k))` / `(IZR m * IZR (2^k))`, other rationals as
    `(IZR n / IZR d)`; only Z literals are emitted."""
    __slots__ = ("v",)

    def __init__(self, v):
        self.v = Fraction(v)

    def is_const(self): return True

    def coq(self):
        n, d = self.v.numerator, self.v.denominator
        if d == 1:
            if n == 0:
                return "0"
            tz = (abs(n) & -abs(n)).bit_length() - 1
            if tz >= 64:
                return "(IZR (%d) * IZR (2^%d))" % (n >> tz, tz)
            return "(IZR (%d))" % n if n < 0 else "(IZR %d)" % n
        if _ispow2(d):
            return "(IZR (%d) * / IZR (2^%d))" % (n, d.bit_length() - 1)
        return "(IZR (%d) / IZR %d)" % (n, d)


class Op(E):
    __slots__ = ("op", "args")

    def __init__(self, op, *args):
        self.op = op
        self.args = args

    def coq(self):
        o, a = self.op, self.args
        if o in ("+", "-", "*", "/"):
            return "(%s %s %s)" % (a[0].coq(), o, a[1].coq())
        if o == "neg":
            return "(- %s)" % a[0].coq()
        if o == "abs":
            return "(Rabs %s)" % a[0].coq()
        if o in ("sqrt", "exp", "ln", "sin", "cos", "atan"):
            return "(%s %s)" % (o, a[0].coq())
        if o == "PI":
            return "PI"
        if o == "powz":
            return "(powerRZ %s (%d)%%Z)" % (a[0].coq(), a[1])
        if o == "var":
            return a[0]
        if o == "rint":
            return "(RInt (fun %s => %s) %s %s)" % (a[0], a[1].coq(), a[2].coq(), a[3].coq())
        raise ValueError(o)


def lift(x):
    if isinstance(x, E):
        return x
    if isinstance(x, (int, Fraction)):
        return Const(x)
    if isinstance(x, float):
        return Const(Fraction(x))          # exact binary value of the float
    if hasattr(x, "_mpf_"):
        return mpfc(x._mpf_)
    if isinstance(x, tuple) and len(x) == 4:
        return mpfc(x)
    raise TypeError("cannot lift %r to a real term" % (x,))


def Q(n, d=1):
    return Const(Fraction(n, d))


def dy(m, e=0):
    """m * 2^e (m any int)."""
    return Const(Fraction(m) * Fraction(2) ** e)


def mpf_fraction(t):
    """Exact value of a finite raw mpf tuple (sign, man, exp, bc) as a Fraction (the sign is read from the tuple)."""
    s, m, e, b = t
    if m == 0 and e != 0:
        raise ValueError("not finite: %r" % (t,))
    v = Fraction(m) * Fraction(2) ** e
    return -v if s else v


def mpfc(t):
    return Const(mpf_fraction(t))


ZERO, ONE, TWO, HALF = Const(0), Const(1), Const(2), Const(Fraction(1, 2))
PI = Op("PI")


def _c(a):
    return a.v if isinstance(a, Const) else None


def add(a, b):
    x, y = _c(a), _c(b)
    if x is not None and y is not None: return Const(x + y)
    if x == 0: return b
    if y == 0: return a
    if isinstance(b, Op) and b.op == "neg": return Op("-", a, b.args[0])
    if y is not None and y < 0: return Op("-", a, Const(-y))
    return Op("+", a, b)


def sub(a, b):
    x, y = _c(a), _c(b)
    if x is not None and y is not None: return Const(x - y)
    if y == 0: return a
    if x == 0: return neg(b)
    if isinstance(b, Op) and b.op == "neg": return Op("+", a, b.args[0])
    if y is not None and y < 0: return Op("+", a, Const(-y))
    return Op("-", a, b)


def mul(a, b):
    x, y = _c(a), _c(b)
    if x is not None and y is not None: return Const(x * y)
    if x == 0 or y == 0: return ZERO
    if x == 1: return b
    if y == 1: return a
    if x == -1: return neg(b)
    if y == -1: return neg(a)
    if a is b and isinstance(a, Op) and a.op == "sqrt": return a.args[0]      # sqrt(c)*sqrt(c) = c  (c >= 0 was checked)
    return Op("*", a, b)


def div(a, b):
    x, y = _c(a), _c(b)
    if y == 0: raise ZeroDivisionError("reference term divides by the constant 0")
    if x is not None and y is not None: return Const(x / y)
    if x == 0: return ZERO
    if y == 1: return a
    if y == -1: return neg(a)
    if y is not None and ((y.denominator == 1 and _ispow2(abs(y.numerator))) or
                          (abs(y.numerator) == 1 and _ispow2(y.denominator))):
        return mul(a, Const(1 / y))        # division by +-2^k: an exact dyadic factor
    return Op("/", a, b)


def neg(a):
    x = _c(a)
    if x is not None: return Const(-x)
    if isinstance(a, Op) and a.op == "neg": return a.args[0]
    return Op("neg", a)


def rabs(a):
    x = _c(a)
    if x is not None: return Const(abs(x))
    if isinstance(a, Op) and a.op in ("abs", "sqrt", "exp"): return a
    return Op("abs", a)


def _isqrt_exact(fr):
    from math import isqrt
    n, d = fr.numerator, fr.denominator
    if n < 0: return None
    rn, rd = isqrt(n), isqrt(d)
    if rn * rn == n and rd * rd == d: return Fraction(rn, rd)
    return None


def sqrt(a):
    a = lift(a)
    x = _c(a)
    if x is not None:
        if x < 0: raise ValueError("sqrt of a negative constant in a reference term")
        r = _isqrt_exact(x)
        if r is not None: return Const(r)
    return Op("sqrt", a)


def exp(a):
    a = lift(a)
    if _c(a) == 0: return ONE
    return Op("exp", a)


def ln(a):
    a = lift(a)
    x = _c(a)
    if x is not None and x <= 0: raise ValueError("ln of a non-positive constant in a reference term")
    if x == 1: return ZERO
    return Op("ln", a)


def sin(a):
    a = lift(a)
    if _c(a) == 0: return ZERO
    return Op("sin", a)


def cos(a):
    a = lift(a)
    if _c(a) == 0: return ONE
    return Op("cos", a)


def tan(a):
    """tan is always emitted as sin/cos (Interval does not reify `tan` reliably near its poles)."""
    a = lift(a)
    return div(sin(a), cos(a))


def atan(a):
    a = lift(a)
    if _c(a) == 0: return ZERO
    return Op("atan", a)


def powz(a, n):
    """Integer power.  Constants are folded exactly; otherwise `powerRZ a n`."""
    a = lift(a)
    if not isinstance(n, int): raise TypeError("powz exponent must be a Python int")
    x = _c(a)
    if n == 0: return ONE
    if n == 1: return a
    if x is not None:
        if x == 0 and n < 0: raise ZeroDivisionError
        return Const(x ** n)
    return Op("powz", a, n)


def var(name):
    return Op("var", name)


def rint(name, body, a, b):
    """RInt (fun name => body) a b  -- body built with var(name)."""
    return Op("rint", name, lift(body), lift(a), lift(b))


def sinh(a): a = lift(a); return (exp(a) - exp(-a)) * HALF
def cosh(a): a = lift(a); return (exp(a) + exp(-a)) * HALF


def tanh(a):
    a = lift(a)
    if _c(a) == 0: return ZERO
    # (1 - e^{-2|a|})/(1 + e^{-2|a|}) with the sign of a -- no overflow for huge |a|
    x = _c(a)
    if x is not None:
        e2 = exp(Const(-2 * abs(x)))
        r = (1 - e2) / (1 + e2)
        return r if x > 0 else -r
    e2 = exp(2 * a)
    return (e2 - 1) / (e2 + 1)


# ----------------------------------------------------------------------------- untrusted numeric evaluation

_CTX = None


def _ctx():
    global _CTX
    if _CTX is None:
        import mpmath
        _CTX = mpmath.mp.clone()
    return _CTX


class EstimateError(Exception):
    pass


def _mag(ctx, v):
    if v == 0:
        return None
    return int(ctx.mag(v))


def _ev(e, ctx, env):
    """-> (value: ctx.mpf, loss: int).  loss = estimated number of bits by which the relative accuracy of an
    interval evaluation of e at precision P falls short of P (condition-number bookkeeping, heuristic)."""
    if isinstance(e, Const):
        n, d = e.v.numerator, e.v.denominator
        return ctx.mpf(n) / d, 0
    o, a = e.op, e.args
    if o == "PI":
        return +ctx.pi, 0
    if o == "var":
        return env[a[0]], 0
    if o == "rint":
        lo, _ = _ev(a[2], ctx, env); hi, _ = _ev(a[3], ctx, env)
        def f(t):
            env2 = dict(env); env2[a[0]] = t
            return _ev(a[1], ctx, env2)[0]
        return ctx.quad(f, [lo, hi]), 0
    if o == "powz":
        v, l = _ev(a[0], ctx, env)
        return v ** a[1], l + abs(a[1]).bit_length() + 1
    vs = [_ev(x, ctx, env) for x in a]
    if o in ("+", "-"):
        (x, lx), (y, ly) = vs
        r = x + y if o == "+" else x - y
        mr = _mag(ctx, r)
        if mr is None:
            return r, 1 << 30
        cand = [m + l for m, l in ((_mag(ctx, x), lx), (_mag(ctx, y), ly)) if m is not None]
        return r, max(0, max(cand) - mr) + 1
    if o == "*":
        (x, lx), (y, ly) = vs
        return x * y, max(lx, ly) + 1
    if o == "/":
        (x, lx), (y, ly) = vs
        if y == 0: raise EstimateError("division by zero in reference term")
        return x / y, max(lx, ly) + 1
    x, lx = vs[0]
    if o == "neg": return -x, lx
    if o == "abs": return abs(x), lx
    if o == "sqrt":
        if x < 0: raise EstimateError("sqrt of negative in reference term")
        return ctx.sqrt(x), lx
    mx = _mag(ctx, x)
    if o == "exp":
        return ctx.exp(x), (max(0, mx + lx) if mx is not None else 0) + 1
    if o == "ln":
        if x <= 0: raise EstimateError("ln of non-positive in reference term")
        r = ctx.ln(x); mr = _mag(ctx, r)
        if mr is None: return r, 1 << 30
        return r, max(0, lx - mr) + 1
    if o in ("sin", "cos"):
        r = ctx.sin(x) if o == "sin" else ctx.cos(x)
        mr = _mag(ctx, r)
        if mr is None: return r, 1 << 30
        if mx is None: return r, 1
        return r, max(0, mx + lx - mr) + 1
    if o == "atan":
        r = ctx.atan(x); mr = _mag(ctx, r)
        if mr is None: return r, 1
        return r, max(0, mx + lx - 2 * max(0, mx) - mr) + 1
    raise ValueError(o)


def estimate(e, base_prec, cap=60000):
    """Untrusted: (value at a generous working precision, estimated extra bits needed).  Re-evaluates at a higher
    working precision when the measured loss exceeds what the current one can resolve."""
    ctx = _ctx()
    wp = base_prec + 128
    for _ in range(6):
        ctx.prec = wp
        v, loss = _ev(e, ctx, {})
        if loss >= (1 << 29):
            if wp > cap:
                raise EstimateError("reference term evaluates to 0 at %d bits" % wp)
            wp = wp * 2 + 256
            continue
        if base_prec + loss + 96 <= wp:
            return v, loss
        wp = base_prec + loss + 160
        if wp > cap * 2:
            raise EstimateError("reference term too ill-conditioned (loss %d bits)" % loss)
    return v, loss


def approx(e, prec=200):
    ctx = _ctx(); ctx.prec = prec
    return _ev(e, ctx, {})[0]


# ----------------------------------------------------------------------------- complex helpers

class Cx(object):
    """Complex value as a pair of real terms plus `conds`: side conditions (lhs, op, rhs) with op in {"<","<="}
    that were *assumed* (from an untrusted numeric hint) when a branch of a formula was selected (sign of a
    non-constant real/imaginary part in atan2/csqrt).  They must be certified together with the instance
    (`rel_instance(..., conds=z.conds)` does that)."""
    __slots__ = ("re", "im", "conds")

    def __init__(self, re_, im_=0, conds=()):
        self.re = lift(re_); self.im = lift(im_); self.conds = tuple(conds)

    def __add__(a, b): b = cx(b); return Cx(a.re + b.re, a.im + b.im, a.conds + b.conds)
    def __radd__(a, b): return cx(b) + a
    def __sub__(a, b): b = cx(b); return Cx(a.re - b.re, a.im - b.im, a.conds + b.conds)
    def __rsub__(a, b): return cx(b) - a
    def __mul__(a, b): return cmul(a, cx(b))
    def __rmul__(a, b): return cmul(cx(b), a)
    def __truediv__(a, b): return cdiv(a, cx(b))
    def __rtruediv__(a, b): return cdiv(cx(b), a)
    def __neg__(a): return Cx(-a.re, -a.im, a.conds)
    def __pow__(a, n): return cpow(a, n)
    def conj(a): return Cx(a.re, -a.im, a.conds)
    def times_i(a): return Cx(-a.im, a.re, a.conds)
    def times_neg_i(a): return Cx(a.im, -a.re, a.conds)
    def __repr__(self): return "Cx(%r, %r)" % (self.re, self.im)


def cx(z):
    if isinstance(z, Cx): return z
    if isinstance(z, complex): return Cx(z.real, z.imag)
    if hasattr(z, "_mpc_"): return Cx(mpfc(z._mpc_[0]), mpfc(z._mpc_[1]))
    return Cx(lift(z), ZERO)


def cmul(a, b):
    return Cx(a.re * b.re - a.im * b.im, a.re * b.im + a.im * b.re, a.conds + b.conds)


def cdiv(a, b):
    if _c(b.im) == 0:
        return Cx(a.re / b.re, a.im / b.re, a.conds + b.conds)
    d = b.re * b.re + b.im * b.im
    return Cx((a.re * b.re + a.im * b.im) / d, (a.im * b.re - a.re * b.im) / d, a.conds + b.conds)


def cpow(a, n):
    """Integer power by repeated squaring on the real/imaginary terms (exact for constant parts)."""
    if n < 0:
        return cdiv(Cx(1, 0), cpow(a, -n))
    r = Cx(1, 0); b = a
    while n:
        if n & 1: r = cmul(r, b)
        n >>= 1
        if n: b = cmul(b, b)
    return Cx(r.re, r.im, a.conds)


def cabs(a):
    if _c(a.im) == 0: return rabs(a.re)
    if _c(a.re) == 0: return rabs(a.im)
    return sqrt(a.re * a.re + a.im * a.im)


def _sign_of(e, conds, strict=True):
    """Sign (+1/-1/0) of a real term: exact for constants; otherwise from the numeric hint, and the assumed strict
    inequality is appended to `conds` so that it becomes part of the certified statement."""
    x = _c(e)
    if x is not None:
        return (x > 0) - (x < 0)
    if isinstance(e, Op) and e.op == "exp":
        return 1
    if isinstance(e, Op) and e.op == "sqrt" and _c(e.args[0]) is not None and _c(e.args[0]) > 0:
        return 1
    v = approx(e, 300)
    if v == 0:
        raise EstimateError("cannot decide the sign of a non-constant term that evaluates to 0")
    if v > 0:
        conds.append((ZERO, "<", e)); return 1
    conds.append((e, "<", ZERO)); return -1


def catan2(y, x, conds=None):
    """atan2(y, x) in (-pi, pi] built from atan with the quadrant decided exactly on constants (otherwise hinted
    and recorded in conds).  Returns a real term (conds is extended in place when given)."""
    y = lift(y); x = lift(x)
    if conds is None: conds = []
    sx = _sign_of(x, conds); sy = _sign_of(y, conds)
    if sx == 0 and sy == 0:
        return ZERO
    if sy == 0:
        return ZERO if sx > 0 else PI
    if sx == 0:
        return PI * HALF if sy > 0 else -(PI * HALF)
    # choose the better conditioned form: |y|<=|x| -> atan(y/x) (+-pi); else +-pi/2 - atan(x/y)
    cxv, cyv = _c(x), _c(y)
    if cxv is not None and cyv is not None:
        flat = abs(cyv) <= abs(cxv)
    else:
        flat = abs(approx(y, 100)) <= abs(approx(x, 100))
    if flat:
        t = atan(y / x)
        if sx > 0: return t
        return t + PI if sy > 0 else t - PI
    t = atan(x / y)
    return PI * HALF - t if sy > 0 else -(PI * HALF) - t


def carg(z):
    conds = list(z.conds)
    return catan2(z.im, z.re, conds), tuple(conds)


def cexp(z):
    m = exp(z.re)
    return Cx(m * cos(z.im), m * sin(z.im), z.conds)


def clog(z):
    """Principal branch: ln|z| + i*atan2(im, re), im part in (-pi, pi]."""
    conds = list(z.conds)
    th = catan2(z.im, z.re, conds)
    if _c(z.im) == 0:
        re_ = ln(rabs(z.re))
    elif _c(z.re) == 0:
        re_ = ln(rabs(z.im))
    else:
        re_ = ln(z.re * z.re + z.im * z.im) * HALF
    return Cx(re_, th, conds)


def csqrt(z):
    """Principal square root (re >= 0; on the negative real axis +i*sqrt|x|)."""
    conds = list(z.conds)
    if _c(z.im) == 0:
        s = _sign_of(z.re, conds)
        if s >= 0: return Cx(sqrt(z.re), 0, conds)
        return Cx(0, sqrt(-z.re), conds)
    r = cabs(z)
    su = _sign_of(z.re, conds) if _c(z.re) != 0 else 0
    sv = _sign_of(z.im, conds)
    if su >= 0:
        re_ = sqrt((r + z.re) * HALF)
        return Cx(re_, z.im / (2 * re_), conds)
    im_ = sqrt((r - z.re) * HALF)
    if sv < 0: im_ = -im_
    return Cx(z.im / (2 * im_), im_, conds)


def croot(z, n):
    """Principal n-th root exp(log(z)/n), n a positive int."""
    conds = list(z.conds)
    th = catan2(z.im, z.re, conds)
    if _c(z.im) == 0: m = rabs(z.re)
    elif _c(z.re) == 0: m = rabs(z.im)
    else: m = sqrt(z.re * z.re + z.im * z.im)
    rho = exp(ln(m) / n)
    return Cx(rho * cos(th / n), rho * sin(th / n), conds)


def cpow_general(z, w):
    """z**w = exp(w*log z), principal branch (z != 0)."""
    return cexp(cmul(cx(w), clog(cx(z))))


def csin(z): return Cx(sin(z.re) * cosh(z.im), cos(z.re) * sinh(z.im), z.conds)
def ccos(z): return Cx(cos(z.re) * cosh(z.im), -(sin(z.re) * sinh(z.im)), z.conds)
def csinh(z): return Cx(sinh(z.re) * cos(z.im), cosh(z.re) * sin(z.im), z.conds)
def ccosh(z): return Cx(cosh(z.re) * cos(z.im), sinh(z.re) * sin(z.im), z.conds)
def ctan(z): return cdiv(csin(z), ccos(z))
def ctanh(z): return cdiv(csinh(z), ccosh(z))


# =====================================================================================================
# goals and instances
# =====================================================================================================

def cmp_text(l, op, r):
    return "%s %s %s" % (lift(l).coq(), op, lift(r).coq())


def conj_text(atoms):
    return " /\\ ".join("(%s)" % cmp_text(*a) for a in atoms) if len(atoms) > 1 else cmp_text(*atoms[0])


HEADER_R = "From Coq Require Import Reals ZArith.\nFrom Interval Require Import Tactic.\nOpen Scope R_scope.\n"
HEADER_RINT = ("From Coq Require Import Reals ZArith.\nFrom Coquelicot Require Import Coquelicot.\n"
               "From Interval Require Import Tactic.\nOpen Scope R_scope.\n")
HEADER_Z = "From Coq Require Import ZArith Bool.\nOpen Scope Z_scope.\n"

DEFAULT_PARAMS = {
    "margin": 24,            # i_prec = -log2(eps) + estimated loss + margin
    "ladder": [1, 2],        # multipliers of i_prec tried in turn (bound, negation at each rung)
    "sentence_timeout": 60,  # Coq `Set Default Timeout` (s): a located "Timeout!" error instead of a dead file
    "single_timeout": 150,   # shell timeout for one single-lemma file (s)
    "file_timeout": 400,     # shell timeout for one batch file (s)
    "batch": 25,             # lemmas per batch file (upper bound)
    "min_prec": 40,
    "max_prec": 40000,
}


class Instance(object):
    """One certificate request.

    kind   "R"  : real goal, tactic `interval with (i_prec P)`  (P = self.prec, scaled along the ladder)
           "RI" : real goal containing RInt, tactic `integral with (i_prec P, i_fuel F, i_degree D)`
           "Z"  : closed boolean goal over Z (`... = true`), tactic `vm_compute; reflexivity`
    goal   Coq text of the bound (hypothesis-free Prop)
    negs   list of Coq texts; each one implies the negation of the property's bound (any one proved => "fail")
    hint   "pass" | "fail" | None : untrusted prediction, used for scheduling only
    trivial  True when the certificate is not a real Interval/vm_compute proof of a non-trivial fact
    meta   free dict copied into the verdict (function name, regime tag, arguments ...)"""

    def __init__(self, id, goal, negs=None, kind="R", prec=64, hint=None, tactic=None, meta=None, trivial=False):
        self.id = str(id); self.goal = goal; self.negs = list(negs or []); self.kind = kind
        self.prec = int(prec); self.hint = hint; self.tactic = tactic; self.meta = meta or {}
        self.trivial = trivial

    def tactic_text(self, prec):
        if self.tactic:
            return self.tactic.replace("{prec}", str(prec))
        if self.kind == "Z":
            return "vm_compute; reflexivity"
        if self.kind == "RI":
            return "repeat apply conj; integral with (i_prec %d, i_fuel %d, i_degree %d)" % (
                prec, self.meta.get("i_fuel", 100), self.meta.get("i_degree", 10))
        return "repeat apply conj; interval with (i_prec %d)" % prec


def _eps_bits(eps):
    e = _c(lift(eps))
    if e is None or e <= 0:
        return 64
    return max(0, e.denominator.bit_length() - e.numerator.bit_length())


def rel_instance(id, y, ref, eps, scale=None, conds=(), params=None, meta=None, other_scales=()):
    """Instance for  |y - ref| <= eps * |scale|   (scale defaults to ref: plain relative error).

    y: exact value (Fraction / raw mpf tuple / Const), ref: E, eps: Fraction/Const, conds: side conditions from Cx.
    other_scales: further terms s such that the property's bound is eps*max(|scale|, |s|...): the bound is attempted
    with `scale` only (sufficient), the negation needs eps*|s| < |y - ref| for *every* one of them.
    When `ref` folds to a rational constant the goal is decided over Z by vm_compute instead of Interval."""
    P = dict(DEFAULT_PARAMS); P.update(params or {})
    y = lift(y); ref = lift(ref); eps = lift(eps)
    scale = ref if scale is None else lift(scale)
    scales = [scale] + [lift(s) for s in other_scales]
    meta = dict(meta or {})
    if ref.is_const() and all(s.is_const() for s in scales) and not conds:
        err = abs(y.v - ref.v)
        bound = eps.v * max(abs(s.v) for s in scales)
        goal = q_le_text(err, bound)
        neg = q_lt_text(bound, err)
        triv = (err == 0)
        return Instance(id, goal, [neg], kind="Z", hint="pass" if err <= bound else "fail", meta=meta, trivial=triv)
    err = rabs(y - ref)
    atoms = [tuple(c) for c in conds] + [(err, "<=", eps * rabs(scale))]
    goal = conj_text(atoms)
    negs = [conj_text([tuple(c) for c in conds] + [(eps * rabs(s), "<", err) for s in scales])]
    loss2 = 0
    try:
        v, loss = estimate(ref, _eps_bits(eps))
        for s in scales:
            if s is not ref:
                loss2 = max(loss2, estimate(s, 64)[1] - _eps_bits(eps))   # the scale only needs a few correct bits
        for (l, _, r) in conds:
            estimate(lift(r) - lift(l), 64)                            # raises when undecidable
        ctx = _ctx()
        yv = ctx.mpf(y.v.numerator) / y.v.denominator
        sv = max(abs(approx(s, ctx.prec)) for s in scales)
        ev = ctx.mpf(eps.v.numerator) / eps.v.denominator
        hint = "pass" if abs(yv - v) <= ev * sv else "fail"
        meta["est_loss"] = loss
        if v != 0:
            meta["est_err_log2"] = float(ctx.log(abs(yv - v) / sv, 2)) if yv != v and sv != 0 else None
    except EstimateError as ex:
        meta["estimate_error"] = str(ex)
        loss, hint = 64, None
    prec = _eps_bits(eps) + max(loss, loss2) + P["margin"]
    prec = max(P["min_prec"], min(P["max_prec"], prec))
    kind = "RI" if "RInt" in goal else "R"
    return Instance(id, goal, negs, kind=kind, prec=prec, hint=hint, meta=meta)


def sign_instance(id, term, op, params=None, meta=None):
    """Instance for `0 < term`, `term < 0`, `0 <= term` ... (op in {">0","<0",">=0","<=0"}); negation included."""
    term = lift(term)
    P = dict(DEFAULT_PARAMS); P.update(params or {})
    if term.is_const():
        v = term.v
        truth = {">0": v > 0, "<0": v < 0, ">=0": v >= 0, "<=0": v <= 0}[op]
        g = {">0": q_lt_text(0, v), "<0": q_lt_text(v, 0), ">=0": q_le_text(0, v), "<=0": q_le_text(v, 0)}[op]
        n = {">0": q_le_text(v, 0), "<0": q_le_text(0, v), ">=0": q_lt_text(v, 0), "<=0": q_lt_text(0, v)}[op]
        return Instance(id, g, [n], kind="Z", hint="pass" if truth else "fail", meta=meta, trivial=True)
    g = {">0": cmp_text(ZERO, "<", term), "<0": cmp_text(term, "<", ZERO),
         ">=0": cmp_text(ZERO, "<=", term), "<=0": cmp_text(term, "<=", ZERO)}[op]
    n = {">0": cmp_text(term, "<=", ZERO), "<0": cmp_text(ZERO, "<=", term),
         ">=0": cmp_text(term, "<", ZERO), "<=0": cmp_text(ZERO, "<", term)}[op]
    try:
        v, loss = estimate(term, 32)
        truth = {">0": v > 0, "<0": v < 0, ">=0": v >= 0, "<=0": v <= 0}[op]
        hint = "pass" if truth else "fail"
    except EstimateError:
        loss, hint = 64, None
    prec = max(P["min_prec"], min(P["max_prec"], 32 + loss + P["margin"]))
    return Instance(id, g, [n], kind="R", prec=prec, hint=hint, meta=meta)


# ---- exact rational goals decided over Z by vm_compute ------------------------------------------------

def _zlit(n):
    return "(%d)" % n if n < 0 else "%d" % n


def _zscaled(fr_list):
    """Common power-of-two-free integer form: returns integers n_i with n_i = fr_i * L for the lcm L of denominators."""
    from math import lcm
    L = 1
    for f in fr_list:
        L = lcm(L, Fraction(f).denominator)
    return [int(Fraction(f) * L) for f in fr_list]


def q_le_text(a, b):
    """Coq boolean statement (over Z) equivalent to the rational inequality a <= b."""
    x, y = _zscaled([a, b])
    return "(%s <=? %s) = true" % (_zlit(x), _zlit(y))


def q_lt_text(a, b):
    x, y = _zscaled([a, b])
    return "(%s <? %s) = true" % (_zlit(x), _zlit(y))


def z_pow_cmp_text(lhs, op, rhs):
    """lhs/rhs: lists of (base:int, exponent:int>=0) factors, product semantics; op in {"<=?","<?","=?"}.
    The powers are *not* expanded in Python: Coq evaluates them (`vm_compute`)."""
    def prod(fs):
        if not fs: return "1"
        return " * ".join("%s ^ %d" % (_zlit(b), e) if e != 1 else _zlit(b) for b, e in fs)
    return "(%s %s %s) = true" % (prod(lhs), op, prod(rhs))


def z_instance(id, goal_text, neg_text=None, hint=None, meta=None, trivial=False):
    return Instance(id, goal_text, [neg_text] if neg_text else [], kind="Z", hint=hint, meta=meta, trivial=trivial)


def root_instance(id, y, x, n, eps, meta=None):
    """Monotone-inverse certificate for y ~ x^(1/n), x>0, y>0 exact rationals, eps = 2^-s:
        |y - r| <= eps*r  with r = x^(1/n)   <=>   y^n <= x*(1+eps)^n  and  x*(1-eps)^n <= y^n
    decided over Z by vm_compute with explicit exponents (nothing is expanded in Python)."""
    y = Fraction(y); x = Fraction(x); eps = Fraction(eps)
    assert x > 0 and n >= 1 and 0 < eps < 1
    if y <= 0:
        return Instance(id, "(1 <=? 0) = true", ["(0 <? 1) = true"], kind="Z", hint="fail", meta=meta)
    en, ed = eps.numerator, eps.denominator
    # y = yn/yd, x = xn/xd:   yn^n * xd * ed^n <= xn * yd^n * (ed+en)^n ;  xn * yd^n * (ed-en)^n <= yn^n * xd * ed^n
    L = [(y.numerator, n), (x.denominator, 1), (ed, n)]
    up = [(x.numerator, 1), (y.denominator, n), (ed + en, n)]
    lo = [(x.numerator, 1), (y.denominator, n), (ed - en, n)]
    def P(fs):
        return " * ".join("%s ^ %d" % (_zlit(b), e) if e != 1 else _zlit(b) for b, e in fs if b != 1) or "1"
    goal = "((%s <=? %s) && (%s <=? %s))%%bool = true" % (P(L), P(up), P(lo), P(L))
    neg = "((%s <=? %s) && (%s <=? %s))%%bool = false" % (P(L), P(up), P(lo), P(L))
    yn = y.numerator ** n * x.denominator * ed ** n
    ok = yn <= x.numerator * y.denominator ** n * (ed + en) ** n and x.numerator * y.denominator ** n * (ed - en) ** n <= yn
    return Instance(id, goal, [neg], kind="Z", hint="pass" if ok else "fail", meta=meta,
                    trivial=False)


# =====================================================================================================
# (b) certify
# =====================================================================================================

_ERR_RE = re.compile(r'File "([^"]+)", line (\d+), characters (\d+)-(\d+):\s*\n(?:Warning[^\n]*\n(?:[^\n]*\n)*?)?Error:\s*(.*)', re.S)


def _first_error(out):
    """-> (line, message) of the first *error* in coqc output, or None."""
    pos = 0
    for m in re.finditer(r'File "([^"]+)", line (\d+), characters \d+-\d+:\s*\n(Error|Warning)', out):
        if m.group(3) == "Error":
            msg = out[m.end():m.end() + 300].strip(": \n")
            return int(m.group(2)), msg
    return None


def _header(insts):
    kinds = {i.kind for i in insts}
    if kinds <= {"Z"}:
        return HEADER_Z
    h = HEADER_RINT if "RI" in kinds else HEADER_R
    return h


def _write_file(path, insts, what, precs, sentence_timeout):
    """what[i] in {"goal", ("neg", j)}; returns line map [(first_line, last_line)] per lemma."""
    lines = _header(insts).rstrip("\n").split("\n")
    lines.append("Set Default Timeout %d." % sentence_timeout)
    zmixed = any(i.kind == "Z" for i in insts) and not all(i.kind == "Z" for i in insts)
    spans = []
    for k, (ins, w, pr) in enumerate(zip(insts, what, precs)):
        text = ins.goal if w == "goal" else ins.negs[w[1]]
        if ins.kind == "Z" and zmixed:
            text = "(%s)%%Z" % text
        first = len(lines) + 1
        lines.append("Lemma inst_%d : %s." % (k, text))
        lines.append("Proof. %s. Qed." % ins.tactic_text(pr))
        spans.append((first, len(lines)))
    with open(path, "w") as f:
        f.write("\n".join(lines) + "\n")
    return spans


def _run_coqc(path, timeout):
    cmd = ["timeout", str(int(timeout)), "coqc", "-q", os.path.basename(path)]
    t0 = time.time()
    try:
        p = subprocess.run(cmd, capture_output=True, text=True, cwd=os.path.dirname(path), timeout=timeout + 30)
        rc, out = p.returncode, p.stdout + p.stderr
    except subprocess.TimeoutExpired:
        rc, out = 124, "python-side timeout"
    return rc, out, time.time() - t0, "cd %s && %s" % (os.path.dirname(path), " ".join(cmd))


def _safe(s):
    return re.sub(r"[^A-Za-z0-9_]", "_", s)[:60]


def certify(instances, tactic_params=None, jobs=16, timeout=None, tag="misc", clean=True):
    """Certify a list of instances.

    instances: list of `Instance`, or tuples (id, goal_text) / (id, goal_text, [neg_texts]) /
               (id, (y, ref_expr, eps_expr)) which are converted with `rel_instance`.
    tactic_params: overrides of DEFAULT_PARAMS.  timeout: overall soft budget in seconds (instances not decided
    when it expires are "inconclusive").
    Returns {"verdicts": {id: {"verdict","step","prec","secs","file","note", **meta}}, "cmds": [...],
             "counts": {"pass","fail","inconclusive"}, "wall_s", "dir", "params"}.
    A lemma counts as proved iff coqc executed its `Qed` without error (whole file compiled, or the first error
    reported by coqc is located strictly after it)."""
    P = dict(DEFAULT_PARAMS); P.update(tactic_params or {})
    t_start = time.time()
    deadline = t_start + timeout if timeout else None
    insts = []
    for it in instances:
        if isinstance(it, Instance):
            insts.append(it)
        else:
            id_, g = it[0], it[1]
            if isinstance(g, str):
                insts.append(Instance(id_, g, it[2] if len(it) > 2 else [], kind="Z" if "%Z" in g or "=? " in g else "R",
                                      prec=P.get("prec", 64)))
            else:
                insts.append(rel_instance(id_, g[0], g[1], g[2], params=P))
    ids = [i.id for i in insts]
    assert len(set(ids)) == len(ids), "duplicate instance ids"
    d = os.path.join(CERT_ROOT, _safe(tag))
    if clean and os.path.isdir(d):
        shutil.rmtree(d)
    os.makedirs(d, exist_ok=True)
    verdicts = {}
    cmds = []

    def remaining():
        return None if deadline is None else deadline - time.time()

    def record(ins, verdict, step, prec, secs, fname, note=""):
        v = {"verdict": verdict, "step": step, "prec": prec, "secs": round(secs, 2), "file": fname, "note": note,
             "kind": ins.kind, "trivial": ins.trivial}
        v.update(ins.meta)
        verdicts[ins.id] = v

    # ---------------- stage 1: batches of instances not predicted to fail
    first = [i for i in insts if i.hint != "fail"]
    ladder_q = [(i, "hint") for i in insts if i.hint == "fail"]
    first.sort(key=lambda i: (i.kind != "Z", -i.prec))
    nfiles = max(1, min(max(jobs, (len(first) + P["batch"] - 1) // P["batch"]), len(first)))
    if first and len(first) / nfiles < 4:
        nfiles = max(1, len(first) // 4)
    groups = [first[k::nfiles] for k in range(nfiles)]
    counter = [0]

    def do_batch(group, name):
        """compile group; returns list of (instance, status, secs_share) with status in pass/failed/timeout/unknown"""
        res = []
        todo = list(group)
        gen = 0
        while todo:
            if remaining() is not None and remaining() < 5:
                res += [(i, "budget", 0.0, "") for i in todo]; break
            fname = "%s_%d.v" % (name, gen)
            path = os.path.join(d, fname)
            spans = _write_file(path, todo, ["goal"] * len(todo), [i.prec for i in todo], P["sentence_timeout"])
            ft = P["file_timeout"] if remaining() is None else max(10, min(P["file_timeout"], remaining()))
            rc, out, secs, cmd = _run_coqc(path, ft)
            cmds.append(cmd)
            if rc == 0:
                res += [(i, "pass", secs / len(todo), fname) for i in todo]; break
            err = _first_error(out)
            if err is None:           # shell timeout / crash without location
                if len(todo) == 1:
                    res.append((todo[0], "timeout" if rc == 124 else "unknown", secs, fname)); break
                res += [(i, "split", 0.0, fname) for i in todo]; break
            line, msg = err
            k = next((j for j, (a, b) in enumerate(spans) if a <= line <= b), None)
            if k is None:
                res += [(i, "unknown", 0.0, fname) for i in todo]; break
            res += [(i, "pass", secs / max(1, k + 1), fname) for i in todo[:k]]
            res.append((todo[k], "timeout" if "Timeout" in msg else "failed", secs / max(1, k + 1), fname))
            todo = todo[k + 1:]
            gen += 1
        return res

    with ThreadPoolExecutor(jobs) as ex:
        futs = [ex.submit(do_batch, g, "batch_%03d" % n) for n, g in enumerate(groups) if g]
        batch_res = [r for f in futs for r in f.result()]
    split = []
    for ins, st, secs, fname in batch_res:
        if st == "pass":
            record(ins, "pass", "batch", ins.prec, secs, fname)
        elif st == "split":
            split.append(ins)
        elif st == "budget":
            record(ins, "inconclusive", "budget", ins.prec, secs, fname, "time budget exhausted")
        else:
            ladder_q.append((ins, st))
    if split:      # a batch died without an error location: run its lemmas one per file
        def one(ins):
            return do_batch([ins], "solo_%s" % _safe(ins.id))
        with ThreadPoolExecutor(jobs) as ex:
            for r in ex.map(one, split):
                for ins, st, secs, fname in r:
                    if st == "pass": record(ins, "pass", "solo", ins.prec, secs, fname)
                    else: ladder_q.append((ins, st))

    # ---------------- stage 2: ladder on single-lemma files
    def ladder(arg):
        ins, why = arg
        t0 = time.time()
        base = ins.prec
        steps = []
        mults = P["ladder"] if ins.kind != "Z" else [1]
        for r, mlt in enumerate(mults):
            pr = min(P["max_prec"], base * mlt)
            order = [("neg", j) for j in range(len(ins.negs))] + ["goal"] if ins.hint == "fail" or (r == 0 and why in ("failed",)) \
                else ["goal"] + [("neg", j) for j in range(len(ins.negs))]
            for w in order:
                if r == 0 and w == "goal" and why == "failed":
                    continue          # already attempted in the batch with the same parameters
                steps.append((w, pr))
        last_note = why
        for sidx, (w, pr) in enumerate(steps):
            if remaining() is not None and remaining() < 5:
                return ins, "inconclusive", "budget", pr, time.time() - t0, "", "time budget exhausted"
            wn = "bound" if w == "goal" else "neg%d" % w[1]
            fname = "single_%s_%s_p%d.v" % (_safe(ins.id), wn, pr)
            path = os.path.join(d, fname)
            _write_file(path, [ins], [w], [pr], max(P["sentence_timeout"], P["single_timeout"]))
            st = P["single_timeout"] if remaining() is None else max(10, min(P["single_timeout"], remaining()))
            rc, out, secs, cmd = _run_coqc(path, st)
            cmds.append(cmd)
            if rc == 0:
                return ins, ("pass" if w == "goal" else "fail"), "%s@%d" % (wn, pr), pr, time.time() - t0, fname, ""
            err = _first_error(out)
            last_note = "timeout" if rc == 124 or (err and "Timeout" in err[1]) else (err[1][:120] if err else "rc=%d" % rc)
        return ins, "inconclusive", "ladder-exhausted", steps[-1][1] if steps else base, time.time() - t0, "", last_note

    if ladder_q:
        with ThreadPoolExecutor(jobs) as ex:
            for ins, verdict, step, pr, secs, fname, note in ex.map(ladder, ladder_q):
                record(ins, verdict, step, pr, secs, fname, note)
    counts = {"pass": 0, "fail": 0, "inconclusive": 0}
    for v in verdicts.values():
        counts[v["verdict"]] += 1
    return {"verdicts": verdicts, "cmds": cmds, "counts": counts, "wall_s": round(time.time() - t_start, 2),
            "dir": d, "params": P}


def replay_text(result, ins_id):
    """Full text of the .v file that decided an instance (the replay of a certified violation)."""
    v = result["verdicts"][ins_id]
    if not v.get("file"):
        return None
    with open(os.path.join(result["dir"], v["file"])) as f:
        return f.read()


def check_text(vtext, timeout=300, tag="replay"):
    """Compile a stored .v text again (used by `replay`): returns (ok, output)."""
    d = os.path.join(CERT_ROOT, _safe(tag))
    os.makedirs(d, exist_ok=True)
    path = os.path.join(d, "replay_%s.v" % hashlib.sha1(vtext.encode()).hexdigest()[:10])
    with open(path, "w") as f:
        f.write(vtext)
    rc, out, secs, cmd = _run_coqc(path, timeout)
    return rc == 0, out, cmd


# =====================================================================================================
# (c) trusted base
# =====================================================================================================

_TB_CACHE = {}


def trusted_base(kind="R", timeout=120):
    """Compile one representative lemma of the given kind ("R": Interval on a transcendental goal, "Z": vm_compute
    on integers) followed by `Print Assumptions`, and return the trusted base as a list of strings."""
    if kind in _TB_CACHE:
        return _TB_CACHE[kind]
    d = os.path.join(CERT_ROOT, "_trusted_base")
    os.makedirs(d, exist_ok=True)
    if kind == "Z":
        src = HEADER_Z + "Lemma rep : (3 ^ 5 <=? 2 ^ 8) = true.\nProof. vm_compute; reflexivity. Qed.\nPrint Assumptions rep.\n"
    else:
        src = HEADER_R + ("Lemma rep : Rabs (exp 1 * cos (atan (ln (sqrt 2))) - sin PI) <= 3.\n"
                          "Proof. interval with (i_prec 80). Qed.\nPrint Assumptions rep.\n")
    path = os.path.join(d, "tb_%s.v" % kind)
    with open(path, "w") as f:
        f.write(src)
    rc, out, secs, cmd = _run_coqc(path, timeout)
    base = ["Coq 8.16.1 kernel incl. the vm_compute conversion machine (coqc, no native_compute)"]
    if rc != 0:
        base.append("Print Assumptions run FAILED: " + out[-300:])
        return base
    if "Closed under the global context" in out:
        axioms = []
    else:
        axioms = re.findall(r"^([A-Za-z_][\w.]*)\s*(?=:|$)", out, re.M)
        axioms = [a for a in axioms if a != "Axioms" and "." in a]
    if kind == "R":
        base += ["Coq Interval 4.6.1 (libcoq-interval; tactic `interval`/`integral`: reification + verified interval "
                 "evaluator, its proof term is re-checked by the kernel at Qed)",
                 "Coquelicot 3.2.0, Flocq 4.1.0, Coq standard library Reals",
                 "Python instance generator: reading of the raw _mpf_ tuples, printer of the real terms, and the "
                 "reference formulas (definition or named identity, listed under `assumptions`)"]
        prim = sorted(a for a in axioms if a.startswith(("Uint63.", "PrimInt63.")))
        other = sorted(a for a in axioms if not a.startswith(("Uint63.", "PrimInt63.")))
        base += ["axiom: " + a for a in other]
        if prim:
            base.append("primitive 63-bit integers used by Interval's bignum back-end (%d `Uint63.*_spec`/`PrimInt63.*` "
                        "primitives and their specification axioms, e.g. %s)" % (len(prim), ", ".join(prim[:4])))
    else:
        base += ["Coq standard library ZArith (binary integers; no axioms)" if not axioms else
                 "axioms: " + ", ".join(axioms),
                 "Python instance generator: reading of the raw _mpf_ tuples and the printer of the integer statements"]
    base.append("checker command: " + cmd)
    _TB_CACHE[kind] = base
    return base


def summarize_cmds(cmds, n=3):
    """Evidence-friendly form of the list of command lines."""
    return {"count": len(cmds), "examples": cmds[:n],
            "pattern": "cd /verif/build/cert/<tag> && timeout <T> coqc -q <file>.v   (one per batch / single-lemma file)"}
