"""Engine B core: per-instance Coq certificates (Coq Interval / vm_compute).

Three parts (see the docstrings):

  (a) a small expression DSL for real terms (`E` and the constructor functions `Q, dy, mpfc, PI, sqrt, exp,
      ln, sin, cos, tan, atan, powz, rint, var`) with a printer to Coq concrete syntax (`E.coq()`), an
      *untrusted* numeric evaluator used only to choose tactic parameters and to schedule the work
      (`estimate`), and complex helpers working on pairs of real expressions (`Cx`, `cexp, clog, csqrt, cmul,
      cdiv, cpow, csin, ccos, ctan, csinh, ccosh, ctanh, catan2 ...`);
  (b) `certify(instances, tactic_params, jobs, timeout, tag)` -> verdicts in {"pass","fail","inconclusive"};
  (c) `trusted_base()` -> list of strings parsed from `Print Assumptions` of a representative lemma.

Soundness never depends on the Python side: a verdict "pass" means coqc executed `Lemma .. : G. Proof. tac. Qed.`
for the *bound* G without error, "fail" means it did so for (one alternative of) the *negation* of G.  Everything
numeric done in Python (precision estimates, pass/fail hints, quadrant hints) only decides which lemma text is
attempted first and with which `i_prec`; quadrant/sign hints used inside a reference formula are re-emitted as side
conditions that are part of the certified statement.
"""
import os, re, sys, time, json, subprocess, hashlib, shutil
from fractions import Fraction
from concurrent.futures import ThreadPoolExecutor

VERIF = os.path.dirname(os.path.dirname(os.path.abspath(__file__)))
CERT_ROOT = os.path.join(VERIF, "build", "cert")

sys.set_int_max_str_digits(0)


# =====================================================================================================
# (a) expression DSL
# =====================================================================================================

def _ispow2(n):
    return n > 0 and (n & (n - 1)) == 0


class E(object):
    """A real-valued term.  Build with the module-level constructors; combine with + - * / ** (integer) abs()."""
    __slots__ = ()

    def __add__(a, b): return add(a, lift(b))
    def __radd__(a, b): return add(lift(b), a)
    def __sub__(a, b): return sub(a, lift(b))
    def __rsub__(a, b): return sub(lift(b), a)
    def __mul__(a, b): return mul(a, lift(b))
    def __rmul__(a, b): return mul(lift(b), a)
    def __truediv__(a, b): return div(a, lift(b))
    def __rtruediv__(a, b): return div(lift(b), a)
    def __neg__(a): return neg(a)
    def __abs__(a): return rabs(a)
    def __pow__(a, n): return powz(a, n)

    def is_const(self): return False
    def coq(self, names=None): raise NotImplementedError
    def children(self): return []
    def __repr__(self):
        s = self.coq()
        return s if len(s) < 200 else s[:200] + "..."


_INTERN = {}


def reset_cache():
    """Forget the hash-consing tables (call between unrelated instances to bound memory)."""
    _INTERN.clear()
    for n in _KEEP:
        if isinstance(n, Const): _INTERN[("c", n.v)] = n
        else: _INTERN[(n.op,)] = n


_KEEP = []


class Const(E):
    """Exact rational constant (hash-consed).  Dyadics print as `(IZR m * / IZR (2^k))` / `(IZR m * IZR (2^k))`, other
    rationals as `(IZR n / IZR d)`; only Z literals are emitted."""
    __slots__ = ("v",)

    def __new__(cls, v):
        v = Fraction(v)
        key = ("c", v)
        n = _INTERN.get(key)
        if n is None:
            n = object.__new__(cls)
            n.v = v
            _INTERN[key] = n
        return n

    def __init__(self, v):
        pass

    def is_const(self): return True

    def bits(self):
        return self.v.numerator.bit_length() + self.v.denominator.bit_length()

    def coq(self, names=None):
        n, d = self.v.numerator, self.v.denominator
        if d == 1:
            if n == 0:
                return "0"
            tz = (abs(n) & -abs(n)).bit_length() - 1
            if tz >= 64:
                return "(IZR (%d) * IZR (2^%d))" % (n >> tz, tz)
            return "(IZR (%d))" % n if n < 0 else "(IZR %d)" % n
        if _ispow2(d):
            return "(IZR (%d) * / IZR (2^%d))" % (n, d.bit_length() - 1)
        return "(IZR (%d) / IZR %d)" % (n, d)


class Op(E):
    """Interior node (hash-consed: structurally equal terms are the same object, so sharing is by identity)."""
    __slots__ = ("op", "args")

    def __new__(cls, op, *args):
        key = (op,) + tuple(id(a) if isinstance(a, E) else a for a in args)
        n = _INTERN.get(key)
        if n is None:
            n = object.__new__(cls)
            n.op = op; n.args = args
            _INTERN[key] = n
        return n

    def __init__(self, op, *args):
        pass

    def coq(self, names=None):
        """Coq text; `names` maps id(node) -> variable name for abstracted (let-bound) subterms."""
        def p(x):
            if names is not None and id(x) in names:
                return names[id(x)]
            return x.coq(names)
        o, a = self.op, self.args
        if o in ("+", "-", "*", "/"):
            return "(%s %s %s)" % (p(a[0]), o, p(a[1]))
        if o == "neg":
            return "(- %s)" % p(a[0])
        if o == "abs":
            return "(Rabs %s)" % p(a[0])
        if o in ("sqrt", "exp", "ln", "sin", "cos", "atan"):
            return "(%s %s)" % (o, p(a[0]))
        if o == "PI":
            return "PI"
        if o == "powz":
            return "(powerRZ %s (%d)%%Z)" % (p(a[0]), a[1])
        if o == "var":
            return a[0]
        if o == "rint":
            return "(RInt (fun %s => %s) %s %s)" % (a[0], p(a[1]), p(a[2]), p(a[3]))
        raise ValueError(o)

    def children(self):
        if self.op == "rint":                  # the integrand has a bound variable: never share/abstract inside it
            return [self.args[2], self.args[3]]
        return [x for x in self.args if isinstance(x, E)]


def lift(x):
    if isinstance(x, E):
        return x
    if isinstance(x, (int, Fraction)):
        return Const(x)
    if isinstance(x, float):
        return Const(Fraction(x))          # exact binary value of the float
    if hasattr(x, "_mpf_"):
        return mpfc(x._mpf_)
    if isinstance(x, tuple) and len(x) == 4:
        return mpfc(x)
    raise TypeError("cannot lift %r to a real term" % (x,))


def Q(n, d=1):
    return Const(Fraction(n, d))


def dy(m, e=0):
    """m * 2^e (m any int)."""
    return Const(Fraction(m) * Fraction(2) ** e)


def mpf_fraction(t):
    """Exact value of a finite raw mpf tuple (sign, man, exp, bc) as a Fraction (the sign is read from the tuple)."""
    s, m, e, b = t
    if m == 0 and e != 0:
        raise ValueError("not finite: %r" % (t,))
    v = Fraction(m) * Fraction(2) ** e
    return -v if s else v


def mpfc(t):
    return Const(mpf_fraction(t))


ZERO, ONE, TWO, HALF = Const(0), Const(1), Const(2), Const(Fraction(1, 2))
PI = Op("PI")
_KEEP.extend([ZERO, ONE, TWO, HALF, PI])


def _c(a):
    return a.v if isinstance(a, Const) else None


def add(a, b):
    x, y = _c(a), _c(b)
    if x is not None and y is not None: return Const(x + y)
    if x == 0: return b
    if y == 0: return a
    if isinstance(b, Op) and b.op == "neg": return Op("-", a, b.args[0])
    if y is not None and y < 0: return Op("-", a, Const(-y))
    return Op("+", a, b)


def sub(a, b):
    x, y = _c(a), _c(b)
    if x is not None and y is not None: return Const(x - y)
    if y == 0: return a
    if x == 0: return neg(b)
    if isinstance(b, Op) and b.op == "neg": return Op("+", a, b.args[0])
    if y is not None and y < 0: return Op("+", a, Const(-y))
    return Op("-", a, b)


def mul(a, b):
    x, y = _c(a), _c(b)
    if x is not None and y is not None: return Const(x * y)
    if x == 0 or y == 0: return ZERO
    if x == 1: return b
    if y == 1: return a
    if x == -1: return neg(b)
    if y == -1: return neg(a)
    if a is b and isinstance(a, Op) and a.op == "sqrt": return a.args[0]      # sqrt(c)*sqrt(c) = c  (c >= 0 was checked)
    return Op("*", a, b)


def div(a, b):
    x, y = _c(a), _c(b)
    if y == 0: raise ZeroDivisionError("reference term divides by the constant 0")
    if x is not None and y is not None: return Const(x / y)
    if x == 0: return ZERO
    if y == 1: return a
    if y == -1: return neg(a)
    if y is not None and ((y.denominator == 1 and _ispow2(abs(y.numerator))) or
                          (abs(y.numerator) == 1 and _ispow2(y.denominator))):
        return mul(a, Const(1 / y))        # division by +-2^k: an exact dyadic factor
    return Op("/", a, b)


def neg(a):
    x = _c(a)
    if x is not None: return Const(-x)
    if isinstance(a, Op) and a.op == "neg": return a.args[0]
    return Op("neg", a)


def rabs(a):
    x = _c(a)
    if x is not None: return Const(abs(x))
    if isinstance(a, Op) and a.op in ("abs", "sqrt", "exp"): return a
    return Op("abs", a)


def _isqrt_exact(fr):
    from math import isqrt
    n, d = fr.numerator, fr.denominator
    if n < 0: return None
    rn, rd = isqrt(n), isqrt(d)
    if rn * rn == n and rd * rd == d: return Fraction(rn, rd)
    return None


def sqrt(a):
    a = lift(a)
    x = _c(a)
    if x is not None:
        if x < 0: raise ValueError("sqrt of a negative constant in a reference term")
        r = _isqrt_exact(x)
        if r is not None: return Const(r)
    return Op("sqrt", a)


def exp(a):
    a = lift(a)
    if _c(a) == 0: return ONE
    return Op("exp", a)


def ln(a):
    a = lift(a)
    x = _c(a)
    if x is not None and x <= 0: raise ValueError("ln of a non-positive constant in a reference term")
    if x == 1: return ZERO
    return Op("ln", a)


def sin(a):
    a = lift(a)
    if _c(a) == 0: return ZERO
    return Op("sin", a)


def cos(a):
    a = lift(a)
    if _c(a) == 0: return ONE
    return Op("cos", a)


def tan(a):
    """tan is always emitted as sin/cos (Interval does not reify `tan` reliably near its poles)."""
    a = lift(a)
    return div(sin(a), cos(a))


def atan(a):
    a = lift(a)
    if _c(a) == 0: return ZERO
    return Op("atan", a)


def powz(a, n):
    """Integer power.  Constants are folded exactly; otherwise `powerRZ a n`."""
    a = lift(a)
    if not isinstance(n, int): raise TypeError("powz exponent must be a Python int")
    x = _c(a)
    if n == 0: return ONE
    if n == 1: return a
    if x is not None:
        if x == 0 and n < 0: raise ZeroDivisionError
        return Const(x ** n)
    return Op("powz", a, n)


def var(name):
    return Op("var", name)


def rint(name, body, a, b):
    """RInt (fun name => body) a b  -- body built with var(name)."""
    return Op("rint", name, lift(body), lift(a), lift(b))


def sinh(a): a = lift(a); return (exp(a) - exp(-a)) * HALF
def cosh(a): a = lift(a); return (exp(a) + exp(-a)) * HALF


def tanh(a):
    a = lift(a)
    if _c(a) == 0: return ZERO
    # (1 - e^{-2|a|})/(1 + e^{-2|a|}) with the sign of a -- no overflow for huge |a|
    x = _c(a)
    if x is not None:
        e2 = exp(Const(-2 * abs(x)))
        r = (1 - e2) / (1 + e2)
        return r if x > 0 else -r
    e2 = exp(2 * a)
    return (e2 - 1) / (e2 + 1)


# ----------------------------------------------------------------------------- untrusted numeric evaluation

_CTX = None
NEG = -10 ** 9          # "log2 of zero"


def _ctx():
    global _CTX
    if _CTX is None:
        import mpmath
        _CTX = mpmath.mp.clone()
    return _CTX


class EstimateError(Exception):
    pass


def _m(ctx, v):
    return int(ctx.mag(v)) if v != 0 else NEG


def _ev(e, ctx, memo):
    """-> (value: ctx.mpf, aerr: int).  Untrusted heuristic: an interval evaluation of e with P-bit floating-point
    bounds is expected to have absolute width about 2^(aerr - P) (forward error bookkeeping, one extra bit per
    operation).  The DAG is evaluated once per node (memo keyed by identity)."""
    k = id(e)
    r = memo.get(k)
    if r is None:
        r = _ev1(e, ctx, memo)
        memo[k] = r
    return r


def _ev1(e, ctx, memo):
    if isinstance(e, Const):
        n, d = e.v.numerator, e.v.denominator
        v = ctx.mpf(n) / d
        return v, _m(ctx, v)
    o, a = e.op, e.args
    if o == "PI":
        return +ctx.pi, 2
    if o == "var":
        raise EstimateError("free variable in a term to be estimated")
    if o == "rint":
        lo, _ = _ev(a[2], ctx, memo); hi, _ = _ev(a[3], ctx, memo)
        name, body = a[0], a[1]
        def f(t):
            return _ev_with_var(body, ctx, name, t)
        v = ctx.quad(f, [lo, hi])
        return v, _m(ctx, v) + 12
    if o == "powz":
        x, ex = _ev(a[0], ctx, memo)
        if x == 0 and a[1] < 0: raise EstimateError("0 ** negative")
        v = x ** a[1]
        return v, _m(ctx, v) + max(ex - _m(ctx, x), 0) + abs(a[1]).bit_length() + 1
    vs = [_ev(x, ctx, memo) for x in a]
    if o in ("+", "-"):
        (x, ex), (y, ey) = vs
        v = x + y if o == "+" else x - y
        return v, max(ex, ey, _m(ctx, v)) + 1
    if o == "*":
        (x, ex), (y, ey) = vs
        v = x * y
        return v, max(_m(ctx, x) + ey, _m(ctx, y) + ex, _m(ctx, v)) + 1
    if o == "/":
        (x, ex), (y, ey) = vs
        if y == 0: raise EstimateError("division by a term that evaluates to 0")
        v = x / y
        my = _m(ctx, y)
        return v, max(ex - my, _m(ctx, x) + ey - 2 * my, _m(ctx, v)) + 1
    x, ex = vs[0]
    if o == "neg": return -x, ex
    if o == "abs": return abs(x), ex
    if o == "sqrt":
        if x < 0: raise EstimateError("sqrt of a negative term")
        if x == 0: raise EstimateError("sqrt of a term that evaluates to 0")
        v = ctx.sqrt(x); mv = _m(ctx, v)
        return v, max(ex - mv, mv) + 1
    mx = _m(ctx, x)
    if o == "exp":
        v = ctx.exp(x)
        return v, _m(ctx, v) + max(ex, 0) + 1
    if o == "ln":
        if x <= 0: raise EstimateError("ln of a non-positive term")
        v = ctx.ln(x)
        return v, max(ex - mx, _m(ctx, v)) + 1
    if o in ("sin", "cos"):
        v = ctx.sin(x) if o == "sin" else ctx.cos(x)
        # Interval 4.6 reduces |x| by repeated halving and undoes it with double-angle steps on cos (about 2 bits lost
        # per step); sin is then sqrt(1 - cos^2), so near a zero of sin the absolute error is divided by |sin x|
        mv = _m(ctx, v)
        red = 2 * max(mx + 1, 0)
        if o == "sin" and mx >= -2:
            red += 1 - min(mv, 0)
        return v, max(ex, red, mv) + 2
    if o == "atan":
        v = ctx.atan(x)
        return v, max(ex - 2 * max(0, mx), _m(ctx, v)) + 1
    raise ValueError(o)


def _ev_with_var(body, ctx, name, t):
    memo = {}
    def sub(e):
        if isinstance(e, Op) and e.op == "var" and e.args[0] == name:
            return t
        return None
    # plain recursive evaluation with the variable bound (values only)
    def go(e):
        if isinstance(e, Const): return ctx.mpf(e.v.numerator) / e.v.denominator
        o, a = e.op, e.args
        if o == "var":
            if a[0] == name: return t
            raise EstimateError("free variable")
        if o == "PI": return +ctx.pi
        if o == "powz": return go(a[0]) ** a[1]
        xs = [go(x) for x in a if isinstance(x, E)]
        if o == "+": return xs[0] + xs[1]
        if o == "-": return xs[0] - xs[1]
        if o == "*": return xs[0] * xs[1]
        if o == "/": return xs[0] / xs[1]
        if o == "neg": return -xs[0]
        if o == "abs": return abs(xs[0])
        return getattr(ctx, {"ln": "ln"}.get(o, o))(xs[0])
    return go(body)


def approx(e, prec=200):
    """Untrusted numeric value of a closed term at `prec` bits."""
    ctx = _ctx(); ctx.prec = prec
    return _ev(lift(e), ctx, {})[0]


def plan_prec(diffs, margin, min_prec=40, max_prec=40000, start=0):
    """diffs: list of closed terms D (each atom is `D <= 0` or `D < 0`).  Untrusted: -> (P, [value of D ...]) with
    P = max over atoms of (aerr(D) - mag(D)) + margin, re-evaluated at a working precision above P until stable."""
    ctx = _ctx()
    # every constant must be exact in the evaluator, otherwise the magnitudes it sees belong to another problem
    cb = 0
    seen = set()
    stack = list(diffs)
    while stack:
        n = stack.pop()
        if id(n) in seen: continue
        seen.add(id(n))
        if isinstance(n, Const):
            d = n.v.denominator
            cb = max(cb, n.v.numerator.bit_length() + (0 if _ispow2(d) else d.bit_length()))
        else:
            stack.extend(n.children())
    wp = max(192, start + 128, cb + 64)
    P = None
    for _ in range(7):
        ctx.prec = wp
        memo = {}
        need = min_prec
        vals = []
        for D in diffs:
            v, ea = _ev(D, ctx, memo)
            vals.append(v)
            if v == 0:
                need = max(need, wp)           # undecided at this working precision
            else:
                need = max(need, ea - _m(ctx, v) + margin)
        if need + 48 <= wp and (P is None or abs(need - P) <= 16 or need <= P):
            return max(min_prec, min(max_prec, need)), vals
        if need > max_prec:
            raise EstimateError("needs more than %d bits (estimated %d)" % (max_prec, need))
        P = need
        wp = need + 96
    return max(min_prec, min(max_prec, P)), vals


# ----------------------------------------------------------------------------- complex helpers

class Cx(object):
    """Complex value as a pair of real terms plus `conds`: side conditions (lhs, op, rhs) with op in {"<","<="}
    that were *assumed* (from an untrusted numeric hint) when a branch of a formula was selected (sign of a
    non-constant real/imaginary part in atan2/csqrt).  They must be certified together with the instance
    (`rel_instance(..., conds=z.conds)` does that)."""
    __slots__ = ("re", "im", "conds")

    def __init__(self, re_, im_=0, conds=()):
        self.re = lift(re_); self.im = lift(im_); self.conds = tuple(conds)

    def __add__(a, b): b = cx(b); return Cx(a.re + b.re, a.im + b.im, a.conds + b.conds)
    def __radd__(a, b): return cx(b) + a
    def __sub__(a, b): b = cx(b); return Cx(a.re - b.re, a.im - b.im, a.conds + b.conds)
    def __rsub__(a, b): return cx(b) - a
    def __mul__(a, b): return cmul(a, cx(b))
    def __rmul__(a, b): return cmul(cx(b), a)
    def __truediv__(a, b): return cdiv(a, cx(b))
    def __rtruediv__(a, b): return cdiv(cx(b), a)
    def __neg__(a): return Cx(-a.re, -a.im, a.conds)
    def __pow__(a, n): return cpow(a, n)
    def conj(a): return Cx(a.re, -a.im, a.conds)
    def times_i(a): return Cx(-a.im, a.re, a.conds)
    def times_neg_i(a): return Cx(a.im, -a.re, a.conds)
    def __repr__(self): return "Cx(%r, %r)" % (self.re, self.im)


def cx(z):
    if isinstance(z, Cx): return z
    if isinstance(z, complex): return Cx(z.real, z.imag)
    if hasattr(z, "_mpc_"): return Cx(mpfc(z._mpc_[0]), mpfc(z._mpc_[1]))
    return Cx(lift(z), ZERO)


def cmul(a, b):
    return Cx(a.re * b.re - a.im * b.im, a.re * b.im + a.im * b.re, a.conds + b.conds)


def cdiv(a, b):
    if _c(b.im) == 0:
        return Cx(a.re / b.re, a.im / b.re, a.conds + b.conds)
    d = b.re * b.re + b.im * b.im
    return Cx((a.re * b.re + a.im * b.im) / d, (a.im * b.re - a.re * b.im) / d, a.conds + b.conds)


def cpow(a, n):
    """Integer power by repeated squaring on the real/imaginary terms (exact for constant parts)."""
    if n < 0:
        return cdiv(Cx(1, 0), cpow(a, -n))
    r = Cx(1, 0); b = a
    while n:
        if n & 1: r = cmul(r, b)
        n >>= 1
        if n: b = cmul(b, b)
    return Cx(r.re, r.im, a.conds)


def cabs(a):
    if _c(a.im) == 0: return rabs(a.re)
    if _c(a.re) == 0: return rabs(a.im)
    return sqrt(a.re * a.re + a.im * a.im)


def _sign_of(e, conds, strict=True):
    """Sign (+1/-1/0) of a real term: exact for constants; otherwise from the numeric hint, and the assumed strict
    inequality is appended to `conds` so that it becomes part of the certified statement."""
    x = _c(e)
    if x is not None:
        return (x > 0) - (x < 0)
    if isinstance(e, Op) and e.op == "exp":
        return 1
    if isinstance(e, Op) and e.op == "sqrt" and _c(e.args[0]) is not None and _c(e.args[0]) > 0:
        return 1
    v = approx(e, 300)
    if v == 0:
        raise EstimateError("cannot decide the sign of a non-constant term that evaluates to 0")
    if v > 0:
        conds.append((ZERO, "<", e)); return 1
    conds.append((e, "<", ZERO)); return -1


def catan2(y, x, conds=None):
    """atan2(y, x) in (-pi, pi] built from atan with the quadrant decided exactly on constants (otherwise hinted
    and recorded in conds).  Returns a real term (conds is extended in place when given)."""
    y = lift(y); x = lift(x)
    if conds is None: conds = []
    sx = _sign_of(x, conds); sy = _sign_of(y, conds)
    if sx == 0 and sy == 0:
        return ZERO
    if sy == 0:
        return ZERO if sx > 0 else PI
    if sx == 0:
        return PI * HALF if sy > 0 else -(PI * HALF)
    # choose the better conditioned form: |y|<=|x| -> atan(y/x) (+-pi); else +-pi/2 - atan(x/y)
    cxv, cyv = _c(x), _c(y)
    if cxv is not None and cyv is not None:
        flat = abs(cyv) <= abs(cxv)
    else:
        flat = abs(approx(y, 100)) <= abs(approx(x, 100))
    if flat:
        t = atan(y / x)
        if sx > 0: return t
        return t + PI if sy > 0 else t - PI
    t = atan(x / y)
    return PI * HALF - t if sy > 0 else -(PI * HALF) - t


def carg(z):
    conds = list(z.conds)
    return catan2(z.im, z.re, conds), tuple(conds)


def cexp(z):
    m = exp(z.re)
    return Cx(m * cos(z.im), m * sin(z.im), z.conds)


def clog(z):
    """Principal branch: ln|z| + i*atan2(im, re), im part in (-pi, pi]."""
    conds = list(z.conds)
    th = catan2(z.im, z.re, conds)
    if _c(z.im) == 0:
        re_ = ln(rabs(z.re))
    elif _c(z.re) == 0:
        re_ = ln(rabs(z.im))
    else:
        re_ = ln(z.re * z.re + z.im * z.im) * HALF
    return Cx(re_, th, conds)


def csqrt(z):
    """Principal square root (re >= 0; on the negative real axis +i*sqrt|x|)."""
    conds = list(z.conds)
    if _c(z.im) == 0:
        s = _sign_of(z.re, conds)
        if s >= 0: return Cx(sqrt(z.re), 0, conds)
        return Cx(0, sqrt(-z.re), conds)
    r = cabs(z)
    su = _sign_of(z.re, conds) if _c(z.re) != 0 else 0
    sv = _sign_of(z.im, conds)
    if su >= 0:
        re_ = sqrt((r + z.re) * HALF)
        return Cx(re_, z.im / (2 * re_), conds)
    im_ = sqrt((r - z.re) * HALF)
    if sv < 0: im_ = -im_
    return Cx(z.im / (2 * im_), im_, conds)


def croot(z, n):
    """Principal n-th root exp(log(z)/n), n a positive int."""
    conds = list(z.conds)
    th = catan2(z.im, z.re, conds)
    if _c(z.im) == 0: m = rabs(z.re)
    elif _c(z.re) == 0: m = rabs(z.im)
    else: m = sqrt(z.re * z.re + z.im * z.im)
    rho = exp(ln(m) / n)
    return Cx(rho * cos(th / n), rho * sin(th / n), conds)


def cpow_general(z, w):
    """z**w = exp(w*log z), principal branch (z != 0)."""
    return cexp(cmul(cx(w), clog(cx(z))))


def csin(z): return Cx(sin(z.re) * cosh(z.im), cos(z.re) * sinh(z.im), z.conds)
def ccos(z): return Cx(cos(z.re) * cosh(z.im), -(sin(z.re) * sinh(z.im)), z.conds)
def csinh(z): return Cx(sinh(z.re) * cos(z.im), cosh(z.re) * sin(z.im), z.conds)
def ccosh(z): return Cx(cosh(z.re) * cos(z.im), sinh(z.re) * sin(z.im), z.conds)
def ctan(z): return cdiv(csin(z), ccos(z))
def ctanh(z): return cdiv(csinh(z), ccosh(z))


# =====================================================================================================
# goals and instances
# =====================================================================================================

HEADER_R = "From Coq Require Import Reals ZArith.\nFrom Interval Require Import Tactic.\nOpen Scope R_scope.\n"
HEADER_RINT = ("From Coq Require Import Reals ZArith.\nFrom Coquelicot Require Import Coquelicot.\n"
               "From Interval Require Import Tactic.\nOpen Scope R_scope.\n")
HEADER_Z = "From Coq Require Import ZArith Bool.\nOpen Scope Z_scope.\n"

DEFAULT_PARAMS = {
    "margin": 32,            # i_prec = (estimated abs. error exponent - magnitude of the decided quantity) + margin
    "ladder": [1, 2],        # multipliers of i_prec tried in turn (bound and negation at each rung)
    "sentence_timeout": 60,  # Coq `Set Default Timeout` (s): a located "Timeout!" error instead of a dead file
    "single_timeout": 100,   # shell timeout for one single-lemma file (s)
    "file_timeout": 400,     # shell timeout for one batch file (s)
    "batch": 40,             # lemmas per batch file (upper bound)
    "min_prec": 40,
    "max_prec": 40000,
    "big_const_bits": 400,   # constants longer than this are abstracted behind a P-bit enclosure (proved by interval)
}


def _diff(l, op, r):
    """atom (l op r), op in {"<=","<"}  ->  closed term D with the atom equivalent to `D op 0`.
    (Interval 4.6 is dramatically slower on `c <= e` than on `e - c <= 0` when big integer literals occur.)"""
    return sub(lift(l), lift(r))


class Structured(object):
    r"""A conjunction of atoms `D_i op_i 0` over closed real terms, emitted with every shared subterm (and every long
    constant) let-bound once:

        Lemma inst : let v1 := T1 in ... let vn := Tn in (D1 <= 0) /\ (D2 < 0).
        Proof. intros v1 ... vn.
          (* long constant *)  assert (H1 : lo <= v1 <= hi) by (unfold v1; split; [apply Ropp_le_cancel|]; interval ...).
          (* shared subterm *) interval_intro (T2) with (i_prec P) as H2; fold v2 in H2.
          clearbody v1 ...   repeat apply conj; interval with (i_prec P). Qed.

    The statement is convertible with the fully expanded closed inequality; the lets only exist because Interval does
    no common-subexpression sharing, so the proof cost would otherwise grow with the number of occurrences."""

    def __init__(self, atoms, big_const_bits=400):
        self.atoms = [(_diff(l, op, r), op) for (l, op, r) in atoms]
        for _, op in self.atoms:
            assert op in ("<=", "<")
        roots = [d for d, _ in self.atoms]
        refs = {}
        order = []
        seen = set()

        def visit(n):
            if id(n) in seen:
                return
            seen.add(id(n))
            for c in n.children():
                refs[id(c)] = refs.get(id(c), 0) + 1
                visit(c)
            order.append(n)
        for r in roots:
            refs[id(r)] = refs.get(id(r), 0) + 1
            visit(r)
        self.shared = []
        for n in order:
            if isinstance(n, Const):
                b = n.bits()
                if b > big_const_bits or (b > 128 and refs[id(n)] >= 3):
                    self.shared.append(n)
            elif n.op in ("PI", "var", "neg", "abs"):
                continue
            elif refs[id(n)] >= 2 or n.op == "rint":      # integrals are always enclosed once by integral_intro
                self.shared.append(n)
        self.names = {}
        for i, n in enumerate(self.shared):
            self.names[id(n)] = "v%d" % (i + 1)
        self.has_rint = any(isinstance(n, Op) and n.op == "rint" for n in order)
        self.rint_opts = {}

    def _body(self, n):
        """text of node n in terms of the names of *other* abstracted nodes"""
        nm = dict(self.names); nm.pop(id(n), None)
        return n.coq(nm)

    def statement(self):
        lets = "".join("let %s := %s in " % (self.names[id(n)], self._body(n)) for n in self.shared)
        body = " /\\ ".join("(%s %s 0)" % (d.coq(self.names) if id(d) not in self.names else self.names[id(d)], op)
                            for d, op in self.atoms)
        if len(self.atoms) == 1:
            body = body[1:-1]
        return lets + body

    def script(self, prec, final=None):
        final = final or ("interval with (i_prec %d)" % prec)
        L = []
        if self.shared:
            L.append("intros %s." % " ".join(self.names[id(n)] for n in self.shared))
        for i, n in enumerate(self.shared):
            v = self.names[id(n)]
            if isinstance(n, Const):
                lo, hi = _round_dir(n.v, prec, -1), _round_dir(n.v, prec, +1)
                L.append("assert (H%d : %s <= %s <= %s) by (unfold %s; split; [apply Ropp_le_cancel|]; interval with (i_prec %d))."
                         % (i + 1, Const(lo).coq(), v, Const(hi).coq(), v, prec + 8))
            elif n.op == "rint":
                L.append("integral_intro %s with (i_prec %d, i_fuel %d, i_degree %d, i_relwidth %d) as H%d; fold %s in H%d."
                         % (self._body(n), prec, self.rint_opts.get("i_fuel", 200), self.rint_opts.get("i_degree", 12),
                            max(8, prec - 20), i + 1, v, i + 1))
            else:
                L.append("interval_intro %s with (i_prec %d) as H%d; fold %s in H%d." % (self._body(n), prec, i + 1, v, i + 1))
            L.append("clearbody %s." % v)
        L.append("repeat apply conj; %s." % final)
        return " ".join(L)


def _round_dir(fr, bits, direction):
    """`bits`-bit dyadic below (direction<0) / above (>0) the rational fr (generator-side exact arithmetic)."""
    fr = Fraction(fr)
    if fr == 0:
        return fr
    n, d = abs(fr.numerator), fr.denominator
    e = n.bit_length() - d.bit_length() - bits
    num, den = (n << -e, d) if e < 0 else (n, d << e)
    q, r = divmod(num, den)
    up = (direction > 0) == (fr > 0)
    if r and up:
        q += 1
    v = Fraction(q) * Fraction(2) ** e
    return v if fr > 0 else -v


class Instance(object):
    """One certificate request.

    kind   "R"  : real goal, final tactic `interval with (i_prec P)`  (P = self.prec, scaled along the ladder)
           "RI" : real goal containing RInt, final tactic `integral with (i_prec P, i_fuel F, i_degree D)`
           "Z"  : closed boolean goal over Z (`... = true`), tactic `vm_compute; reflexivity`
    goal   Coq text of the bound (hypothesis-free Prop)  -- or a `Structured` object
    negs   list of Coq texts / Structured objects; each implies the negation of the bound (any one proved => "fail")
    hint   "pass" | "fail" | None : untrusted prediction, used for scheduling only
    trivial  True when the certificate is not a real Interval/vm_compute proof of a non-trivial fact
    meta   free dict copied into the verdict (function name, regime tag, arguments ...)"""

    def __init__(self, id, goal, negs=None, kind="R", prec=64, hint=None, tactic=None, meta=None, trivial=False):
        self.id = str(id); self._goal = goal; self._negs = list(negs or []); self.kind = kind
        self.prec = int(prec); self.hint = hint; self.tactic = tactic; self.meta = meta or {}
        self.trivial = trivial

    @property
    def goal(self):
        return self.statement("goal")

    @property
    def negs(self):
        return [self.statement(("neg", j)) for j in range(len(self._negs))]

    def _obj(self, which):
        return self._goal if which == "goal" else self._negs[which[1]]

    def statement(self, which):
        o = self._obj(which)
        return o.statement() if isinstance(o, Structured) else o

    def final_tactic(self, prec):
        if self.tactic:
            return self.tactic.replace("{prec}", str(prec))
        if self.kind == "Z":
            return "vm_compute; reflexivity"
        if self.kind == "RI":
            return "integral with (i_prec %d, i_fuel %d, i_degree %d)" % (
                prec, self.meta.get("i_fuel", 100), self.meta.get("i_degree", 10))
        return "interval with (i_prec %d)" % prec

    def tactic_text(self, prec, which="goal"):
        o = self._obj(which)
        if isinstance(o, Structured):
            fin = self.final_tactic(prec) if (self.tactic or self.kind != "RI") else "interval with (i_prec %d)" % prec
            return o.script(prec, fin)[:-1]
        if self.kind == "Z":
            return self.final_tactic(prec)
        return "repeat apply conj; " + self.final_tactic(prec)


def _eps_bits(eps):
    e = _c(lift(eps))
    if e is None or e <= 0:
        return 64
    return max(0, e.denominator.bit_length() - e.numerator.bit_length())


def atoms_instance(id, atoms, neg_atom_lists=(), params=None, meta=None, trivial=False, kind=None):
    """General real instance: the bound is the conjunction of `atoms` (l, op, r) with op in {"<=","<"}; each element of
    `neg_atom_lists` is a conjunction that implies the negation.  i_prec and the pass/fail hint come from the
    untrusted estimator; an EstimateError is recorded in meta["estimate_error"] (the caller may drop the instance)."""
    P = dict(DEFAULT_PARAMS); P.update(params or {})
    meta = dict(meta or {})
    g = Structured(atoms, P["big_const_bits"])
    negs = [Structured(a, P["big_const_bits"]) for a in neg_atom_lists]
    hint = None
    prec = 128
    try:
        prec, vals = plan_prec([d for d, _ in g.atoms], P["margin"], P["min_prec"], P["max_prec"])
        ok = all((v <= 0 if op == "<=" else v < 0) for v, (_, op) in zip(vals, g.atoms))
        hint = "pass" if ok else "fail"
        if not ok and negs:
            # precision needed by the (first) negation may differ: take the larger one
            p2, _ = plan_prec([d for d, _ in negs[0].atoms], P["margin"], P["min_prec"], P["max_prec"])
            prec = max(prec, p2)
        meta["est_prec"] = prec
    except EstimateError as ex:
        meta["estimate_error"] = str(ex)
    if kind is None:
        kind = "RI" if g.has_rint else "R"
    for st in [g] + negs:
        st.rint_opts = {k: P[k] for k in ("i_fuel", "i_degree") if k in P}
    return Instance(id, g, negs, kind=kind, prec=prec, hint=hint, meta=meta, trivial=trivial)


def rel_instance(id, y, ref, eps, scale=None, conds=(), params=None, meta=None, other_scales=()):
    """Instance for  |y - ref| <= eps * |scale|   (scale defaults to ref: plain relative error).

    y: exact value (Fraction / raw mpf tuple / Const), ref: E, eps: Fraction/Const, conds: side conditions from Cx.
    other_scales: further terms s such that the property's bound is eps*max(|scale|, |s|...): the bound is attempted
    with `scale` only (sufficient), the negation needs eps*|s| < |y - ref| for *every* one of them.
    When `ref` folds to a rational constant the goal is decided over Z by vm_compute instead of Interval."""
    y = lift(y); ref = lift(ref); eps = lift(eps)
    scale = ref if scale is None else lift(scale)
    scales = [scale] + [lift(s) for s in other_scales]
    meta = dict(meta or {})
    if ref.is_const() and all(s.is_const() for s in scales) and not conds:
        err = abs(y.v - ref.v)
        bound = eps.v * max(abs(s.v) for s in scales)
        return Instance(id, q_le_text(err, bound), [q_lt_text(bound, err)], kind="Z",
                        hint="pass" if err <= bound else "fail", meta=meta, trivial=(err == 0))
    err = rabs(y - ref)
    atoms = [tuple(c) for c in conds] + [(err, "<=", eps * rabs(scale))]
    negs = [[tuple(c) for c in conds] + [(eps * rabs(s), "<", err) for s in scales]]
    return atoms_instance(id, atoms, negs, params=params, meta=meta)


def sign_instance(id, term, op, params=None, meta=None):
    """Instance for `0 < term`, `term < 0`, `0 <= term` ... (op in {">0","<0",">=0","<=0"}); negation included."""
    term = lift(term)
    if term.is_const():
        v = term.v
        truth = {">0": v > 0, "<0": v < 0, ">=0": v >= 0, "<=0": v <= 0}[op]
        g = {">0": q_lt_text(0, v), "<0": q_lt_text(v, 0), ">=0": q_le_text(0, v), "<=0": q_le_text(v, 0)}[op]
        n = {">0": q_le_text(v, 0), "<0": q_le_text(0, v), ">=0": q_lt_text(v, 0), "<=0": q_lt_text(0, v)}[op]
        return Instance(id, g, [n], kind="Z", hint="pass" if truth else "fail", meta=meta, trivial=True)
    g = {">0": (ZERO, "<", term), "<0": (term, "<", ZERO), ">=0": (ZERO, "<=", term), "<=0": (term, "<=", ZERO)}[op]
    n = {">0": (term, "<=", ZERO), "<0": (ZERO, "<=", term), ">=0": (term, "<", ZERO), "<=0": (ZERO, "<", term)}[op]
    return atoms_instance(id, [g], [[n]], params=params, meta=meta)


# ---- exact rational goals decided over Z by vm_compute ------------------------------------------------

def _zlit(n):
    return "(%d)" % n if n < 0 else "%d" % n


def _zscaled(fr_list):
    """Common power-of-two-free integer form: returns integers n_i with n_i = fr_i * L for the lcm L of denominators."""
    from math import lcm
    L = 1
    for f in fr_list:
        L = lcm(L, Fraction(f).denominator)
    return [int(Fraction(f) * L) for f in fr_list]


def q_le_text(a, b):
    """Coq boolean statement (over Z) equivalent to the rational inequality a <= b."""
    x, y = _zscaled([a, b])
    return "(%s <=? %s) = true" % (_zlit(x), _zlit(y))


def q_lt_text(a, b):
    x, y = _zscaled([a, b])
    return "(%s <? %s) = true" % (_zlit(x), _zlit(y))


def z_pow_cmp_text(lhs, op, rhs):
    """lhs/rhs: lists of (base:int, exponent:int>=0) factors, product semantics; op in {"<=?","<?","=?"}.
    The powers are *not* expanded in Python: Coq evaluates them (`vm_compute`)."""
    def prod(fs):
        if not fs: return "1"
        return " * ".join("%s ^ %d" % (_zlit(b), e) if e != 1 else _zlit(b) for b, e in fs)
    return "(%s %s %s) = true" % (prod(lhs), op, prod(rhs))


def z_instance(id, goal_text, neg_text=None, hint=None, meta=None, trivial=False):
    return Instance(id, goal_text, [neg_text] if neg_text else [], kind="Z", hint=hint, meta=meta, trivial=trivial)


def root_instance(id, y, x, n, eps, meta=None):
    """Monotone-inverse certificate for y ~ x^(1/n), x>0, y>0 exact rationals, eps = 2^-s:
        |y - r| <= eps*r  with r = x^(1/n)   <=>   y^n <= x*(1+eps)^n  and  x*(1-eps)^n <= y^n
    decided over Z by vm_compute with explicit exponents (nothing is expanded in Python)."""
    y = Fraction(y); x = Fraction(x); eps = Fraction(eps)
    assert x > 0 and n >= 1 and 0 < eps < 1
    if y <= 0:
        return Instance(id, "(1 <=? 0) = true", ["(0 <? 1) = true"], kind="Z", hint="fail", meta=meta)
    en, ed = eps.numerator, eps.denominator
    # y = yn/yd, x = xn/xd:   yn^n * xd * ed^n <= xn * yd^n * (ed+en)^n ;  xn * yd^n * (ed-en)^n <= yn^n * xd * ed^n
    L = [(y.numerator, n), (x.denominator, 1), (ed, n)]
    up = [(x.numerator, 1), (y.denominator, n), (ed + en, n)]
    lo = [(x.numerator, 1), (y.denominator, n), (ed - en, n)]
    def P(fs):
        return " * ".join("%s ^ %d" % (_zlit(b), e) if e != 1 else _zlit(b) for b, e in fs if b != 1) or "1"
    goal = "((%s <=? %s) && (%s <=? %s))%%bool = true" % (P(L), P(up), P(lo), P(L))
    neg = "((%s <=? %s) && (%s <=? %s))%%bool = false" % (P(L), P(up), P(lo), P(L))
    yn = y.numerator ** n * x.denominator * ed ** n
    ok = yn <= x.numerator * y.denominator ** n * (ed + en) ** n and x.numerator * y.denominator ** n * (ed - en) ** n <= yn
    return Instance(id, goal, [neg], kind="Z", hint="pass" if ok else "fail", meta=meta,
                    trivial=False)


# =====================================================================================================
# (b) certify
# =====================================================================================================

_ERR_RE = re.compile(r'File "([^"]+)", line (\d+), characters (\d+)-(\d+):\s*\n(?:Warning[^\n]*\n(?:[^\n]*\n)*?)?Error:\s*(.*)', re.S)


def _first_error(out):
    """-> (line, message) of the first *error* in coqc output, or None."""
    pos = 0
    for m in re.finditer(r'File "([^"]+)", line (\d+), characters \d+-\d+:\s*\n(Error|Warning)', out):
        if m.group(3) == "Error":
            msg = out[m.end():m.end() + 300].strip(": \n")
            return int(m.group(2)), msg
    return None


def _header(insts):
    kinds = {i.kind for i in insts}
    if kinds <= {"Z"}:
        return HEADER_Z
    h = HEADER_RINT if "RI" in kinds else HEADER_R
    return h


def _write_file(path, insts, what, precs, sentence_timeout):
    """what[i] in {"goal", ("neg", j)}; returns line map [(first_line, last_line)] per lemma."""
    lines = _header(insts).rstrip("\n").split("\n")
    lines.append("Set Default Timeout %d." % sentence_timeout)
    zmixed = any(i.kind == "Z" for i in insts) and not all(i.kind == "Z" for i in insts)
    spans = []
    for k, (ins, w, pr) in enumerate(zip(insts, what, precs)):
        text = ins.statement(w)
        if ins.kind == "Z" and zmixed:
            text = "(%s)%%Z" % text
        first = len(lines) + 1
        lines.append("Lemma inst_%d : %s." % (k, text))
        lines.append("Proof. %s. Qed." % ins.tactic_text(pr, w))
        spans.append((first, len(lines)))
    with open(path, "w") as f:
        f.write("\n".join(lines) + "\n")
    return spans


def _run_coqc(path, timeout):
    cmd = ["timeout", str(int(timeout)), "coqc", "-q", os.path.basename(path)]
    t0 = time.time()
    try:
        p = subprocess.run(cmd, capture_output=True, text=True, cwd=os.path.dirname(path), timeout=timeout + 30)
        rc, out = p.returncode, p.stdout + p.stderr
    except subprocess.TimeoutExpired:
        rc, out = 124, "python-side timeout"
    return rc, out, time.time() - t0, "cd %s && %s" % (os.path.dirname(path), " ".join(cmd))


def _safe(s):
    return re.sub(r"[^A-Za-z0-9_]", "_", s)[:60]


def certify(instances, tactic_params=None, jobs=16, timeout=None, tag="misc", clean=True):
    """Certify a list of instances.

    instances: list of `Instance`, or tuples (id, goal_text) / (id, goal_text, [neg_texts]) /
               (id, (y, ref_expr, eps_expr)) which are converted with `rel_instance`.
    tactic_params: overrides of DEFAULT_PARAMS.  timeout: overall soft budget in seconds (instances not decided
    when it expires are "inconclusive").
    Returns {"verdicts": {id: {"verdict","step","prec","secs","file","note", **meta}}, "cmds": [...],
             "counts": {"pass","fail","inconclusive"}, "wall_s", "dir", "params"}.
    A lemma counts as proved iff coqc executed its `Qed` without error (whole file compiled, or the first error
    reported by coqc is located strictly after it)."""
    P = dict(DEFAULT_PARAMS); P.update(tactic_params or {})
    t_start = time.time()
    deadline = t_start + timeout if timeout else None
    insts = []
    for it in instances:
        if isinstance(it, Instance):
            insts.append(it)
        else:
            id_, g = it[0], it[1]
            if isinstance(g, str):
                insts.append(Instance(id_, g, it[2] if len(it) > 2 else [], kind="Z" if "%Z" in g or "=? " in g else "R",
                                      prec=P.get("prec", 64)))
            else:
                insts.append(rel_instance(id_, g[0], g[1], g[2], params=P))
    ids = [i.id for i in insts]
    assert len(set(ids)) == len(ids), "duplicate instance ids"
    d = os.path.join(CERT_ROOT, _safe(tag))
    if clean and os.path.isdir(d):
        shutil.rmtree(d)
    os.makedirs(d, exist_ok=True)
    verdicts = {}
    cmds = []

    def remaining():
        return None if deadline is None else deadline - time.time()

    def record(ins, verdict, step, prec, secs, fname, note=""):
        v = {"verdict": verdict, "step": step, "prec": prec, "secs": round(secs, 2), "file": fname, "note": note,
             "kind": ins.kind, "trivial": ins.trivial}
        v.update(ins.meta)
        verdicts[ins.id] = v

    # ---------------- the ladder on single-lemma files (used for predicted violations first, then for batch leftovers)
    def ladder(arg):
        ins, why = arg
        t0 = time.time()
        base = ins.prec
        mults = P["ladder"] if ins.kind != "Z" else [1]
        precs = [min(P["max_prec"], base * m) for m in mults]
        G = ["goal"]; N = [("neg", j) for j in range(len(ins._negs))]
        steps = []
        if ins.hint == "fail":                    # predicted violation: negation first at every rung, then the bound
            for pr in precs: steps += [(w, pr) for w in N]
            for pr in precs: steps += [(w, pr) for w in G]
        elif ins.hint == "pass":                  # predicted to hold: more precision before trying the negation
            for pr in precs: steps += [(w, pr) for w in G]
            for pr in precs: steps += [(w, pr) for w in N]
        else:
            for pr in precs: steps += [(w, pr) for w in G + N]
        if why == "failed":                       # already attempted in the batch with the same parameters
            steps = [st for st in steps if st != ("goal", precs[0])]
        last_note = why
        for sidx, (w, pr) in enumerate(steps):
            if remaining() is not None and remaining() < 5:
                return ins, "inconclusive", "budget", pr, time.time() - t0, "", "time budget exhausted"
            wn = "bound" if w == "goal" else "neg%d" % w[1]
            fname = "single_%s_%s_p%d.v" % (_safe(ins.id), wn, pr)
            path = os.path.join(d, fname)
            _write_file(path, [ins], [w], [pr], max(P["sentence_timeout"], P["single_timeout"]))
            st = P["single_timeout"] if remaining() is None else max(10, min(P["single_timeout"], remaining()))
            rc, out, secs, cmd = _run_coqc(path, st)
            cmds.append(cmd)
            if rc == 0:
                return ins, ("pass" if w == "goal" else "fail"), "%s@%d" % (wn, pr), pr, time.time() - t0, fname, ""
            err = _first_error(out)
            last_note = "timeout" if rc == 124 or (err and "Timeout" in err[1]) else (err[1][:120] if err else "rc=%d" % rc)
        return ins, "inconclusive", "ladder-exhausted", steps[-1][1] if steps else base, time.time() - t0, "", last_note

    # ---------------- stage 1: batches of instances not predicted to fail
    first = [i for i in insts if i.hint != "fail"]
    ladder_q = [(i, "hint") for i in insts if i.hint == "fail"]
    def cost(i):
        return 0.05 if i.kind == "Z" else 0.05 + (i.prec / 1000.0) ** 2 * (1 + len(getattr(i._goal, "shared", ())) / 4.0)
    first.sort(key=lambda i: -cost(i))
    nfiles = max(1, min(len(first), max(jobs, (len(first) + P["batch"] - 1) // P["batch"])))
    if first and len(first) / nfiles < 4:
        nfiles = max(1, len(first) // 4)
    groups = [[] for _ in range(nfiles)]
    loads = [0.0] * nfiles
    for i in first:                       # longest-processing-time-first bin packing on the estimated cost
        k = min(range(nfiles), key=lambda j: (loads[j], len(groups[j])))
        groups[k].append(i); loads[k] += cost(i)
    order = sorted(range(nfiles), key=lambda j: -loads[j])
    groups = [groups[j] for j in order]
    counter = [0]

    def do_batch(group, name):
        """compile group; returns list of (instance, status, secs_share) with status in pass/failed/timeout/unknown"""
        res = []
        todo = list(group)
        gen = 0
        while todo:
            if remaining() is not None and remaining() < 5:
                res += [(i, "budget", 0.0, "") for i in todo]; break
            fname = "%s_%d.v" % (name, gen)
            path = os.path.join(d, fname)
            spans = _write_file(path, todo, ["goal"] * len(todo), [i.prec for i in todo], P["sentence_timeout"])
            # hangs are caught per sentence (Set Default Timeout); the shell timeout only has to respect the overall budget
            est = 30 + 3 * P["sentence_timeout"] + 20 * sum(cost(i) for i in todo)
            ft = max(P["file_timeout"], est) if remaining() is None else max(10, remaining())
            rc, out, secs, cmd = _run_coqc(path, ft)
            cmds.append(cmd)
            if rc == 0:
                res += [(i, "pass", secs / len(todo), fname) for i in todo]; break
            err = _first_error(out)
            if err is None:           # shell timeout / crash without location
                if len(todo) == 1:
                    res.append((todo[0], "timeout" if rc == 124 else "unknown", secs, fname)); break
                res += [(i, "split", 0.0, fname) for i in todo]; break
            line, msg = err
            k = next((j for j, (a, b) in enumerate(spans) if a <= line <= b), None)
            if k is None:
                res += [(i, "unknown", 0.0, fname) for i in todo]; break
            res += [(i, "pass", secs / max(1, k + 1), fname) for i in todo[:k]]
            res.append((todo[k], "timeout" if "Timeout" in msg else "failed", secs / max(1, k + 1), fname))
            todo = todo[k + 1:]
            gen += 1
        return res

    with ThreadPoolExecutor(jobs) as ex:
        # predicted violations go to the head of the queue: they are the verdicts that matter most, and a budget consumed
        # by thousand-bit passing instances must not leave them undecided
        early = [ex.submit(ladder, a) for a in ladder_q]
        ladder_q = []
        futs = [ex.submit(do_batch, g, "batch_%03d" % n) for n, g in enumerate(groups) if g]
        batch_res = [r for f in futs for r in f.result()]
        for f in early:
            ins, verdict, step, pr, secs, fname, note = f.result()
            record(ins, verdict, step, pr, secs, fname, note)
    split = []
    for ins, st, secs, fname in batch_res:
        if st == "pass":
            record(ins, "pass", "batch", ins.prec, secs, fname)
        elif st == "split":
            split.append(ins)
        elif st == "budget":
            record(ins, "inconclusive", "budget", ins.prec, secs, fname, "time budget exhausted")
        else:
            ladder_q.append((ins, st))
    if split:      # a batch died without an error location: run its lemmas one per file
        def one(ins):
            return do_batch([ins], "solo_%s" % _safe(ins.id))
        with ThreadPoolExecutor(jobs) as ex:
            for r in ex.map(one, split):
                for ins, st, secs, fname in r:
                    if st == "pass": record(ins, "pass", "solo", ins.prec, secs, fname)
                    else: ladder_q.append((ins, st))

    # ---------------- stage 2: ladder on single-lemma files (the ladder itself is defined above)
    if ladder_q:
        with ThreadPoolExecutor(jobs) as ex:
            for ins, verdict, step, pr, secs, fname, note in ex.map(ladder, ladder_q):
                record(ins, verdict, step, pr, secs, fname, note)
    counts = {"pass": 0, "fail": 0, "inconclusive": 0}
    for v in verdicts.values():
        counts[v["verdict"]] += 1
    return {"verdicts": verdicts, "cmds": cmds, "counts": counts, "wall_s": round(time.time() - t_start, 2),
            "dir": d, "params": P}


def replay_text(result, ins_id):
    """Full text of the .v file that decided an instance (the replay of a certified violation)."""
    v = result["verdicts"][ins_id]
    if not v.get("file"):
        return None
    with open(os.path.join(result["dir"], v["file"])) as f:
        return f.read()


def check_text(vtext, timeout=300, tag="replay"):
    """Compile a stored .v text again (used by `replay`): returns (ok, output)."""
    d = os.path.join(CERT_ROOT, _safe(tag))
    os.makedirs(d, exist_ok=True)
    path = os.path.join(d, "replay_%s.v" % hashlib.sha1(vtext.encode()).hexdigest()[:10])
    with open(path, "w") as f:
        f.write(vtext)
    rc, out, secs, cmd = _run_coqc(path, timeout)
    return rc == 0, out, cmd


# =====================================================================================================
# (c) trusted base
# =====================================================================================================

_TB_CACHE = {}


def trusted_base(kind="R", timeout=120):
    """Compile one representative lemma of the given kind ("R": Interval on a transcendental goal, "Z": vm_compute
    on integers) followed by `Print Assumptions`, and return the trusted base as a list of strings."""
    if kind in _TB_CACHE:
        return _TB_CACHE[kind]
    d = os.path.join(CERT_ROOT, "_trusted_base")
    os.makedirs(d, exist_ok=True)
    if kind == "Z":
        src = HEADER_Z + "Lemma rep : (3 ^ 5 <=? 2 ^ 8) = true.\nProof. vm_compute; reflexivity. Qed.\nPrint Assumptions rep.\n"
    else:
        src = HEADER_R + ("Lemma rep : Rabs (exp 1 * cos (atan (ln (sqrt 2))) - sin PI) <= 3.\n"
                          "Proof. interval with (i_prec 80). Qed.\nPrint Assumptions rep.\n")
    path = os.path.join(d, "tb_%s.v" % kind)
    with open(path, "w") as f:
        f.write(src)
    rc, out, secs, cmd = _run_coqc(path, timeout)
    base = ["Coq 8.16.1 kernel incl. the vm_compute conversion machine (coqc, no native_compute)"]
    if rc != 0:
        base.append("Print Assumptions run FAILED: " + out[-300:])
        return base
    if "Closed under the global context" in out:
        axioms = []
    else:
        axioms = re.findall(r"^([A-Za-z_][\w.]*)\s*(?=:|$)", out, re.M)
        axioms = [a for a in axioms if a != "Axioms" and "." in a]
    if kind == "R":
        base += ["Coq Interval 4.6.1 (libcoq-interval; tactic `interval`/`integral`: reification + verified interval "
                 "evaluator, its proof term is re-checked by the kernel at Qed)",
                 "Coquelicot 3.2.0, Flocq 4.1.0, Coq standard library Reals",
                 "Python instance generator: reading of the raw _mpf_ tuples, printer of the real terms, and the "
                 "reference formulas (definition or named identity, listed under `assumptions`)"]
        prim = sorted(a for a in axioms if a.startswith(("Uint63.", "PrimInt63.")))
        other = sorted(a for a in axioms if not a.startswith(("Uint63.", "PrimInt63.")))
        base += ["axiom: " + a for a in other]
        if prim:
            base.append("primitive 63-bit integers used by Interval's bignum back-end (%d `Uint63.*_spec`/`PrimInt63.*` "
                        "primitives and their specification axioms, e.g. %s)" % (len(prim), ", ".join(prim[:4])))
    else:
        base += ["Coq standard library ZArith (binary integers; no axioms)" if not axioms else
                 "axioms: " + ", ".join(axioms),
                 "Python instance generator: reading of the raw _mpf_ tuples and the printer of the integer statements"]
    base.append("checker command: " + cmd)
    _TB_CACHE[kind] = base
    return base


def summarize_cmds(cmds, n=3):
    """Evidence-friendly form of the list of command lines."""
    return {"count": len(cmds), "examples": cmds[:n],
            "pattern": "cd /verif/build/cert/<tag> && timeout <T> coqc -q <file>.v   (one per batch / single-lemma file)"}
