"""Batch of boolean Z/Q checks decided by Coq's vm_compute.  Each check is (id:int, coq_bool_expr:str).
One file: `Eval vm_compute` prints the ids whose expression is false (for diagnosis), and the lemma
`forallb snd chk = true` is what the kernel accepts when everything holds."""
import os, re, subprocess, time
from common import VERIF


def run(tag, checks, imports="From MP Require Import Algo.Base Algo.Libmpf Algo.Intfun.", defs="", timeout=900, shard=400):
    d = os.path.join(VERIF, "build", "zcert", tag)
    os.makedirs(d, exist_ok=True)
    for f in os.listdir(d):
        os.remove(os.path.join(d, f))
    files = []
    for si in range(0, len(checks), shard):
        part = checks[si:si + shard]
        body = ["From Coq Require Import ZArith List Bool.", imports, "Import ListNotations. Open Scope Z_scope.", defs,
                "Definition chk : list (Z * bool) := [",
                ";\n".join("  (%d, %s)" % (i, e) for i, e in part), "].",
                "Eval vm_compute in (map fst (filter (fun p => negb (snd p)) chk)).",
                "Lemma all_ok : forallb snd chk = true.", "Proof. vm_compute. reflexivity. Qed."]
        path = os.path.join(d, "Z%03d.v" % (si // shard))
        with open(path, "w") as f:
            f.write("\n".join(body) + "\n")
        files.append(path)
    from concurrent.futures import ThreadPoolExecutor
    def one(path):
        cmd = ["coqc", "-Q", os.path.join(VERIF, "coq"), "MP", path]
        t0 = time.time()
        try:
            p = subprocess.run(cmd, capture_output=True, text=True, timeout=timeout, cwd=d)
            out = p.stdout + p.stderr; rc = p.returncode
        except subprocess.TimeoutExpired:
            out, rc = "TIMEOUT", 124
        return path, rc, out, " ".join(cmd), time.time() - t0
    with ThreadPoolExecutor(8) as ex:
        res = list(ex.map(one, files))
    failing, errors, cmds = [], [], []
    for path, rc, out, cmd, secs in res:
        cmds.append(cmd)
        m = re.search(r"=\s*\[(.*?)\]\s*:\s*list Z", out, re.S)
        if m and m.group(1).strip():
            failing += [int(x.replace("%Z", "").strip()) for x in m.group(1).replace("\n", " ").split(";") if x.strip()]
        elif rc != 0:
            errors.append((path, out[-800:]))
    return {"ok": not failing and not errors, "failing": failing, "errors": errors, "cmds": cmds, "n": len(checks), "files": len(files)}
