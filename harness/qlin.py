"""qlin — UNTRUSTED exact linear algebra over Gaussian rationals (search side only).
Everything produced here is re-checked by Coq (A*Y = d*I, A*X = d*b as integer matrices)."""
from fractions import Fraction
import math


class GQ:
    """Gaussian rational re + i*im"""
    __slots__ = ("re", "im")

    def __init__(self, re_=0, im_=0):
        self.re = Fraction(re_); self.im = Fraction(im_)

    def __add__(s, o): return GQ(s.re + o.re, s.im + o.im)
    def __sub__(s, o): return GQ(s.re - o.re, s.im - o.im)
    def __neg__(s): return GQ(-s.re, -s.im)
    def __mul__(s, o):
        if not s.im and not o.im:
            return GQ(s.re * o.re, 0)
        return GQ(s.re * o.re - s.im * o.im, s.re * o.im + s.im * o.re)
    def conj(s): return GQ(s.re, -s.im)
    def n2(s): return s.re * s.re + s.im * s.im
    def __truediv__(s, o):
        if not o.im:
            return GQ(s.re / o.re, s.im / o.re)
        d = o.n2()
        return GQ((s.re * o.re + s.im * o.im) / d, (s.im * o.re - s.re * o.im) / d)
    def __bool__(s): return bool(s.re) or bool(s.im)
    def __eq__(s, o): return s.re == o.re and s.im == o.im
    def __repr__(s): return "GQ(%s,%s)" % (s.re, s.im)


def from_sm(sm):
    k, M = sm
    d = 1 << k
    return [[GQ(Fraction(a, d), Fraction(b, d)) for a, b in r] for r in M]


def mmul(A, B):
    n = len(B[0]) if B else 0
    out = []
    for r in A:
        row = []
        for j in range(n):
            s = GQ()
            for k in range(len(B)):
                if r[k] and B[k][j]:
                    s = s + r[k] * B[k][j]
            row.append(s)
        out.append(row)
    return out


def conjT(A):
    return [[A[i][j].conj() for i in range(len(A))] for j in range(len(A[0]))]


def solve(A, B):
    """exact solution X of A X = B (A square n x n of GQ, B n x m); None if singular.
    Gauss-Jordan with first-nonzero pivoting."""
    n = len(A)
    m = len(B[0])
    M = [list(A[i]) + list(B[i]) for i in range(n)]
    for c in range(n):
        piv = None
        for r in range(c, n):
            if M[r][c]:
                piv = r; break
        if piv is None:
            return None
        M[c], M[piv] = M[piv], M[c]
        inv = GQ(1) / M[c][c]
        M[c] = [x * inv if x else x for x in M[c]]
        for r in range(n):
            if r != c and M[r][c]:
                f = M[r][c]
                M[r] = [x - f * y if y else x for x, y in zip(M[r], M[c])]
    return [row[n:] for row in M]


def inverse(A):
    n = len(A)
    I = [[GQ(1 if i == j else 0) for j in range(n)] for i in range(n)]
    return solve(A, I)


def to_int(rows):
    """rows of GQ -> (scale-0 integer (re,im) rows, common denominator d > 0): rows = ints / d"""
    d = 1
    for r in rows:
        for x in r:
            for q in (x.re, x.im):
                d = d * q.denominator // math.gcd(d, q.denominator)
    return [[(int(x.re * d), int(x.im * d)) for x in r] for r in rows], d


def frob2(rows):
    return sum((x.n2() for r in rows for x in r), Fraction(0))
