"""Union of all case generators / spec predicates, keyed by modelled function name."""
import mpfcases, cxcases, api


def make(rng, fn, n):
    if fn == "API_OPS": return api.api_cases(rng, n)
    if fn == "API_F": return api.fcases(rng, n)
    if fn in cxcases.GENS: return cxcases.make_cases(rng, fn, n)
    return mpfcases.make_cases(rng, fn, n)


def spec(case, out):
    if case.fn in cxcases.GENS and case.exact is not None and case.exact[0] in (
            "cv", "cv0", "cv1", "cvpow", "cmod", "csqrt", "ints", "contain1", "contain2", "ccontain", "ivcmp") or \
            (case.fn in ("mpc_abs",) and case.exact is not None):
        return cxcases.spec_check(case, out)
    return mpfcases.spec_check(case, out)
