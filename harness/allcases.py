"""Union of all case generators / spec predicates, keyed by modelled function name."""
import mpfcases, cxcases, api, ctxcases, strcases


def make(rng, fn, n):
    if fn == "API_OPS": return api.api_cases(rng, n)
    if fn == "API_F": return api.fcases(rng, n)
    if fn in strcases.GENS: return strcases.make_cases(rng, fn, n)
    if fn in CTX: return ctxcases.make_cases(rng, fn, n)
    if fn in cxcases.GENS: return cxcases.make_cases(rng, fn, n)
    return mpfcases.make_cases(rng, fn, n)


CTX = {"mpf_mag", "mpc_mag", "int_mag", "mpq_mag", "nint_distance_mpf", "nint_distance_mpc", "nint_distance_mpq",
       "mpf_isint", "mpf_isnpint", "mpc_isint", "mpf_class", "CTX_mpf_shift", "CTX_mpf_frexp", "pickle_roundtrip",
       "from_float_parts", "to_float_parts"}


def spec(case, out):
    if case.exact is not None and case.exact[0] in ("str", "tostr"):
        return strcases.spec_check(case, out)
    if case.exact is not None and case.exact[0] in ("mag", "mag2", "nintd", "bool", "list", "v0", "tuple", "tofloat") or case.fn == "from_float_parts":
        return ctxcases.spec_check(case, out)
    if case.fn in cxcases.GENS and case.exact is not None and case.exact[0] in (
            "cv", "cv0", "cv1", "cvpow", "cmod", "cspecial", "csqrt", "ints", "contain1", "contain2", "ccontain", "ivcmp", "elemcontain", "trigcontain", "compose", "atan2plan") or \
            (case.fn in ("mpc_abs",) and case.exact is not None):
        return cxcases.spec_check(case, out)
    return mpfcases.spec_check(case, out)
