"""Writes /verif/MANIFEST.json from the table below (kept in one place so it stays valid)."""
import json, os
VERIF = os.path.dirname(os.path.dirname(os.path.abspath(__file__)))

TB_A = ("Trusted: Coq 8.16.1 kernel (+vm_compute); Flocq; stdlib real axioms sig_forall_dec, sig_not_dec, "
        "functional_extensionality_dep, classic under theorems stated over R (pure-Z theorems are closed); hand-written "
        "Gallina model tied to the code by the correspondence run (extraction with ExtrOcamlBasic only, extract/driver.ml, "
        "Python harness/generators); Tables.v regenerated from the live module each run; CPython int semantics.")

CHECKS = {
 "C01": dict(level="proof", engine="A", technique="Coq proof (pure Z, axiom-free) of canonicity of normalize/normalize1/from_man_exp and closure of add/sub/mul/div/sqrt/pos/neg/abs + uniqueness; extracted-model correspondence; canonicity sweep",
   text="Universal theorems (all mantissas, exponents, precisions, modes) on the Gallina model of libmpf that every modelled operation returns a canonical tuple and that canonical tuples are unique per value; the model is tied to /repo by running the extracted model against the live code on boundary-directed cases, and every tuple any call returns (raw, operators, ~150 public functions, interval endpoints) is checked canonical.",
   note=TB_A + " Not proved: canonicity of values produced by routines outside the model (observed by the sweep only)."),
 "C02": dict(level="proof", engine="A", technique="Coq/Flocq proof that normalize = round radix2 (FLX_exp p) in all five modes, lifted to from_int/from_man_exp/pos/neg/abs/mul; correspondence of add/sub/div/sqrt/mul_int/rdiv_int/from_rational/fsum and public operators against the extracted model and an exact-rational oracle",
   text="normalize/normalize1 are proved to return exactly Flocq's FLX rounding of the exact value for every input, precision and mode; conversions, unary ops and multiplication are corollaries. Addition, division, square root, fsum and the public operator/keyword glue are covered by the model correspondence plus an exact-rational correct-rounding oracle on directed cases (theorems for them are in progress and listed in DESIGN.md).",
   note=TB_A),
 "C10": dict(level="proof", engine="A", technique="Coq proof (pure Z) bc(result) <= prec for normalize/normalize1/from_man_exp/pos/mul; correspondence; bit-length monitor over public entry points with over-long arguments",
   text="Every rounded return path of the model ends in normalize/normalize1/from_man_exp, which are proved to return at most prec bits for every input; the model is tied to the code by correspondence, and a monitor feeds arguments with more bits than the precision to ~150 public entry points.",
   note=TB_A + " Functions outside the model are observed, not proved; known over-long results are listed in known_findings.json."),
}

NOT_APPLICABLE = {
}

ALL = ["C%02d" % i for i in range(1, 44)]


def main():
    checks = []
    for pid in ALL:
        if pid not in CHECKS:
            continue
        c = CHECKS[pid]
        checks.append({
            "property_id": pid,
            "quick_cmd": "./check %s --tier quick" % pid,
            "thorough_cmd": "./check %s --tier thorough" % pid,
            "evidence_file": "/verif/evidence/%s.json" % pid,
            "replay_cmd_template": "./check %s --replay {path}" % pid,
            "engine": c["engine"],
            "level_claimed": {"category": c["level"], "text": c["text"], "design_ref": "DESIGN.md section 3, " + pid},
            "level_note": c["note"],
            "technique": c["technique"],
        })
    na = []
    for pid in ALL:
        if pid not in CHECKS:
            na.append({"property_id": pid, "reason": NOT_APPLICABLE.get(pid, "check not built yet in this session (see DESIGN.md build order); not claimed")})
    m = {
        "version": 1,
        "setup_cmd": "make -C /verif clean all",
        "hooks": {"guard": "MPMATH_VERIF", "enable": "MPMATH_VERIF=1 in the environment of the checking process (no rebuild needed: pure Python)",
                  "baseline_off_cmd": "cd /repo && /venv/bin/python -m pytest -q -p no:cacheprovider --timeout=900",
                  "source_commits": [], "add_only": True},
        "engines": [
            {"name": "A", "path": "/verif/coq (Algo, Spec, Proofs, Props) + /verif/extract + /verif/harness", "serves_properties": [p for p in CHECKS if CHECKS[p]["engine"] == "A"],
             "kind_free_text": "hand-written Gallina model of libmp with Coq theorems; extracted to OCaml and run against the live implementation (correspondence); constant tables regenerated from the code and re-checked by Coq each run"},
        ],
        "checks": checks,
        "not_applicable": na,
        "notes": "Technique family: machine-checked proof in Coq 8.16.1. See DESIGN.md for the trusted base and what is modelled rather than verified.",
    }
    with open(os.path.join(VERIF, "MANIFEST.json"), "w") as f:
        json.dump(m, f, indent=1)


if __name__ == "__main__":
    main()
