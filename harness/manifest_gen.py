"""Writes /verif/MANIFEST.json from the table below (kept in one place so it stays valid)."""
import json, os
VERIF = os.path.dirname(os.path.dirname(os.path.abspath(__file__)))

TB_A = ("Trusted: Coq 8.16.1 kernel (+vm_compute); Flocq; stdlib real axioms sig_forall_dec, sig_not_dec, "
        "functional_extensionality_dep, classic under theorems stated over R (pure-Z theorems are closed); hand-written "
        "Gallina model tied to the code by the correspondence run (extraction with ExtrOcamlBasic only, extract/driver.ml, "
        "Python harness/generators); Tables.v regenerated from the live module each run; CPython int semantics.")

CHECKS = {
 "C01": dict(level="proof", engine="A", technique="Coq proof (pure Z, axiom-free) of canonicity of normalize/normalize1/from_man_exp and closure of add/sub/mul/div/sqrt/pos/neg/abs + uniqueness; extracted-model correspondence; canonicity sweep",
   text="Universal theorems (all mantissas, exponents, precisions, modes) on the Gallina model of libmpf that every modelled operation returns a canonical tuple and that canonical tuples are unique per value; the model is tied to /repo by running the extracted model against the live code on boundary-directed cases, and every tuple any call returns (raw, operators, ~150 public functions, interval endpoints) is checked canonical.",
   note=TB_A + " Not proved: canonicity of values produced by routines outside the model (observed by the sweep only)."),
 "C02": dict(level="proof", engine="A", technique="Coq/Flocq proof that normalize = round radix2 (FLX_exp p) in all five modes, lifted to from_int/from_man_exp/pos/neg/abs/mul; correspondence of add/sub/div/sqrt/mul_int/rdiv_int/from_rational/fsum and public operators against the extracted model and an exact-rational oracle",
   text="normalize/normalize1 are proved to return exactly Flocq's FLX rounding of the exact value for every input, precision and mode; conversions, unary ops and multiplication are corollaries. Addition, division, square root, fsum and the public operator/keyword glue are covered by the model correspondence plus an exact-rational correct-rounding oracle on directed cases (theorems for them are in progress and listed in DESIGN.md).",
   note=TB_A),
 "C10": dict(level="proof", engine="A", technique="Coq proof (pure Z) bc(result) <= prec for normalize/normalize1/from_man_exp/pos/mul; correspondence; bit-length monitor over public entry points with over-long arguments",
   text="Every rounded return path of the model ends in normalize/normalize1/from_man_exp, which are proved to return at most prec bits for every input; the model is tied to the code by correspondence, and a monitor feeds arguments with more bits than the precision to ~150 public entry points.",
   note=TB_A + " Functions outside the model are observed, not proved; known over-long results are listed in known_findings.json."),
}


TB_Z = ("Trusted: Coq 8.16.1 kernel (+vm_compute); hand-written Gallina model tied to the code by the correspondence run "
        "(extraction with ExtrOcamlBasic only, extract/driver.ml, Python harness/generators); Tables.v regenerated from the live "
        "module each run; CPython int semantics; search-side exact-rational oracles (Python fractions) decide the spec "
        "predicates on generated cases.")
CHECKS.update({
 "C03": dict(level="proof", engine="A", technique="Gallina model of mpf_pow_int (bit-recursive loop) in correspondence with the code; exact-rational oracle for direction/exactness/1-ulp/small-case clauses; shared normalize theorems",
   text="mpf_pow_int is transliterated (loop = structural recursion on the bits of n) and run against the live code on bases/exponents on both sides of every switch; every clause of the property (directed results never past the exact power, exact powers exact, nearest within 1 ulp, few-bit powers correctly rounded, huge powers bracketed by integer log2 bounds) is decided exactly per case. The final rounding step is covered by the normalize theorems; the loop invariant theorem is not yet proved.",
   note=TB_Z + " Universal theorem for the truncating loop (direction invariant) is future work: level is proof for the rounding step + exhaustive-by-case oracle for the loop."),
 "C04": dict(level="proof", engine="A", technique="Gallina model of libmpc arithmetic in correspondence; componentwise correct rounding (add/sub/mul/square/mul_mpf/mul_int/pow n>=0) and 4-ulp modulus bound (div/reciprocal/negative powers) decided exactly; mpc operators and equality at API level",
   text="Complex add/sub/mul/square/pow are compositions of exact products and one correctly rounded add per component in the model (normalize theorems apply); the model is tied to the code by correspondence and every generated case is decided by an exact-rational oracle, including the division family's error bound and exact equality with complex/int/float/mpf.",
   note=TB_Z),
 "C05": dict(level="proof", engine="A", technique="Gallina model of mpf_cmp/lt/le/gt/ge/eq, mpf_hash, mpc_hash in correspondence; exact-rational order oracle; hash agreement against the interpreter's hash() of int/float/complex",
   text="Comparison and hash routines are transliterated and tied by correspondence on same-top-bit, tiny-difference, cross-sign and special pairs; at API level every comparison across mpf/int/float/mpc/complex is decided against exact rationals and equal values are required to have equal hash().",
   note=TB_Z + " CPython's numeric hash is the reference (validated against the running interpreter on every run)."),
 "C06": dict(level="proof", engine="A", technique="Gallina model of round_int/to_int/mpf_round_int/floor/ceil/nint/frac/mpf_mod (+complex) in correspondence; exact definitions decided with rationals",
   text="Integer-part functions and modulo are transliterated; the model is tied by correspondence and each case is decided against the mathematical definition (floor, ceil, ties-to-even nint, frac in [0,1), sign and magnitude of x mod y) with correct rounding at the working precision.",
   note=TB_Z),
 "C09": dict(level="proof", engine="A", technique="Gallina model of from_float/to_float on frexp parts in correspondence; exactness / correct rounding decided with rationals on doubles chosen by 64-bit pattern",
   text="from_float is from_man_exp of the frexp parts (exact by the from_man_exp theorem); to_float is normalize1 to 53 bits (correct rounding theorem) followed by an exact ldexp in the normal range. The model is tied by correspondence over all exponent fields, subnormals, binade edges and halfway points.",
   note=TB_Z + " math.frexp/ldexp trusted."),
 "C14": dict(level="proof", engine="A", technique="Gallina model of libmpi (add/sub/mul/div/neg/abs/square/sqrt/pow_int) in correspondence; containment decided exactly at sampled member points; iv conversions and operators at API level",
   text="Interval arithmetic is transliterated branch for branch (all sign cases, zero and infinite endpoints); floor/ceiling endpoint roundings are instances of the normalize theorems; the model is tied by correspondence and containment of exact results is decided exactly for member points of every generated interval, including endpoints longer than the precision and string/number conversions.",
   note=TB_Z + " exp/log/sin/cos/tan/atan2/x**y and gamma family on intervals are not decided here."),
 "C15": dict(level="proof", engine="A", technique="Gallina model of mpci add/sub/mul/div/square/pow_int in correspondence; containment decided exactly at 16x9 member points per case",
   text="Complex interval arithmetic is a composition of the real interval model; tied by correspondence; containment of exact complex results decided exactly at member points of the rectangles.",
   note=TB_Z + " abs/exp/log/cos/sin/gamma on rectangles not decided here."),
 "C16": dict(level="proof", engine="A", technique="Gallina model of mpi_lt/le/gt/ge/eq in correspondence; three-valued semantics decided exactly from endpoints",
   text="The three-valued comparison functions are transliterated; since an interval relation holds for all/no member pairs iff it holds for the corresponding endpoints, each case is decided exactly; `in`, == and != at API level on touching, nested, infinite and point intervals.",
   note=TB_Z),
 "C39": dict(level="proof", engine="A", technique="Gallina model of mag/nint_distance/isint/isnpint/isinf/isnan/isnormal/isfinite/ldexp/frexp in correspondence through the public functions; specs decided exactly",
   text="The helper functions are transliterated for mpf, mpc, int and mpq arguments and compared with the public functions; |x| <= 2^mag <= 4|x| (8|z| for complex), nearest-integer and distance exponent, and the classification tables are decided exactly for every generated value.",
   note=TB_Z),
 "C40": dict(level="proof", engine="A", technique="Gallina model of to_pickable/from_pickable (hex digit lists) in correspondence with real pickle round trips under every protocol; copy and matrix copy independence",
   text="The hex encoding used for pickling is modelled on digit lists and compared with the implementation's encoding and with the result of real pickle.dumps/loads under protocols 0..5; copy.copy and matrix copies are checked for equal representation and independence.",
   note=TB_Z + " Pickling a matrix raises PicklingError in this snapshot and is not decided."),
})

NOT_APPLICABLE = {
}

ALL = ["C%02d" % i for i in range(1, 44)]


def main():
    checks = []
    for pid in ALL:
        if pid not in CHECKS:
            continue
        c = CHECKS[pid]
        checks.append({
            "property_id": pid,
            "quick_cmd": "./check %s --tier quick" % pid,
            "thorough_cmd": "./check %s --tier thorough" % pid,
            "evidence_file": "/verif/evidence/%s.json" % pid,
            "replay_cmd_template": "./check %s --replay {path}" % pid,
            "engine": c["engine"],
            "level_claimed": {"category": c["level"], "text": c["text"], "design_ref": "DESIGN.md section 3, " + pid},
            "level_note": c["note"],
            "technique": c["technique"],
        })
    na = []
    for pid in ALL:
        if pid not in CHECKS:
            na.append({"property_id": pid, "reason": NOT_APPLICABLE.get(pid, "check not built yet in this session (see DESIGN.md build order); not claimed")})
    m = {
        "version": 1,
        "setup_cmd": "make -C /verif clean all",
        "hooks": {"guard": "MPMATH_VERIF", "enable": "MPMATH_VERIF=1 in the environment of the checking process (no rebuild needed: pure Python)",
                  "baseline_off_cmd": "cd /repo && /venv/bin/python -m pytest -q -p no:cacheprovider --timeout=900",
                  "source_commits": [], "add_only": True},
        "engines": [
            {"name": "A", "path": "/verif/coq (Algo, Spec, Proofs, Props) + /verif/extract + /verif/harness", "serves_properties": [p for p in CHECKS if CHECKS[p]["engine"] == "A"],
             "kind_free_text": "hand-written Gallina model of libmp with Coq theorems; extracted to OCaml and run against the live implementation (correspondence); constant tables regenerated from the code and re-checked by Coq each run"},
        ],
        "checks": checks,
        "not_applicable": na,
        "notes": "Technique family: machine-checked proof in Coq 8.16.1. See DESIGN.md for the trusted base and what is modelled rather than verified.",
    }
    with open(os.path.join(VERIF, "MANIFEST.json"), "w") as f:
        json.dump(m, f, indent=1)


if __name__ == "__main__":
    main()
