"""Writes /verif/MANIFEST.json from the table below (kept in one place so it stays valid)."""
import json, os
VERIF = os.path.dirname(os.path.dirname(os.path.abspath(__file__)))

TB_A = ("Trusted: Coq 8.16.1 kernel (+vm_compute); Flocq; stdlib real axioms sig_forall_dec, sig_not_dec, "
        "functional_extensionality_dep, classic under theorems stated over R (pure-Z theorems are closed); hand-written "
        "Gallina model tied to the code by the correspondence run (extraction with ExtrOcamlBasic only, extract/driver.ml, "
        "Python harness/generators); Tables.v regenerated from the live module each run; CPython int semantics.")

CHECKS = {
 "C01": dict(level="proof", engine="A", technique="Coq proof (pure Z, axiom-free) of canonicity of normalize/normalize1/from_man_exp and closure of add/sub/mul/div/sqrt/pos/neg/abs/floor/ceil/nint/frac/mod/pow_int + uniqueness; extracted-model correspondence; canonicity sweep",
   text="Universal theorems (all mantissas, exponents, precisions, modes) on the Gallina model of libmpf that every modelled operation returns a canonical tuple and that canonical tuples are unique per value; the model is tied to /repo by running the extracted model against the live code on boundary-directed cases, and every tuple any call returns (raw, operators, ~150 public functions, interval endpoints) is checked canonical.",
   note=TB_A + " Not proved: canonicity of values produced by routines outside the model (observed by the sweep only)."),
 "C02": dict(level="proof", engine="A", technique="Coq/Flocq proof that normalize = round radix2 (FLX_exp p) in all five modes, lifted to from_int/from_man_exp/pos/neg/abs/mul; correspondence of add/sub/div/sqrt/mul_int/rdiv_int/from_rational/fsum and public operators against the extracted model and an exact-rational oracle",
   text="normalize/normalize1 are proved to return exactly Flocq's FLX rounding of the exact value for every input, precision and mode; conversions, unary ops and multiplication are corollaries. Addition/subtraction (including the far-apart-exponent shortcut), division, square root, from_rational and fsum (one exact integer accumulation and a single rounding, for lists of any length whose exponents lie within the 2*prec-bit window the routine keeps exact) have their own theorems (sticky-bit lemma); the public operator/keyword glue is covered by the model correspondence plus an exact-rational correct-rounding oracle on directed cases. The integer square roots behind mpf_sqrt (libintmath, pure-Python backend) are modelled step by step (Algo/Isqrt.v) with their floating-point seeds as inputs taken from the live source (the function AST is cut before its integer loop and the prefix compiled in the module namespace): the division Newton loop of isqrt_small_python is proved to return Z.sqrt x from every start value >= the root within log2(r0)+3 rounds, and the correction loops of sqrtrem_python to return (Z.sqrt x, x - (Z.sqrt x)^2) from every approximation >= root - 1; both hypotheses are monitored on every sampled call; isqrt_fast_python (division-free Newton) is modelled and in correspondence, its error bound is not proved.",
   note=TB_A),
 "C10": dict(level="proof", engine="A", technique="Coq proof bc(result) <= prec for normalize/normalize1/from_man_exp/pos/mul (pure Z) and, through the rounding theorems, add/sub/div/sqrt/mod/pow_int and complex add/sub/mul/div; correspondence; bit-length monitor over public entry points with over-long arguments",
   text="Every rounded return path of the model ends in normalize/normalize1/from_man_exp, which are proved to return at most prec bits for every input; the model is tied to the code by correspondence, and a monitor feeds arguments with more bits than the precision to ~150 public entry points.",
   note=TB_A + " Functions outside the model are observed, not proved; known over-long results are listed in known_findings.json."),
}


TB_Z = ("Trusted: Coq 8.16.1 kernel (+vm_compute); hand-written Gallina model tied to the code by the correspondence run "
        "(extraction with ExtrOcamlBasic only, extract/driver.ml, Python harness/generators); Tables.v regenerated from the live "
        "module each run; CPython int semantics; search-side exact-rational oracles (Python fractions) decide the spec "
        "predicates on generated cases.")
CHECKS.update({
 "C03": dict(level="proof", engine="A", technique="Coq/Flocq theorems (Props/C03.v): exact-small branches correctly rounded and exact, loop invariant of the directed binary exponentiation, directed results on the right side of x^n for positive and negative exponents, nearest mode within 3/4 ulp; Gallina model of mpf_pow_int (bit-recursive loop) in correspondence with the code; exact-rational oracle for direction/exactness/1-ulp/small-case clauses; shared normalize theorems",
   text="mpf_pow_int is transliterated (loop = structural recursion on the bits of n) and run against the live code on bases/exponents on both sides of every switch; every clause of the property (directed results never past the exact power, exact powers exact, nearest within 1 ulp, few-bit powers correctly rounded, huge powers bracketed by integer log2 bounds) is decided exactly per case. The final rounding step is covered by the normalize theorems; the loop invariant theorem is not yet proved. Theorems: for every regular base, exponent, precision and mode, the n=1/n=2/man=1/bc*n<1000 branches equal the Flocq rounding of x^n (and x^n itself when it fits); the loop's running product stays below (above) the exact partial power by induction on the exponent bits, its bit-count bookkeeping is exact up to the tolerated off-by-one, so floor/ceiling/down/up results are never past x^n; for n<0 the (prec+5)-bit power with reciprocal_rnd followed by division is on the right side of 1/x^n. In nearest mode the loop loses at most n*2^(1-wp) relative accuracy (lower-bound invariant with multiplicative (1-2^(1-wp))^k bookkeeping), so every branch returns a value within 3/4 ulp of x^n (C03_nearest).",
   note=TB_A + " Infinities/nan/zero bases and the public operator glue are decided by correspondence, tables and the exact oracle."),
 "C04": dict(level="proof", engine="A", technique="Coq/Flocq theorems (Props/C04.v): mpc add/sub/mul/mul_mpf/add_mpf are componentwise Flocq roundings of the exact complex result, square real part, structural equality; Gallina model of libmpc arithmetic in correspondence; componentwise correct rounding (add/sub/mul/square/mul_mpf/mul_int/pow n>=0) and 4-ulp modulus bound (div/reciprocal/negative powers) decided exactly; mpc operators and equality at API level",
   text="Complex add/sub/mul/square/pow are compositions of exact products and one correctly rounded add per component in the model (normalize theorems apply); the model is tied to the code by correspondence and every generated case is decided by an exact-rational oracle, including the division family's error bound and exact equality with complex/int/float/mpf. Theorems in Props/C04.v state componentwise correct rounding of add, sub, mul, scaling and the real part of square for all finite components, precisions and modes, that mpc equality is equality of both components, and for division, reciprocal and modulus an exact structural statement (correctly rounded quotient / square root of the (prec+10)- resp. (prec+4)-bit truncations) together with an error bound relative to the modulus: each component of z/w within 3*2^(1-prec)*|z|/|w|, of 1/z within 3*2^(1-prec)/|z|, |z| within 3*2^-prec*|z| (Flocq relative-error lemma + Cauchy-Schwarz). mpc_sqrt on the real axis is the correctly rounded real square root (sqrt a for a > 0, i sqrt(-a) for a < 0) in every mode.",
   note=TB_A + " Integer and negative powers, sqrt and mpf/mpc mixed division are decided by the exact oracle, not by a theorem."),
 "C05": dict(level="proof", engine="A", technique="Coq theorems (Props/C05.v): mpf_cmp returns the sign of the exact difference for all canonical finite operands, lt/le/gt/ge agree with the real order, nan unordered; mpf_hash = CPython's integer hash for integer-valued mpfs, the unique solution of h*2^k = m (mod 2^61-1) for dyadic rationals, mpc_hash(x,0) = mpf_hash x (pure Z, axiom-free); Gallina model of mpf_cmp/lt/le/gt/ge/eq, mpf_hash, mpc_hash in correspondence; exact-rational order oracle; hash agreement against the interpreter's hash() of int/float/complex",
   text="Comparison and hash routines are transliterated and tied by correspondence on same-top-bit, tiny-difference, cross-sign and special pairs; at API level every comparison across mpf/int/float/mpc/complex is decided against exact rationals and equal values are required to have equal hash(). Theorems in Props/C05.v: for all finite canonical operands mpf_cmp is the sign of the exact difference and mpf_lt/le/gt/ge hold exactly when the real-number relation holds (so the order inherits totality, antisymmetry and transitivity from the reals); nan is unordered. The hash theorems derive from 2^61 = 1 (mod 2^61-1) that mpf_hash follows the interpreter's rule hash(m/2^k) = m*(2^k)^-1 mod P for every finite value, hence equal numbers hash equally across int, mpf and real-valued mpc. Comparison of an mpf with a Python int or float is proved to be the comparison of the exact values (the right operand is converted exactly: from_int without rounding, from_float at 53 bits).",
   note=TB_A + " CPython's numeric hash is the reference (validated against the running interpreter on every run)."),
 "C06": dict(level="proof", engine="A", technique="Coq theorems (Props/C06.v): to_int/floor/ceil/nint/frac against Zfloor/Zceil/ZnearestE, mpf_mod against x - y*floor(x/y); Gallina model of round_int/to_int/mpf_round_int/floor/ceil/nint/frac/mpf_mod (+complex) in correspondence; exact definitions decided with rationals",
   text="Integer-part functions and modulo are transliterated; the model is tied by correspondence and each case is decided against the mathematical definition (floor, ceil, ties-to-even nint, frac in [0,1), sign and magnitude of x mod y) with correct rounding at the working precision. Theorems in Props/C06.v: the integer-part functions return Flocq's Zfloor/Zceil/ZnearestE of the value (rounded to prec), frac = x - floor x; mpf_mod returns the Flocq rounding of x - y*floor(x/y) for every finite x and non-zero finite y (both shortcut branches included), and that remainder has the sign of the divisor and smaller magnitude. to_fixed is proved to be floor(x*2^prec) for every integer prec and to_rational to be exact.",
   note=TB_A + " Complex floor/ceil/nint/frac and special values are decided by correspondence + exact oracle."),
 "C09": dict(level="proof", engine="A", technique="Coq/Flocq theorems (Props/C09.v): from_float exact for |m53| < 2^53 and prec >= 53, correctly rounded below; to_float hands ldexp the 53-bit Flocq rounding; Gallina model of from_float/to_float on frexp parts in correspondence; exactness / correct rounding decided with rationals on doubles chosen by 64-bit pattern",
   text="from_float is from_man_exp of the frexp parts (exact by the from_man_exp theorem); to_float is normalize1 to 53 bits (correct rounding theorem) followed by an exact ldexp in the normal range. The model is tied by correspondence over all exponent fields, subnormals, binade edges and halfway points. Theorems in Props/C09.v hold for every frexp mantissa/exponent pair and every regular mpf.",
   note=TB_A + " math.frexp/ldexp trusted."),
 "C14": dict(level="proof", engine="A", technique="Coq/Flocq theorems (Props/C14.v): containment for mpi add/sub/neg/pos/mul/square/abs/div/sqrt/pow_int on all member reals, and for exp/log/cos/sin/tan/cot/cosh/sinh/general power given 512-ulp-accurate point values (monitored hypothesis); Gallina model of libmpi (add/sub/mul/div/neg/abs/square/sqrt/pow_int, _mpi_outward, exp, log, cos_sin, tan, cot, cosh_sinh, pow) in correspondence; containment decided exactly at sampled member points; iv conversions and operators at API level",
   text="Interval arithmetic is transliterated branch for branch (all sign cases, zero and infinite endpoints); floor/ceiling endpoint roundings are instances of the normalize theorems; the model is tied by correspondence and containment of exact results is decided exactly for member points of every generated interval, including endpoints longer than the precision and string/number conversions. Theorems in Props/C14.v: for finite canonical endpoints of any length and every pair of member reals, x+y, x-y, -x, +x, x*y (all nine sign cases incl. the min/max of exact corner products), x*x, |x|, x/y (denominator interval not containing 0), sqrt x, x^n (n > 0, all sign/parity cases, built on the directed mpf_pow_int theorems of C03) and 1/x^n (when the enclosure of x^n excludes zero) lie in the computed interval, which is again a valid interval. exp, log, cos, sin, tan, cot, cosh/sinh and the general power exp(t ln s) on intervals: the point functions mpf_exp/mpf_log/mpf_cos_sin/mod_pi2 are not modelled, their values at the end points (recorded from the live call) are inputs of the model functions mpi_exp_from, mpi_log_from, mpi_cos_sin_from, mpi_tan_from, mpi_cot_from, mpi_cosh_sinh_from, mpi_pow_from, which are in correspondence with the live mpi_* functions; the theorems prove containment of exp x, ln x, cos x, sin x, tan x, cos x/sin x, cosh x, sinh x, x^y for every member point under the hypotheses `close` (each point value within a relative 2^(9-wp) of the exact one) and `quad` (the quadrant index is right) - including the whole extremum logic of mpi_cos_sin (quasi-convexity of cos on a period, proved from the standard library's monotonicity lemmas), the min/max selection, the outward factor and the clamp to [-1, 1]; both hypotheses are monitored on every sampled call against a (wp+120)-bit evaluation and a failure is reported as a violation with the input. Independently, elementary functions on intervals are decided per sampled interval by universally quantified Coq Interval certificates (props/c14e.py, exploration level for that part).",
   note=TB_A + " Infinite endpoints, division by intervals containing zero: correspondence + exact oracle (no theorem). Elementary part: Coq Interval certificates per instance (" + "Interval/Coquelicot axioms as for engine B). Gamma family on intervals not decided."),
 "C15": dict(level="proof", engine="A", technique="Coq/Flocq theorems (Props/C15.v): mpci add/sub/neg/pos/mul/square/div/pow_int (n>0) contain every exact complex result for all member points; Gallina model of mpci add/sub/mul/div/square/pow_int in correspondence; containment decided exactly at 16x9 member points per case; point-wise Interval certificates for abs/exp/log/cos/sin on rectangles",
   text="Complex interval arithmetic is a composition of the real interval model: theorems in Props/C15.v prove, for finite rectangles, every precision and every member point a+bi, c+di, that the sum, difference, negation, product (ac-bd, ad+bc), square, quotient (when the enclosure of |w|^2 excludes zero) and positive integer powers (loop invariant by induction on the exponent bits) lie in the computed rectangle (compositions of the C14 containment theorems with exact inner products). The model is tied by correspondence; division and powers are decided exactly at member points. mpci_abs contains |z| (theorem without any hypothesis on point functions: exact squares, a sum rounded down that stays non-negative, the square-root theorem); mpci_exp, mpci_cos, mpci_sin contain exp a cos b + i exp a sin b, cos a cosh b - i sin a sinh b, sin a cosh b + i cos a sinh b for every member point, by composition of the C14 theorems under the same monitored hypotheses on the recorded point values (models mpci_exp_from, mpci_cos_from, mpci_sin_from in correspondence with the live functions). The argument of a rectangle (mpi_atan2, hence mpci_arg and the imaginary part of mpci_log): mpf_atan2 is not modelled; the model mpi_atan2_plan says at which two corners it is evaluated and is compared with the arguments of the live calls; theorems: in each open half-plane the angle of every member point lies between the angles at the chosen corners, and rectangles on the real axis or meeting the branch cut get [0,0], [pi,pi], [0,pi] or [-pi,pi] (the last two since fix a833e27, a defect found by this correspondence). At API level, mixed operands in both orders (Python complex/int/float and iv.mpf against iv.mpc/iv.mpf for -, / and **) and integer-interval exponents z ** [m, n] are compared with exact Gaussian-rational values. Independently abs/exp/log/cos/sin on rectangles are decided point-wise by Coq Interval certificates (a necessary condition only; exploration level for that part).",
   note=TB_A + " Negative powers and complex exponents: correspondence + exact oracle (no theorem). Elementary part: per-point Interval certificates. Gamma family on rectangles: necessary condition at integer member points only."),
 "C16": dict(level="proof", engine="A", technique="Coq theorems (Props/C16.v): three-valued interval comparisons are exactly the for-all / for-none statements over member reals; Gallina model of mpi_lt/le/gt/ge/eq in correspondence; three-valued semantics decided exactly from endpoints",
   text="The three-valued comparison functions are transliterated; since an interval relation holds for all/no member pairs iff it holds for the corresponding endpoints, each case is decided exactly; `in`, == and != at API level on touching, nested, infinite and point intervals. Theorems in Props/C16.v prove for finite endpoints that True means the relation holds for every pair of members, False for none, None otherwise.",
   note=TB_A),
 "C39": dict(level="proof", engine="A", technique="Coq theorems (Props/C39.v): 2^(mag-1) <= |x| < 2^mag for regular x (so |x| <= 2^mag <= 4|x|), isint characterisation, ldexp exact, frexp returns (m, e) with x = m*2^e and 1/2 <= |m| < 1, isnpint characterises non-positive integers, nint_distance returns the nearest integer (|x-n| <= 1/2, half-integers away from zero) and the exact binary magnitude of the distance; Gallina model of mag/nint_distance/isint/isnpint/isinf/isnan/isnormal/isfinite/ldexp/frexp in correspondence through the public functions; specs decided exactly",
   text="The helper functions are transliterated for mpf, mpc, int and mpq arguments and compared with the public functions; |x| <= 2^mag <= 4|x| (8|z| for complex), nearest-integer and distance exponent, and the classification tables are decided exactly for every generated value. Theorems in Props/C39.v hold for every regular mpf.",
   note=TB_A),
 "C40": dict(level="proof", engine="A", technique="Coq theorems (Props/C40.v, pure Z, axiom-free): of_hex(to_hex n) = n for all n >= 0; from_pickable(to_pickable x) = x for every tuple with non-negative mantissa (all canonical values incl. inf/nan); Gallina model of to_pickable/from_pickable (hex digit lists) in correspondence with real pickle round trips under every protocol; copy and matrix copy independence",
   text="The hex encoding used for pickling is modelled on digit lists and compared with the implementation's encoding and with the result of real pickle.dumps/loads under protocols 0..5; copy.copy and matrix copies are checked for equal representation and independence. The round-trip theorems are by induction over the digit list (any mantissa length).",
   note=TB_Z + " Pickling a matrix raises PicklingError in this snapshot and is not decided."),
})


TB_C = ("Trusted: Coq 8.16.1 kernel (+vm_compute); the Python-ast translator harness/effects_translate.py (fail-closed; callee "
        "resolution by name; operators, libmp primitives and user callbacks modelled as calls that never change the precision); "
        "the fault-injection hook (MPMATH_VERIF=1) and harness/c11_dyn.py for dynamic validation. All theorems of coq_effects "
        "are closed under the global context (no axioms).")
TB_Q = ("Trusted: Coq 8.16.1 kernel + vm_compute on Bignums BigZ (Uint63 primitive-integer axioms of the standard library, "
        "transported to the Z reference checker by QBig.bcheck_sound); the Python harness only generates instances and reads "
        "raw tuples; exact Fraction elimination is an untrusted search whose results Coq re-checks; Interval/Coquelicot "
        "(stdlib real axioms + classic) for the few transcendental instances.")
CHECKS.update({
 "C11": dict(level="proof", engine="C", technique="Coq-verified abstract interpreter of precision effects (soundness theorem, axiom-free) applied to command terms regenerated from the current sources by a fail-closed Python-ast translator; interprocedural summaries checked by Coq; fault-injection validation",
   text="Every function that touches prec/dps is translated on every run into a small command language (save/set/add/sub, calls with summaries, raise/return/break/continue, try/finally, try/except, with, loops); a Gallina checker, proved sound for all executions (normal, returning and raising at any call boundary, calls inlined to any depth), certifies that each public entry point restores the precision; the setter/conversion formulas are proved in a pure-Z model incl. prec_dps_roundtrip for all d>=1. The abstraction is validated dynamically with injected faults and raising callbacks from non-dps-image precisions.",
   note=TB_C + " Not covered: asynchronous exceptions between two assignments; generators that write the precision are checked dynamically only; mp and iv precision cells are conflated."),
 "C30": dict(level="exploration", engine="Q", technique="per-instance exact-integer Coq certificates (vm_compute on BigZ, soundness transported to Z) of forward errors, factorization residuals, structure and elementwise identities; untrusted rational solutions re-checked by Coq",
   text="Each sampled solve/inverse/det/factorization is decided exactly by Coq from the raw dyadic entries: forward error against the Coq-checked exact rational solution within cond_F(A)*2^(10-p), residuals of PA=LU, A=QR, A=LL^H, Q^HQ=I, exact structure tests, and exact equality of + - * ** T H and norms with the proved list model. The universal accuracy claim is not proved (certified oracle per instance).",
   note=TB_Q + " cond is the Frobenius condition number from the exact inverse; 'moderate condition' = K*2^(10-p) <= 2^-8."),
 "C31": dict(level="exploration", engine="Q", technique="per-instance exact-integer Coq certificates of eigen/Schur/Hessenberg/SVD residuals, orthonormality, ordering and Gauss quadrature moments",
   text="Residuals ||AV - V diag(E)||, ||Q T Q^H - A||, orthonormality, realness of symmetric spectra, non-negative descending singular values with reconstruction, and exact polynomial moments of gauss_quadrature are decided exactly by Coq for every sampled matrix (real, complex, symmetric, Hermitian, triangular, diagonal, defective, repeated eigenvalues; all eig_sort orders).",
   note=TB_Q + " Eigenvector residuals are relative to ||A||_F*||v||_2 (mpmath does not normalise); for hermite/chebyshev weights only moment ratios are certified."),
 "C32": dict(level="exploration", engine="Q", technique="per-instance exact-integer Coq certificates of matrix-function identities; Interval certificates for expm(diag)",
   text="expm(logm A)=A, sqrtm(A)^2=A, powm(A,k)=A^k, cosm^2+sinm^2=I are decided exactly by Coq from the returned dyadic matrices for both expm methods; expm(diag d) is certified against exp d_i with the Interval tactic.",
   note=TB_Q + " Tolerance read as ||A||_F*2^(10-p)*||RHS||_F with ||A||_F>=1 and spectrum in the right half plane."),
 "C35": dict(level="exploration", engine="Q", technique="per-instance exact-integer Coq certificates of the pslq/findpoly post-conditions; planted relations; identify strings certified through Interval",
   text="Every vector pslq returns is checked by Coq to be a nonzero integer vector with max|c|<maxcoeff and (sum c x)^2 <= tol^2*sum x^2 on the exact dyadic inputs; planted relations must be found; findpoly degree/coefficients/residual exact; identify expressions are parsed into real terms and certified with Interval.",
   note=TB_Q + " identify is certified as |x - value| <= 2^10*tol*max(1,|x|) (interpretation stated in the evidence)."),
})


CHECKS.update({
 "C07": dict(level="proof", engine="A", technique="Coq theorem: exact branch of from_str (|exp|<=400) = Flocq rounding of the decimal value, all modes; refutation witness for the approximate branch; literal generator in correspondence with an exact-rational oracle; iv.mpf(str) containment",
   text="from_str on the parsed (mantissa, decimal exponent) pair is modelled; the branch for |exponent| <= 400 is proved to return the correctly rounded value of man*10^exp (from the from_int and division theorems). The |exponent| > 400 branch is shown by a vm_compute witness to put a ceiling conversion below the exact value: recorded as known findings keyed by branch and clause, so any other violation (exact branch, parsing, specials, malformed literals accepted) is still reported. Literals with 1..460 digits, exponents incl. +-400/401 and huge, p/q forms and interval strings are run against an exact-rational oracle.",
   note=TB_A),
})


CHECKS.update({
 "C08": dict(level="proof", engine="A", technique="Gallina model of to_digits_exp/to_str on digit lists and of repr_dps in correspondence (all formatting options); Coq sweep 10^(repr_dps p -1) > 2^p for p<=3000 (found and fixed a defect at p=54); exact-digit theorem for bc<=bitprec; exact nearest-decimal and round-trip oracles",
   text="Printing is modelled character for character (rounding half-up on decimal digits, carries, fixed/exponent layout, strip_zeros, specials) and tied to the code by correspondence; repr's digit count is proved sufficient for round trips for every precision up to 3000 bits; digit generation is proved exact when the mantissa fits the conversion precision; the decimal rounding step (keep dps of L digits, half up on the next digit, carry through nines, exponent moves on a carry out) is proved to be round-half-up of sd/10^(L-dps) on the base-10 expansion (round_digits_spec), so the printed digits are within half a unit of the last printed place plus one unit of the last place of sd of the exact x*10^fixdps (to_str_digits_near). eval(repr(x))==x, parseability by float()/Decimal() and nearest-n-digit-ness are decided exactly on adversarial values (next to decimal ties, 99..9 carries, huge exponents). Nearest-ness is false when the mantissa is longer than the conversion precision: known finding keyed by that regime.",
   note=TB_Z + " The double computations of bitprec/fixdps are inputs of the model; the |exp+bc|>3500 path is decided by the oracle only."),
})


TB_B = ("Trusted: Coq 8.16.1 kernel; Coq Interval 4.x, Coquelicot, Flocq (each instance is a kernel-checked lemma proved by "
        "the interval/integral tactics or vm_compute on Z); axioms: stdlib reals (sig_forall_dec, sig_not_dec, "
        "functional_extensionality_dep), classic, and the Uint63/PrimInt63 primitive-integer axioms used by Interval's bignum "
        "back-end; harness/cert.py (expression printer, reference registry: a wrong formula is a wrong oracle) and the Python "
        "generators; untrusted numerics only schedule which statement to try.")
CHECKS.update({
 "C12": dict(level="exploration", engine="B", technique="per-instance Coq certificates |y - f(x)| <= 2^(4-p)|f(x)| (or the negation) proved by the Interval tactic against the real-number definition of each elementary function; exact-Z monotone-inverse certificates for roots",
   text="Each sampled call of 39 elementary functions (real and complex, tiny/huge arguments, neighbours of k*pi/2 up to k~2^64, 1+-2^-k for log, both sides of branch cuts, precisions 10..1000) becomes a Coq lemma about real numbers with exactly the property's tolerance, proved by verified interval arithmetic; a failing sample is also certified (negation proved). The universal accuracy claim is not proved: certified oracle per instance.",
   note=TB_B + " Inverse trig/hyperbolic references use atan/ln/sqrt identities valid on the sampled domain (listed in the evidence)."),
 "C13": dict(level="exploration", engine="B", technique="exact cases certified by vm_compute over Z (y^n = x with mantissas to 4000 bits); special-value table enumerated exhaustively; finiteness/accuracy at neighbours of k*pi/2 by Interval",
   text="Perfect squares/cubes/n-th powers in all precisions and rounding modes must be returned exactly (Coq checks y^n = x over Z); sinpi/cospi at (half-)integers, exp(0), log(1), sin(0), cos(0), atan(0), powm1 exact cases and the inf/nan table are enumerated; tan/cot/sec/csc at p-bit neighbours of k*pi/2 must be finite and accurate (Interval).",
   note=TB_B + " The special-value table is written in the check from the documentation."),
 "C43": dict(level="exploration", engine="B", technique="fp vs mp(53-bit) agreement decided exactly (both dyadic) by vm_compute lemmas; return types and out-of-domain principal values; a sample of fp values certified against the true function by Interval",
   text="fp.* results are compared with mp at 53 bits exactly (|a-b| <= 2^-48|b| or 2^-300) for real and complex doubles including negative sqrt/log arguments, |x|>1 for asin/acos, exact half-integers for cospi/sinpi; types (float/complex) and principal-branch behaviour are checked; known deviations are keyed findings.",
   note=TB_B),
})


CHECKS.update({
 "C25": dict(level="proof", engine="A", technique="Coq theorem: the memoised factorial returns n! for every call history (induction over call lists); tables read from the live integer functions compared by Coq vm_compute with definitional references on exhaustive ranges; exact-or-one-ulp instances decided in Z",
   text="libintmath.ifac's growing cache (with its size limit) is modelled as a state machine and proved to return n! after any sequence of calls. ifac2, ifib, stirling1/2, binomial, bell, eulernum, bernfrac, moebius, isprime, list_primes, primepi are read from the live code (after scrambled warm-up calls) and compared inside Coq with reference definitions (recurrences, trial division) exhaustively on stated ranges; strong pseudoprimes carry Coq-checked factor certificates; factorial/fac2/fib/binomial/stirling/rf at arguments exceeding the precision are decided exact-when-representable and within one ulp otherwise. ifib (Dijkstra's logarithmic iteration with its cache of the values below 250) and ifac2 (one memo dictionary per parity, cache limit) are modelled as algorithms and proved to return F(n) (with F(-n) = (-1)^(n+1) F(n)) and n!! for every argument and every sequence of calls (ifib_history, ifac2_history; the ifac2 invariant includes that the keys of one parity are stored contiguously); the models are run inside Coq on the same call sequences as the live routines. The public fib is also checked at negative arguments (F(-n) = (-1)^(n+1) F(n)), and the call sequences contain repeated negative arguments and descending arguments beyond the factorial cache limit.",
   note=TB_Z + " Ranges are bounded and stated in the evidence; Miller-Rabin determinism below 3.4e14 is a literature fact, not proved; bernoulli numerics, mangoldt, cyclotomic, bernpoly/eulerpoly not decided."),
})


CHECKS.update({
 "C33": dict(level="proof", engine="A", technique="Coq theorems (induction over operation histories) for the memoize and matrix-LU cache state machines; extracted machines run against the live objects on random operation sequences; random evaluation histories with injected faults followed by probes compared with a fresh process",
   text="ctx.memoize and the matrix LU cache are modelled as state machines and proved, for every history, never to serve a value computed at lower precision than requested or for an older version of the data (item assignment and resizing invalidate). The machines are extracted and compared step by step with real matrices / memoised functions. For the remaining caches (constants, Bernoulli numbers, log/atan/cos-sin tables, quadrature nodes, summators, odefun segments) random histories at random precisions, partly aborted by faults injected at internal primitives, are followed by probe evaluations that must agree to rounding level (8 ulp) with the same probe in a fresh process.",
   note=TB_Z + " The history/probe part is exploration (sampled histories); two genuine defects found this way were fixed (LU cache keyed by precision / cleared on resize; mpf_bernoulli first-call rounding)."),
})


CHECKS.update({
 "C38": dict(level="proof", engine="A", technique="Coq frame theorems on a store-of-contexts model (single step and arbitrary histories; clone copies precision); extracted model run against live mp/iv/fp/clones on random interleavings; bitwise clone-vs-mp result comparison",
   text="Contexts are modelled as a store of independent (prec, dps) cells with the documented conversion formulas; operations aimed at one context are proved to leave every other context unchanged for any history, and clones to start with the parent's precision. Random interleavings of assignments, clones and evaluations (including failing ones) over mp, iv, fp and several clones are compared state by state with the extracted model; per-context settings (pretty, trap_complex, rounding) and bitwise equality of clone and mp results at equal precision are checked.",
   note=TB_Z),
})


CHECKS.update({
 "C24": dict(level="proof", engine="A", technique="Coq termination theorems for the anchored loop patterns (series loop with divergence/threshold stop, precision-doubling retry, giant_steps) for every sequence of computed terms; watchdog sweep over public functions with solo re-run of slow calls",
   text="The stop conditions of the asymptotic-series loops (mpf_psi0 and, since the fix, mpc_psi0), of the hypsum/hypercomb precision-doubling retry and of giant_steps are proved to fire after an explicitly bounded number of iterations whatever the terms are. All registered public functions plus a directed family aimed at those loops are run under a watchdog at precisions 10..200 (to 3000 in the thorough tier); a call still running after a generous limit alone in a fresh process is reported with its arguments. This found (and the repo now fixes) a non-terminating loop in mpc_psi0.",
   note=TB_Z + " Termination of loops outside the three proved patterns is observed by the sweep, not proved; primezeta near its natural boundary is excluded."),
})

CHECKS.update({
 "C17": dict(level="proof", engine="A", technique="Gallina model of constant_memo/def_mpf_constant (coq_const) with induction over all request histories; live fixed-point tables checked by vm_compute against one Interval-proved enclosure per constant; finite-domain theorem instantiated from the live tables on each run; memo-trace and public-API correspondence",
   text="For pi, e, ln2, ln10, phi and degree: every public precision 1..P (P = 637 quick / 4447 thorough), all five rounding modes and every history of memo requests within the model return the Flocq rounding of the real constant (const_all_histories + per-run X_correct theorems; the real constants are Coquelicot/Interval definitions enclosed by the interval tactic). The model of the memo (growth rule int(q*1.05+10), served shifts) is compared with the live closure on request traces, and the public constants are compared at every p x 5 modes. The other seven constants (euler, catalan, khinchin, glaisher, apery, mertens, twinprime) are only shown history-consistent within one unit of the table and observed within 1 ulp.",
   note=TB_A + " Additional for coq_const: Coq Interval (Uint63/PrimInt63 primitive axioms of its bignum back-end) for the six enclosures; harness/props/c17.py reads the live memo tables by closure introspection; domain is finite (stated above)."),
 "C29": dict(level="exploration", engine="B", technique="per-call Coq certificates: exact-Z lemmas with Coq-side Horner evaluation by vm_compute for planted polynomial roots/residuals/ordering, Interval tactic for elementary f; regimes cover every solver, bracketing, multiplicities, polyroots clusters",
   text="Nothing universal is proved: each sampled findroot/polyroots/multiplicity call is judged against an exact planted problem and every verdict (pass or fail) is re-proved by Coq as a closed arithmetic lemma, so the oracle is machine checked per instance. Failures that match the recorded defects (MNewton near multiple roots, polyroots ordering on equal |Im| clusters and repeated real roots) are printed as known findings; anything else is a violation with a replay.",
   note=TB_B),
})

TB_B3 = ("Trusted: Coq 8.16.1 kernel, Coq Interval/Coquelicot/Flocq (each verdict is a kernel-checked lemma proved by interval / integral_intro / "
         "vm_compute), coq_meta/Meta.v (complete proofs; axioms: stdlib reals sig_forall_dec, sig_not_dec, functional_extensionality_dep, classic; "
         "zfact_is_factorial closed), Uint63 primitives of Interval; harness/specb.py + the property module (reference registry: a wrong closed "
         "form is a wrong oracle; generators; untrusted numerics only choose tactic parameters). References are textbook closed forms / integral "
         "representations listed in evidence.assumptions; everything outside the listed sub-domain is NOT decided. Metamorphic certificates can "
         "only refute (residual > bound implies one of the named calls is outside tolerance, by a Coq-proved lemma); a consistent residual is not a pass.")
CHECKS.update({
 "C18": dict(level="exploration", engine="B", technique="per-instance Coq certificates |y-ref| <= 2^(8-p)|ref| at integer/half-integer arguments (exact Z with Coq-evaluated verified factorial up to 4000!, Interval for sqrt PI / ln / PI^k forms), pole decision table, and metamorphic residual certificates (gamma recurrence, reflection, duplication; rgamma, factorial, loggamma, digamma, polygamma, beta recurrences) with soundness lemmas in coq_meta/Meta.v",
   text="gamma, rgamma, loggamma, factorial at integers up to 1500 (4000 thorough, so the Taylor/Stirling branches are exercised) and at half-integers n+1/2 with n in [-40, 600]; fac2 at integers; beta, binomial, rf, ff, gammaprod at (half-)integers; rf/ff with integer n at arbitrary dyadic x; superfac, hyperfac, barnesg at integers; harmonic at integers and half-integers; polygamma of odd order at (half-)integers; rgamma exactly 0 at the poles, gamma/factorial/loggamma raise there. Precisions 15..400 (3000 thorough). Metamorphic only at non-special real arguments. Not decided: single values off the (half-)integers, complex arguments, digamma and even-order polygamma values themselves.",
   note=TB_B3 + " Known finding: superfac/hyperfac/barnesg lose relative accuracy above about 650 bits."),
 "C19": dict(level="exploration", engine="B", technique="per-instance Coq certificates (vm_compute over Z for Bernoulli/Euler/Stirling rational values and Gaussian-rational modulus; interval for closed forms in PI/ln; Interval integral for Li2; metamorphic residual lemmas lin2/lin3 from coq_meta/Meta.v)",
   text="zeta/altzeta/dirichlet at even and non-positive integers incl. exact trivial zeros; Dirichlet beta at odd/non-positive s; polylog orders 1, 0, -n (real and complex z) and 2 (special values plus integral on [-6,-1/8] and [1/8,15/16]); bernpoly/eulerpoly at dyadic x; Hurwitz zeta at s = -n and s = 2n; zeta'(0,a) (Lerch); two lerchphi closed forms. polylog s = 3..8 and lerchphi(z,s,1) are metamorphic only. NOT decided: generic real/complex s, derivatives, stieltjes, primezeta, siegeltheta, siegelz, riemannr, secondzeta, general lerchphi/polylog.",
   note=TB_B3 + " Known findings: polylog(-n,z) series cancellation; bernpoly(2,x) near a root; Hurwitz Euler-Maclaurin absolute tolerance for a > 1."),
 "C20": dict(level="exploration", engine="B", technique="per-instance certificates against elementary forms and proper Riemann integrals (Coquelicot RInt enclosed by Interval's integral_intro); improper tails cut at B with an assumed analytic tail bound; monotone-inverse certificate for erfinv; increments F(b)-F(a) = RInt as metamorphic certificates",
   text="npdf; erf, erfi, erfc, ncdf (incl. tails to x = 20); fresnels, fresnelc; si; gammainc lower/upper/regularized at integer a (elementary), generalized gammainc(a,x0,x1) and upper gammainc at dyadic a >= 1; betainc at integer (exact rational) and dyadic a,b >= 1; e1, expint(n,x) for n >= 1; erfinv for |x| <= 0.9. Real arguments; p = 20/53 quick (100/200 thorough). e1, ei, si, ci, shi, chi, li, erfc increments and ci+e1 metamorphic only. Not decided: complex arguments, ei/ci/shi/chi/li values themselves, a < 1.",
   note=TB_B3 + " Tail inequalities for the improper integrals are assumed, not proved."),
 "C21": dict(level="exploration", engine="B", technique="Bessel-type integrals (besselj/besseli of integer order, angerj, webere, struveh/struvel n <= 2); half-integer closed forms with exact rational recurrence coefficients (besselj/y/i/k, hankel1/2, complex modulus); exact-rational alternating-series bracket for tiny arguments; zeros: closed form at v = 1/2 and certified sign change for integer v; metamorphic recurrences, J/Y and I/K Wronskians, Airy Wronskian, Gi+Hi = Bi",
   text="Per-instance certificates for the call forms listed under technique at sampled arguments and precisions; the index of a zero is not certified; non-half-integer bessely/besselk/hankel, Airy/Scorer values, Kelvin, Coulomb, Lommel, besselyzero/airy zeros are not decided.",
   note=TB_B3),
 "C22": dict(level="exploration", engine="B", technique="per-instance Coq certificates (vm_compute over Z for exact rational references, Coq Interval for elementary closed forms, complex modulus lemma for spherharm, lin3 metamorphic lemmas from coq_meta/Meta.v); registry of 58 call forms",
   text="Certified on the sampled instances of: orthogonal polynomials at integer degree <= 150 with dyadic argument/parameters; terminating pFq (p <= 4, q <= 3) with rational parameters, incl. the 'exact when representable' clause; legenp/legenq at integer degree/order; spherharm l <= 4; about 20 elementary special cases of 0F1/1F1/2F1 incl. |x| -> 1, x < -1 and asymptotic regimes. Contiguous relations only metamorphic. Not decided: hyperu, whit*, meijerg, appell*, hyper2d, pcf*; non-integer degree/order; complex inputs; generic non-terminating values.",
   note=TB_B3 + " Six known findings on the unchanged tree (exact zeros raise; jacobi nan for negative-integer a with integer b; legendre tiny-x shortcut returns x; gegenbauer 0 next to a pole with a long parameter; hyper p > q+1 with terminating degree > prec raises or is inaccurate; terminating hyp2f1 at x = 1 not exact)."),
 "C23": dict(level="exploration", engine="B", technique="Legendre-form integrals for ellipk/ellipe/ellipf/ellippi (parameter m < 1, incl. negative), elementary elliprc and degenerate elliprf/rd/rj/rg cases, general elliprf through Legendre's form, agm through Gauss's integral (assumed identity), lambertw branches 0 and -1 by a monotone-inverse bracket of w e^w",
   text="ellipk, ellipe (complete/incomplete), ellipf, ellippi (complete/incomplete, n < 1); elliprc incl. principal value; elliprf(x,y,z); degenerate rd/rj/rg; agm(a,b) for a,b > 0; real lambertw on both real branches incl. neighbours of -1/e at every precision. Not covered: jtheta, ellipfun, kleinj, eta, q-conversions, qp/qgamma/qhyper, complex branches/arguments, generic rd/rj/rg.",
   note=TB_B3),
})

TB_B2 = TB_B + (" Reference closed forms / transform pairs / symbolic derivative rules in harness/calcb.py and the property modules are trusted "
                "(listed per run under assumptions); findings in known_findings_B2.json. Known-finding masks are class-wide.")
CHECKS.update({
 "C26": dict(level="exploration", engine="B", technique="per-instance Coq certificates |quad(f) - I| <= 2^(10-p)*max(|I|,1) by interval against closed forms; for a subset against RInt f a b by integral (no closed form trusted); reversal, splitting, both rules, 1-3 dimensions, node-cache history",
   text="Each sampled quad/quadts/quadgl call (P*e^(ax)*sin/cos, rational functions with poles >= 1 away, Gaussians and decaying integrands on (half-)infinite intervals, 2-d/3-d products and sums; p in {30, 53, 100, 200, 500}; plain / reversed / split; low-precision calls first, re-runs after unrelated calls) becomes a Coq lemma with exactly the property's tolerance; failing samples are certified too. Universal accuracy is not proved.",
   note=TB_B2 + " One known finding (fast-oscillating half-line integrands)."),
 "C27": dict(level="exploration", engine="B", technique="exact-Q certificates by vm_compute for finite sums/products and rational closed forms; interval certificates for pi^2/6, pi^4/90, ln 2, pi/4, e^x, cos x, sqrt, sinh(pi)/pi; every nsum method the docstrings call suitable, nprod, limit, sumem, sumap, 2-d sums",
   text="One Coq lemma per call at p in {30, 53, 100(, 200, 300)}; sampled instances only; only method/series pairings the docstrings name as suitable.",
   note=TB_B2 + " Known finding: nsum of rational summands at prec 25-32."),
 "C28": dict(level="exploration", engine="B", technique="references by symbolic differentiation of the term compiled into the callable; interval or exact-Z lemmas per returned number (diff step/quad, directions, partials, diffs, diffun, taylor); difference = exact binomial sum over Z; pade residuals convolved by Coq over Z; differint against the Gamma closed form",
   text="Per-instance certificates on sampled calls; the universal difference specification is not proved here.",
   note=TB_B2 + " Two known findings (diff method='quad' at orders >= 6; pade(a,0,0))."),
 "C34": dict(level="exploration", engine="B", technique="interval certificates of odefun values against closed-form solutions at about 8 points plus segment boundaries; bitwise equality (Z lemmas) of the values from fresh interpolants evaluated in decreasing order, random order with repeats, and with other precisions interleaved",
   text="Per-instance certificates; the order/precision-independence clause is checked bit for bit on sampled problems; the segment machine is not proved.",
   note=TB_B2 + " Two known findings (non-dyadic initial values lose the first segment's precision - severe; low-precision fast oscillators)."),
 "C36": dict(level="exploration", engine="B", technique="Coq evaluates the returned and the input polynomial at N+20 rational points over Z (fit and error=True consistency); interval for exp / sin / 1/(x+c); fourier coefficients against planted rationals over Z; fourierval against its definition by interval after exact reduction mod 1",
   text="Per-instance certificates; the readings of 'relative' and 'consistent' are stated in the evidence assumptions; N <= 12, interval inside [-2, 2].",
   note=TB_B2),
 "C42": dict(level="exploration", engine="B", technique="interval / Z certificates |y - f(t)| <= 10^(3-dps/2)*|f(t)| for nine transform pairs; J0 and erfc through RInt with integral; dps in {15, 20, 30(, 50)}; each method restricted to what its docstring covers",
   text="Per-instance certificates on sampled (F, t, method, dps); odd dps use a 2^-80 rational bracket of the tolerance.",
   note=TB_B2 + " One known finding beyond 'moderate t' (stehfest/dehoog for a*t >= 20-30 at dps 15)."),
})

NOT_APPLICABLE = {
 "C37": "The property compares runs on the gmpy2 backend with runs on the pure-Python backend; gmpy2 is not installed and cannot be installed in this sandbox, and its C routines (_mpmath_normalize, _mpmath_create, mpz arithmetic) are outside the repository, so no executable model of the second backend can be tied to code. The only part visible in the Python sources, gmpy_mpf_mul = python_mpf_mul on canonical inputs, is proved (Proofs/Ops.v gmpy_mul_eq_python_mul) and both variants run in the C02 correspondence; that is reported under C02, not claimed as C37.",
 "C41": "Needs a formal Riemann zeta function on the critical line, Turing's method and Rosser-block theory; nothing installed defines zeta, and no executable Gallina model short of re-implementing and trusting Riemann-Siegel can express 'the n-th zero'. Internal consistency tests (nzeros(Im rho_n) = n) would be tests, not theorems about zeros; not claimed.",
}

ALL = ["C%02d" % i for i in range(1, 44)]


def main():
    checks = []
    for pid in ALL:
        if pid not in CHECKS:
            continue
        c = CHECKS[pid]
        checks.append({
            "property_id": pid,
            "quick_cmd": "./check %s --tier quick" % pid,
            "thorough_cmd": "./check %s --tier thorough" % pid,
            "evidence_file": "/verif/evidence/%s.json" % pid,
            "replay_cmd_template": "./check %s --replay {path}" % pid,
            "engine": c["engine"],
            "level_claimed": {"category": c["level"], "text": c["text"], "design_ref": "DESIGN.md section 3, " + pid},
            "level_note": c["note"],
            "technique": c["technique"],
        })
    na = []
    for pid in ALL:
        if pid not in CHECKS:
            na.append({"property_id": pid, "reason": NOT_APPLICABLE.get(pid, "check not built yet in this session (see DESIGN.md build order); not claimed")})
    m = {
        "version": 1,
        "setup_cmd": "make -C /verif clean all",
        "hooks": {"guard": "MPMATH_VERIF", "enable": "MPMATH_VERIF=1 in the environment of the checking process (no rebuild needed: pure Python)",
                  "baseline_off_cmd": "cd /repo && /venv/bin/python -m pytest -q -p no:cacheprovider --timeout=900",
                  "source_commits": ["ba5b004"], "add_only": True},
        "engines": [
            {"name": "A", "path": "/verif/coq (Algo, Spec, Proofs, Props) + /verif/extract + /verif/harness", "serves_properties": [p for p in CHECKS if CHECKS[p]["engine"] == "A"],
             "kind_free_text": "hand-written Gallina model of libmp with Coq theorems; extracted to OCaml and run against the live implementation (correspondence); constant tables regenerated from the code and re-checked by Coq each run"},
            {"name": "C", "path": "/verif/coq_effects + harness/effects_translate.py + harness/c11_dyn.py", "serves_properties": [p for p in CHECKS if CHECKS[p]["engine"] == "C"],
             "kind_free_text": "verified abstract interpreter for precision effects; command terms regenerated from the sources by a translator on every run"},
            {"name": "B", "path": "/verif/harness/cert.py + props/engineb.py (certificates under /verif/build/cert)", "serves_properties": [p for p in CHECKS if CHECKS[p]["engine"] == "B"],
             "kind_free_text": "per-instance real-number certificates proved by Coq Interval (interval/integral tactics) or vm_compute; failing samples certified by proving the negation"},
            {"name": "Q", "path": "/verif/coq_qcheck + harness/qcert.py qlin.py qprops.py", "serves_properties": [p for p in CHECKS if CHECKS[p]["engine"] == "Q"],
             "kind_free_text": "per-instance exact-integer certificates decided by Coq (BigZ vm_compute with a soundness transport to Z)"},
        ],
        "checks": checks,
        "not_applicable": na,
        "notes": "Technique family: machine-checked proof in Coq 8.16.1. See DESIGN.md for the trusted base and what is modelled rather than verified.",
    }
    with open(os.path.join(VERIF, "MANIFEST.json"), "w") as f:
        json.dump(m, f, indent=1)


if __name__ == "__main__":
    main()
